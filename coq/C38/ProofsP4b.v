(* C38 phase 4 — the timeout monitor chk_to (once, not early, never after removal, requested-deadline order,
   all run unless removed) accepts the model's (squashed) trace, for ALL inputs. *)
From Coq Require Import List ZArith Arith Bool Lia.
Import ListNotations.
From TV Require Import C38.Model C38.Spec C38.Monitor C38.Run C38.Steps C38.Invariants C38.LogProofs C38.FutProofs C38.Proofs C38.ProofsP4.
Local Open Scope Z_scope.

(* ---------- squashing empty iterations, generically ---------- *)
Section Squash.
  Context {S : Type} (step : S -> ev -> option S) (fin : S -> bool).
  Hypothesis absorb : forall s a b s1, step s (EIt a) = Some s1 -> step s1 (EIt b) = step s (EIt b).
  Hypothesis finit : forall s t s1, step s (EIt t) = Some s1 -> fin s1 = fin s.

  Lemma fold_squash : forall tr s m, fold_opt step s tr = Some m ->
    exists m', fold_opt step s (squash tr) = Some m' /\ fin m' = fin m.
  Proof.
    induction tr as [|e tr IH]; intros s m H.
    - exists m. auto.
    - destruct e; try (simpl in *; destruct (step s _) as [s1|]; [apply IH; auto|discriminate]).
      (* EIt *)
      destruct tr as [|e' tr'].
      + simpl in *. destruct (step s (EIt now)) as [s1|] eqn:E; [|discriminate]. inversion H; subst.
        exists s. split; auto. symmetry. eapply finit; eauto.
      + destruct e'; try (simpl in *; destruct (step s (EIt now)) as [s1|]; [|discriminate]; apply IH in H; exact H).
        (* two iteration marks in a row *)
        change (squash (EIt now :: EIt now0 :: tr')) with (squash (EIt now0 :: tr')).
        apply IH. simpl in H. destruct (step s (EIt now)) as [s1|] eqn:E; [|discriminate].
        simpl. rewrite <- (absorb _ _ _ _ E). exact H.
  Qed.
End Squash.

(* ---------- facts at each event ---------- *)
Definition Qx (tr1 : list ev) (e : ev) : Prop :=
  match e with
  | ESt i _ => ~ In i (st_ids tr1)
  | ERm i => In i (st_ids tr1)
  | _ => True
  end.

Lemma handles_add_done_callback key c s : handles (add_done_callback key c s) = handles s.
Proof. unfold add_done_callback. destruct (fget (futs s) key); reflexivity. Qed.
Lemma handles_resolve key r s s' : resolve key r s = Some s' -> handles s' = handles s.
Proof. unfold resolve. destruct (fget (futs s) key); intro H; inversion H; reflexivity. Qed.

Definition HX (s : st) : Prop := incl (handles s) (st_ids (ctr s)) /\ all_prefix Qx (ctr s).

Lemma HX_same s s' : handles s' = handles s -> ctr s' = ctr s -> HX s -> HX s'.
Proof. intros A B [H1 H2]. unfold HX. rewrite A, B. auto. Qed.

Lemma HX_emit s s' e : handles s' = handles s -> ctr s' = ctr s ++ [e] -> Qx (ctr s) e -> HX s -> HX s'.
Proof.
  intros A B Q [H1 H2]. unfold HX. rewrite A, B. split.
  - intros x Hx. rewrite st_ids_app. apply in_or_app. left. auto.
  - apply all_prefix_snoc; auto.
Qed.

Lemma astep_HX c c' : astep c c' -> Inv (fst c) (snd c) -> HX (snd c) -> HX (snd c').
Proof.
  intros A. destruct A; cbn [fst snd]; intros HI HP.
  - eapply HX_emit with (s:=s) (e:=e); [reflexivity|reflexivity| |exact HP]. destruct e; simpl in *; tauto.
  - eapply HX_emit with (s:=s) (e:=ESc (next s)); [reflexivity|reflexivity|exact I|exact HP].
  - destruct HP as [H1 H2]. split.
    + change (handles (add_handle (next s) (sched_timer (HUser (next s) (KTo dl) b) (emit (ESt (next s) dl) (bump s)))))
        with (handles s ++ [next s]).
      change (ctr (add_handle (next s) (sched_timer (HUser (next s) (KTo dl) b) (emit (ESt (next s) dl) (bump s)))))
        with (ctr s ++ [ESt (next s) dl]).
      rewrite st_ids_app. simpl. intros x Hx. apply in_app_or in Hx. apply in_or_app. destruct Hx; auto.
    + change (ctr (add_handle (next s) (sched_timer (HUser (next s) (KTo dl) b) (emit (ESt (next s) dl) (bump s)))))
        with (ctr s ++ [ESt (next s) dl]).
      apply all_prefix_snoc; auto. simpl. destruct HI. intro Hx.
      rewrite Forall_forall in v_st_fresh. apply v_st_fresh in Hx. lia.
  - eapply HX_emit with (s:=s) (e:=ERm i); [reflexivity|reflexivity| |exact HP]. simpl. destruct HP as [H1 _]. auto.
  - eapply HX_emit with (s:=s) (e:=EAf (next s) f).
    + rewrite handles_add_done_callback. reflexivity.
    + unfold ctr. rewrite add_done_callback_trace. reflexivity.
    + exact I.
    + exact HP.
  - eapply HX_same; [| |exact HP].
    + apply handles_add_done_callback.
    + unfold ctr. rewrite add_done_callback_trace. reflexivity.
  - eapply HX_emit with (s:=s) (e:=ERs f how v).
    + simpl. eapply handles_resolve; eauto.
    + rewrite ctr_emit. unfold ctr. rewrite (resolve_trace _ _ _ _ H). reflexivity.
    + exact I.
    + exact HP.
  - eapply HX_emit with (s:=s) (e:=EAdv t); [reflexivity|reflexivity|exact I|exact HP].
  - eapply HX_emit with (s:=s) (e:=ERun i (rkind_of k) (b_label b)); [reflexivity|reflexivity|exact I|exact HP].
  - exact HP.
  - exact HP.
  - eapply HX_same with (s:=s); auto.
  - eapply HX_emit with (s:=s) (e:=ERun i RFn (b_label b)); [reflexivity|reflexivity|exact I|exact HP].
  - eapply HX_same with (s:=s); auto.
  - eapply HX_same with (s:=s); auto.
  - eapply HX_same with (s:=s); auto.
  - eapply HX_same with (s:=s); auto.
  - eapply HX_same with (s:=s); auto.
  - eapply HX_same with (s:=s); auto.
  - eapply HX_emit with (s:=s) (e:=EIt t); [reflexivity|reflexivity|exact I|exact HP].
  - eapply HX_same with (s:=s); auto.
Qed.

Lemma asteps_HX c c' : asteps c c' -> Inv (fst c) (snd c) -> HX (snd c) -> Inv (fst c') (snd c') /\ HX (snd c').
Proof.
  induction 1; auto. intros HI HP. apply IHasteps.
  - eapply astep_preserves; eauto.
  - eapply astep_HX; eauto.
Qed.

Lemma HX_init c s0 : init_of c = Some s0 -> HX s0.
Proof.
  destruct c as [b|b tm|]; simpl; intro H; inversion H; subst.
  - split; [intros x []|]. change (ctr (init_prog b)) with ([] ++ [ESc 0%nat]).
    apply all_prefix_snoc; [apply all_prefix_nil|exact I].
  - assert (E : ctr (init_sync b tm) = []) by (unfold init_sync; destruct tm; reflexivity).
    assert (E2 : handles (init_sync b tm) = []) by (unfold init_sync; destruct tm; reflexivity).
    unfold HX. rewrite E, E2. split; [intros x []|apply all_prefix_nil].
Qed.

(* ---------- the monitor state after a trace ---------- *)
Record Rep (tr : list ev) (m : tstate) : Prop := {
  r_now : ts_now m = clock_of tr;
  r_a : forall t, In t (ts_pend m) ->
        In (ESt (t_inst t) (t_deadline t)) tr /\ ~ In (t_inst t) (runs RTo tr) /\
        (t_old t = true -> In (t_inst t) (old_ids tr)) /\
        (t_removed t = false -> ~ In (ERm (t_inst t)) tr) /\
        (t_removed t = true -> In (ERm (t_inst t)) tr);
  r_b : forall i d, In (ESt i d) tr -> ~ In i (runs RTo tr) -> exists t, In t (ts_pend m) /\ t_inst t = i
}.

Lemma old_snoc_it tr t : old_ids (tr ++ [EIt t]) = st_ids tr.
Proof. unfold old_ids. rewrite sched_split_snoc. simpl. apply old_young_st. Qed.
Lemma old_snoc_st tr i d : old_ids (tr ++ [ESt i d]) = old_ids tr.
Proof. unfold old_ids. rewrite sched_split_snoc. reflexivity. Qed.

Lemma erm_in_st tr : all_prefix Qx tr -> forall i, In (ERm i) tr -> In i (st_ids tr).
Proof.
  intros AP i H. apply in_split in H. destruct H as (a & b & E). pose proof (AP a (ERm i) b E) as Q. simpl in Q.
  subst tr. rewrite st_ids_app. apply in_or_app; auto.
Qed.

Lemma in_snoc_iff {A} (x e : A) tr : In x (tr ++ [e]) <-> In x tr \/ x = e.
Proof. rewrite in_app_iff. simpl. intuition. Qed.

Lemma Rep_irrelevant tr m e :
  Rep tr m -> runs RTo (tr ++ [e]) = runs RTo tr -> old_ids (tr ++ [e]) = old_ids tr ->
  clock_of (tr ++ [e]) = clock_of tr -> (forall i, e <> ERm i) -> (forall i d, e <> ESt i d) -> Rep (tr ++ [e]) m.
Proof.
  intros [] R O C N1 N2. constructor; rewrite ?R, ?O, ?C; auto.
  - intros t Ht. destruct (r_a0 t Ht) as (A & B & D & E & F). repeat split; auto.
    + apply in_snoc_iff; auto.
    + intros H1 H2. apply in_snoc_iff in H2. destruct H2 as [H2|H2]; [eapply E; eauto|eapply N1; eauto].
    + intro H1. apply in_snoc_iff; auto.
  - intros i d H1 H2. apply in_snoc_iff in H1. destruct H1 as [H1|H1]; [eauto|exfalso; eapply N2; eauto].
Qed.

Lemma find_exists {A} (f : A -> bool) l x : In x l -> f x = true -> exists y, find f l = Some y.
Proof.
  induction l as [|a l IH]; intros H Hx; [destruct H|]. simpl. destruct (f a) eqn:E; [eauto|].
  destruct H as [H|H]; [subst; congruence|auto].
Qed.

Definition set_old (u : tmo) : tmo := mkT (t_inst u) (t_deadline u) true (t_removed u).

Lemma to_accepts tr : all_prefix Qto tr -> all_prefix Qx tr -> NoDup (st_ids tr) ->
  exists m, fold_opt to_step (mkTS 0 []) tr = Some m /\ Rep tr m.
Proof.
  induction tr as [|e tr IH] using rev_ind; intros AP1 AP2 ND.
  - exists (mkTS 0 []). split; [reflexivity|]. constructor; simpl; auto; intros; contradiction.
  - assert (ND0 : NoDup (st_ids tr)) by (rewrite st_ids_app in ND; eapply NoDup_app_l; eauto).
    destruct (IH (all_prefix_app_l _ _ _ AP1) (all_prefix_app_l _ _ _ AP2) ND0) as (m & F & R).
    pose proof (all_prefix_last _ _ _ AP1) as Q1. pose proof (all_prefix_last _ _ _ AP2) as Q2.
    pose proof (all_prefix_app_l _ _ _ AP1) as AP1'. pose proof (all_prefix_app_l _ _ _ AP2) as AP2'.
    rewrite fold_opt_app, F. cbn [fold_opt].
    destruct e as [i|i d|i|i f|f h v| |i k l|i x|i|f| |t|t];
      try (exists m; split; [reflexivity|];
           apply Rep_irrelevant; auto;
           [apply runs_snoc_other; intros; discriminate|apply old_snoc_keep; exact I
            |rewrite clock_of_snoc; reflexivity|intros; discriminate|intros; discriminate]).
    + (* ESt *)
      simpl in Q2. cbn [to_step].
      assert (FN : t_find i (ts_pend m) = None).
      { destruct (t_find i (ts_pend m)) as [t0|] eqn:E; auto. exfalso. apply find_some in E. destruct E as [E1 E2].
        apply Nat.eqb_eq in E2. destruct R. destruct (r_a0 t0 E1) as (A & _). apply Q2. apply in_st_ids. rewrite <- E2. eauto. }
      rewrite FN. eexists. split; [reflexivity|]. destruct R.
      constructor; cbn [ts_now ts_pend].
      * rewrite clock_of_snoc. simpl. auto.
      * intros t Ht. rewrite runs_snoc_other by (intros; discriminate). rewrite old_snoc_st.
        apply in_app_or in Ht. destruct Ht as [Ht|[Ht|[]]].
        -- destruct (r_a0 t Ht) as (A & B & D & E & G). repeat split; auto.
           ++ apply in_snoc_iff; auto.
           ++ intros H1 H2. apply in_snoc_iff in H2. destruct H2 as [H2|H2]; [eapply E; eauto|discriminate].
           ++ intro H1. apply in_snoc_iff; auto.
        -- subst t. cbn [t_inst t_deadline t_old t_removed]. repeat split; try discriminate.
           ++ apply in_snoc_iff; auto.
           ++ intro H. apply Q2. eapply runs_in_st; eauto.
           ++ intros _ H. apply in_snoc_iff in H. destruct H as [H|H]; [|discriminate].
              apply Q2. eapply erm_in_st; eauto.
      * intros j d' H1 H2. rewrite runs_snoc_other in H2 by (intros; discriminate).
        apply in_snoc_iff in H1. destruct H1 as [H1|H1].
        -- destruct (r_b0 j d' H1 H2) as (t & A & B). exists t. split; auto. apply in_or_app; auto.
        -- inversion H1; subst. eexists. split; [apply in_or_app; right; left; reflexivity|reflexivity].
    + (* ERm *)
      cbn [to_step]. eexists. split; [reflexivity|]. destruct R.
      constructor; cbn [ts_now ts_pend].
      * rewrite clock_of_snoc. simpl. auto.
      * intros t' Ht. unfold t_mark in Ht. apply in_map_iff in Ht. destruct Ht as (t & E & Ht).
        rewrite runs_snoc_other by (intros; discriminate). rewrite old_snoc_keep by exact I.
        destruct (r_a0 t Ht) as (A & B & D & E1 & G).
        destruct (t_inst t =? i)%nat eqn:EQ; subst t'; cbn [t_inst t_deadline t_old t_removed].
        -- apply Nat.eqb_eq in EQ. repeat split; auto; try discriminate.
           ++ apply in_snoc_iff; auto.
           ++ intros _. apply in_snoc_iff. right. congruence.
        -- apply Nat.eqb_neq in EQ. repeat split; auto.
           ++ apply in_snoc_iff; auto.
           ++ intros H1 H2. apply in_snoc_iff in H2. destruct H2 as [H2|H2]; [eapply E1; eauto|]. inversion H2. congruence.
           ++ intro H1. apply in_snoc_iff; auto.
      * intros j d' H1 H2. rewrite runs_snoc_other in H2 by (intros; discriminate).
        apply in_snoc_iff in H1. destruct H1 as [H1|H1]; [|discriminate].
        destruct (r_b0 j d' H1 H2) as (t & A & B). unfold t_mark.
        exists (if (t_inst t =? i)%nat then mkT (t_inst t) (t_deadline t) (t_old t) true else t).
        split; [apply in_map_iff; exists t; auto|]. destruct (t_inst t =? i)%nat; auto.
    + (* ERun *)
      destruct k;
        try (exists m; split; [reflexivity|];
             apply Rep_irrelevant; auto;
             [apply runs_snoc_other; intros; discriminate|apply old_snoc_keep; exact I
              |rewrite clock_of_snoc; reflexivity|intros; discriminate|intros; discriminate]).
      (* a timeout runs *)
      simpl in Q1. destruct Q1 as (NRM & NRUN & d & HSt & DUE & ORD). destruct R.
      destruct (r_b0 i d HSt NRUN) as (t1 & In1 & I1).
      destruct (find_exists (fun t => (t_inst t =? i)%nat) (ts_pend m) t1 In1) as (t0 & FD); [apply Nat.eqb_eq; auto|].
      pose proof (find_some _ _ FD) as [In0 I0]. apply Nat.eqb_eq in I0.
      destruct (r_a0 t0 In0) as (A0 & B0 & D0 & E0 & G0). rewrite I0 in *.
      assert (DL : t_deadline t0 = d) by (eapply st_unique; eauto).
      assert (RM : t_removed t0 = false) by (destruct (t_removed t0) eqn:X; auto; exfalso; apply NRM; auto).
      cbn [to_step]. unfold t_find. rewrite FD, RM, DL.
      assert (NE : (ts_now m <? d) = false) by (apply Z.ltb_ge; rewrite r_now0; auto). rewrite NE.
      assert (EX : existsb (fun u => negb (t_removed u) && t_old u && (t_deadline u <? d)) (ts_pend m) = false).
      { destruct (existsb _ (ts_pend m)) eqn:X; auto. exfalso. apply existsb_exists in X. destruct X as (u & Hu & Hc).
        apply andb_true_iff in Hc. destruct Hc as [Hc H3]. apply andb_true_iff in Hc. destruct Hc as [H1 H2].
        apply negb_true_iff in H1. apply Z.ltb_lt in H3.
        destruct (r_a0 u Hu) as (Au & Bu & Du & Eu & Gu).
        specialize (ORD (t_inst u) (t_deadline u) Au (Du H2) Bu (Eu H1)). lia. }
      rewrite EX. eexists. split; [reflexivity|].
      constructor; cbn [ts_now ts_pend].
      * rewrite clock_of_snoc. simpl. auto.
      * intros t Ht. unfold t_del in Ht. apply filter_In in Ht. destruct Ht as [Ht Hn].
        apply negb_true_iff in Hn. apply Nat.eqb_neq in Hn.
        destruct (r_a0 t Ht) as (A & B & D & E & G). rewrite old_snoc_keep by exact I.
        repeat split; auto.
        -- apply in_snoc_iff; auto.
        -- rewrite runs_app. simpl. rewrite in_app_iff. simpl. intros [H|[H|[]]]; auto.
        -- intros H1 H2. apply in_snoc_iff in H2. destruct H2 as [H2|H2]; [eapply E; eauto|discriminate].
        -- intro H1. apply in_snoc_iff; auto.
      * intros j d' H1 H2. apply in_snoc_iff in H1. destruct H1 as [H1|H1]; [|discriminate].
        rewrite runs_app in H2. simpl in H2. rewrite in_app_iff in H2. simpl in H2.
        destruct (r_b0 j d' H1) as (t & A & B); [tauto|]. exists t. split; auto.
        unfold t_del. apply filter_In. split; auto. apply negb_true_iff. apply Nat.eqb_neq. rewrite B. intro X. apply H2. right. left. congruence.
    + (* EIt *)
      cbn [to_step]. eexists. split; [reflexivity|]. destruct R.
      constructor; cbn [ts_now ts_pend].
      * rewrite clock_of_snoc. reflexivity.
      * intros t' Ht. apply in_map_iff in Ht. destruct Ht as (u & E & Ht). subst t'. cbn [t_inst t_deadline t_old t_removed].
        destruct (r_a0 u Ht) as (A & B & D & E1 & G).
        rewrite runs_snoc_other by (intros; discriminate). rewrite old_snoc_it.
        repeat split; auto.
        -- apply in_snoc_iff; auto.
        -- intros _. apply in_st_ids. eauto.
        -- intros H1 H2. apply in_snoc_iff in H2. destruct H2 as [H2|H2]; [eapply E1; eauto|discriminate].
        -- intro H1. apply in_snoc_iff; auto.
      * intros j d' H1 H2. rewrite runs_snoc_other in H2 by (intros; discriminate).
        apply in_snoc_iff in H1. destruct H1 as [H1|H1]; [|discriminate].
        destruct (r_b0 j d' H1 H2) as (u & A & B).
        exists (mkT (t_inst u) (t_deadline u) true (t_removed u)). split; auto.
        apply in_map_iff. exists u. auto.
    + (* EAdv *)
      cbn [to_step]. eexists. split; [reflexivity|]. destruct R.
      constructor; cbn [ts_now ts_pend].
      * rewrite clock_of_snoc. reflexivity.
      * intros t' Ht. destruct (r_a0 t' Ht) as (A & B & D & E1 & G).
        rewrite runs_snoc_other by (intros; discriminate). rewrite old_snoc_keep by exact I.
        repeat split; auto.
        -- apply in_snoc_iff; auto.
        -- intros H1 H2. apply in_snoc_iff in H2. destruct H2 as [H2|H2]; [eapply E1; eauto|discriminate].
        -- intro H1. apply in_snoc_iff; auto.
      * intros j d' H1 H2. rewrite runs_snoc_other in H2 by (intros; discriminate).
        apply in_snoc_iff in H1. destruct H1 as [H1|H1]; [|discriminate]. eauto.
Qed.

(* ---------- the theorem ---------- *)
Definition to_fin (idle : bool) (m : tstate) : bool := if idle then forallb t_removed (ts_pend m) else true.

Lemma to_absorb s a b s1 : to_step s (EIt a) = Some s1 -> to_step s1 (EIt b) = to_step s (EIt b).
Proof.
  simpl. intro H. inversion H; subst; clear H. simpl. rewrite map_map. reflexivity.
Qed.

Lemma to_finit idle s t s1 : to_step s (EIt t) = Some s1 -> to_fin idle s1 = to_fin idle s.
Proof.
  simpl. intro H. inversion H; subst; clear H. unfold to_fin. destruct idle; auto. simpl.
  induction (ts_pend s) as [|u l IH]; simpl; auto. rewrite IH. reflexivity.
Qed.

Theorem chk_to_accepts_model c s0 fuel s e :
  init_of c = Some s0 -> run_loop fuel s0 = (s, e) -> e <> OutOfFuel ->
  chk_to (is_idle e) (trace_of s) = true.
Proof.
  intros HI HR NE.
  assert (FACTS : all_prefix Qto (ctr s) /\ all_prefix Qx (ctr s) /\ NoDup (st_ids (ctr s))).
  { pose proof (Inv_init _ _ HI) as I1. pose proof (HX_init _ _ HI) as P1.
    pose proof HR as HR'. apply run_loop_steps in HR'; [|eapply ntl_init; eauto]. destruct e; [| |congruence].
    - destruct HR' as (s1 & A & _ & _ & T & _). destruct (asteps_HX _ _ A I1 P1) as [J [_ P]].
      simpl in J, P. destruct J. rewrite (ctr_eq _ _ T) in *. split; [exact v_P|split; [exact P|exact v_st_nodup]].
    - destruct (asteps_HX _ _ HR' I1 P1) as [J [_ P]]. simpl in J, P. destruct J.
      split; [exact v_P|split; [exact P|exact v_st_nodup]]. }
  destruct FACTS as (AP1 & AP2 & ND).
  destruct (to_accepts _ AP1 AP2 ND) as (m & F & R).
  destruct (fold_squash to_step (to_fin (is_idle e)) to_absorb (to_finit (is_idle e)) _ _ _ F) as (m' & F' & FE).
  unfold chk_to, trace_of. fold (ctr s). rewrite F'. change (to_fin (is_idle e) m' = true). rewrite FE.
  unfold to_fin. destruct e; simpl; auto.
  apply forallb_forall. intros t Ht. destruct R. destruct (r_a0 t Ht) as (A & B & _ & E & _).
  destruct (t_removed t) eqn:X; auto. exfalso.
  destruct (timeouts_complete _ _ _ _ HI HR _ _ A) as [H|H]; [contradiction|]. apply E; auto.
Qed.
