(* C38 — concrete witnesses and a bounded sweep (vm_compute):
   * the literal reading "timeouts run in order of their REQUESTED deadlines" is refuted for deadlines
     that are already in the past when scheduled (they run in the order of max(deadline, now), ties in heap order);
   * the model satisfies the trace monitor check_case on every program of a small scope. *)
From Coq Require Import List ZArith Arith Bool String.
Import ListNotations.
From TV Require Import Lib.Obs C38.Model C38.Spec C38.Monitor C38.Run.
Local Open Scope Z_scope.

Definition leaf : body := Body 0 [] RetNone.

(* call_later(10, f) where f schedules add_timeout(T0+8, a) and then add_timeout(T0+5, b): both overdue at clock 10.
   Before the fix of BaseAsyncIOLoop.call_at (no more max(0, ...) clamp) a ran first; now b (deadline 5) runs first. *)
Definition overdue_witness : body :=
  Body 0 [OTo FLater 10 (Body 1 [OTo FAbs 8 leaf; OTo FAbs 5 leaf] RetNone)] RetNone.

Example overdue_timeouts_run_in_requested_deadline_order :
  exists s, run_loop 20 (init_prog overdue_witness) = (s, Idle) /\
    ctr s = [ESc 0; EIt 0; ERun 0 RCb 0; ESt 1 10; EEnd 0 EndNone; EIt 10; ERun 1 RTo 1; ESt 2 8; ESt 3 5;
             EEnd 1 EndNone; EIt 10; ERun 3 RTo 0; EEnd 3 EndNone; ERun 2 RTo 0; EEnd 2 EndNone].
Proof. eexists. split; vm_compute; reflexivity. Qed.

(* why the order theorem speaks of timeouts scheduled BEFORE the current iteration (old_ids): two timeouts with
   deadline 10 are collected at clock 10; the first schedules a timeout with deadline 5; the second, already in
   the ready queue, still runs before it.  (Same on the real loop: asyncio moves due timers to _ready first.) *)
Definition young_witness : body :=
  Body 0 [OTo FAbs 10 (Body 1 [OTo FAbs 5 leaf] RetNone); OTo FAbs 10 leaf] RetNone.

Example a_timeout_scheduled_during_an_iteration_does_not_overtake_collected_ones :
  exists s, run_loop 20 (init_prog young_witness) = (s, Idle) /\
    ctr s = [ESc 0; EIt 0; ERun 0 RCb 0; ESt 1 10; ESt 2 10; EEnd 0 EndNone; EIt 10; ERun 1 RTo 1; ESt 3 5;
             EEnd 1 EndNone; ERun 2 RTo 0; EEnd 2 EndNone; EIt 10; ERun 3 RTo 0; EEnd 3 EndNone].
Proof. eexists. split; vm_compute; reflexivity. Qed.

(* the hypotheses of the main theorems are satisfiable: this program (timeouts, a removal, a raising callback,
   a failing future, a slow callback) runs to idle within fuel_for *)
Definition demo : body :=
  Body 0 [OTo FAbs 4 leaf; OTo FLater 4 (Body 1 [ORm 0] RetNone); OTo (FDelta 0) 2 (Body 2 [OAdv 5; OTo FCallAt 3 leaf] (RaiseE 7)); OTo (FDelta (-1)) 3 leaf; OTo (FDelta 1) (-2) leaf;
          OCb (Body 3 [] (RetFut 0)); OAf 0 (Body 4 [] RetVal); OCb (Body 5 [OSe 0 9; OSr 0 1] RetNone)] RetNone.

Example demo_runs_to_idle : snd (run_loop (fuel_for demo) (init_prog demo)) = Idle.
Proof. vm_compute. reflexivity. Qed.

Example demo_sync_times_out :
  let '(s, e) := run_loop (fuel_for demo) (init_sync (Body 0 [OTo FLater 5 (Body 1 [OSr 0 7] RetNone)] (RetFut 0)) (Some 3)) in
  e = Stopped /\ sync_result_of s e = RTimeout /\ fget (futs s) 0 = FCancelled.
Proof. vm_compute. auto. Qed.

(* ---------- bounded sweep ---------- *)
Definition leaves : list body :=
  [leaf; Body 0 [] (RaiseE 1); Body 0 [ORm 0] RetNone; Body 0 [OSr 0 1] RetNone; Body 0 [] (RetFut 0)].

Definition alphabet : list op :=
  map OCb leaves ++
  flat_map (fun lf => [OTo FAbs 0 lf; OTo FLater 2 lf; OTo (FDelta 0) 2 lf; OTo FCallAt 3 lf; OTo FAbs (-1) lf])
           (firstn 3 leaves) ++
  [OAdv 2; ORm 0; ORm 1; OAf 0 leaf; OAf 0 (Body 0 [] (RaiseE 2)); OSr 0 4; OSe 0 5; OCf 0].

Definition seqs2 : list (list op) :=
  [[]] ++ map (fun a => [a]) alphabet ++ flat_map (fun a => map (fun b => [a; b]) alphabet) alphabet.

Definition small_inputs : list c38_input :=
  map (fun os => IProg (Body 0 os RetNone)) seqs2 ++
  flat_map (fun os => flat_map (fun out => map (fun t => ISync (Body 0 os out) t) [None; Some 0; Some 2; Some 3])
                               [RetNone; RetVal; RaiseE 2; RetFut 0]) seqs2.

Lemma small_scope_size : N.of_nat (List.length small_inputs) = 13821%N.
Proof. vm_compute. reflexivity. Qed.

Lemma model_passes_monitor_small_scope :
  forallb (fun c => check_case c (run_case c)) small_inputs = true.
Proof. vm_compute. reflexivity. Qed.
