(* C38 — the property as boolean checkers over an event trace (oldest event first).
   These functions never call the loop model: they are what check_case applies to the trace
   recorded on the REAL IOLoop.  Definitions only. *)
From Coq Require Import List ZArith Arith Bool.
Import ListNotations.
From TV Require Import C38.Model.
Local Open Scope Z_scope.

Definition mem (i : nat) (l : list nat) : bool := existsb (Nat.eqb i) l.

(* ---------- structure: brackets, fresh instance ids, monotone clock, no stray log records ---------- *)
Record sstate := mkS { s_next : nat; s_cur : option nat; s_now : option Z }.

Definition struct_step (sync : bool) (s : sstate) (e : ev) : option sstate :=
  match e with
  | ESc i | EAf i _ =>
      (* scheduling calls happen inside a running callback (or are the initial add_callback) and
         create consecutive instance ids *)
      if (i =? s_next s)%nat && (match s_cur s with Some _ => true | None => (i =? 0)%nat && negb sync end)
      then Some (mkS (S i) (s_cur s) (s_now s)) else None
  | ESt i d =>
      match s_cur s, s_now s with
      | Some _, Some t => if (i =? s_next s)%nat then Some (mkS (S i) (s_cur s) (s_now s)) else None
      | _, _ => None
      end
  | EAdv t =>
      match s_cur s, s_now s with
      | Some _, Some t0 => if t0 <=? t then Some (mkS (s_next s) (s_cur s) (Some t)) else None
      | _, _ => None
      end
  | ERm i => match s_cur s with Some _ => if (i <? s_next s)%nat then Some s else None | None => None end
  | ERs _ how _ =>
      match s_cur s with
      | Some _ => if (how <? 3)%nat then Some s else None
      | None => if sync && (how =? 2)%nat then Some s else None   (* run_sync's timeout cancelling the future *)
      end
  | EOr => match s_cur s with Some _ => Some s | None => None end
  | ERun i _ _ =>
      match s_cur s, s_now s with
      | None, Some _ => if (i <? s_next s)%nat then Some (mkS (s_next s) (Some i) (s_now s)) else None
      | _, _ => None
      end
  | EEnd i _ =>
      match s_cur s with
      | Some j => if (i =? j)%nat then Some (mkS (s_next s) None (s_now s)) else None
      | None => None
      end
  | ELog _ | ELogd _ => match s_cur s with None => Some s | Some _ => None end
  | EBad => None
  | EIt t =>
      match s_cur s with
      | Some _ => None
      | None =>
          match s_now s with
          | Some t0 => if t0 <=? t then Some (mkS (s_next s) None (Some t)) else None
          | None => Some (mkS (s_next s) None (Some t))
          end
      end
  end.

Fixpoint fold_opt {S} (step : S -> ev -> option S) (s : S) (tr : list ev) : option S :=
  match tr with
  | [] => Some s
  | e :: tr' => match step s e with Some s' => fold_opt step s' tr' | None => None end
  end.

Definition chk_struct (sync : bool) (tr : list ev) : bool :=
  match fold_opt (struct_step sync) (mkS (if sync then 1%nat else 0%nat) None None) tr with
  | Some s => match s_cur s with None => true | Some _ => false end
  | None => false
  end.

(* ---------- add_callback: each runs exactly once, in scheduling order ---------- *)
(* state: the queue of scheduled, not yet run add_callback instances *)
Definition cb_step (q : list nat) (e : ev) : option (list nat) :=
  match e with
  | ESc i => if mem i q then None else Some (q ++ [i])
  | ERun i RCb _ =>
      match q with
      | j :: q' => if (i =? j)%nat then Some q' else None   (* ran twice, never scheduled, or overtook *)
      | [] => None
      end
  | _ => Some q
  end.

Definition chk_cb (idle : bool) (tr : list ev) : bool :=
  match fold_opt cb_step [] tr with
  | Some q => if idle then match q with [] => true | _ => false end else true
  | None => false
  end.

(* ---------- timeouts ---------- *)
(* t_old: scheduled before the current iteration began *)
Record tmo := mkT { t_inst : nat; t_deadline : Z; t_old : bool; t_removed : bool }.
Record tstate := mkTS { ts_now : Z; ts_pend : list tmo }.

Definition t_find (i : nat) (l : list tmo) : option tmo := find (fun t => (t_inst t =? i)%nat) l.
Definition t_del (i : nat) (l : list tmo) : list tmo := filter (fun t => negb (t_inst t =? i)%nat) l.
Definition t_mark (i : nat) (l : list tmo) : list tmo :=
  map (fun t => if (t_inst t =? i)%nat then mkT (t_inst t) (t_deadline t) (t_old t) true else t) l.

Definition to_step (s : tstate) (e : ev) : option tstate :=
  match e with
  | EIt t => Some (mkTS t (map (fun u => mkT (t_inst u) (t_deadline u) true (t_removed u)) (ts_pend s)))
  | EAdv t => Some (mkTS t (ts_pend s))
  | ESt i d =>
      match t_find i (ts_pend s) with
      | Some _ => None
      | None => Some (mkTS (ts_now s) (ts_pend s ++ [mkT i d false false]))
      end
  | ERm i => Some (mkTS (ts_now s) (t_mark i (ts_pend s)))
  | ERun i RTo _ =>
      match t_find i (ts_pend s) with
      | None => None                                    (* ran twice or was never scheduled *)
      | Some t =>
          if t_removed t then None                      (* ran after remove_timeout *)
          else if ts_now s <? t_deadline t then None    (* ran before its deadline *)
          else if existsb (fun u => negb (t_removed u) && t_old u && (t_deadline u <? t_deadline t)) (ts_pend s)
               then None                                (* overtook a pending strictly earlier requested deadline
                                                           (one not scheduled during this very iteration) *)
          else Some (mkTS (ts_now s) (t_del i (ts_pend s)))
      end
  | _ => Some s
  end.

Definition chk_to (idle : bool) (tr : list ev) : bool :=
  match fold_opt to_step (mkTS 0 []) tr with
  | Some s => if idle then forallb t_removed (ts_pend s) else true
  | None => false
  end.

(* ---------- add_future callbacks run on a later iteration, once, after the future is done ---------- *)
(* "aged" = an iteration boundary (EIt) has been seen since *)
Record fstate_m := mkF {
  f_afs : list (nat * (nat * bool));    (* instance, (future, aged since the add_future call) *)
  f_res : list (nat * bool)             (* resolved future, aged since its resolution *)
}.

Definition af_find (i : nat) (l : list (nat * (nat * bool))) := find (fun a => (fst a =? i)%nat) l.
Definition rs_find (f : nat) (l : list (nat * bool)) := find (fun a => (fst a =? f)%nat) l.

Definition fut_step (s : fstate_m) (e : ev) : option fstate_m :=
  match e with
  | EIt _ => Some (mkF (map (fun a => (fst a, (fst (snd a), true))) (f_afs s)) (map (fun a => (fst a, true)) (f_res s)))
  | EAf i f =>
      match af_find i (f_afs s) with
      | Some _ => None
      | None => Some (mkF (f_afs s ++ [(i, (f, false))]) (f_res s))
      end
  | ERs f _ _ =>
      match rs_find f (f_res s) with
      | Some _ => None                                        (* a future resolves once *)
      | None => Some (mkF (f_afs s) (f_res s ++ [(f, false)]))
      end
  | ERun i RFut _ =>
      match af_find i (f_afs s) with
      | None => None                                          (* ran twice or never registered *)
      | Some (_, (f, aged)) =>
          let resolved_earlier := match rs_find f (f_res s) with Some (_, aged') => aged' | None => false end in
          if aged && resolved_earlier
          then Some (mkF (filter (fun a => negb (fst a =? i)%nat) (f_afs s)) (f_res s))
          else None
      end
  | _ => Some s
  end.

Definition chk_fut (idle : bool) (tr : list ev) : bool :=
  match fold_opt fut_step (mkF [] []) tr with
  | Some s =>
      if idle then forallb (fun a => match rs_find (fst (snd a)) (f_res s) with None => true | Some _ => false end) (f_afs s)
      else true
  | None => false
  end.

(* ---------- errors are logged (and only errors), the loop goes on ---------- *)
Record lstate := mkL {
  l_expect : option nat;            (* ELog i must be the very next event *)
  l_retf : list nat;                (* futures returned by callbacks whose discard callback has not logged *)
  l_exc : list nat                  (* futures resolved with an exception *)
}.

Fixpoint remove1 (f : nat) (l : list nat) : option (list nat) :=
  match l with
  | [] => None
  | x :: l' => if (x =? f)%nat then Some l'
               else match remove1 f l' with Some r => Some (x :: r) | None => None end
  end.

Definition log_step (sync : bool) (s : lstate) (e : ev) : option lstate :=
  match l_expect s with
  | Some i => match e with ELog j => if (i =? j)%nat then Some (mkL None (l_retf s) (l_exc s)) else None | _ => None end
  | None =>
      match e with
      | ELog _ => None
      | EEnd i (EndRaise _) => if sync && (i =? 0)%nat then Some s else Some (mkL (Some i) (l_retf s) (l_exc s))
      | EEnd i (EndFut f) => if sync && (i =? 0)%nat then Some s else Some (mkL None (f :: l_retf s) (l_exc s))
      | ERs f 1%nat _ => Some (mkL None (l_retf s) (f :: l_exc s))
      | ELogd f =>
          if mem f (l_exc s) then
            match remove1 f (l_retf s) with Some r => Some (mkL None r (l_exc s)) | None => None end
          else None
      | _ => Some s
      end
  end.

Definition chk_log (sync idle : bool) (tr : list ev) : bool :=
  match fold_opt (log_step sync) (mkL None [] []) tr with
  | Some s =>
      match l_expect s with
      | Some _ => false
      | None => if idle then forallb (fun f => negb (mem f (l_exc s))) (l_retf s) else true
      end
  | None => false
  end.

(* ---------- run_sync: the result expected from the trace ---------- *)
Fixpoint first_end0 (tr : list ev) : option ended :=
  match tr with
  | [] => None
  | EEnd O e :: _ => Some e
  | _ :: tr' => first_end0 tr'
  end.

(* first resolution of future f by an op, and the clock of the iteration in which it happened *)
Fixpoint first_rs (f : nat) (now : Z) (tr : list ev) : option (nat * Z * Z) :=
  match tr with
  | [] => None
  | EIt t :: tr' | EAdv t :: tr' => first_rs f t tr'
  | ERs g how v :: tr' => if (g =? f)%nat then Some (how, v, now) else first_rs f now tr'
  | _ :: tr' => first_rs f now tr'
  end.

Inductive fin := FinPending | FinOk | FinExc | FinCancelled | FinNA.

(* the set of acceptable (result, final state of the returned future) pairs *)
Definition sync_ok (timeout : option Z) (tr : list ev) (r : sync_result) (fs : fin) : bool :=
  match first_end0 tr with
  | None => false
  | Some EndNone => match r, fs with RRet None, FinNA => true | _, _ => false end
  | Some EndVal => match r, fs with RExc XBadYield, FinNA => true | _, _ => false end
  | Some (EndRaise x) =>
      match x, r with      (* the function raised before returning anything: fs is not constrained *)
      | XUser e, RExc (XUser e') => e =? e'
      | XInvalidState, RExc XInvalidState => true
      | _, _ => false
      end
  | Some (EndFut f) =>
      match first_rs f 0 tr with
      | Some (O, v, _) =>
          match r, fs with RRet (Some v'), FinOk => v =? v' | _, _ => false end
      | Some (1%nat, e, _) =>
          match r, fs with RExc (XUser e'), FinExc => e =? e' | _, _ => false end
      | Some (_, _, _) =>          (* cancelled by the program itself *)
          match r, fs, timeout with
          | RStopped, FinCancelled, _ => true
          | RTimeout, FinCancelled, Some _ => true
          | _, _, _ => false
          end
      | None =>                    (* never resolved by the program *)
          match timeout, r, fs with
          | Some _, RTimeout, FinCancelled => true      (* TimeoutError, after cancelling it *)
          | None, RIdle, FinPending => true
          | _, _, _ => false
          end
      end
  end.
