(* C38 — IOLoop callbacks and timeouts: an executable model of
     tornado/platform/asyncio.py  BaseAsyncIOLoop.add_callback / call_at / remove_timeout / start / stop
     tornado/ioloop.py            IOLoop.add_timeout / call_later / call_at / add_future / _run_callback /
                                  _discard_future_result / run_sync
   over a model of CPython 3.12 asyncio:  BaseEventLoop._run_once / run_forever / call_soon / call_at,
   heapq.heappush / heappop (TimerHandle compares `_when` only), Future.add_done_callback /
   set_result / set_exception / cancel.
   Definitions only. *)
From Coq Require Import List ZArith Arith Bool.
Import ListNotations.
Local Open Scope Z_scope.

(* ------------------------------------------------------------------ *)
(* heapq on a Python list (array positions), elements ordered by [key] only *)
Section Heapq.
  Context {A : Type} (key : A -> Z) (d : A).

  Definition klt (a b : A) : bool := key a <? key b.

  Fixpoint upd (l : list A) (i : nat) (x : A) : list A :=
    match l, i with
    | [], _ => []
    | _ :: t, O => x :: t
    | h :: t, S i' => h :: upd t i' x
    end.

  (* heapq._siftdown(heap, 0, pos) with newitem already read: bubble newitem up *)
  Fixpoint siftdown (fuel : nat) (h : list A) (pos : nat) (newitem : A) : list A :=
    match fuel with
    | O => upd h pos newitem
    | S fu =>
        match pos with
        | O => upd h pos newitem
        | S _ =>
            let pp := ((pos - 1) / 2)%nat in
            let parent := nth pp h d in
            if klt newitem parent then siftdown fu (upd h pos parent) pp newitem
            else upd h pos newitem
        end
    end.

  (* the `while childpos < endpos` loop of heapq._siftup: the hole moves down to a leaf *)
  Fixpoint siftup_loop (fuel : nat) (h : list A) (pos : nat) : list A * nat :=
    match fuel with
    | O => (h, pos)
    | S fu =>
        let c := (2 * pos + 1)%nat in
        if (c <? length h)%nat then
          let r := (c + 1)%nat in
          let c' := if ((r <? length h)%nat && negb (klt (nth c h d) (nth r h d)))%bool then r else c in
          siftup_loop fu (upd h pos (nth c' h d)) c'
        else (h, pos)
    end.

  Definition siftup0 (h : list A) : list A :=
    let newitem := nth O h d in
    let '(h', p) := siftup_loop (length h) h O in
    siftdown (S (length h)) h' p newitem.

  Definition heappush (h : list A) (x : A) : list A :=
    siftdown (S (length h)) (h ++ [x]) (length h) x.

  (* heappop: None on an empty heap (IndexError; never reached by the loop, which tests first) *)
  Definition heappop (h : list A) : option (A * list A) :=
    match h with
    | [] => None
    | top :: _ =>
        let lastelt := last h d in
        match removelast h with
        | [] => Some (lastelt, [])
        | (_ :: _) as h' => Some (top, siftup0 (upd h' O lastelt))
        end
    end.
End Heapq.

(* ------------------------------------------------------------------ *)
(* scheduling programs *)
Inductive outcome := RetNone | RetVal | RaiseE (e : Z) | RetFut (f : nat).
(* FAbs: add_timeout(number)   FLater: call_later(delay)   FCallAt: call_at(number)
   FDelta days: add_timeout(datetime.timedelta(days=days, seconds=t ticks)) *)
Inductive tform := FAbs | FLater | FDelta (days : Z) | FCallAt.

(* datetime.timedelta(days, seconds, microseconds) in exact integer microseconds: the constructor's
   normalisation (0 <= seconds < 86400, 0 <= microseconds < 10^6, days unbounded, possibly negative) and
   total_seconds() = ((days*86400 + seconds)*10^6 + microseconds) / 10^6 *)
Definition td_normalize (days secs us : Z) : Z * Z * Z :=
  let s1 := secs + us / 1000000 in
  (days + s1 / 86400, s1 mod 86400, us mod 1000000).
Definition td_total_us (n : Z * Z * Z) : Z :=
  let '(d, s, us) := n in (d * 86400 + s) * 1000000 + us.
Definition TICK_US : Z := 250000.          (* one tick = 0.25 s *)
Definition DAY_TICKS : Z := 345600.
(* IOLoop.add_timeout(timedelta): self.time() + deadline.total_seconds(); the offset in ticks *)
Definition delta_ticks (days t : Z) : Z := td_total_us (td_normalize days 0 (t * TICK_US)) / TICK_US.

(* the absolute deadline (ticks) each form of the call asks for, at clock [now] *)
Definition deadline_of (fm : tform) (t now : Z) : Z :=
  match fm with
  | FAbs | FCallAt => t
  | FLater => now + t
  | FDelta days => now + delta_ticks days t
  end.

Inductive op :=
| OCb (b : body)                       (* io_loop.add_callback(b) *)
| OTo (fm : tform) (t : Z) (b : body)  (* add_timeout(abs) / call_later / add_timeout(timedelta) / call_at *)
| ORm (k : nat)                        (* remove_timeout(k-th handle created so far) *)
| OAf (f : nat) (b : body)             (* add_future(future f, b) *)
| OSr (f : nat) (v : Z)                (* f.set_result(v) *)
| OSe (f : nat) (e : Z)                (* f.set_exception(UserErr(e)) *)
| OCf (f : nat)                        (* f.cancel() *)
| OAdv (t : Z)                         (* the callback takes t ticks of (virtual) time: the clock advances by max(0,t) *)
with body := Body (label : nat) (ops : list op) (out : outcome).

Definition b_label (b : body) := let 'Body l _ _ := b in l.
Definition b_ops (b : body) := let 'Body _ o _ := b in o.
Definition b_out (b : body) := let 'Body _ _ o := b in o.

(* where an add_callback call comes from, as BaseAsyncIOLoop.add_callback sees it:
   asyncio.get_running_loop() is this IOLoop's asyncio loop / is some OTHER running loop (the caller's thread runs its
   own event loop) / raises RuntimeError (plain thread, no running loop) *)
Inductive caller := CSameLoop | COtherLoop | CNoLoop.

Inductive c38_input :=
| IProg (b : body)
| ISync (b : body) (timeout : option Z)
| IThreads (n m : nat) (c : caller).   (* n threads x m add_callback calls on an IDLE loop; c: what the caller threads run *)

(* ------------------------------------------------------------------ *)
(* the event trace (what the harness records on the real loop) *)
Inductive exn := XUser (e : Z) | XBadYield | XInvalidState.
(* how a user function ended: returned None / a non-awaitable value / future f, or raised *)
Inductive ended := EndNone | EndVal | EndFut (f : nat) | EndRaise (x : exn).

(* which kind of scheduling call created a running instance *)
Inductive rkind := RCb | RTo | RFut | RFn.

Inductive ev :=
| ESc (i : nat)                 (* add_callback called; instance i created *)
| ESt (i : nat) (d : Z)         (* a timeout call; instance i, requested absolute deadline d (ticks) *)
| ERm (i : nat)                 (* remove_timeout on the handle of timeout instance i *)
| EAf (i f : nat)               (* add_future(f, instance i) *)
| ERs (f : nat) (how : nat) (v : Z)   (* future f resolved by an op: 0 result v, 1 exception v, 2 cancelled *)
| EOr                           (* an op raised InvalidStateError *)
| ERun (i : nat) (k : rkind) (l : nat)   (* instance i (created by add_callback / a timeout call / add_future /
                                           run_sync's function; body label l) starts *)
| EEnd (i : nat) (e : ended)    (* instance i ends, and how *)
| ELog (i : nat)                (* app_log.error("Exception in callback") for instance i *)
| ELogd (f : nat)               (* ... for _discard_future_result(future f) *)
| EBad                          (* any other log record (never produced by the model except the unreachable assert) *)
| EIt (now : Z)                 (* a loop iteration begins (after select); the virtual clock *)
| EAdv (now : Z).               (* a callback let time pass; the new clock *)

(* ------------------------------------------------------------------ *)
(* asyncio futures and handles *)
Inductive fcb := FcUser (i : nat) (b : body) | FcDiscard | FcStop.
Inductive fstate := FPending (cbs : list fcb) | FOk (v : option Z) | FExc (x : exn) | FCancelled.

(* a timer handle carries asyncio's TimerHandle._when, which is the requested deadline d (no clamping) *)
Inductive hkind := KCb | KTo (d : Z) | KFut (f : nat).   (* KFut f: partial(callback, future f) *)
Inductive handle :=
| HUser (i : nat) (k : hkind) (b : body)   (* Handle(_run_callback, partial(fn)) for a user callback *)
| HDiscard (key : nat)                     (* _run_callback(partial(_discard_future_result, f)) *)
| HStop                                    (* _run_callback(partial(lambda future: self.stop(), f))  (run_sync) *)
| HRunSync (i : nat) (b : body)            (* _run_callback(run)   (run_sync) *)
| HTimeoutCb (w : Z).                      (* _run_callback(timeout_callback), a TimerHandle   (run_sync) *)

Definition hwhen (h : handle) : Z :=
  match h with
  | HUser _ (KTo d) _ => d
  | HTimeoutCb w => w
  | _ => 0
  end.

(* run_sync's future cell: a fresh, already finished future made by run(), or the future the function returned *)
Inductive cellv := CFresh (r : fstate) | CUser (f : nat).

Record st := mkSt {
  now : Z;                          (* loop.time() == IOLoop.time(), ticks *)
  ready : list handle;              (* loop._ready *)
  heap : list handle;               (* loop._scheduled, a heapq array of TimerHandles ordered by _when only *)
  cancelled : list nat;             (* timeout instances whose TimerHandle is cancelled *)
  futs : list (nat * fstate);       (* the futures the program mentions, by number *)
  next : nat;                       (* next instance id *)
  handles : list nat;               (* timeout instances in creation order (what add_timeout returned) *)
  trace : list ev;                  (* newest first *)
  stopping : bool;                  (* loop._stopping *)
  cell : option cellv;              (* run_sync's future_cell["future"] *)
  tcalled : bool                    (* future_cell["timeout_called"] *)
}.

Definition hpush := heappush hwhen HStop.
Definition hpop := heappop hwhen HStop.

Definition emit (e : ev) (s : st) : st :=
  mkSt (now s) (ready s) (heap s) (cancelled s) (futs s) (next s) (handles s) (e :: trace s) (stopping s) (cell s) (tcalled s).
Definition push_ready (hs : list handle) (s : st) : st :=
  mkSt (now s) (ready s ++ hs) (heap s) (cancelled s) (futs s) (next s) (handles s) (trace s) (stopping s) (cell s) (tcalled s).
Definition set_ready (r : list handle) (s : st) : st :=
  mkSt (now s) r (heap s) (cancelled s) (futs s) (next s) (handles s) (trace s) (stopping s) (cell s) (tcalled s).
Definition set_heap (h : list handle) (s : st) : st :=
  mkSt (now s) (ready s) h (cancelled s) (futs s) (next s) (handles s) (trace s) (stopping s) (cell s) (tcalled s).
Definition set_now (t : Z) (s : st) : st :=
  mkSt t (ready s) (heap s) (cancelled s) (futs s) (next s) (handles s) (trace s) (stopping s) (cell s) (tcalled s).
Definition set_futs (f : list (nat * fstate)) (s : st) : st :=
  mkSt (now s) (ready s) (heap s) (cancelled s) f (next s) (handles s) (trace s) (stopping s) (cell s) (tcalled s).
Definition bump (s : st) : st :=
  mkSt (now s) (ready s) (heap s) (cancelled s) (futs s) (S (next s)) (handles s) (trace s) (stopping s) (cell s) (tcalled s).
Definition add_handle (i : nat) (s : st) : st :=
  mkSt (now s) (ready s) (heap s) (cancelled s) (futs s) (next s) (handles s ++ [i]) (trace s) (stopping s) (cell s) (tcalled s).
Definition cancel_inst (i : nat) (s : st) : st :=
  mkSt (now s) (ready s) (heap s) (i :: cancelled s) (futs s) (next s) (handles s) (trace s) (stopping s) (cell s) (tcalled s).
Definition set_stopping (s : st) : st :=
  mkSt (now s) (ready s) (heap s) (cancelled s) (futs s) (next s) (handles s) (trace s) true (cell s) (tcalled s).
Definition set_cell (k : cellv) (s : st) : st :=
  mkSt (now s) (ready s) (heap s) (cancelled s) (futs s) (next s) (handles s) (trace s) (stopping s) (Some k) (tcalled s).
Definition set_tcalled (s : st) : st :=
  mkSt (now s) (ready s) (heap s) (cancelled s) (futs s) (next s) (handles s) (trace s) (stopping s) (cell s) true.

(* futures: a future nobody touched yet is pending with no callbacks (the harness creates them lazily) *)
Fixpoint fget (fs : list (nat * fstate)) (k : nat) : fstate :=
  match fs with
  | [] => FPending []
  | (k', s) :: t => if (k' =? k)%nat then s else fget t k
  end.
Definition fset (fs : list (nat * fstate)) (k : nat) (s : fstate) : list (nat * fstate) :=
  (k, s) :: filter (fun p => negb (fst p =? k)%nat) fs.

Definition handle_of_fcb (key : nat) (c : fcb) : handle :=
  match c with
  | FcUser i b => HUser i (KFut key) b
  | FcDiscard => HDiscard key
  | FcStop => HStop
  end.

(* Future.add_done_callback: call_soon when already done, else remember *)
Definition add_done_callback (key : nat) (c : fcb) (s : st) : st :=
  match fget (futs s) key with
  | FPending cbs => set_futs (fset (futs s) key (FPending (cbs ++ [c]))) s
  | _ => push_ready [handle_of_fcb key c] s
  end.

(* set_result / set_exception / cancel: Some s' on success (callbacks scheduled with call_soon), None = already done *)
Definition resolve (key : nat) (r : fstate) (s : st) : option st :=
  match fget (futs s) key with
  | FPending cbs => Some (push_ready (map (handle_of_fcb key) cbs) (set_futs (fset (futs s) key r) s))
  | _ => None
  end.

(* BaseAsyncIOLoop.call_at(deadline): call_later(deadline - time()) -> loop.call_at(time() + delay), i.e.
   TimerHandle._when = deadline, also when the deadline is already in the past (no max(0, ...) clamp) *)
Definition sched_timer (h : handle) (s : st) : st := set_heap (hpush (heap s) h) s.

Definition is_cancelled (s : st) (h : handle) : bool :=
  match h with
  | HUser i (KTo _) _ => existsb (Nat.eqb i) (cancelled s)
  | _ => false
  end.

(* one scheduling call made by a running callback; the bool is "raised" *)
Definition exec_op (o : op) (s : st) : st * bool :=
  match o with
  | OCb b =>
      let i := next s in
      (push_ready [HUser i KCb b] (emit (ESc i) (bump s)), false)
  | OTo fm t b =>
      let i := next s in
      let dl := deadline_of fm t (now s) in
      (add_handle i (sched_timer (HUser i (KTo dl) b) (emit (ESt i dl) (bump s))), false)
  | ORm k =>
      match nth_error (handles s) k with
      | Some i => (cancel_inst i (emit (ERm i) s), false)
      | None => (s, false)
      end
  | OAf f b =>
      let i := next s in
      (add_done_callback f (FcUser i b) (emit (EAf i f) (bump s)), false)
  | OSr f v =>
      match resolve f (FOk (Some v)) s with
      | Some s' => (emit (ERs f 0 v) s', false)
      | None => (emit EOr s, true)
      end
  | OSe f e =>
      match resolve f (FExc (XUser e)) s with
      | Some s' => (emit (ERs f 1 e) s', false)
      | None => (emit EOr s, true)
      end
  | OCf f =>
      match resolve f FCancelled s with
      | Some s' => (emit (ERs f 2 0) s', false)
      | None => (s, false)
      end
  | OAdv t =>
      let t' := now s + Z.max 0 t in
      (emit (EAdv t') (set_now t' s), false)
  end.

Fixpoint exec_ops (os : list op) (s : st) : st * bool :=
  match os with
  | [] => (s, false)
  | o :: os' =>
      let '(s1, r) := exec_op o s in
      if r then (s1, true) else exec_ops os' s1
  end.

(* the user function fn of instance i: returns the state and how it ended *)
Definition run_fn (i : nat) (k : rkind) (b : body) (s : st) : st * ended :=
  let '(s1, r) := exec_ops (b_ops b) (emit (ERun i k (b_label b)) s) in
  let e := if r then EndRaise XInvalidState
           else match b_out b with
                | RaiseE e => EndRaise (XUser e)
                | RetNone => EndNone
                | RetVal => EndVal
                | RetFut f => EndFut f
                end in
  (emit (EEnd i e) s1, e).

Definition rkind_of (k : hkind) : rkind :=
  match k with KCb => RCb | KTo _ => RTo | KFut _ => RFut end.

(* Handle._run() for each kind of handle *)
Definition run_handle (h : handle) (s : st) : st :=
  match h with
  | HUser i k b =>                      (* IOLoop._run_callback(fn) *)
      let '(s1, e) := run_fn i (rkind_of k) b s in
      match e with
      | EndNone | EndVal => s1          (* BadYieldError is swallowed *)
      | EndFut f => add_done_callback f FcDiscard s1
      | EndRaise _ => emit (ELog i) s1
      end
  | HDiscard key =>                     (* future.result() inside _run_callback *)
      match fget (futs s) key with
      | FExc _ => emit (ELogd key) s
      | _ => s                          (* result ignored; CancelledError is not logged *)
      end
  | HStop => set_stopping s
  | HRunSync i b =>                     (* run_sync's run() *)
      let '(s1, e) := run_fn i RFn b s in
      match e with
      | EndFut f => add_done_callback f FcStop (set_cell (CUser f) s1)
      | EndNone => push_ready [HStop] (set_cell (CFresh (FOk None)) s1)
      | EndVal => push_ready [HStop] (set_cell (CFresh (FExc XBadYield)) s1)
      | EndRaise x => push_ready [HStop] (set_cell (CFresh (FExc x)) s1)
      end
  | HTimeoutCb _ =>                     (* run_sync's timeout_callback *)
      let s1 := set_tcalled s in
      match cell s1 with
      | None => emit EBad s1            (* AssertionError, logged; unreachable: run() always runs first *)
      | Some (CFresh _) => set_stopping s1      (* already done: cancel() is False, self.stop() *)
      | Some (CUser f) =>
          match resolve f FCancelled s1 with
          | Some s2 => emit (ERs f 2 0) s2     (* future.cancel() succeeded (the harness sees it) *)
          | None => set_stopping s1            (* already done: self.stop() *)
          end
      end
  end.

Fixpoint run_todo (todo : list handle) (s : st) : st :=
  match todo with
  | [] => s
  | h :: t => run_todo t (if is_cancelled s h then s else run_handle h s)
  end.

(* `while self._scheduled and self._scheduled[0]._cancelled: heappop` *)
Fixpoint drop_cancelled (fuel : nat) (s : st) : st :=
  match fuel with
  | O => s
  | S fu =>
      match heap s with
      | h :: _ =>
          if is_cancelled s h then
            match hpop (heap s) with
            | Some (_, hp) => drop_cancelled fu (set_heap hp s)
            | None => s
            end
          else s
      | [] => s
      end
  end.

(* `while self._scheduled: if handle._when >= end_time: break; heappop; self._ready.append` *)
Fixpoint pop_due (fuel : nat) (s : st) : st :=
  match fuel with
  | O => s
  | S fu =>
      match heap s with
      | h0 :: _ =>
          if hwhen h0 <=? now s then
            match hpop (heap s) with
            | Some (h, hp) => pop_due fu (push_ready [h] (set_heap hp s))
            | None => s
            end
          else s
      | [] => s
      end
  end.

Definition MAX_SELECT : Z := 345600.   (* MAXIMUM_SELECT_TIMEOUT = 24h, in ticks of 0.25 s *)

(* BaseEventLoop._run_once; None = the selector would block forever (idle) *)
Definition run_once (s : st) : option st :=
  let s1 := drop_cancelled (length (heap s)) s in
  let timeout :=
    match ready s1, heap s1 with
    | _ :: _, _ => Some 0
    | [], h0 :: _ => Some (Z.min (Z.max 0 (hwhen h0 - now s1)) MAX_SELECT)
    | [], [] => None
    end in
  match timeout with
  | None => None
  | Some dt =>
      let s2 := set_now (now s1 + dt) s1 in
      let s3 := emit (EIt (now s2)) s2 in
      let s4 := pop_due (length (heap s3)) s3 in
      Some (run_todo (ready s4) (set_ready [] s4))
  end.

Inductive loop_end := Idle | Stopped | OutOfFuel.

(* run_forever: `while True: _run_once(); if self._stopping: break`
   (the harness calls loop.stop() when the selector would block forever) *)
Fixpoint run_loop (fuel : nat) (s : st) : st * loop_end :=
  match fuel with
  | O => (s, OutOfFuel)
  | S fu =>
      match run_once s with
      | None => (s, Idle)
      | Some s' => if stopping s' then (s', Stopped) else run_loop fu s'
      end
  end.

Definition st0 : st := mkSt 0 [] [] [] [] 0 [] [] false None false.

(* io_loop.add_callback(body) from outside, then io_loop.start() *)
Definition init_prog (b : body) : st :=
  push_ready [HUser 0 KCb b] (emit (ESc 0) (bump st0)).

(* run_sync(fn, timeout): add_callback(run); add_timeout(time() + timeout, timeout_callback); start() *)
Definition init_sync (b : body) (timeout : option Z) : st :=
  let s := push_ready [HRunSync 0 b] (bump st0) in
  match timeout with
  | None => s
  | Some t => sched_timer (HTimeoutCb (now s + t)) s
  end.

Inductive sync_result := RRet (v : option Z) | RExc (x : exn) | RTimeout | RStopped | RIdle | RFuel | RAssert.

Definition sync_result_of (s : st) (e : loop_end) : sync_result :=
  match e with
  | OutOfFuel => RFuel
  | _ =>
      match cell s with
      | None => RAssert
      | Some c =>
          match (match c with CFresh r => r | CUser f => fget (futs s) f end) with
          | FOk v => RRet v
          | FExc x => RExc x
          | FCancelled | FPending _ =>
              if tcalled s then RTimeout else match e with Idle => RIdle | _ => RStopped end
          end
      end
  end.

(* program size: a bound on the number of handles a program can create *)
Fixpoint body_size (b : body) : nat :=
  let 'Body _ os _ := b in
  S (S ((fix go (l : list op) : nat :=
        match l with
        | [] => O
        | o :: l' =>
            (match o with
             | OTo (FDelta d) _ b' => S (body_size b' + Z.to_nat (Z.abs d))   (* one idle iteration per day: 24 h select clamp *)
             | OCb b' | OTo _ _ b' | OAf _ b' => S (body_size b')
             | _ => 1
             end + go l')%nat
        end) os)).

Definition fuel_for (b : body) : nat := (2 * body_size b + 8)%nat.

(* ------------------------------------------------------------------ *)
(* concurrent add_callback from several threads: every call appends one handle to the ready deque
   (call_soon_threadsafe); an interleaving is the list of (thread, k) in arrival order; the loop
   runs the deque in FIFO order *)
Definition arrivals_run_order (arrivals : list (nat * nat)) : list (nat * nat) :=
  fold_left (fun ran a => ran ++ [a]) arrivals [].

Definition of_thread (t : nat) (l : list (nat * nat)) : list nat :=
  map snd (filter (fun a => (fst a =? t)%nat) l).

(* one canonical interleaving: round-robin *)
Definition round_robin (n m : nat) : list (nat * nat) :=
  flat_map (fun k => map (fun t => (t, k)) (seq 0 n)) (seq 0 m).

(* ------------------------------------------------------------------ *)
(* add_callback onto a loop that is idle in select() with no timers.
   BaseAsyncIOLoop.add_callback: `if asyncio.get_running_loop() is self.asyncio_loop: call_soon
   else (another loop is running, or none: RuntimeError): call_soon_threadsafe`.
   call_soon only appends to the ready deque; call_soon_threadsafe appends AND writes to the self-pipe, which is
   the only thing that makes a loop blocked in select() (no timers, no I/O) run again. *)
Inductive sched_path := PCallSoon | PThreadsafe.
Definition add_callback_path (c : caller) : sched_path :=
  match c with CSameLoop => PCallSoon | COtherLoop | CNoLoop => PThreadsafe end.

Record xloop := mkX { x_ready : list (nat * nat); x_woken : bool; x_ran : list (nat * nat) }.
Definition x_idle : xloop := mkX [] false [].

Definition x_add_via (p : sched_path) (a : nat * nat) (l : xloop) : xloop :=
  match p with
  | PCallSoon => mkX (x_ready l ++ [a]) (x_woken l) (x_ran l)
  | PThreadsafe => mkX (x_ready l ++ [a]) true (x_ran l)
  end.
Definition x_add (c : caller) (a : nat * nat) (l : xloop) : xloop := x_add_via (add_callback_path c) a l.

(* the sleeping loop: if (and only if) it was woken it runs everything that is ready, then sleeps again *)
Definition x_settle (l : xloop) : xloop :=
  if x_woken l then mkX [] false (x_ran l ++ x_ready l) else l.

Definition x_deliver (calls : list (caller * (nat * nat))) : xloop :=
  x_settle (fold_left (fun l ca => x_add (fst ca) (snd ca) l) calls x_idle).
