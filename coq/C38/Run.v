(* C38 — executable entry points used by the correspondence check. *)
From Coq Require Import List ZArith Arith Bool String.
Import ListNotations.
From TV Require Import Lib.Obs C38.Model C38.Monitor.
Local Open Scope Z_scope.
Local Open Scope string_scope.

Definition oi (n : nat) : obs := OInt (Z.of_nat n).

Definition ended_code (e : ended) : nat * Z :=
  match e with
  | EndNone => (0%nat, 0)
  | EndVal => (1%nat, 0)
  | EndRaise (XUser x) => (2%nat, x)
  | EndFut f => (3%nat, Z.of_nat f)
  | EndRaise XInvalidState => (4%nat, 0)
  | EndRaise XBadYield => (5%nat, 0)
  end.

Definition rkind_code (k : rkind) : nat := match k with RCb => 0 | RTo => 1 | RFut => 2 | RFn => 3 end.
Definition rkind_of_code (n : nat) : option rkind :=
  match n with 0%nat => Some RCb | 1%nat => Some RTo | 2%nat => Some RFut | 3%nat => Some RFn | _ => None end.

(* event codes: sc 1, st 2, rm 3, af 4, rs 5, or 6, run 7, end 8, log 9, logd 10, other log record 11, it 12 *)
Definition ev_obs (e : ev) : obs :=
  match e with
  | ESc i => OList [OInt 1; oi i]
  | ESt i d => OList [OInt 2; oi i; OInt d]
  | ERm i => OList [OInt 3; oi i]
  | EAf i f => OList [OInt 4; oi i; oi f]
  | ERs f how v => OList [OInt 5; oi f; oi how; OInt v]
  | EOr => OList [OInt 6]
  | ERun i k l => OList [OInt 7; oi i; oi (rkind_code k); oi l]
  | EEnd i e => let '(c, a) := ended_code e in OList [OInt 8; oi i; oi c; OInt a]
  | ELog i => OList [OInt 9; oi i]
  | ELogd f => OList [OInt 10; oi f]
  | EBad => OList [OInt 11]
  | EIt t => OList [OInt 12; OInt t]
  | EAdv t => OList [OInt 13; OInt t]
  end.

(* iterations in which nothing observable happened are dropped (on both sides) *)
Fixpoint squash (tr : list ev) : list ev :=
  match tr with
  | [] => []
  | EIt t :: tr' =>
      match tr' with
      | [] => []
      | EIt _ :: _ => squash tr'
      | _ => EIt t :: squash tr'
      end
  | e :: tr' => e :: squash tr'
  end.

Definition trace_of (s : st) : list ev := squash (rev (trace s)).

Definition exn_obs (x : exn) : obs :=
  match x with
  | XUser e => OList [OTag "exc"; OInt e]
  | XBadYield => OTag "badyield"
  | XInvalidState => OTag "invalidstate"
  end.

Definition result_obs (r : sync_result) : obs :=
  match r with
  | RRet (Some v) => OList [OTag "ret"; OInt v]
  | RRet None => OTag "retnone"
  | RExc x => exn_obs x
  | RTimeout => OTag "timeout"
  | RStopped => OTag "stopped"
  | RIdle => OTag "idle"
  | RFuel => OTag "fuel"
  | RAssert => OTag "assert"
  end.

Definition fin_of (s : st) (b : body) : fin :=
  match b_out b with
  | RetFut f =>
      match fget (futs s) f with
      | FPending _ => FinPending
      | FOk _ => FinOk
      | FExc _ => FinExc
      | FCancelled => FinCancelled
      end
  | _ => FinNA
  end.

Definition fin_obs (f : fin) : obs :=
  match f with
  | FinPending => OTag "pending"
  | FinOk => OTag "ok"
  | FinExc => OTag "exc"
  | FinCancelled => OTag "cancelled"
  | FinNA => OTag "-"
  end.

Definition end_obs (e : loop_end) : obs :=
  match e with Idle => OTag "idle" | Stopped => OTag "stopped?" | OutOfFuel => OTag "fuel" end.

Definition nat_eqb_pair (a b : nat * nat) : bool := ((fst a =? fst b) && (snd a =? snd b))%nat.

Definition threads_obs (n m : nat) (c : caller) : obs :=
  let arr := round_robin n m in
  let fin := x_deliver (map (fun a => (c, a)) arr) in
  let ran := arrivals_run_order (x_ran fin) in
  OList [OTag "threads";
         OBool (forallb (fun a => (List.length (filter (nat_eqb_pair a) ran) =? 1)%nat) arr && (List.length ran =? List.length arr)%nat);
         OBool (forallb (fun t => list_eqb Nat.eqb (of_thread t ran) (of_thread t arr)) (seq 0 n));
         (* delivered without any further wake-up: nothing is left in the ready queue of the sleeping loop *)
         OBool (match x_ready fin with [] => true | _ => false end)].

Definition run_case (c : c38_input) : obs :=
  match c with
  | IProg b =>
      let '(s, e) := run_loop (fuel_for b) (init_prog b) in
      OList [end_obs e; OList (map ev_obs (trace_of s))]
  | ISync b timeout =>
      let '(s, e) := run_loop (fuel_for b) (init_sync b timeout) in
      OList [OList [result_obs (sync_result_of s e); fin_obs (fin_of s b)]; OList (map ev_obs (trace_of s))]
  | IThreads n m c => threads_obs n m c
  end.

(* ------------------------------------------------------------------ *)
(* reading an observable back into events / results *)
Definition nat_of (o : obs) : option nat :=
  match o with OInt z => if (0 <=? z)%Z then Some (Z.to_nat z) else None | _ => None end.

Definition ended_of (c : nat) (a : Z) : option ended :=
  match c with
  | 0%nat => Some EndNone
  | 1%nat => Some EndVal
  | 2%nat => Some (EndRaise (XUser a))
  | 3%nat => if (0 <=? a)%Z then Some (EndFut (Z.to_nat a)) else None
  | 4%nat => Some (EndRaise XInvalidState)
  | _ => None
  end.

Definition ev_of (o : obs) : option ev :=
  match o with
  | OList (OInt c :: args) =>
      match Z.to_nat c, args with
      | 1%nat, [a] => match nat_of a with Some i => Some (ESc i) | None => None end
      | 2%nat, [a; OInt d] => match nat_of a with Some i => Some (ESt i d) | None => None end
      | 3%nat, [a] => match nat_of a with Some i => Some (ERm i) | None => None end
      | 4%nat, [a; b] => match nat_of a, nat_of b with Some i, Some f => Some (EAf i f) | _, _ => None end
      | 5%nat, [a; b; OInt v] => match nat_of a, nat_of b with Some f, Some h => Some (ERs f h v) | _, _ => None end
      | 6%nat, [] => Some EOr
      | 7%nat, [a; k; b] =>
          match nat_of a, nat_of k, nat_of b with
          | Some i, Some kc, Some l => match rkind_of_code kc with Some rk => Some (ERun i rk l) | None => None end
          | _, _, _ => None
          end
      | 8%nat, [a; b; OInt v] =>
          match nat_of a, nat_of b with
          | Some i, Some k => match ended_of k v with Some e => Some (EEnd i e) | None => None end
          | _, _ => None
          end
      | 9%nat, [a] => match nat_of a with Some i => Some (ELog i) | None => None end
      | 10%nat, [a] => match nat_of a with Some f => Some (ELogd f) | None => None end
      | 12%nat, [OInt t] => Some (EIt t)
      | 13%nat, [OInt t] => Some (EAdv t)
      | _, _ => None
      end
  | _ => None
  end.

Fixpoint evs_of (l : list obs) : option (list ev) :=
  match l with
  | [] => Some []
  | o :: l' =>
      match ev_of o, evs_of l' with
      | Some e, Some es => Some (e :: es)
      | _, _ => None
      end
  end.

Definition result_of (o : obs) : option sync_result :=
  match o with
  | OList [OTag t; OInt v] => if t =? "ret" then Some (RRet (Some v)) else if t =? "exc" then Some (RExc (XUser v)) else None
  | OTag t =>
      if t =? "retnone" then Some (RRet None) else if t =? "badyield" then Some (RExc XBadYield)
      else if t =? "invalidstate" then Some (RExc XInvalidState) else if t =? "timeout" then Some RTimeout
      else if t =? "stopped" then Some RStopped else if t =? "idle" then Some RIdle else None
  | _ => None
  end.

Definition fin_of_obs (o : obs) : option fin :=
  match o with
  | OTag t =>
      if t =? "pending" then Some FinPending else if t =? "ok" then Some FinOk else if t =? "exc" then Some FinExc
      else if t =? "cancelled" then Some FinCancelled else if t =? "-" then Some FinNA else None
  | _ => None
  end.

(* ------------------------------------------------------------------ *)
(* the property on an observed trace (never calls the model) *)
Definition check_prog (tr : list ev) : bool :=
  chk_struct false tr && chk_cb true tr && chk_to true tr && chk_fut true tr && chk_log false true tr.

Definition check_sync (timeout : option Z) (r : sync_result) (fs : fin) (tr : list ev) : bool :=
  let idle := match r with RIdle => true | _ => false end in
  chk_struct true tr && chk_cb idle tr && chk_to idle tr && chk_fut idle tr && chk_log true idle tr
  && sync_ok timeout tr r fs.

Definition check_case (c : c38_input) (o : obs) : bool :=
  match c, o with
  | IProg _, OList [OTag e; OList l] =>
      (e =? "idle") && match evs_of l with Some tr => check_prog tr | None => false end
  | ISync _ timeout, OList [OList [ro; fo]; OList l] =>
      match result_of ro, fin_of_obs fo, evs_of l with
      | Some r, Some fs, Some tr => check_sync timeout r fs tr
      | _, _, _ => false
      end
  | IThreads _ _ _, OList [OTag t; OBool once; OBool order; OBool delivered] =>
      (t =? "threads") && once && order && delivered
  | _, _ => false
  end.
