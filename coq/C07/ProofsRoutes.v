(* C07 — routes 2 (own HTTPHeaders + write_headers) and 3 (WSGIContainer): what write_headers
   guarantees on its own, without RequestHandler's validation in front of it. *)
From Coq Require Import String.
From Coq Require Import List NArith Bool Lia Arith.
Import ListNotations.
From TV Require Import Lib.Obs Lib.C21_Utf8 C06.Model C06.ProofsBase C07.PyTables C07.Model C07.Run
  C07.ProofsBase C07.ProofsInv C07.Proofs.
Local Open Scope N_scope.

Lemma existsb_false_forall : forall {A} (f : A -> bool) l, existsb f l = false -> forall x, In x l -> f x = false.
Proof.
  intros A f l H x Hx. destruct (f x) eqn:E; [|reflexivity].
  assert (existsb f l = true) by (apply existsb_exists; eauto). congruence.
Qed.
Lemma has_cr_lf_no_lf : forall l, has_cr_lf l = false -> no_lf l.
Proof.
  intros l H. apply Forall_forall. intros c Hc Ec. subst c.
  pose proof (existsb_false_forall _ _ H 10 Hc) as F. discriminate.
Qed.

(* ---------- a CR or LF in the reason is refused (what seeded/C07_1 breaks) ---------- *)
Lemma utf8_encode_In_ascii : forall s b c, c < 128 -> In c s -> utf8_encode s = Some b -> In c b.
Proof.
  induction s as [|x s IH]; intros b c Hc Hin He; [contradiction|].
  cbn [utf8_encode] in He.
  destruct (utf8_enc1 x) as [a|] eqn:E1; [|discriminate].
  destruct (utf8_encode s) as [b'|] eqn:E2; [|discriminate].
  assert (b = a ++ b') by congruence. subst b. apply in_or_app.
  destruct Hin as [->|Hin].
  - left. rewrite (enc1_1 c Hc) in E1. assert (a = [c]) by congruence. subst a. left; reflexivity.
  - right. eapply IH; eauto.
Qed.
(* any character outside [\t\x20-\x7e\x80-\xff] in the reason is refused: CR, LF, NUL, ... *)
Lemma write_headers_rejects_unsafe_reason : forall x c rsn h ch,
  In ch rsn -> valid_hchar ch = false -> exists e, write_headers x c rsn h = inl e.
Proof.
  intros x c rsn h ch Hin Hch.
  destruct (write_headers x c rsn h) as [e|[[w nz] h']] eqn:W; [eauto|].
  exfalso. apply write_headers_shape in W as (start & _ & _ & _ & _ & V & _).
  eapply forallb_forall in V; eauto. congruence.
Qed.
(* ... and so is any such character in a stored header value (other than a Connection or
   Transfer-Encoding value, which write_headers may overwrite itself) *)
Lemma write_headers_rejects_unsafe_value : forall x c rsn h k v ch,
  In (k, v) (pairs_of h) -> text_eqb k_te k = false -> text_eqb k_conn k = false ->
  In ch v -> valid_hchar ch = false ->
  exists e, write_headers x c rsn h = inl e.
Proof.
  intros x c rsn h k v ch Hk Hne1 Hne2 Hch Hbad.
  destruct (write_headers x c rsn h) as [e|[[w nz] h']] eqn:W; [eauto|].
  exfalso. apply write_headers_shape in W as (start & _ & _ & Cl & _ & _ & Eh).
  assert (Hin : In (k, v) (pairs_of h')).
  { rewrite Eh. apply apply_sets_other; auto. intros kv Hkv.
    destruct (framing_sets_spec x c h) as (Inc & _). apply Inc in Hkv. unfold framing_pairs in Hkv.
    destruct Hkv as [<-|[<-|[<-|[]]]]; cbn [fst]; rewrite ?norm_conn, ?norm_te; auto. }
  cbn [forallb] in Cl. apply andb_true_iff in Cl as [_ Cl].
  eapply forallb_forall in Cl; [|apply in_map; exact Hin].
  rewrite header_line_eq in Cl. unfold clean_line in Cl.
  destruct (k ++ c_colon :: c_sp :: v) eqn:E; [discriminate|]. rewrite <- E in Cl.
  rewrite forallb_app in Cl. apply andb_true_iff in Cl as [_ Cl]. cbn [forallb] in Cl.
  apply andb_true_iff in Cl as [_ Cl]. apply andb_true_iff in Cl as [_ Cl].
  eapply forallb_forall in Cl; eauto. congruence.
Qed.

(* ---------- route 2 ---------- *)
Lemma build_prov : forall hs h rs h' A, build hs h = (rs, h') ->
  Forall (fun kv => In (header_line kv) A) (pairs_of h) ->
  Forall (fun kv => In (header_line kv) (A ++ raw_lines hs rs)) (pairs_of h') /\
  (length (pairs_of h') <= length (pairs_of h) + length (raw_lines hs rs))%nat /\
  length rs = length hs.
Proof.
  induction hs as [|o hs IH]; intros h rs h' A H HA.
  - inversion H; subst. cbn [raw_lines]. rewrite app_nil_r. repeat split; auto. lia.
  - destruct o as [n v|n v]; cbn [build] in H.
    + destruct (build hs (h_set n v h)) as [rs1 h1] eqn:B. inversion H; subst rs h'.
      assert (HA1 : Forall (fun kv => In (header_line kv) (A ++ [pair_line (n, v)])) (pairs_of (h_set n v h))).
      { unfold h_set. apply pairs_d_set_Forall.
        - eapply Forall_impl; [|exact HA]. intros kv Hk. apply in_or_app; auto.
        - cbn [map]. constructor; [|constructor]. apply in_or_app. right. left. reflexivity. }
      destruct (IH _ _ _ _ B HA1) as (I1 & I2 & I3).
      cbn [raw_lines hop_line]. rewrite <- app_assoc in I1. repeat split; auto.
      * pose proof (pairs_d_set_len (normalize_u n) [v] h). unfold h_set in I2.
        rewrite app_length. simpl in *. lia.
      * simpl. congruence.
    + destruct (h_add n v h) as [x h1] eqn:Ha. destruct (build hs h1) as [rs1 h2] eqn:B.
      inversion H; subst rs h'. destruct x as [|e].
      * apply h_add_ok in Ha as (T & HF & HL & _).
        assert (HA1 : Forall (fun kv => In (header_line kv) (A ++ [pair_line (n, v)])) (pairs_of h1)).
        { apply HF.
          - eapply Forall_impl; [|exact HA]. intros kv Hk. apply in_or_app; auto.
          - apply in_or_app. right. left. reflexivity. }
        destruct (IH _ _ _ _ B HA1) as (I1 & I2 & I3).
        cbn [raw_lines hop_line]. rewrite <- app_assoc in I1. repeat split; auto.
        -- rewrite app_length. simpl. lia.
        -- simpl. congruence.
      * apply h_add_err in Ha. subst h1.
        destruct (IH _ _ _ _ B HA) as (I1 & I2 & I3).
        cbn [raw_lines hop_line app]. repeat split; auto. simpl. congruence.
Qed.

Theorem raw_block_exact : forall x c rsn hs rs fin w,
  run_raw x c rsn hs = (rs, fin, w) ->
  length rs = length hs /\ (fin = Ok \/ w = []) /\
  (w <> [] ->
   exists start hls,
     status_line c rsn = Some start /\
     w = join CRLF (start :: hls) ++ CRLF ++ CRLF /\
     strict_parse w = Some (start, hls) /\
     forallb well_formed_header hls = true /\
     Forall (fun l => In l (header_line (k_te, v_chunked) :: conn_lines ++ raw_lines hs rs)) hls /\
     (length hls <= 2 + length (raw_lines hs rs))%nat).
Proof.
  intros x c rsn hs rs fin w H. unfold run_raw in H.
  destruct (build hs []) as [rs0 h] eqn:B.
  destruct (build_prov hs [] rs0 h [] B (Forall_nil _)) as (P1 & P2 & P3). cbn [app] in P1.
  destruct (write_headers x c rsn h) as [e|[[w0 nz] h']] eqn:W; inversion H; subst rs fin w; clear H.
  { repeat split; auto. intro X; contradiction. }
  split; [exact P3|]. split; [left; reflexivity|]. intros _.
  apply write_headers_shape in W as (start & Hs & Ew & Cl & Wf & _ & Eh).
  destruct (framing_step (fun kv => In (header_line kv) (header_line (k_te, v_chunked) :: conn_lines ++ raw_lines hs rs0)) x c h)
    as (Q1 & Q2 & _).
  { eapply Forall_impl; [|exact P1]. intros kv Hk. right. apply in_or_app. right. exact Hk. }
  { right. apply in_or_app. left. left. reflexivity. }
  { right. apply in_or_app. left. right. left. reflexivity. }
  { left. reflexivity. }
  rewrite <- Eh in *.
  exists start, (map header_line (pairs_of h')). rewrite join_block.
  split; [exact Hs|]. split; [exact Ew|]. split; [rewrite Ew; apply strict_parse_block; exact Cl|].
  split; [exact Wf|]. split.
  - apply Forall_forall. intros l Hl. apply in_map_iff in Hl as (kv & <- & Hkv).
    eapply Forall_forall in Q1; eauto.
  - rewrite map_length. simpl in *. lia.
Qed.

(* ---------- route 3 ---------- *)
Definition WP (allowed : list text) (kv : text * text) : Prop :=
  In (header_line kv) allowed /\ forallb valid_hchar (snd kv) = true.

Lemma h_add_ok_value : forall n x h h', h_add n x h = (Ok, h') -> forallb valid_hchar x = true.
Proof.
  intros n x h h' H. unfold h_add in H.
  destruct (negb (is_token n)); [discriminate|].
  destruct (is_field_value x) eqn:F; cbn [negb] in H; [|discriminate].
  unfold is_field_value in F. apply andb_true_iff in F as [F _]. apply andb_true_iff in F as [F _].
  rewrite <- F. apply forallb_ext_eq. intro y. symmetry. apply fv_char_valid.
Qed.

Lemma add_all_prov : forall allowed ps h h', add_all ps h = Some h' ->
  Forall (WP allowed) (pairs_of h) ->
  (forall kv, In kv ps -> In (pair_line kv) allowed) ->
  Forall (WP allowed) (pairs_of h') /\ (length (pairs_of h') <= length (pairs_of h) + length ps)%nat.
Proof.
  intros allowed ps. induction ps as [|[n v] ps IH]; intros h h' H Hh Hal.
  - inversion H; subst. split; auto. simpl. lia.
  - cbn [add_all] in H. destruct (h_add n v h) as [[|e] h1] eqn:Ha; [|discriminate].
    pose proof (h_add_ok_value _ _ _ _ Ha) as Vv.
    apply h_add_ok in Ha as (_ & HF & HL & _).
    assert (H1 : Forall (WP allowed) (pairs_of h1)).
    { apply HF; auto. split; [|exact Vv]. apply (Hal (n, v)). left; reflexivity. }
    destruct (IH _ _ H H1) as [I1 I2]. { intros kv Hk. apply Hal. right; exact Hk. }
    split; auto. simpl. lia.
Qed.

Lemma wsgi_headers_shape : forall server c hs,
  exists X, wsgi_headers server c hs = hs ++ X /\
            incl X [(k_clen, dec 0); (k_ctype, v_ctype); (k_server, server)] /\ (length X <= 3)%nat.
Proof.
  intros server c hs. unfold wsgi_headers.
  set (names := map (fun kv : text * text => lower_u (fst kv)) hs).
  destruct (c =? 304); destruct (mem_text (t "content-length") names);
    destruct (mem_text (t "content-type") names); destruct (mem_text (t "server") names);
    rewrite <- ?app_assoc; cbn [app];
    try (exists []; rewrite app_nil_r; split; [reflexivity|split; [apply incl_nil_l|simpl; lia]]);
    (eexists; split; [reflexivity|split; [|simpl; lia]]);
    intros x Hx; simpl in Hx; simpl; tauto.
Qed.

Theorem wsgi_block_exact : forall env x status hs w,
  run_wsgi x (fst env) status hs = w -> w <> [] ->
  exists cs rsn c start hls,
    split_sp status = Some (cs, rsn) /\ py_int cs = Some c /\
    status_line c rsn = Some start /\
    w = join CRLF (start :: hls) ++ CRLF ++ CRLF /\
    strict_parse w = Some (start, hls) /\
    forallb well_formed_header hls = true /\
    Forall (fun l => In l (wsgi_consts env ++ map pair_line hs)) hls /\
    (length hls <= 5 + length hs)%nat.
Proof.
  intros env x status hs w H Hne. unfold run_wsgi in H.
  destruct (split_sp status) as [[cs rsn]|] eqn:Sp; [|congruence].
  destruct (py_int cs) as [c|] eqn:Pi; [|congruence].
  set (allowed := wsgi_consts env ++ map pair_line hs).
  destruct (wsgi_headers_shape (fst env) c hs) as (X & EX & IX & LX).
  destruct (add_all (wsgi_headers (fst env) c hs) []) as [h|] eqn:Aa; [|congruence].
  destruct (add_all_prov allowed _ _ _ Aa (Forall_nil _)) as [A1 A2].
  { intros kv Hk. rewrite EX in Hk. unfold allowed. apply in_or_app.
    apply in_app_or in Hk as [Hk|Hk].
    - right. apply in_map. exact Hk.
    - left. apply IX in Hk. unfold wsgi_consts, pair_line.
      destruct Hk as [<-|[<-|[<-|[]]]]; cbn [fst snd].
      + rewrite norm_clen. right; left; reflexivity.
      + rewrite norm_ctype. right; right; left; reflexivity.
      + rewrite norm_server. right; right; right; left; reflexivity. }
  destruct (write_headers x c rsn h) as [e|[[w0 nz] h']] eqn:W; [congruence|]. subst w0.
  apply write_headers_shape in W as (start & Hs & Ew & Cl & Wf & _ & Eh).
  assert (CI : forall l, In l (wsgi_consts env) -> In l allowed).
  { intros l Hl. unfold allowed. apply in_or_app. left. exact Hl. }
  destruct (framing_step (WP allowed) x c h A1) as (Q1 & Q2 & _).
  { split; [|vm_compute; reflexivity]. apply CI. unfold wsgi_consts, conn_lines. simpl. tauto. }
  { split; [|vm_compute; reflexivity]. apply CI. unfold wsgi_consts, conn_lines. simpl. tauto. }
  { split; [|vm_compute; reflexivity]. apply CI. unfold wsgi_consts, conn_lines. simpl. tauto. }
  rewrite <- Eh in *.
  exists cs, rsn, c, start, (map header_line (pairs_of h')). rewrite join_block.
  split; [auto|]. split; [auto|]. split; [exact Hs|]. split; [exact Ew|].
  split; [rewrite Ew; apply strict_parse_block; exact Cl|]. split; [exact Wf|]. split.
  - apply Forall_forall. intros l Hl. apply in_map_iff in Hl as (kv & <- & Hkv).
    eapply Forall_forall in Q1; eauto. destruct Q1 as [I _]. exact I.
  - rewrite map_length. rewrite EX, app_length in A2. simpl in *. lia.
Qed.

(* ---------- the full-strength checker accepts the model on both routes ---------- *)
Lemma lines_ok_intro : forall c rsn allowed bound w start hls,
  strict_parse w = Some (start, hls) -> status_line c rsn = Some start ->
  forallb well_formed_header hls = true ->
  Forall (fun l => In l allowed) hls -> (length hls <= bound)%nat ->
  lines_ok strict_parse c rsn allowed bound w = true.
Proof.
  intros c rsn allowed bound w start hls Hp Hs Hw Hin Hl. unfold lines_ok. rewrite Hp, Hs, Hw.
  cbn [opt_text_eqb]. rewrite text_eqb_refl. cbn [andb].
  assert (X : forallb (fun l => mem_text l allowed) hls = true).
  { apply forallb_forall. intros l Hl'. eapply Forall_forall in Hin; eauto.
    unfold mem_text. apply existsb_exists. exists l. split; [exact Hin|apply text_eqb_refl]. }
  rewrite X. cbn [andb]. apply Nat.leb_le. exact Hl.
Qed.

Theorem check_raw : forall env x c rsn hs,
  check_case (env, x, Raw c rsn hs) (run_case (env, x, Raw c rsn hs)) = true.
Proof.
  intros env x c rsn hs. unfold check_case, check_gen, run_case.
  destruct (run_raw x c rsn hs) as [[rs fin] w] eqn:E.
  rewrite sequence_res.
  destruct (raw_block_exact _ _ _ _ _ _ _ E) as (L & _ & Hw). rewrite L, Nat.eqb_refl. cbn [andb].
  destruct w as [|b w'] eqn:Ew; [reflexivity|]. rewrite <- Ew in *.
  destruct Hw as (start & hls & Hs & _ & Hp & Wf & Hin & Hl); [subst w; discriminate|].
  eapply lines_ok_intro; eauto.
Qed.

Theorem check_wsgi : forall env x status hs,
  check_case (env, x, Wsgi status hs) (run_case (env, x, Wsgi status hs)) = true.
Proof.
  intros env x status hs. unfold check_case, check_gen, run_case.
  cbn [map sequence_o].
  match goal with |- context [run_wsgi ?a ?b ?c ?d] => remember (run_wsgi a b c d) as w eqn:E end. symmetry in E.
  destruct w as [|b w'] eqn:Ew; [reflexivity|]. rewrite <- Ew in *.
  assert (Hne : w <> []) by (subst w; discriminate).
  destruct (wsgi_block_exact env x status hs w E Hne)
    as (cs & rsn & c & start & hls & Sp & Pi & Hs & _ & Hp & Wf & Hin & Hl).
  rewrite Sp, Pi. eapply lines_ok_intro; eauto.
Qed.
