(* C07 — the state invariant carried through every call sequence, and what a successful
   write of the header block looks like. *)
From Coq Require Import String.
From Coq Require Import List NArith Bool Lia Arith.
Import ListNotations.
From TV Require Import Lib.C21_Utf8 C06.Model C06.ProofsBase C07.PyTables C07.Model C07.Run C07.ProofsBase.
Local Open Scope N_scope.

Definition env_ok (env : text * text) : Prop :=
  forallb valid_hchar (fst env) = true /\ forallb valid_hchar (snd env) = true.

(* constants: normalising the framework's own header names changes nothing *)
Lemma norm_te : normalize_u k_te = k_te.            Proof. vm_compute. reflexivity. Qed.
Lemma norm_conn : normalize_u k_conn = k_conn.      Proof. vm_compute. reflexivity. Qed.
Lemma norm_clen : normalize_u k_clen = k_clen.      Proof. vm_compute. reflexivity. Qed.
Lemma norm_location : normalize_u k_location = k_location. Proof. vm_compute. reflexivity. Qed.
Lemma norm_setcookie : normalize_u k_setcookie = k_setcookie. Proof. vm_compute. reflexivity. Qed.
Lemma norm_server : normalize_u k_server = k_server. Proof. vm_compute. reflexivity. Qed.
Lemma norm_ctype : normalize_u k_ctype = k_ctype.   Proof. vm_compute. reflexivity. Qed.
Lemma norm_date : normalize_u k_date = k_date.      Proof. vm_compute. reflexivity. Qed.
Lemma tok_setcookie : is_token k_setcookie = true.  Proof. vm_compute. reflexivity. Qed.

(* every standard reason phrase is header-safe *)
Lemma responses_sweep : forallb (fun kv => forallb valid_hchar (snd kv)) responses_table = true.
Proof. vm_compute. reflexivity. Qed.
Lemma assoc_In : forall {V} c (l : list (N * V)) v, assoc c l = Some v -> In (c, v) l.
Proof.
  intros V c l v. induction l as [|[k x] l IH]; intro H; [discriminate|].
  cbn [assoc] in H. destruct (c =? k) eqn:E.
  - apply N.eqb_eq in E. subst k. inversion H; subst. left; reflexivity.
  - right; auto.
Qed.
Lemma std_reason_valid : forall c, forallb valid_hchar (std_reason c) = true.
Proof.
  intro c. unfold std_reason. destruct (assoc c responses_table) as [r|] eqn:E.
  - apply assoc_In in E. pose proof responses_sweep as S.
    eapply forallb_forall in S; eauto. exact S.
  - vm_compute. reflexivity.
Qed.

Lemma forallb_ext_eq : forall {A} (f g : A -> bool) l, (forall x, f x = g x) -> forallb f l = forallb g l.
Proof. intros A f g l H. induction l as [|x l IH]; simpl; [reflexivity|]. rewrite H, IH. reflexivity. Qed.

Lemma convert_Some : forall v x, convert_header_value v = Some x ->
  x = value_text v /\ forallb valid_hchar x = true.
Proof.
  intros v x H. unfold convert_header_value in H.
  destruct (forallb valid_hchar (value_text v)) eqn:E; [|discriminate].
  inversion H; subst. auto.
Qed.

Lemma sequence_latin1 : forall ps ls,
  sequence_o (map (fun kv : text * text => latin1 (header_line kv)) ps) = Some ls ->
  ls = map header_line ps.
Proof.
  induction ps as [|kv ps IH]; intros ls H.
  - simpl in H. inversion H. reflexivity.
  - cbn [map sequence_o] in H. unfold latin1 at 1 in H.
    destruct (forallb (fun c => c <? 256) (header_line kv)); [|discriminate].
    destruct (sequence_o (map (fun kv0 : text * text => latin1 (header_line kv0)) ps)) as [r|] eqn:E;
      [|discriminate].
    inversion H; subst. cbn [map]. f_equal. apply IH. reflexivity.
Qed.

Lemma utf8_encode_cons_ascii : forall c s b, c < 128 -> utf8_encode (c :: s) = Some b ->
  exists b', b = c :: b'.
Proof.
  intros c s b Hc H. cbn [utf8_encode] in H. rewrite (enc1_1 c Hc) in H.
  destruct (utf8_encode s) as [b'|]; [|discriminate]. inversion H. eexists; reflexivity.
Qed.

Lemma d_mem_d_set_mono : forall k k' (vs : list text) h,
  d_mem k h = true -> d_mem k (d_set k' vs h) = true.
Proof.
  intros k k' vs h. unfold d_mem. induction h as [|[k2 v2] h IH]; intro H.
  - discriminate.
  - cbn [d_set]. cbn [d_get] in H. destruct (text_eqb k' k2) eqn:E; cbn [d_get].
    + destruct (text_eqb k k2); auto.
    + destruct (text_eqb k k2); auto.
Qed.

(* ---------- HTTPHeaders.add ---------- *)
Lemma h_add_err : forall n x h e h', h_add n x h = (Err e, h') -> h' = h.
Proof.
  intros n x h e h' H. unfold h_add in H.
  destruct (negb (is_token n)); [inversion H; reflexivity|].
  destruct (negb (is_field_value x)); [inversion H; reflexivity|].
  destruct (h_mem (normalize_u n) h).
  - destruct (d_get (normalize_u n) h); inversion H; reflexivity.
  - inversion H.
Qed.
Lemma h_add_ok : forall n x h h', h_add n x h = (Ok, h') ->
  is_token n = true /\
  (forall P : text * text -> Prop, Forall P (pairs_of h) -> P (normalize_u n, x) -> Forall P (pairs_of h')) /\
  (length (pairs_of h') <= S (length (pairs_of h)))%nat /\
  (forall k, d_mem k h = true -> d_mem k h' = true).
Proof.
  intros n x h h' H. unfold h_add in H.
  destruct (is_token n) eqn:T; cbn [negb] in H; [|discriminate].
  destruct (negb (is_field_value x)); [discriminate|].
  destruct (normalize_u_token n T) as (_ & _ & Idem).
  split; [reflexivity|].
  destruct (h_mem (normalize_u n) h).
  - destruct (d_get (normalize_u n) h) as [vs|] eqn:G; [|discriminate]. inversion H; subst h'.
    split; [|split].
    + intros P HP Hn. apply pairs_d_set_Forall; auto. rewrite map_app. apply Forall_app; split.
      * eapply d_get_pairs_Forall; eauto.
      * constructor; auto.
    + rewrite (pairs_d_set_append_len _ _ _ _ G). lia.
    + intros k Hk. apply d_mem_d_set_mono; exact Hk.
  - inversion H; subst h'. unfold h_set. rewrite Idem. split; [|split].
    + intros P HP Hn. apply pairs_d_set_Forall; auto. cbn [map]. constructor; auto.
    + pose proof (pairs_d_set_len (normalize_u n) [x] h). simpl in *. lia.
    + intros k Hk. apply d_mem_d_set_mono; exact Hk.
Qed.

(* ---------- the shape of anything write_headers writes ---------- *)
Lemma rsn_valid : forall rsn, match rsn with [] => true | _ => forallb is_fv_char rsn end = true ->
  forallb valid_hchar rsn = true.
Proof.
  intros rsn H. destruct rsn as [|c r]; [reflexivity|].
  rewrite <- H. apply forallb_ext_eq. intro y. symmetry. apply fv_char_valid.
Qed.
(* the header assignments write_headers makes on its own *)
Definition framing_pairs : list (text * text) := [(k_conn, v_close); (k_conn, v_keepalive); (k_te, v_chunked)].
Lemma framing_sets_spec : forall x c h0,
  incl (framing_sets x c h0) framing_pairs /\ (length (framing_sets x c h0) <= 2)%nat /\
  (h_mem k_clen h0 = true -> (length (framing_sets x c h0) <= 1)%nat).
Proof.
  intros [[|] [|] [| |]] c h0; unfold framing_sets, disconnect0, framing_pairs;
    cbn [v11 is_head rconn negb andb orb app apply_sets fold_left];
    destruct (no_body_code c); cbn [negb andb orb app apply_sets fold_left fst snd];
    repeat match goal with |- context [h_mem ?a ?b] => destruct (h_mem a b) end;
    cbn [negb andb orb app length];
    (split; [intros y Hy; simpl in Hy |- *; tauto|split; [simpl; lia|intro; try discriminate; simpl; lia]]).
Qed.
Lemma apply_sets_Forall : forall (P : text * text -> Prop) sets h,
  Forall P (pairs_of h) -> (forall kv, In kv sets -> P (normalize_u (fst kv), snd kv)) ->
  Forall P (pairs_of (apply_sets sets h)) /\
  (length (pairs_of (apply_sets sets h)) <= length (pairs_of h) + length sets)%nat.
Proof.
  intros P sets. induction sets as [|[k v] sets IH]; intros h Hh Hs.
  - split; [exact Hh|simpl; lia].
  - unfold apply_sets in *. cbn [fold_left fst snd].
    assert (H1 : Forall P (pairs_of (h_set k v h))).
    { unfold h_set. apply pairs_d_set_Forall; auto. cbn [map]. constructor; [|constructor].
      apply (Hs (k, v)). left; reflexivity. }
    destruct (IH (h_set k v h) H1) as [I1 I2]. { intros kv Hk. apply Hs. right; exact Hk. }
    split; [exact I1|]. pose proof (pairs_d_set_len (normalize_u k) [v] h) as H2. unfold h_set in *.
    cbn [length] in *. lia.
Qed.
Lemma apply_sets_other : forall sets (h : list (text * list text)) k v,
  In (k, v) (pairs_of h) -> (forall kv, In kv sets -> text_eqb (normalize_u (fst kv)) k = false) ->
  In (k, v) (pairs_of (apply_sets sets h)).
Proof.
  induction sets as [|[k' v'] sets IH]; intros h k v Hin Hne; [exact Hin|].
  unfold apply_sets in *. cbn [fold_left fst snd]. apply IH.
  - unfold h_set. clear IH. pose proof (Hne (k', v') (or_introl eq_refl)) as E. cbn [fst] in E.
    induction h as [|[k2 v2] h IHh]; [contradiction|].
    rewrite pairs_of_cons in Hin. cbn [d_set]. apply in_app_or in Hin.
    destruct (text_eqb (normalize_u k') k2) eqn:E2; rewrite pairs_of_cons; apply in_or_app.
    + destruct Hin as [Hin|Hin]; [|right; exact Hin].
      apply in_map_iff in Hin as (y & Ey & _). inversion Ey; subst. congruence.
    + destruct Hin as [Hin|Hin]; [left; exact Hin|right; apply IHh; auto].
  - intros kv Hk. apply Hne. right; exact Hk.
Qed.

Lemma write_headers_shape : forall x c rsn h0 w nz h',
  write_headers x c rsn h0 = inr (w, nz, h') ->
  exists start, status_line c rsn = Some start /\
    w = block (start :: map header_line (pairs_of h')) /\
    forallb clean_line (start :: map header_line (pairs_of h')) = true /\
    forallb well_formed_header (map header_line (pairs_of h')) = true /\
    forallb valid_hchar rsn = true /\
    h' = apply_sets (framing_sets x c h0) h0.
Proof.
  intros x c rsn h0 w nz h' H. unfold write_headers in H. unfold status_line.
  destruct (utf8_encode (t "HTTP/1.1 "%string ++ dec c ++ [c_sp] ++ rsn)) as [start|] eqn:Es; [|discriminate].
  set (h := apply_sets (framing_sets x c h0) h0) in *.
  match type of H with match ?e with _ => _ end = _ => destruct e as [ex|]; [|discriminate] end.
  match type of H with (if negb ?b then _ else _) = _ => destruct b eqn:Rs; cbn [negb] in H; [|discriminate] end.
  apply rsn_valid in Rs.
  match type of H with (if negb ?b then _ else _) = _ => destruct b eqn:Tk; cbn [negb] in H; [|discriminate] end.
  destruct (sequence_o (map (fun kv : text * text => latin1 (header_line kv)) (pairs_of h))) as [ls|] eqn:Sq;
    [|discriminate].
  destruct (existsb has_cr_lf (start :: ls)) eqn:Cr; [discriminate|].
  inversion H; subst w h'. clear H. apply sequence_latin1 in Sq. subst ls.
  assert (TkV : forall kv, In kv (pairs_of h) -> is_token (fst kv) = true /\ forallb valid_hchar (snd kv) = true).
  { intros kv Hkv. eapply forallb_forall in Tk; eauto. apply andb_true_iff in Tk. exact Tk. }
  assert (Hstart : clean_line start = true).
  { assert (V : forallb valid_hchar start = true).
    { eapply utf8_encode_valid; [|exact Es]. rewrite !forallb_app. rewrite dec_valid, Rs.
      vm_compute. reflexivity. }
    change (t "HTTP/1.1 "%string ++ dec c ++ [c_sp] ++ rsn) with (72 :: (t "TTP/1.1 "%string ++ dec c ++ [c_sp] ++ rsn)) in Es.
    apply utf8_encode_cons_ascii in Es as [b' Eb]; [|lia]. subst start. exact V. }
  exists start. split; [reflexivity|]. split; [apply join_block|]. split; [|split; [|split; [exact Rs|reflexivity]]].
  - cbn [forallb]. rewrite Hstart. cbn [andb]. apply forallb_forall. intros l Hl.
    apply in_map_iff in Hl as ([k v] & <- & Hkv). destruct (TkV _ Hkv) as [T V].
    apply header_line_clean; auto.
  - apply forallb_forall. intros l Hl. apply in_map_iff in Hl as ([k v] & <- & Hkv).
    destruct (TkV _ Hkv) as [T V]. apply header_line_wf. exact T.
Qed.

(* a framing pair satisfies P as soon as the three constants do *)
Lemma framing_step : forall (P : text * text -> Prop) x c h0,
  Forall P (pairs_of h0) -> P (k_conn, v_close) -> P (k_conn, v_keepalive) -> P (k_te, v_chunked) ->
  let h' := apply_sets (framing_sets x c h0) h0 in
  Forall P (pairs_of h') /\
  (length (pairs_of h') <= length (pairs_of h0) + 2)%nat /\
  (h_mem k_clen h0 = true -> (length (pairs_of h') <= length (pairs_of h0) + 1)%nat).
Proof.
  intros P x c h0 Hh P1 P2 P3 h'. destruct (framing_sets_spec x c h0) as (Inc & L2 & L1).
  destruct (apply_sets_Forall P (framing_sets x c h0) h0 Hh) as [F Ln].
  { intros kv Hk. apply Inc in Hk. unfold framing_pairs in Hk.
    destruct Hk as [<-|[<-|[<-|[]]]]; cbn [fst snd]; rewrite ?norm_conn, ?norm_te; auto. }
  split; [exact F|]. split; [unfold h'; lia|]. intro M. specialize (L1 M). unfold h'. lia.
Qed.

Section Inv.
  Variable env : text * text.
  Hypothesis Henv : env_ok env.
  Variable cx : ctx.

  Definition base : list text := default_lines env ++ framing_lines.

  (* a stored (name, value) pair: the value is header-safe and the line is accounted for *)
  Definition HP (A : list text) (kv : text * text) : Prop :=
    forallb valid_hchar (snd kv) = true /\ In (header_line kv) (base ++ A).
  Definition CP (A : list text) (nm : text * morsel) : Prop :=
    In (header_line (k_setcookie, output_string (snd nm))) A.

  Record Pre (A : list text) (C : list N) (R : list text) (s : st) : Prop := mkPre {
    p_hdrs : Forall (HP A) (pairs_of (hdrs s));
    p_cook : Forall (CP A) (cookies s);
    p_code : In (code s) C;
    p_reason : In (reason s) R;
    p_unk : In (t "Unknown"%string) R;
    p_rclean : forallb valid_hchar (reason s) = true;
    p_len : (length (pairs_of (hdrs s)) + length (cookies s) <= 3 + length A)%nat }.

  Definition good_wire (A : list text) (C : list N) (R : list text) (w : text) : Prop :=
    exists sl hls,
      w = block (sl :: hls) /\
      forallb clean_line (sl :: hls) = true /\
      (exists c r, In c C /\ In r R /\ status_line c r = Some sl) /\
      forallb well_formed_header hls = true /\
      Forall (fun l => In l (base ++ A)) hls /\
      (length hls <= 5 + length A)%nat.

  Definition Inv (A : list text) (C : list N) (R : list text) (s : st) : Prop :=
    (written s = false -> wire s = [] /\ Pre A C R s) /\
    (wire s = [] \/ good_wire A C R (wire s)).

  (* ---------- monotonicity ---------- *)
  Lemma HP_mono : forall A X kv, HP A kv -> HP (A ++ X) kv.
  Proof.
    intros A X kv [H1 H2]. split; auto. rewrite app_assoc. apply in_or_app. left. exact H2.
  Qed.
  Lemma Pre_mono : forall A C R s X Y Z, Pre A C R s -> Pre (A ++ X) (C ++ Y) (R ++ Z) s.
  Proof.
    intros A C R s X Y Z [H1 H2 H3 H4 H5 H6 H7]. constructor; auto.
    - eapply Forall_impl; [|exact H1]. intros kv. apply HP_mono.
    - eapply Forall_impl; [|exact H2]. intros nm H. unfold CP in *. apply in_or_app. left. exact H.
    - apply in_or_app; auto.
    - apply in_or_app; auto.
    - apply in_or_app; auto.
    - rewrite app_length. lia.
  Qed.
  Lemma good_wire_mono : forall A C R w X Y Z, good_wire A C R w -> good_wire (A ++ X) (C ++ Y) (R ++ Z) w.
  Proof.
    intros A C R w X Y Z (sl & hls & E & Hc & (c & r & Hc1 & Hr1 & Hs) & Hw & Hin & Hl).
    exists sl, hls. repeat split; auto.
    - exists c, r. repeat split; auto; apply in_or_app; auto.
    - eapply Forall_impl; [|exact Hin]. intros l H. rewrite app_assoc. apply in_or_app. auto.
    - rewrite app_length. lia.
  Qed.
  Lemma Inv_mono : forall A C R s X Y Z, Inv A C R s -> Inv (A ++ X) (C ++ Y) (R ++ Z) s.
  Proof.
    intros A C R s X Y Z [H1 H2]. split.
    - intro W. destruct (H1 W) as [E P]. split; auto. apply Pre_mono; exact P.
    - destruct H2 as [E|G]; [left; exact E|right; apply good_wire_mono; exact G].
  Qed.

  (* ---------- the initial state ---------- *)
  Lemma init_pairs : pairs_of (hdrs (init env)) = [(k_server, fst env); (k_ctype, v_ctype); (k_date, snd env)].
  Proof.
    cbn [init hdrs]. unfold h_set. rewrite norm_server, norm_ctype, norm_date.
    assert (Hs : text_eqb k_ctype k_server = false) by (vm_compute; reflexivity).
    assert (Hd1 : text_eqb k_date k_server = false) by (vm_compute; reflexivity).
    assert (Hd2 : text_eqb k_date k_ctype = false) by (vm_compute; reflexivity).
    cbn [d_set]. rewrite Hs. cbn [d_set]. rewrite Hd1, Hd2. reflexivity.
  Qed.
  Lemma init_pre : Pre [] [200] [t "OK"%string; t "Unknown"%string] (init env).
  Proof.
    destruct Henv as [E1 E2].
    constructor; rewrite ?init_pairs; cbn [init cookies code reason].
    - assert (D : forall l, In l (default_lines env) -> In l (base ++ [])).
      { intros l Hl. apply in_or_app. left. unfold base. apply in_or_app. left. exact Hl. }
      unfold HP. constructor; [|constructor; [|constructor; [|constructor]]]; cbn [snd]; split; auto;
        try (apply D; unfold default_lines; cbn [In]; auto 6).
    - constructor.
    - left; reflexivity.
    - left; reflexivity.
    - right; left; reflexivity.
    - vm_compute. reflexivity.
    - simpl. lia.
  Qed.
  Lemma init_inv : Inv [] [200] [t "OK"%string; t "Unknown"%string] (init env).
  Proof. split; [intros _; split; [reflexivity|apply init_pre]|left; reflexivity]. Qed.

  (* ---------- set_header / add_header ---------- *)
  Lemma set_header_pre : forall A C R n v s r s', set_header n v s = (r, s') -> Pre A C R s ->
    Pre (A ++ entitled (SetHeader n v) r) C R s' /\ written s' = written s /\ wire s' = wire s.
  Proof.
    intros A C R n v s r s' H P. unfold set_header in H.
    destruct (convert_header_value v) as [x|] eqn:Cv.
    - destruct n as [nt|nb].
      + inversion H; subst r s'. clear H. apply convert_Some in Cv as [Ex Vx].
        cbn [entitled with_hdrs written wire]. split; [|split; reflexivity].
        destruct P as [H1 H2 H3 H4 H5 H6 H7]. constructor; cbn [with_hdrs hdrs cookies code reason]; auto.
        * unfold h_set. apply pairs_d_set_Forall.
          -- eapply Forall_impl; [|exact H1]. intro kv. apply HP_mono.
          -- cbn [map]. constructor; [|constructor]. split; [exact Vx|].
             subst x. apply in_or_app. right. apply in_or_app. right. left. reflexivity.
        * eapply Forall_impl; [|exact H2]. intros nm Hc. unfold CP in *. apply in_or_app; auto.
        * unfold h_set. pose proof (pairs_d_set_len (normalize_u nt) [x] (hdrs s)).
          rewrite app_length. simpl in *. lia.
      + inversion H; subst r s'. cbn [entitled]. rewrite app_nil_r. auto.
    - inversion H; subst r s'. destruct n; cbn [entitled]; rewrite app_nil_r; auto.
  Qed.

  Lemma add_header_pre : forall A C R n v s r s', add_header n v s = (r, s') -> Pre A C R s ->
    Pre (A ++ entitled (AddHeader n v) r) C R s' /\ written s' = written s /\ wire s' = wire s.
  Proof.
    intros A C R n v s r s' H P. unfold add_header in H.
    destruct (convert_header_value v) as [x|] eqn:Cv.
    - destruct n as [nt|nb].
      + destruct (h_add nt x (hdrs s)) as [r0 h] eqn:Ha. inversion H; subst r0 s'. clear H.
        destruct r as [|e].
        * apply h_add_ok in Ha as (T & HF & HL & _). apply convert_Some in Cv as [Ex Vx].
          cbn [entitled with_hdrs written wire]. split; [|split; reflexivity].
          destruct P as [H1 H2 H3 H4 H5 H6 H7]. constructor; cbn [with_hdrs hdrs cookies code reason]; auto.
          -- apply HF.
             ++ eapply Forall_impl; [|exact H1]. intro kv. apply HP_mono.
             ++ split; [exact Vx|]. subst x. apply in_or_app. right. apply in_or_app. right. left. reflexivity.
          -- eapply Forall_impl; [|exact H2]. intros nm Hc. unfold CP in *. apply in_or_app; auto.
          -- rewrite app_length. simpl. lia.
        * apply h_add_err in Ha. subst h. cbn [entitled]. rewrite app_nil_r.
          destruct s as [c0 r0 h0 ck0 w0 wi0]; cbn [with_hdrs hdrs code reason cookies written wire] in *. auto.
      + inversion H; subst r s'. cbn [entitled]. rewrite app_nil_r. auto.
    - inversion H; subst r s'. destruct n; cbn [entitled]; rewrite app_nil_r; auto.
  Qed.

  Lemma set_header_num_pre : forall A C R n v s r s', set_header_num n v s = (r, s') -> Pre A C R s ->
    Pre (A ++ entitled (SetHeaderNum n v) r) C R s' /\ written s' = written s /\ wire s' = wire s.
  Proof.
    intros A C R n v s r s' H P. unfold set_header_num in H. destruct n as [nt|nb].
    - inversion H; subst r s'. clear H. cbn [entitled with_hdrs written wire]. split; [|split; reflexivity].
      destruct P as [H1 H2 H3 H4 H5 H6 H7]. constructor; cbn [with_hdrs hdrs cookies code reason]; auto.
      + unfold h_set. apply pairs_d_set_Forall.
        * eapply Forall_impl; [|exact H1]. intro kv. apply HP_mono.
        * cbn [map]. constructor; [|constructor]. split; [apply dec_valid|].
          apply in_or_app. right. apply in_or_app. right. left. reflexivity.
      + eapply Forall_impl; [|exact H2]. intros nm Hc. unfold CP in *. apply in_or_app; auto.
      + unfold h_set. pose proof (pairs_d_set_len (normalize_u nt) [dec v] (hdrs s)).
        rewrite app_length. simpl in *. lia.
    - inversion H; subst r s'. cbn [entitled]. rewrite app_nil_r. auto.
  Qed.
  Lemma clear_header_pre : forall A C R n s r s', clear_header n s = (r, s') -> Pre A C R s ->
    Pre (A ++ entitled (ClearHeader n) r) C R s' /\ written s' = written s /\ wire s' = wire s.
  Proof.
    intros A C R n s r s' H P. unfold clear_header in H. cbn [entitled]. rewrite app_nil_r.
    destruct n as [nt|nb]; inversion H; subst r s'; auto.
    destruct (h_mem nt (hdrs s)); auto. cbn [with_hdrs written wire]. split; [|split; reflexivity].
    destruct P as [H1 H2 H3 H4 H5 H6 H7]. constructor; cbn [with_hdrs hdrs cookies code reason]; auto.
    - apply pairs_d_del_Forall. exact H1.
    - pose proof (pairs_d_del_len (normalize_u nt) (hdrs s)). lia.
  Qed.

  (* ---------- set_status ---------- *)
  Lemma set_status_pre : forall A C R c rr s r s', set_status c rr s = (r, s') -> Pre A C R s ->
    Pre A (C ++ codes_of (SetStatus c rr)) (R ++ reasons_of (SetStatus c rr)) s'
    /\ written s' = written s /\ wire s' = wire s.
  Proof.
    intros A C R c rr s r s' H [H1 H2 H3 H4 H5 H6 H7]. unfold set_status in H.
    assert (Hc : In c (C ++ codes_of (SetStatus c rr))).
    { apply in_or_app. right. left. reflexivity. }
    destruct rr as [[x|b]|]; inversion H; subst r s'; clear H; cbn [written wire];
      (split; [|split; reflexivity]).
    - destruct (existsb (N.eqb 60) x || negb (is_reason_phrase x)) eqn:E;
        constructor; cbn [hdrs cookies code reason]; auto; try (apply in_or_app; auto; fail).
      + apply in_or_app. right. left. reflexivity.
      + apply orb_false_iff in E as [_ E]. apply negb_false_iff in E.
        unfold is_reason_phrase in E. destruct x; [discriminate|].
        rewrite <- E. apply forallb_ext_eq. intro y. symmetry. apply fv_char_valid.
    - constructor; cbn [hdrs cookies code reason]; auto; apply in_or_app; auto.
    - constructor; cbn [hdrs cookies code reason]; auto; try (apply in_or_app; auto; fail).
      + apply in_or_app. right. left. reflexivity.
      + apply std_reason_valid.
  Qed.

  (* ---------- set_cookie ---------- *)
  Lemma check_attr_clean : forall a, check_attr a = Ok -> attr_clean a = true.
  Proof.
    intros [[x|b]|] H; cbn [check_attr attr_clean] in *; auto; try discriminate.
    destruct (existsb cookie_attr_bad x); [discriminate|reflexivity].
  Qed.
  Lemma set_cookie_pre : forall A C R n v d p ss fl s r s', set_cookie n v d p ss fl s = (r, s') -> Pre A C R s ->
    Pre (A ++ entitled (SetCookie n v d p ss fl) r) C R s' /\ written s' = written s /\ wire s' = wire s.
  Proof.
    intros A C R n v d p ss fl s r s' H P. unfold set_cookie in H.
    assert (Same : forall e, Pre (A ++ entitled (SetCookie n v d p ss fl) (Err e)) C R s /\ written s = written s /\ wire s = wire s).
    { intro e. cbn [entitled]. rewrite app_nil_r. auto. }
    destruct (native_str n) as [name|] eqn:En; [|inversion H; subst; apply Same].
    destruct (native_str v) as [value|] eqn:Ev; [|inversion H; subst; apply Same].
    destruct (existsb cookie_value_bad value) eqn:B1; [inversion H; subst; apply Same|].
    destruct (existsb cookie_attr_bad name) eqn:B2; [inversion H; subst; apply Same|].
    destruct (check_attr d) eqn:K1; [|inversion H; subst; apply Same].
    destruct (check_attr p) eqn:K2; [|inversion H; subst; apply Same].
    destruct (check_attr ss) eqn:K3; [|inversion H; subst; apply Same].
    apply check_attr_clean in K1, K2, K3.
    destruct (negb (morsel_key_ok name)); [inversion H; subst; apply Same|].
    set (m := mkMorsel name (cookie_quote value) (attr_val d) (attr_val p) (attr_val ss) fl) in *.
    destruct P as [H1 H2 H3 H4 H5 H6 H7].
    destruct (forallb valid_hchar (output_string m)).
    - inversion H; subst r s'. clear H Same. cbn [entitled written wire]. rewrite En, Ev.
      rewrite B1, B2, K1, K2, K3. cbn [negb andb].
      split; [|split; reflexivity].
      constructor; cbn [hdrs cookies code reason]; auto.
      + eapply Forall_impl; [|exact H1]. intro kv. apply HP_mono.
      + apply Forall_app; split.
        * apply Forall_d_del. eapply Forall_impl; [|exact H2]. intros nm Hc. unfold CP in *. apply in_or_app; auto.
        * constructor; [|constructor]. unfold CP. cbn [snd]. apply in_or_app. right. left. reflexivity.
      + rewrite !app_length. pose proof (d_del_len name (cookies s)). simpl. lia.
    - inversion H; subst r s'. clear H Same. cbn [entitled written wire]. rewrite app_nil_r.
      split; [|split; reflexivity].
      constructor; cbn [hdrs cookies code reason]; auto.
      + destruct (d_get name (cookies s)) as [prev|] eqn:G.
        * apply Forall_app; split; [apply Forall_d_del; exact H2|].
          constructor; [|constructor]. apply d_get_In in G.
          eapply Forall_forall in H2; eauto.
        * apply Forall_d_del; exact H2.
      + destruct (d_get name (cookies s)) as [prev|] eqn:G.
        * rewrite app_length. pose proof (d_del_len_get name (cookies s) prev G). simpl. lia.
        * pose proof (d_del_len name (cookies s)). lia.
  Qed.

  (* ---------- flush: cookies, then write_headers ---------- *)
  Lemma add_cookies_ok : forall A cs h h', add_cookies cs h = (Ok, h') ->
    Forall (CP A) cs -> Forall (HP A) (pairs_of h) ->
    Forall (HP A) (pairs_of h') /\ (length (pairs_of h') <= length (pairs_of h) + length cs)%nat /\
    (forall k, d_mem k h = true -> d_mem k h' = true).
  Proof.
    intros A cs. induction cs as [|[nm m] cs IH]; intros h h' H Hc Hh.
    - inversion H; subst. repeat split; auto. simpl. lia.
    - cbn [add_cookies] in H. inversion Hc as [|? ? Hc1 Hc2]; subst.
      destruct (convert_header_value (Str (output_string m))) as [x|] eqn:Cv; [|discriminate].
      apply convert_Some in Cv as [Ex Vx]. cbn [value_text] in Ex.
      destruct (h_add k_setcookie x h) as [r0 h1] eqn:Ha. destruct r0; [|discriminate].
      apply h_add_ok in Ha as (_ & HF & HL & HM).
      assert (Hh1 : Forall (HP A) (pairs_of h1)).
      { apply HF; auto. rewrite norm_setcookie. split; [exact Vx|]. subst x.
        unfold CP in Hc1. cbn [snd] in Hc1. apply in_or_app. right. exact Hc1. }
      destruct (IH h1 h' H Hc2 Hh1) as (I1 & I2 & I3). repeat split; auto.
      simpl. lia.
  Qed.
  Lemma add_cookies_err : forall cs h e h', add_cookies cs h = (Err e, h') -> True.
  Proof. auto. Qed.

  Lemma write_headers_good : forall A C R c rsn h0 w nz h' n,
    write_headers cx c rsn h0 = inr (w, nz, h') ->
    Forall (HP A) (pairs_of h0) -> forallb valid_hchar rsn = true -> In c C -> In rsn R ->
    ((h_mem k_clen h0 = true /\ length (pairs_of h0) + 1 <= n) \/ (length (pairs_of h0) + 2 <= n))%nat ->
    (n <= 5 + length A)%nat ->
    good_wire A C R w.
  Proof.
    intros A C R c rsn h0 w nz h' n H Hh Hr Hc HR Hn HnA.
    apply write_headers_shape in H as (start & Hs & Ew & Cl & Wf & _ & Eh).
    assert (FL : forall l, In l framing_lines -> In l (base ++ A)).
    { intros l Hl. apply in_or_app. left. unfold base. apply in_or_app. right. exact Hl. }
    destruct (framing_step (HP A) cx c h0 Hh) as (HPh & L2 & L1).
    { split; [vm_compute; reflexivity|]. apply FL. unfold framing_lines, conn_lines. simpl. tauto. }
    { split; [vm_compute; reflexivity|]. apply FL. unfold framing_lines, conn_lines. simpl. tauto. }
    { split; [vm_compute; reflexivity|]. apply FL. unfold framing_lines, conn_lines. simpl. tauto. }
    rewrite <- Eh in *.
    assert (HLh : (length (pairs_of h') <= n)%nat).
    { destruct Hn as [[Hm Hn]|Hn]; [specialize (L1 Hm)|]; lia. }
    exists start, (map header_line (pairs_of h')).
    split; [exact Ew|]. split; [exact Cl|]. split; [exists c, rsn; auto|]. split; [exact Wf|]. split.
    - apply Forall_forall. intros l Hl. apply in_map_iff in Hl as (kv & <- & Hkv).
      eapply Forall_forall in HPh; eauto. destruct HPh as [_ I]. exact I.
    - rewrite map_length. lia.
  Qed.

  Lemma flush_good : forall A C R s r s' nz,
    flush_headers cx s = (r, s', nz) -> wire s = [] ->
    Forall (HP A) (pairs_of (hdrs s)) -> Forall (CP A) (cookies s) ->
    In (code s) C -> In (reason s) R -> forallb valid_hchar (reason s) = true ->
    ((h_mem k_clen (hdrs s) = true /\ length (pairs_of (hdrs s)) + length (cookies s) <= 4 + length A) \/
     (S (length (pairs_of (hdrs s)) + length (cookies s)) <= 4 + length A))%nat ->
    written s' = true /\
    ((r <> Ok /\ nz = false /\ wire s' = []) \/ (r = Ok /\ good_wire A C R (wire s'))).
  Proof.
    intros A C R s r s' nz H W Hh Hc Hcode Hreason Hrc Hn. unfold flush_headers in H.
    destruct (add_cookies (cookies s) (hdrs s)) as [[|e] h] eqn:Ac.
    - destruct (add_cookies_ok A _ _ _ Ac Hc Hh) as (I1 & I2 & I3).
      destruct (write_headers cx (code s) (reason s) h) as [e|[[w nz'] h']] eqn:Wh.
      + inversion H; subst. cbn [written wire]. split; auto. left. repeat split; auto. discriminate.
      + inversion H; subst. cbn [written wire]. split; auto. right. split; auto. rewrite W. cbn [app].
        eapply write_headers_good with (n := (5 + length A)%nat); eauto.
        destruct Hn as [[Hm Hl]|Hl].
        * left. split; [apply I3; exact Hm|lia].
        * right. lia.
    - inversion H; subst. cbn [written wire]. split; auto. left. repeat split; auto. discriminate.
  Qed.
End Inv.
