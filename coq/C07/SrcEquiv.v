(* C07 — the character classes and guard structure read from the source by translators/c07_src.py
   (C07/SrcGen.v, regenerated on every run) are the ones the model uses. *)
From Coq Require Import List NArith Bool Lia String.
Import ListNotations.
From TV Require Import C06.Model C06.ProofsBase C07.Model C07.Run C07.ProofsBase C07.SrcGen.
Local Open Scope N_scope.

Definition in_ranges (rs : list (N * N)) (c : N) : bool :=
  existsb (fun r => (fst r <=? c) && (c <=? snd r)) rs.

Definition byte_range : list N := map N.of_nat (seq 0 256).
Lemma in_byte_range : forall c, c < 256 -> In c byte_range.
Proof.
  intros c H. unfold byte_range. apply in_map_iff. exists (N.to_nat c). split.
  - apply N2Nat.id.
  - apply in_seq. lia.
Qed.
Lemma in_ranges_high : forall rs c, forallb (fun r => snd r <? 256) rs = true -> 256 <= c -> in_ranges rs c = false.
Proof.
  intros rs c H Hc. unfold in_ranges. induction rs as [|r rs IH]; [reflexivity|].
  cbn [forallb] in H. apply andb_true_iff in H as [H1 H2]. cbn [existsb]. rewrite (IH H2), orb_false_r.
  apply N.ltb_lt in H1. apply andb_false_iff. right. apply N.leb_gt. lia.
Qed.
(* equality of two predicates on N from a sweep of the bytes plus "false above 255" *)
Lemma class_eq : forall rs (f : N -> bool),
  forallb (fun r => snd r <? 256) rs = true ->
  (forall c, 256 <= c -> f c = false) ->
  forallb (fun c => Bool.eqb (in_ranges rs c) (f c)) byte_range = true ->
  forall c, in_ranges rs c = f c.
Proof.
  intros rs f Hr Hf Hs c. destruct (N.lt_ge_cases c 256) as [L|G].
  - eapply forallb_forall in Hs; [|apply in_byte_range; exact L]. apply eqb_prop in Hs. exact Hs.
  - rewrite (in_ranges_high _ _ Hr G), (Hf _ G). reflexivity.
Qed.

Lemma valid_hchar_high : forall c, 256 <= c -> valid_hchar c = false.
Proof.
  intros c H. destruct (valid_hchar c) eqn:E; [|reflexivity]. apply valid_hchar_spec in E. lia.
Qed.

(* RequestHandler._VALID_HEADER_CHARS = [class]* with class = the model's valid_hchar *)
Theorem src_valid_header_chars_ok :
  src_valid_header_chars_q = QStar /\ forall c, in_ranges src_valid_header_chars c = valid_hchar c.
Proof.
  split; [reflexivity|]. apply class_eq; [reflexivity|apply valid_hchar_high|vm_compute; reflexivity].
Qed.
(* http1connection._FIELD_VALUE_CHARS_RE *)
Theorem src_field_value_chars_ok :
  src_field_value_chars_q = QStar /\ forall c, in_ranges src_field_value_chars c = valid_hchar c.
Proof.
  split; [reflexivity|]. apply class_eq; [reflexivity|apply valid_hchar_high|vm_compute; reflexivity].
Qed.
(* _ABNF.reason_phrase = (class)+ with class = is_fv_char (set_status and write_headers) *)
Theorem src_reason_phrase_ok :
  src_reason_phrase_q = QPlus /\ forall c, in_ranges src_reason_phrase c = is_fv_char c.
Proof.
  split; [reflexivity|]. apply class_eq; [reflexivity| |vm_compute; reflexivity].
  intros c H. rewrite fv_char_valid. apply valid_hchar_high; exact H.
Qed.
(* _ABNF.field_name = tchar+ *)
Theorem src_field_name_ok :
  src_field_name_q = QPlus /\ forall c, in_ranges src_field_name c = is_tchar c.
Proof.
  split; [reflexivity|]. apply class_eq; [reflexivity| |vm_compute; reflexivity].
  intros c H. destruct (is_tchar c) eqn:E; [|reflexivity]. apply tchar_range in E. lia.
Qed.
(* set_cookie: re.search(r"[\x00-\x20]", value), re.search(r"[\x00-\x20\x3b\x7f]", attr) *)
Theorem src_cookie_classes_ok :
  (forall c, in_ranges src_cookie_value_bad c = cookie_value_bad c) /\
  (forall c, in_ranges src_cookie_attr_bad c = cookie_attr_bad c) /\
  src_cookie_attr_order = ["name"; "domain"; "path"; "samesite"]%string.
Proof.
  split; [|split; [|reflexivity]].
  - apply class_eq; [reflexivity| |vm_compute; reflexivity].
    intros c H. unfold cookie_value_bad. apply N.leb_gt. lia.
  - apply class_eq; [reflexivity| |vm_compute; reflexivity].
    intros c H. unfold cookie_attr_bad. rewrite !orb_false_iff. repeat split; [apply N.leb_gt|apply N.eqb_neq|apply N.eqb_neq]; lia.
Qed.
(* CR_OR_LF_RE and the structure of write_headers' validation tail *)
Theorem src_cr_lf_ok :
  forall l, existsb (in_ranges src_cr_or_lf) l = has_cr_lf l.
Proof.
  intro l. unfold has_cr_lf. induction l as [|c l IH]; [reflexivity|]. cbn [existsb]. rewrite IH. f_equal.
  unfold in_ranges, src_cr_or_lf. cbn [existsb fst snd]. rewrite orb_false_r.
  destruct (c =? 13) eqn:A; destruct (c =? 10) eqn:B; rewrite ?N.eqb_eq, ?N.eqb_neq in *; subst; try reflexivity.
  cbn [orb]. apply orb_false_iff; split; apply andb_false_iff;
    destruct (N.lt_ge_cases c 10); destruct (N.lt_ge_cases c 13);
    try (left; apply N.leb_gt; lia); try (right; apply N.leb_gt; lia).
Qed.
Theorem src_guard_shape_ok :
  src_guard_shape = ["reason_phrase(non-empty reason)"; "field_name(name) then field_value_chars(value), per pair";
                     "latin1"; "cr_or_lf over ALL lines"; "CRLF join + CRLF CRLF"]%string.
Proof. reflexivity. Qed.
