(* C07 — executable entry points of the correspondence check, and the property as a boolean
   checker over the IMPLEMENTATION's observable: a strict client-side parse of the raw bytes plus
   provenance of every line.  The checker does not run the handler model (no [step], no state);
   it only uses the per-call "line this call is entitled to" functions. *)
From Coq Require Import List NArith Bool String.
Import ListNotations.
From TV Require Import Lib.Obs Lib.C21_Utf8 C06.Model C07.PyTables C07.Model.
Local Open Scope N_scope.

Definition exn_name (e : exn) : string :=
  match e with
  | EValue => "ValueError" | EType => "TypeError" | ECookie => "CookieError"
  | EUniDec => "UnicodeDecodeError" | EUniEnc => "UnicodeEncodeError"
  | EInput => "HTTPInputError" | EOutput => "HTTPOutputError" | EKeyErr => "KeyError"
  | EException => "Exception"
  end.
Definition obs_res (r : res) : obs := match r with Ok => OTag "ok" | Err e => OTag (exn_name e) end.

(* the three application-facing routes that end in HTTP1Connection.write_headers *)
Inductive scenario :=
| Handler (ops : list op)                               (* RequestHandler calls, then flush *)
| Raw (c : N) (reason : text) (hs : list hop)            (* own HTTPHeaders + write_headers *)
| Wsgi (status : text) (hs : list (text * text)).        (* WSGIContainer start_response *)

(* input: ((Server value, Date value), request context, scenario) *)
Definition run_case (i : (text * text) * ctx * scenario) : obs :=
  let '(env, x, sc) := i in
  match sc with
  | Handler ops =>
      let '(rs, fin, w) := run env x ops in
      OList [OList (map obs_res rs);
             match fin with None => ONone | Some r => obs_res r end;
             OBytes w]
  | Raw c rsn hs =>
      let '(rs, fin, w) := run_raw x c rsn hs in
      OList [OList (map obs_res rs); obs_res fin; OBytes w]
  | Wsgi status hs => OList [OList []; ONone; OBytes (run_wsgi x (fst env) status hs)]
  end.

(* ================= the property on observables ================= *)

(* ---- a strict client parser of a header block ----
   split at every LF; every piece but the last must end in CR (a bare LF is an error); the last
   piece must be empty; after removing the CRs the block must be  start-line, header lines, ""
   with every line non-empty and made only of HTAB, SP, VCHAR and obs-text (so a bare CR, a NUL,
   any other C0 control or DEL anywhere in the block is an error), and nothing may follow. *)
Definition strip_cr (p : text) : option text :=
  match rev p with
  | 13 :: r => Some (rev r)
  | _ => None
  end.
Definition clean_line (l : text) : bool :=
  match l with [] => false | _ => forallb valid_hchar l end.
(* the CRLF framing alone: pieces, CR stripping, final blank line, no empty line inside *)
Definition nonempty (l : text) : bool := match l with [] => false | _ => true end.
Definition crlf_parse (w : text) : option (text * list text) :=
  match rev (split_on 10 w) with
  | [] :: pieces_rev =>
      match sequence_o (map strip_cr (rev pieces_rev)) with
      | Some lines =>
          match rev lines with
          | [] :: body_rev =>
              match rev body_rev with
              | sl :: hls => if forallb nonempty (sl :: hls) then Some (sl, hls) else None
              | [] => None
              end
          | _ => None
          end
      | None => None
      end
  | _ => None
  end.
Definition strict_parse (w : text) : option (text * list text) :=
  match crlf_parse w with
  | Some (sl, hls) => if forallb clean_line (sl :: hls) then Some (sl, hls) else None
  | None => None
  end.

(* ---- a header line must read  token ": " value  (so the first colon ends a legal name) ---- *)
Fixpoint split_colon_sp (l : text) : option (text * text) :=
  match l with
  | [] => None
  | c :: r => if c =? c_colon then match r with 32 :: v => Some ([], v) | _ => None end
              else match split_colon_sp r with
                   | Some (a, b) => Some (c :: a, b)
                   | None => None
                   end
  end.
Definition well_formed_header (l : text) : bool :=
  match split_colon_sp l with Some (n, _) => is_token n | None => false end.

(* ---- what each call is entitled to put on the wire, given its own outcome ---- *)
Definition cookie_line (n v : text) (d p ss : option pstr) (fl : cflags) : text :=
  header_line (k_setcookie,
               output_string (mkMorsel n (cookie_quote v) (attr_val d) (attr_val p) (attr_val ss) fl)).
Definition attr_clean (a : option pstr) : bool :=
  match a with
  | None => true
  | Some (Str x) => negb (existsb cookie_attr_bad x)
  | Some (Byt _) => false
  end.
Definition entitled (o : op) (r : res) : list text :=
  match o, r with
  | SetHeader (Str n) v, Ok => [header_line (normalize_u n, value_text v)]
  | AddHeader (Str n) v, Ok => [header_line (normalize_u n, value_text v)]
  | SetHeaderNum (Str n) v, Ok => [header_line (normalize_u n, dec v)]
  | SetCookie n v d p ss fl, Ok =>
      (* only a cookie whose parts cannot break out of their place in the Set-Cookie line *)
      match native_str n, native_str v with
      | Some n', Some v' =>
          if negb (existsb cookie_value_bad v') && negb (existsb cookie_attr_bad n')
             && attr_clean d && attr_clean p && attr_clean ss
          then [cookie_line n' v' d p ss fl] else []
      | _, _ => []
      end
  | Redirect u _, Ok | Redirect u _, Err EOutput =>
      match utf8 u with Some b => [header_line (k_location, b)] | None => [] end
  | _, _ => []
  end.
Fixpoint app_lines (ops : list op) (rs : list res) : list text :=
  match ops, rs with
  | o :: ops', r :: rs' => entitled o r ++ app_lines ops' rs'
  | _, _ => []
  end.
(* lines the framework itself contributes *)
Definition default_lines (env : text * text) : list text :=
  [header_line (k_server, fst env); header_line (k_ctype, v_ctype); header_line (k_date, snd env)].
Definition conn_lines : list text := [header_line (k_conn, v_close); header_line (k_conn, v_keepalive)].
Definition framing_lines : list text :=
  [header_line (k_te, v_chunked); header_line (k_clen, dec 0)] ++ conn_lines.

(* routes 2 and 3 *)
Definition pair_line (kv : text * text) : text := header_line (normalize_u (fst kv), snd kv).
Definition hop_line (o : hop) (r : res) : list text :=
  match o, r with
  | HSet n v, Ok => [pair_line (n, v)]
  | HAdd n v, Ok => [pair_line (n, v)]
  | _, _ => []
  end.
Fixpoint raw_lines (hs : list hop) (rs : list res) : list text :=
  match hs, rs with
  | o :: hs', r :: rs' => hop_line o r ++ raw_lines hs' rs'
  | _, _ => []
  end.
Definition wsgi_consts (env : text * text) : list text :=
  [header_line (k_te, v_chunked); header_line (k_clen, dec 0); header_line (k_ctype, v_ctype);
   header_line (k_server, fst env)] ++ conn_lines.

(* ---- status line: HTTP/1.1 <code> <reason>, code and reason traceable to a call ---- *)
Definition codes_of (o : op) : list N :=
  match o with SetStatus c _ => [c] | Redirect _ p => [if p then 301 else 302] | _ => [] end.
Definition reasons_of (o : op) : list text :=
  match o with
  | SetStatus c None => [std_reason c]
  | SetStatus _ (Some (Str x)) => [x]
  | Redirect _ p => [std_reason (if p then 301 else 302)]
  | _ => []
  end.
Definition status_line (c : N) (r : text) : option text :=
  utf8_encode (t "HTTP/1.1 " ++ dec c ++ [c_sp] ++ r).
Definition status_candidates (ops : list op) : list (option text) :=
  let cs := 200 :: flat_map codes_of ops in
  let rs := t "OK" :: t "Unknown" :: flat_map reasons_of ops in
  flat_map (fun c => map (status_line c) rs) cs.
Definition opt_text_eqb (a : option text) (b : text) : bool :=
  match a with Some x => text_eqb x b | None => false end.

Definition res_of_obs (o : obs) : option res :=
  match o with
  | OTag s =>
      if String.eqb s "ok" then Some Ok else
      match filter (fun e => String.eqb s (exn_name e))
                   [EValue; EType; ECookie; EUniDec; EUniEnc; EInput; EOutput; EKeyErr; EException] with
      | e :: _ => Some (Err e)
      | [] => None
      end
  | _ => None
  end.

Section Checker.
  (* [parse] = strict_parse: the property at full strength *)
  Variable parse : text -> option (text * list text).

  Definition block_ok (env : text * text) (ops : list op) (rs : list res) (w : text) : bool :=
    match parse w with
    | None => false
    | Some (sl, hls) =>
        existsb (fun c => opt_text_eqb c sl) (status_candidates ops)
        && forallb well_formed_header hls
        && forallb (fun l => mem_text l (default_lines env ++ framing_lines ++ app_lines ops rs)) hls
        && Nat.leb (List.length hls) (5 + List.length (app_lines ops rs))%nat
    end.

  (* routes 2 and 3: the start line is exactly HTTP/1.1 <code> <reason as given>; each header line
     is the chunked marker / a WSGI default, or THE line of one accepted (name, value) pair *)
  Definition lines_ok (c : N) (rsn : text) (allowed : list text) (bound : nat) (w : text) : bool :=
    match parse w with
    | None => false
    | Some (sl, hls) =>
        opt_text_eqb (status_line c rsn) sl
        && forallb well_formed_header hls
        && forallb (fun l => mem_text l allowed) hls
        && Nat.leb (List.length hls) bound
    end.

  Definition check_gen (i : (text * text) * ctx * scenario) (o : obs) : bool :=
    let '(env, x, sc) := i in
    match o with
    | OList [OList ors; _; OBytes w] =>
        match sequence_o (map res_of_obs ors) with
        | None => false                                   (* an exception class outside the expected set *)
        | Some rs =>
            match sc with
            | Handler ops =>
                Nat.eqb (List.length rs) (List.length ops) &&
                match w with [] => true | _ => block_ok env ops rs w end
            | Raw c rsn hs =>
                Nat.eqb (List.length rs) (List.length hs) &&
                match w with
                | [] => true
                | _ => lines_ok c rsn (header_line (k_te, v_chunked) :: conn_lines ++ raw_lines hs rs)
                                (2 + List.length (raw_lines hs rs)) w
                end
            | Wsgi status hs =>
                match w with
                | [] => true
                | _ => match split_sp status with
                       | Some (cs, rsn) =>
                           match py_int cs with
                           | Some c => lines_ok c rsn (wsgi_consts env ++ map pair_line hs)
                                                (5 + List.length hs) w
                           | None => false
                           end
                       | None => false
                       end
                end
            end
        end
    | _ => false
    end.
End Checker.

(* the property, full strength: used on the implementation's observable *)
Definition check_case := check_gen strict_parse.
