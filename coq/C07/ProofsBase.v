(* C07 — basic lemmas: dictionaries, character classes, UTF-8 keeps lines clean,
   name normalisation on tokens, the strict parser inverts the serializer. *)
From Coq Require Import List NArith Bool Lia Arith.
Import ListNotations.
From TV Require Import Lib.C21_Utf8 C06.Model C06.ProofsBase C07.PyTables C07.Model C07.Run.
Local Open Scope N_scope.

(* ---------- association-list dictionary ---------- *)
Lemma pairs_of_cons : forall (k : text) (vs : list text) h,
  pairs_of ((k, vs) :: h) = map (pair k) vs ++ pairs_of h.
Proof. reflexivity. Qed.

Lemma pairs_d_set_Forall : forall (P : text * text -> Prop) k vs h,
  Forall P (pairs_of h) -> Forall P (map (pair k) vs) -> Forall P (pairs_of (d_set k vs h)).
Proof.
  intros P k vs h. induction h as [|[k' v'] h IH]; intros Hh Hn.
  - cbn [d_set]. rewrite pairs_of_cons. apply Forall_app; split; auto.
  - cbn [d_set]. rewrite pairs_of_cons in Hh. apply Forall_app in Hh as [H1 H2].
    destruct (text_eqb k k') eqn:E.
    + apply text_eqb_eq in E. subst k'. rewrite pairs_of_cons. apply Forall_app; split; auto.
    + rewrite pairs_of_cons. apply Forall_app; split; auto.
Qed.

Lemma pairs_d_set_len : forall k vs (h : list (text * list text)),
  (length (pairs_of (d_set k vs h)) <= length (pairs_of h) + length vs)%nat.
Proof.
  intros k vs h. induction h as [|[k' v'] h IH].
  - cbn [d_set]. rewrite pairs_of_cons, app_length, map_length. simpl. lia.
  - cbn [d_set]. destruct (text_eqb k k') eqn:E; rewrite !pairs_of_cons, !app_length, !map_length; lia.
Qed.

Lemma d_get_pairs_Forall : forall (P : text * text -> Prop) k vs (h : list (text * list text)),
  Forall P (pairs_of h) -> d_get k h = Some vs -> Forall P (map (pair k) vs).
Proof.
  intros P k vs h. induction h as [|[k' v'] h IH]; intros Hh Hg; [discriminate|].
  cbn [d_get] in Hg. rewrite pairs_of_cons in Hh. apply Forall_app in Hh as [H1 H2].
  destruct (text_eqb k k') eqn:E.
  - apply text_eqb_eq in E. subst k'. inversion Hg; subst. exact H1.
  - auto.
Qed.

Lemma pairs_d_set_append_len : forall k v vs (h : list (text * list text)),
  d_get k h = Some vs ->
  length (pairs_of (d_set k (vs ++ [v]) h)) = S (length (pairs_of h)).
Proof.
  intros k v vs h. induction h as [|[k' v'] h IH]; intro Hg; [discriminate|].
  cbn [d_get] in Hg. cbn [d_set]. destruct (text_eqb k k') eqn:E.
  - inversion Hg; subst. rewrite !pairs_of_cons, !app_length, !map_length, app_length. simpl. lia.
  - rewrite !pairs_of_cons, !app_length. rewrite IH by exact Hg. lia.
Qed.

Lemma d_mem_d_set : forall k (vs : list text) h, d_mem k (d_set k vs h) = true.
Proof.
  intros k vs h. unfold d_mem. induction h as [|[k' v'] h IH].
  - cbn [d_set d_get]. rewrite text_eqb_refl. reflexivity.
  - cbn [d_set]. destruct (text_eqb k k') eqn:E; cbn [d_get]; rewrite E; auto.
Qed.

Lemma Forall_d_del : forall {V} (P : text * V -> Prop) k (d : list (text * V)),
  Forall P d -> Forall P (d_del k d).
Proof.
  intros V P k d H. induction H as [|[k' v'] d Hx Hd IH]; cbn [d_del]; auto.
  destruct (text_eqb k k'); auto.
Qed.
Lemma d_del_len : forall {V} k (d : list (text * V)), (length (d_del k d) <= length d)%nat.
Proof.
  intros V k d. induction d as [|[k' v'] d IH]; cbn [d_del]; auto.
  destruct (text_eqb k k'); simpl; lia.
Qed.

Lemma pairs_d_del_Forall : forall (P : text * text -> Prop) k (h : list (text * list text)),
  Forall P (pairs_of h) -> Forall P (pairs_of (d_del k h)).
Proof.
  intros P k h. induction h as [|[k' v'] h IH]; intro H; cbn [d_del]; auto.
  rewrite pairs_of_cons in H. apply Forall_app in H as [H1 H2].
  destruct (text_eqb k k'); auto. rewrite pairs_of_cons. apply Forall_app; split; auto.
Qed.
Lemma pairs_d_del_len : forall k (h : list (text * list text)),
  (length (pairs_of (d_del k h)) <= length (pairs_of h))%nat.
Proof.
  intros k h. induction h as [|[k' v'] h IH]; cbn [d_del]; auto.
  destruct (text_eqb k k'); rewrite ?pairs_of_cons, ?app_length; lia.
Qed.
Lemma d_del_len_get : forall {V} k (d : list (text * V)) v,
  d_get k d = Some v -> (S (length (d_del k d)) <= length d)%nat.
Proof.
  intros V k d v. induction d as [|[k' v'] d IH]; intro H; [discriminate|].
  cbn [d_get] in H. cbn [d_del]. destruct (text_eqb k k').
  - pose proof (d_del_len k d). simpl. lia.
  - simpl. apply IH in H. lia.
Qed.
Lemma d_get_In : forall {V} k (d : list (text * V)) v, d_get k d = Some v -> In (k, v) d.
Proof.
  intros V k d v. induction d as [|[k' v'] d IH]; intro H; [discriminate|].
  cbn [d_get] in H. destruct (text_eqb k k') eqn:E.
  - apply text_eqb_eq in E. subst k'. inversion H; subst. left; reflexivity.
  - right; auto.
Qed.
Lemma In_d_del : forall {V} k (d : list (text * V)) x, In x (d_del k d) -> In x d.
Proof.
  intros V k d x. induction d as [|[k' v'] d IH]; cbn [d_del]; intro H; auto.
  destruct (text_eqb k k'); [right; auto|]. destruct H as [H|H]; [left; exact H|right; auto].
Qed.

(* ---------- character classes ---------- *)
Lemma valid_hchar_spec : forall c, valid_hchar c = true <->
  (c = 9 \/ (32 <= c /\ c <= 126) \/ (128 <= c /\ c <= 255)).
Proof.
  intro c. unfold valid_hchar, Model.in_range.
  rewrite !orb_true_iff, !andb_true_iff, N.eqb_eq, !N.leb_le. tauto.
Qed.
Lemma valid_hi : forall x, 128 <= x -> x <= 255 -> valid_hchar x = true.
Proof. intros x H1 H2. apply valid_hchar_spec. lia. Qed.
Lemma valid_lo : forall x, 32 <= x -> x <= 126 -> valid_hchar x = true.
Proof. intros x H1 H2. apply valid_hchar_spec. lia. Qed.
Lemma fv_char_valid : forall c, is_fv_char c = valid_hchar c.
Proof.
  intro c. unfold is_fv_char, is_vchar, is_ws, valid_hchar, c_sp, c_tab, Model.in_range.
  destruct (c =? 9) eqn:E9; destruct (c =? 32) eqn:E32;
    destruct (33 <=? c) eqn:A; destruct (c <=? 126) eqn:B; destruct (32 <=? c) eqn:C;
    destruct (128 <=? c) eqn:D; destruct (c <=? 255) eqn:F; simpl; try reflexivity;
    rewrite ?N.eqb_eq, ?N.eqb_neq, ?N.leb_le, ?N.leb_gt in *; lia.
Qed.
Lemma tchar_range : forall c, is_tchar c = true -> 33 <= c /\ c <= 126 /\ c <> 58.
Proof.
  intros c H. unfold is_tchar, Model.in_range in H.
  rewrite !orb_true_iff, !andb_true_iff, !N.leb_le in H.
  destruct H as [[[H|H]|H]|H]; try lia.
  simpl in H. rewrite !orb_true_iff, !N.eqb_eq in H. lia.
Qed.
Lemma tchar_valid : forall c, is_tchar c = true -> valid_hchar c = true.
Proof. intros c H. apply tchar_range in H. apply valid_hchar_spec. lia. Qed.
Lemma token_valid : forall n, is_token n = true -> forallb valid_hchar n = true.
Proof.
  intros n H. destruct n as [|c r]; [discriminate|]. unfold is_token in H.
  apply forallb_forall. intros x Hx. apply tchar_valid. eapply forallb_forall in H; eauto.
Qed.
Lemma token_ascii : forall n, is_token n = true -> Forall (fun c => c < 128) n.
Proof.
  intros n H. destruct n as [|c r]; [discriminate|]. unfold is_token in H.
  apply Forall_forall. intros x Hx. eapply forallb_forall in H; eauto. apply tchar_range in H. lia.
Qed.

(* ---------- decimal digits ---------- *)
Lemma dec_aux_valid : forall fuel n acc,
  forallb valid_hchar acc = true -> forallb valid_hchar (dec_aux fuel n acc) = true.
Proof.
  induction fuel as [|f IH]; intros n acc H; cbn [dec_aux]; auto.
  assert (Hd : forallb valid_hchar ((48 + n mod 10) :: acc) = true).
  { cbn [forallb]. rewrite H, andb_true_r. apply valid_hchar_spec.
    assert (n mod 10 < 10) by (apply N.mod_upper_bound; lia). lia. }
  destruct (n <? 10); auto.
Qed.
Lemma dec_valid : forall n, forallb valid_hchar (dec n) = true.
Proof. intro n. unfold dec. apply dec_aux_valid. reflexivity. Qed.

(* ---------- UTF-8 of header-safe text is header-safe ---------- *)
Lemma utf8_encode_valid : forall s b,
  forallb valid_hchar s = true -> utf8_encode s = Some b -> forallb valid_hchar b = true.
Proof.
  induction s as [|c s IH]; intros b Hs He.
  - simpl in He. inversion He. reflexivity.
  - cbn [forallb] in Hs. apply andb_true_iff in Hs as [Hc Hs].
    cbn [utf8_encode] in He.
    destruct (utf8_enc1 c) as [a|] eqn:E1; [|discriminate].
    destruct (utf8_encode s) as [b'|] eqn:E2; [|discriminate].
    injection He as Eb; subst b. rewrite forallb_app. rewrite (IH b' Hs eq_refl), andb_true_r.
    apply valid_hchar_spec in Hc. unfold utf8_enc1 in E1.
    destruct (c <? 128) eqn:L1.
    + assert (Ea : a = [c]) by congruence. subst a. cbn [forallb]. rewrite andb_true_r. apply valid_hchar_spec.
      apply N.ltb_lt in L1. lia.
    + apply N.ltb_ge in L1. destruct (c <? 2048) eqn:L2; [|apply N.ltb_ge in L2; lia].
      assert (Ea : a = [192 + c / 64; 128 + c mod 64]) by congruence. subst a. cbn [forallb]. rewrite andb_true_r.
      assert (c / 64 < 4) by (apply N.div_lt_upper_bound; lia).
      assert (2 <= c / 64) by (apply N.div_le_lower_bound; lia).
      assert (c mod 64 < 64) by (apply N.mod_upper_bound; lia).
      apply andb_true_iff; split; apply valid_hi; lia.
Qed.

(* ---------- Python's case mapping restricted to ASCII is the ASCII one ---------- *)
Definition ascii_range : list N := map N.of_nat (seq 0 128).
Lemma in_ascii_range : forall c, c < 128 -> In c ascii_range.
Proof.
  intros c H. unfold ascii_range. apply in_map_iff. exists (N.to_nat c). split.
  - apply N2Nat.id.
  - apply in_seq. lia.
Qed.
Lemma py_case_ascii_sweep :
  forallb (fun c => text_eqb (py_title c) [upper c] && text_eqb (py_lower c) [lower c]) ascii_range = true.
Proof. vm_compute. reflexivity. Qed.
Lemma py_case_ascii : forall c, c < 128 -> py_title c = [upper c] /\ py_lower c = [lower c].
Proof.
  intros c H. pose proof py_case_ascii_sweep as S.
  eapply forallb_forall in S; [|apply in_ascii_range; exact H].
  apply andb_true_iff in S as [S1 S2]. apply text_eqb_eq in S1, S2. auto.
Qed.
Lemma capitalize_u_ascii : forall w, Forall (fun c => c < 128) w -> capitalize_u w = capitalize w.
Proof.
  intros w H. destruct H as [|c r Hc Hr]; [reflexivity|].
  cbn [capitalize_u capitalize]. destruct (py_case_ascii c Hc) as [-> _]. cbn [app]. f_equal.
  induction Hr as [|x r Hx Hr IH]; [reflexivity|].
  cbn [flat_map map]. destruct (py_case_ascii x Hx) as [_ ->]. cbn [app]. f_equal. exact IH.
Qed.
Lemma split1_ascii : forall sep l, Forall (fun c => c < 128) l ->
  Forall (fun c => c < 128) (fst (split1 sep l)) /\
  Forall (Forall (fun c => c < 128)) (snd (split1 sep l)).
Proof.
  intros sep l H. induction H as [|c r Hc Hr IH]; cbn [split1].
  - split; constructor.
  - destruct (split1 sep r) as [w ws]. cbn [fst snd] in IH. destruct IH as [I1 I2].
    destruct (c =? sep); cbn [fst snd]; split; auto.
Qed.
Lemma normalize_u_ascii : forall n, Forall (fun c => c < 128) n -> normalize_u n = normalize n.
Proof.
  intros n H. unfold normalize_u, normalize, split_on.
  pose proof (split1_ascii c_dash n H) as [H1 H2]. destruct (split1 c_dash n) as [w ws].
  cbn [fst snd] in H1, H2. f_equal. cbn [map]. f_equal.
  - apply capitalize_u_ascii; exact H1.
  - induction H2 as [|x r Hx Hr IH]; [reflexivity|]. cbn [map]. f_equal; auto.
    apply capitalize_u_ascii; exact Hx.
Qed.
Lemma normalize_u_token : forall n, is_token n = true ->
  normalize_u n = normalize n /\ is_token (normalize_u n) = true /\
  normalize_u (normalize_u n) = normalize_u n.
Proof.
  intros n H. pose proof (normalize_u_ascii n (token_ascii n H)) as E.
  pose proof (normalize_token n H) as T. rewrite E. repeat split; auto.
  rewrite (normalize_u_ascii _ (token_ascii _ T)). apply normalize_idem.
Qed.

(* ---------- a header line splits back at its first colon ---------- *)
Lemma header_line_eq : forall k v, header_line (k, v) = k ++ c_colon :: c_sp :: v.
Proof. reflexivity. Qed.
Lemma split_colon_sp_line : forall k v, forallb is_tchar k = true ->
  split_colon_sp (header_line (k, v)) = Some (k, v).
Proof.
  intros k v. rewrite header_line_eq. induction k as [|c r IH]; intro H.
  - reflexivity.
  - cbn [forallb] in H. apply andb_true_iff in H as [Hc Hr].
    change ((c :: r) ++ c_colon :: c_sp :: v) with (c :: (r ++ c_colon :: c_sp :: v)).
    cbn [split_colon_sp]. apply tchar_range in Hc.
    assert (c =? c_colon = false) as -> by (apply N.eqb_neq; unfold c_colon; lia).
    rewrite (IH Hr). reflexivity.
Qed.
Lemma header_line_wf : forall k v, is_token k = true -> well_formed_header (header_line (k, v)) = true.
Proof.
  intros k v H. unfold well_formed_header. rewrite split_colon_sp_line; auto.
  destruct k; [discriminate|]. exact H.
Qed.
Lemma header_line_clean : forall k v, is_token k = true -> forallb valid_hchar v = true ->
  clean_line (header_line (k, v)) = true.
Proof.
  intros k v Hk Hv. rewrite header_line_eq. unfold clean_line.
  pose proof (token_valid _ Hk) as Hkv.
  destruct k as [|c r]; [discriminate|].
  change ((c :: r) ++ c_colon :: c_sp :: v) with (c :: (r ++ c_colon :: c_sp :: v)).
  change (c :: (r ++ c_colon :: c_sp :: v)) with ((c :: r) ++ [c_colon; c_sp] ++ v).
  rewrite !forallb_app. rewrite Hkv, Hv. reflexivity.
Qed.

(* ---------- the strict parser inverts the serializer ---------- *)
Definition no_lf (l : text) : Prop := Forall (fun c => c <> 10) l.
Lemma valid_no_lf : forall l, forallb valid_hchar l = true -> no_lf l.
Proof.
  intros l H. apply Forall_forall. intros c Hc. eapply forallb_forall in H; eauto.
  apply valid_hchar_spec in H. lia.
Qed.
Lemma split1_nosep_app : forall sep l rest, Forall (fun c => c <> sep) l ->
  split1 sep (l ++ sep :: rest) = (l, fst (split1 sep rest) :: snd (split1 sep rest)).
Proof.
  intros sep l rest H. induction H as [|c r Hc Hr IH].
  - cbn [app split1]. destruct (split1 sep rest) as [w ws]. rewrite N.eqb_refl. reflexivity.
  - cbn [app split1]. rewrite IH. apply N.eqb_neq in Hc. rewrite Hc. reflexivity.
Qed.
Lemma split_on_nosep_app : forall sep l rest, Forall (fun c => c <> sep) l ->
  split_on sep (l ++ sep :: rest) = l :: split_on sep rest.
Proof.
  intros sep l rest H. unfold split_on. rewrite split1_nosep_app by exact H.
  destruct (split1 sep rest) as [w ws]. reflexivity.
Qed.

Definition block (ls : list text) : text := flat_map (fun l => l ++ CRLF) ls ++ CRLF.
Lemma join_block : forall l ls, join CRLF (l :: ls) ++ CRLF ++ CRLF = block (l :: ls).
Proof.
  intros l ls. unfold block. revert l. induction ls as [|l2 ls IH]; intro l.
  - cbn [join flat_map]. rewrite app_nil_r, <- app_assoc. reflexivity.
  - rewrite join_cons2. rewrite <- !app_assoc. rewrite (IH l2).
    cbn [flat_map]. rewrite <- !app_assoc. reflexivity.
Qed.
Lemma split_on_block : forall ls, Forall no_lf ls ->
  split_on 10 (block ls) = map (fun l => l ++ [13]) ls ++ [[13]; []].
Proof.
  intros ls H. unfold block. induction H as [|l ls Hl Hls IH].
  - reflexivity.
  - cbn [flat_map map]. unfold CRLF at 1. rewrite <- !app_assoc. cbn [app].
    replace (l ++ 13 :: 10 :: flat_map (fun l0 => l0 ++ CRLF) ls ++ CRLF)
      with ((l ++ [13]) ++ 10 :: (flat_map (fun l0 => l0 ++ CRLF) ls ++ CRLF))
      by (rewrite <- app_assoc; reflexivity).
    rewrite split_on_nosep_app.
    + rewrite IH. reflexivity.
    + apply Forall_app; split; [exact Hl|]. constructor; [discriminate|constructor].
Qed.
Lemma strip_cr_app : forall l, strip_cr (l ++ [13]) = Some l.
Proof. intro l. unfold strip_cr. rewrite rev_app_distr. cbn [rev app]. rewrite rev_involutive. reflexivity. Qed.
Lemma sequence_strip : forall ls,
  sequence_o (map strip_cr (map (fun l => l ++ [13]) ls ++ [[13]])) = Some (ls ++ [[]]).
Proof.
  induction ls as [|l ls IH].
  - reflexivity.
  - cbn [map app sequence_o]. rewrite strip_cr_app, IH. reflexivity.
Qed.
Lemma crlf_parse_block : forall sl hls, Forall no_lf (sl :: hls) -> forallb nonempty (sl :: hls) = true ->
  crlf_parse (block (sl :: hls)) = Some (sl, hls).
Proof.
  intros sl hls Hn H. unfold crlf_parse.
  remember (sl :: hls) as L eqn:EL.
  rewrite (split_on_block _ Hn).
  rewrite rev_app_distr. change (rev [[13]; []]) with ([[]; [13]] : list text). cbn [app].
  cbn [rev]. rewrite rev_involutive.
  rewrite sequence_strip. rewrite rev_app_distr. cbn [rev app]. rewrite rev_involutive.
  subst L. rewrite H. reflexivity.
Qed.
Lemma clean_nonempty : forall ls, forallb clean_line ls = true -> forallb nonempty ls = true.
Proof.
  intros ls H. apply forallb_forall. intros l Hl. eapply forallb_forall in H; eauto.
  destruct l; [discriminate|reflexivity].
Qed.
Lemma strict_parse_block : forall sl hls, forallb clean_line (sl :: hls) = true ->
  strict_parse (block (sl :: hls)) = Some (sl, hls).
Proof.
  intros sl hls H. unfold strict_parse.
  assert (Hn : Forall no_lf (sl :: hls)).
  { apply Forall_forall. intros l Hl. eapply forallb_forall in H; eauto.
    unfold clean_line in H. destruct l; [discriminate|]. apply valid_no_lf. exact H. }
  rewrite (crlf_parse_block _ _ Hn (clean_nonempty _ H)). rewrite H. reflexivity.
Qed.
Lemma strict_parse_clean : forall w sl hls, strict_parse w = Some (sl, hls) -> forallb clean_line (sl :: hls) = true.
Proof.
  intros w sl hls H. unfold strict_parse in H. destruct (crlf_parse w) as [[a b]|]; [|discriminate].
  destruct (forallb clean_line (a :: b)) eqn:C; [|discriminate]. inversion H; subst. exact C.
Qed.
