(* C07 — every call preserves the invariant; the header block that reaches the wire is exactly
   the intended one; the boolean checker accepts the model; per-argument rejection lemmas. *)
From Coq Require Import String.
From Coq Require Import List NArith Bool Lia Arith.
Import ListNotations.
From TV Require Import Lib.Obs Lib.C21_Utf8 C06.Model C06.ProofsBase C07.PyTables C07.Model C07.Run
  C07.ProofsBase C07.ProofsInv.
Local Open Scope N_scope.

Section Top.
  Variable env : text * text.
  Hypothesis Henv : env_ok env.
  Variable cx : ctx.

  Lemma Pre_monoA : forall A C R s X, Pre env A C R s -> Pre env (A ++ X) C R s.
  Proof.
    intros A C R s X P. pose proof (Pre_mono env A C R s X [] [] P) as Q.
    rewrite !app_nil_r in Q. exact Q.
  Qed.
  Lemma Pre_monoCR : forall A C R s Y Z, Pre env A C R s -> Pre env A (C ++ Y) (R ++ Z) s.
  Proof.
    intros A C R s Y Z P. pose proof (Pre_mono env A C R s [] Y Z P) as Q.
    rewrite app_nil_r in Q. exact Q.
  Qed.

  (* calls other than redirect never touch the transport *)
  Lemma step_frame : forall o s r s', (forall u p, o <> Redirect u p) -> step cx o s = (r, s') ->
    written s' = written s /\ wire s' = wire s.
  Proof.
    intros o s r s' NR H. destruct o as [n v|n v|c rr|n v d p ss fl|n v|n|u p]; cbn [step] in H.
    - unfold set_header in H. destruct (convert_header_value v); [destruct n|]; inversion H; subst; auto.
    - unfold add_header in H. destruct (convert_header_value v) as [x|]; [destruct n as [nt|nb]|];
        try (inversion H; subst; auto; fail).
      destruct (h_add nt x (hdrs s)) as [r0 h]. inversion H; subst. auto.
    - unfold set_status in H. destruct rr as [[x|b]|]; inversion H; subst; auto.
    - unfold set_cookie in H.
      destruct (native_str n) as [name|]; [|inversion H; subst; auto].
      destruct (native_str v) as [value|]; [|inversion H; subst; auto].
      destruct (existsb cookie_value_bad value); [inversion H; subst; auto|].
      destruct (existsb cookie_attr_bad name); [inversion H; subst; auto|].
      destruct (check_attr d); [|inversion H; subst; auto].
      destruct (check_attr p); [|inversion H; subst; auto].
      destruct (check_attr ss); [|inversion H; subst; auto].
      destruct (negb (morsel_key_ok name)); [inversion H; subst; auto|].
      match type of H with (if ?b then _ else _) = _ => destruct b end; inversion H; subst; auto.
    - unfold set_header_num in H. destruct n; inversion H; subst; auto.
    - unfold clear_header in H. destruct n; inversion H; subst; auto. destruct (h_mem s0 (hdrs s)); auto.
    - exfalso. eapply NR. reflexivity.
  Qed.

  Lemma lift_pre : forall A C R s s' A2 C2 R2,
    Inv env A C R s ->
    written s' = written s -> wire s' = wire s ->
    (Pre env A C R s -> Pre env (A ++ A2) (C ++ C2) (R ++ R2) s') ->
    Inv env (A ++ A2) (C ++ C2) (R ++ R2) s'.
  Proof.
    intros A C R s s' A2 C2 R2 [H1 H2] Ew Ewire HP. split.
    - intro W. rewrite Ew in W. destruct (H1 W) as [E P]. split; [congruence|auto].
    - rewrite Ewire. destruct H2 as [E|G]; [left; exact E|right; apply good_wire_mono; exact G].
  Qed.

  Lemma redirect_inv : forall A C R u p s r s', redirect cx u p s = (r, s') -> Inv env A C R s ->
    Inv env (A ++ entitled (Redirect u p) r) (C ++ codes_of (Redirect u p)) (R ++ reasons_of (Redirect u p)) s'.
  Proof.
    intros A C R u p s r s' H I. unfold redirect in H.
    destruct (written s) eqn:W.
    { inversion H; subst. apply Inv_mono. exact I. }
    destruct I as [I1 I2]. destruct (I1 W) as [Wire P]. clear I1 I2.
    set (cp := if p then 301 else 302) in *.
    destruct (set_status cp None s) as [r1 s1] eqn:E1. cbn [snd] in H.
    destruct (set_status_pre env A C R cp None s r1 s1 E1 P) as (P1 & W1 & Wi1).
    change (codes_of (SetStatus cp None)) with (codes_of (Redirect u p)) in P1.
    change (reasons_of (SetStatus cp None)) with (reasons_of (Redirect u p)) in P1.
    rewrite W in W1. rewrite Wire in Wi1.
    set (C' := C ++ codes_of (Redirect u p)) in *. set (R' := R ++ reasons_of (Redirect u p)) in *.
    destruct (utf8 u) as [u'|] eqn:Eu.
    2:{ inversion H; subst r s'. split; [|left; exact Wi1].
        intros _. split; [exact Wi1|]. apply Pre_monoA. exact P1. }
    destruct (set_header (Str k_location) (Byt u') s1) as [r2 s2] eqn:E2.
    destruct (set_header_pre env A C' R' _ _ _ _ _ E2 P1) as (P2 & W2 & Wi2).
    rewrite W1 in W2. rewrite Wi1 in Wi2.
    destruct r2 as [|e2].
    2:{ inversion H; subst r s'. cbn [entitled] in P2. rewrite app_nil_r in P2.
        split; [|left; exact Wi2]. intros _. split; [exact Wi2|]. apply Pre_monoA. exact P2. }
    cbn [entitled value_text] in P2. rewrite norm_location in P2.
    set (L := header_line (k_location, u')) in *.
    set (A' := A ++ [L]) in *.
    (* the state finish() flushes *)
    set (s3 := if h_mem k_clen (hdrs s2) then s2 else with_hdrs (h_set k_clen (dec 0) (hdrs s2)) s2) in *.
    assert (F3 : wire s3 = [] /\ Forall (HP env A') (pairs_of (hdrs s3)) /\ Forall (CP A') (cookies s3) /\
                 In (code s3) C' /\ In (reason s3) R' /\ forallb valid_hchar (reason s3) = true /\
                 (h_mem k_clen (hdrs s3) = true /\
                  length (pairs_of (hdrs s3)) + length (cookies s3) <= 4 + length A')%nat).
    { destruct P2 as [Q1 Q2 Q3 Q4 Q5 Q6 Q7]. unfold s3.
      destruct (h_mem k_clen (hdrs s2)) eqn:M.
      - repeat (split; auto). lia.
      - cbn [with_hdrs wire hdrs cookies code reason]. repeat (split; auto).
        + unfold h_set. rewrite norm_clen. apply pairs_d_set_Forall; auto.
          cbn [map]. constructor; [|constructor]. split.
          * cbn [snd]. apply dec_valid.
          * apply in_or_app. left. unfold base. apply in_or_app. right. right. left. reflexivity.
        + unfold h_mem, h_set. apply d_mem_d_set.
        + unfold h_set. pose proof (pairs_d_set_len (normalize_u k_clen) [dec 0] (hdrs s2)).
          simpl in *. lia. }
    destruct F3 as (F1 & F2 & F3 & F4 & F5 & F6 & F7).
    destruct (flush_headers cx s3) as [[r4 s4] nz] eqn:E4.
    destruct (flush_good env cx A' C' R' s3 r4 s4 nz E4 F1 F2 F3 F4 F5 F6 (or_introl F7)) as (W4 & G).
    assert (Ent : forall rr, rr = Ok \/ rr = Err EOutput -> entitled (Redirect u p) rr = [L]).
    { intros rr [->| ->]; cbn [entitled]; rewrite Eu; reflexivity. }
    destruct r4 as [|e4].
    - destruct G as [[G _]|[_ G]]; [congruence|].
      assert (Hr : (r = Ok \/ r = Err EOutput) /\ s' = s4).
      { destruct nz; inversion H; subst; auto. }
      destruct Hr as [Hr ->]. rewrite (Ent r Hr). split; [intro; congruence|right; exact G].
    - inversion H; subst r s'. destruct G as [(_ & _ & G)|[G _]]; [|discriminate].
      split; [intro; congruence|left; exact G].
  Qed.

  Lemma step_inv : forall A C R o s r s', step cx o s = (r, s') -> Inv env A C R s ->
    Inv env (A ++ entitled o r) (C ++ codes_of o) (R ++ reasons_of o) s'.
  Proof.
    intros A C R o s r s' H I.
    destruct o as [n v|n v|c rr|n v d p ss fl|n v|n|u p].
    - assert (FR : written s' = written s /\ wire s' = wire s) by (eapply step_frame; [|exact H]; intros; discriminate). destruct FR as [Fw Fi]. cbn [step] in H.
      apply (lift_pre A C R s s' _ _ _ I Fw Fi). intro P.
      apply Pre_monoCR. apply (set_header_pre env A C R _ _ _ _ _ H P).
    - assert (FR : written s' = written s /\ wire s' = wire s) by (eapply step_frame; [|exact H]; intros; discriminate). destruct FR as [Fw Fi]. cbn [step] in H.
      apply (lift_pre A C R s s' _ _ _ I Fw Fi). intro P.
      apply Pre_monoCR. apply (add_header_pre env A C R _ _ _ _ _ H P).
    - assert (FR : written s' = written s /\ wire s' = wire s) by (eapply step_frame; [|exact H]; intros; discriminate). destruct FR as [Fw Fi]. cbn [step] in H.
      apply (lift_pre A C R s s' _ _ _ I Fw Fi). intro P.
      apply Pre_monoA. apply (set_status_pre env A C R _ _ _ _ _ H P).
    - assert (FR : written s' = written s /\ wire s' = wire s) by (eapply step_frame; [|exact H]; intros; discriminate). destruct FR as [Fw Fi]. cbn [step] in H.
      apply (lift_pre A C R s s' _ _ _ I Fw Fi). intro P.
      apply Pre_monoCR. apply (set_cookie_pre env A C R _ _ _ _ _ _ _ _ _ H P).
    - assert (FR : written s' = written s /\ wire s' = wire s) by (eapply step_frame; [|exact H]; intros; discriminate). destruct FR as [Fw Fi]. cbn [step] in H.
      apply (lift_pre A C R s s' _ _ _ I Fw Fi). intro P.
      apply Pre_monoCR. apply (set_header_num_pre env A C R _ _ _ _ _ H P).
    - assert (FR : written s' = written s /\ wire s' = wire s) by (eapply step_frame; [|exact H]; intros; discriminate). destruct FR as [Fw Fi]. cbn [step] in H.
      apply (lift_pre A C R s s' _ _ _ I Fw Fi). intro P.
      apply Pre_monoCR. apply (clear_header_pre env A C R _ _ _ _ H P).
    - cbn [step] in H. eapply redirect_inv; eauto.
  Qed.

  Lemma run_ops_inv : forall ops A C R s rs s', run_ops cx ops s = (rs, s') -> Inv env A C R s ->
    Inv env (A ++ app_lines ops rs) (C ++ flat_map codes_of ops) (R ++ flat_map reasons_of ops) s'
    /\ length rs = length ops.
  Proof.
    induction ops as [|o ops IH]; intros A C R s rs s' H I.
    - inversion H; subst. split; [apply Inv_mono; exact I|reflexivity].
    - cbn [run_ops] in H. destruct (step cx o s) as [r s1] eqn:E1.
      destruct (run_ops cx ops s1) as [rs1 s2] eqn:E2. inversion H; subst rs s'.
      pose proof (step_inv A C R o s r s1 E1 I) as I1.
      destruct (IH _ _ _ _ _ _ E2 I1) as [I2 L]. split; [|simpl; congruence].
      cbn [app_lines flat_map]. rewrite !app_assoc. exact I2.
  Qed.

  (* what a good block gives the reader *)
  Lemma good_wire_final : forall ops rs w,
    good_wire env ([] ++ app_lines ops rs) ([200] ++ flat_map codes_of ops)
              ([t "OK"%string; t "Unknown"%string] ++ flat_map reasons_of ops) w ->
    exists sl hls,
      w = join CRLF (sl :: hls) ++ CRLF ++ CRLF /\
      strict_parse w = Some (sl, hls) /\
      In (Some sl) (status_candidates ops) /\
      forallb well_formed_header hls = true /\
      Forall (fun l => In l (default_lines env ++ framing_lines ++ app_lines ops rs)) hls /\
      (length hls <= 5 + length (app_lines ops rs))%nat.
  Proof.
    intros ops rs w (sl & hls & E & Hc & (c & r & Hc1 & Hr1 & Hs) & Hw & Hin & Hl).
    exists sl, hls. cbn [app] in *. split; [|split; [|split; [|split; [|split]]]].
    - rewrite join_block. exact E.
    - subst w. apply strict_parse_block. exact Hc.
    - unfold status_candidates. apply in_flat_map. exists c. split; [exact Hc1|].
      apply in_map_iff. exists r. split; auto.
    - exact Hw.
    - eapply Forall_impl; [|exact Hin]. intros l H. unfold base in H. rewrite <- app_assoc in H. exact H.
    - exact Hl.
  Qed.

  Theorem block_exact : forall ops rs fin w,
    run env cx ops = (rs, fin, w) -> w <> [] ->
    exists sl hls,
      w = join CRLF (sl :: hls) ++ CRLF ++ CRLF /\
      strict_parse w = Some (sl, hls) /\
      In (Some sl) (status_candidates ops) /\
      forallb well_formed_header hls = true /\
      Forall (fun l => In l (default_lines env ++ framing_lines ++ app_lines ops rs)) hls /\
      (length hls <= 5 + length (app_lines ops rs))%nat.
  Proof.
    intros ops rs fin w H Hne. unfold run in H.
    destruct (run_ops cx ops (init env)) as [rs0 s] eqn:E.
    destruct (run_ops_inv ops _ _ _ _ _ _ E (init_inv env Henv)) as [[I1 I2] _].
    destruct (written s) eqn:W.
    - inversion H; subst rs0 fin w. destruct I2 as [I2|I2]; [contradiction|].
      apply good_wire_final; exact I2.
    - destruct (flush_headers cx s) as [[r s2] nz] eqn:F. inversion H; subst rs0 fin w.
      destruct (I1 eq_refl) as [Wire [Q1 Q2 Q3 Q4 Q5 Q6 Q7]].
      destruct (flush_good env cx _ _ _ s r s2 nz F Wire Q1 Q2 Q3 Q4 Q6 (or_intror (le_n_S _ _ Q7))) as (_ & G).
      destruct G as [(_ & _ & G)|[_ G]]; [contradiction|].
      apply good_wire_final; exact G.
  Qed.

  Lemma run_lengths : forall ops rs fin w, run env cx ops = (rs, fin, w) -> length rs = length ops.
  Proof.
    intros ops rs fin w H. unfold run in H.
    destruct (run_ops cx ops (init env)) as [rs0 s] eqn:E.
    destruct (run_ops_inv ops _ _ _ _ _ _ E (init_inv env Henv)) as [_ L].
    destruct (written s); [|destruct (flush_headers cx s) as [[r s2] nz]]; inversion H; subst; exact L.
  Qed.

  (* ---------- the wire carries no control byte other than the CRLF separators ---------- *)
  Definition wire_byte_ok (b : N) : Prop := b = 13 \/ b = 10 \/ valid_hchar b = true.
  Lemma block_bytes : forall ls, forallb clean_line ls = true -> Forall wire_byte_ok (block ls).
  Proof.
    intros ls H. unfold block. apply Forall_app; split.
    - induction ls as [|l ls IH]; [constructor|].
      cbn [forallb] in H. apply andb_true_iff in H as [Hl Hls]. cbn [flat_map].
      apply Forall_app; split; [|apply IH; exact Hls]. apply Forall_app; split.
      + unfold clean_line in Hl. destruct l; [discriminate|].
        apply Forall_forall. intros b Hb. right; right. eapply forallb_forall in Hl; eauto.
      + unfold CRLF. constructor; [left; reflexivity|]. constructor; [right; left; reflexivity|constructor].
    - unfold CRLF. constructor; [left; reflexivity|]. constructor; [right; left; reflexivity|constructor].
  Qed.

  Theorem wire_bytes : forall ops rs fin w, run env cx ops = (rs, fin, w) -> Forall wire_byte_ok w.
  Proof.
    intros ops rs fin w H. destruct w as [|b w'] eqn:Ew; [constructor|]. rewrite <- Ew in *.
    assert (Hne : w <> []) by (subst w; discriminate).
    destruct (block_exact ops rs fin w H Hne) as (sl & hls & E & Hp & _).
    rewrite join_block in E. rewrite E. apply block_bytes.
    rewrite E in Hp. eapply strict_parse_clean; eauto.
  Qed.

  Theorem no_nul_on_wire : forall ops rs fin w, run env cx ops = (rs, fin, w) -> ~ In 0 w.
  Proof.
    intros ops rs fin w H Hin. pose proof (wire_bytes ops rs fin w H) as F.
    eapply Forall_forall in F; eauto. destruct F as [F|[F|F]]; try discriminate.
  Qed.

  (* ---------- the boolean checker accepts the model ---------- *)
  Lemma res_of_obs_res : forall r, res_of_obs (obs_res r) = Some r.
  Proof. intros [|e]; [reflexivity|destruct e; reflexivity]. Qed.
  Lemma sequence_res : forall rs, sequence_o (map res_of_obs (map obs_res rs)) = Some rs.
  Proof.
    induction rs as [|r rs IH]; [reflexivity|]. cbn [map sequence_o]. rewrite res_of_obs_res, IH. reflexivity.
  Qed.

  Theorem check_case_model : forall ops, check_case (env, cx, Handler ops) (run_case (env, cx, Handler ops)) = true.
  Proof.
    intro ops. unfold run_case, check_case, check_gen.
    destruct (run env cx ops) as [[rs fin] w] eqn:E.
    rewrite sequence_res. rewrite (run_lengths _ _ _ _ E), Nat.eqb_refl. cbn [andb].
    destruct w as [|b w'] eqn:Ew; [reflexivity|]. rewrite <- Ew in *.
    assert (Hne : w <> []) by (subst w; discriminate).
    destruct (block_exact ops rs fin w E Hne) as (sl & hls & _ & Hp & Hs & Hw & Hin & Hl).
    unfold block_ok. rewrite Hp. rewrite Hw.
    assert (X1 : existsb (fun c => opt_text_eqb c sl) (status_candidates ops) = true).
    { apply existsb_exists. exists (Some sl). split; [exact Hs|]. cbn [opt_text_eqb]. apply text_eqb_refl. }
    assert (X2 : forallb (fun l => mem_text l (default_lines env ++ framing_lines ++ app_lines ops rs)) hls = true).
    { apply forallb_forall. intros l Hl'. eapply Forall_forall in Hin; eauto.
      unfold mem_text. apply existsb_exists. exists l. split; [exact Hin|apply text_eqb_refl]. }
    rewrite X1, X2. cbn [andb]. apply Nat.leb_le. exact Hl.
  Qed.
End Top.

(* ================= per-argument rejection ================= *)
Lemma unsafe_value_rejected : forall v c, In c (value_text v) -> valid_hchar c = false ->
  convert_header_value v = None.
Proof.
  intros v c Hin Hc. unfold convert_header_value.
  destruct (forallb valid_hchar (value_text v)) eqn:E; [|reflexivity].
  eapply forallb_forall in E; eauto. congruence.
Qed.
Lemma set_header_rejects : forall n v s c, In c (value_text v) -> valid_hchar c = false ->
  set_header n v s = (Err EValue, s).
Proof. intros. unfold set_header. erewrite unsafe_value_rejected; eauto. Qed.
Lemma add_header_rejects : forall n v s c, In c (value_text v) -> valid_hchar c = false ->
  add_header n v s = (Err EValue, s).
Proof. intros. unfold add_header. erewrite unsafe_value_rejected; eauto. Qed.

Lemma existsb_In : forall {A} (f : A -> bool) l x, In x l -> f x = true -> existsb f l = true.
Proof. intros. apply existsb_exists. eauto. Qed.

(* a reason phrase with an unsafe character (or '<') is replaced, never sent *)
Lemma set_status_replaces : forall c x s ch, In ch x -> (valid_hchar ch = false \/ ch = 60) ->
  set_status c (Some (Str x)) s =
  (Ok, mkSt c (t "Unknown"%string) (hdrs s) (cookies s) (written s) (wire s)).
Proof.
  intros c x s ch Hin Hbad. unfold set_status.
  assert (E : existsb (N.eqb 60) x || negb (is_reason_phrase x) = true).
  { destruct Hbad as [Hb| ->].
    - apply orb_true_iff. right. apply negb_true_iff. unfold is_reason_phrase.
      destruct x; [reflexivity|]. destruct (forallb is_fv_char (n :: x)) eqn:F; [|reflexivity].
      eapply forallb_forall in F; eauto. rewrite fv_char_valid in F. congruence.
    - apply orb_true_iff. left. eapply existsb_In; eauto. }
  rewrite E. reflexivity.
Qed.

(* set_cookie: a failing call leaves the handler untouched; control characters (and, in name
   and attributes, ';' and DEL) make it fail *)
Lemma set_cookie_err_frame : forall n v d p ss fl s e s',
  set_cookie n v d p ss fl s = (Err e, s') ->
  hdrs s' = hdrs s /\ code s' = code s /\ reason s' = reason s /\ written s' = written s /\
  wire s' = wire s /\ incl (map snd (cookies s')) (map snd (cookies s)).
Proof.
  intros n v d p ss fl s e s' H. unfold set_cookie in H.
  assert (Same : hdrs s = hdrs s /\ code s = code s /\ reason s = reason s /\ written s = written s /\
                 wire s = wire s /\ incl (map snd (cookies s)) (map snd (cookies s))).
  { repeat split; auto. apply incl_refl. }
  destruct (native_str n) as [name|]; [|inversion H; subst; auto].
  destruct (native_str v) as [value|]; [|inversion H; subst; auto].
  destruct (existsb cookie_value_bad value); [inversion H; subst; auto|].
  destruct (existsb cookie_attr_bad name); [inversion H; subst; auto|].
  destruct (check_attr d); [|inversion H; subst; auto].
  destruct (check_attr p); [|inversion H; subst; auto].
  destruct (check_attr ss); [|inversion H; subst; auto].
  destruct (negb (morsel_key_ok name)); [inversion H; subst; auto|].
  match type of H with (if ?b then _ else _) = _ => destruct b end; inversion H; subst.
  cbn [hdrs code reason written wire cookies]. repeat split; auto.
  intros m Hm. apply in_map_iff in Hm as ([k m'] & <- & Hin). cbn [snd].
  destruct (d_get name (cookies s)) as [prev|] eqn:G.
  - apply in_app_or in Hin as [Hin|[Hin|[]]].
    + apply In_d_del in Hin. apply in_map_iff. exists (k, m'). auto.
    + apply d_get_In in G. apply in_map_iff. exists (name, prev). split; [cbn [snd]; inversion Hin; reflexivity|exact G].
  - apply In_d_del in Hin. apply in_map_iff. exists (k, m'). auto.
Qed.
Definition attr_has_bad (a : option pstr) : Prop :=
  exists x c, a = Some (Str x) /\ In c x /\ cookie_attr_bad c = true.
Lemma check_attr_bad : forall a, attr_has_bad a -> check_attr a = Err ECookie.
Proof.
  intros a (x & c & -> & Hin & Hc). cbn [check_attr]. erewrite existsb_In; eauto.
Qed.
Lemma set_cookie_rejects : forall n v d p ss fl s name value,
  native_str n = Some name -> native_str v = Some value ->
  (exists c, In c value /\ c <= 32) \/ (exists c, In c name /\ cookie_attr_bad c = true) \/
  attr_has_bad d \/ attr_has_bad p \/ attr_has_bad ss ->
  exists e, set_cookie n v d p ss fl s = (Err e, s).
Proof.
  intros n v d p ss fl s name value En Ev H. unfold set_cookie. rewrite En, Ev.
  destruct (existsb cookie_value_bad value) eqn:B1; [eauto|].
  destruct (existsb cookie_attr_bad name) eqn:B2; [eauto|].
  destruct H as [(c & Hin & Hc)|[(c & Hin & Hc)|H]].
  - assert (existsb cookie_value_bad value = true).
    { eapply existsb_In; eauto. unfold cookie_value_bad. apply N.leb_le. exact Hc. }
    congruence.
  - assert (existsb cookie_attr_bad name = true) by (eapply existsb_In; eauto). congruence.
  - destruct (check_attr d) as [|e1] eqn:C1; [|eauto].
    destruct (check_attr p) as [|e2] eqn:C2; [|eauto].
    destruct (check_attr ss) as [|e3] eqn:C3; [|eauto].
    destruct H as [H|[H|H]]; apply check_attr_bad in H; congruence.
Qed.

(* redirect: an unsafe byte in the (UTF-8 encoded) target is refused before anything is written *)
Lemma redirect_rejects : forall cx u p s b c, written s = false -> utf8 u = Some b ->
  In c b -> valid_hchar c = false ->
  exists s', redirect cx u p s = (Err EValue, s') /\ wire s' = wire s /\ written s' = false /\ hdrs s' = hdrs s.
Proof.
  intros cx u p s b c W Eu Hin Hc. unfold redirect. rewrite W, Eu.
  rewrite (set_header_rejects (Str k_location) (Byt b) _ c Hin Hc).
  eexists. split; [reflexivity|]. cbn [set_status snd wire written hdrs]. auto.
Qed.
