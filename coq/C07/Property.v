(* C07 — Application data cannot inject header lines or split a response.
   Property theorems only; proofs are in ProofsBase.v / ProofsInv.v / Proofs.v.

   Setting: [run env cx ops] = a fresh RequestHandler answering the request described by [cx]
   (HTTP/1.0 or HTTP/1.1, GET or HEAD, request "Connection:" absent / keep-alive / close -- ALL
   theorems quantify over it), the calls [ops]
   (set_header / add_header / set_status / set_cookie / redirect, each argument a Python str or
   bytes over arbitrary code points) made one after the other with the application swallowing any
   exception, then flush() unless redirect already wrote the headers.  Result: the outcome of
   every call, of the final flush, and every byte handed to the transport.
   [env] = the framework's own Server and Date values; [env_ok]: they are header-safe text. *)
From Coq Require Import String.
From Coq Require Import List NArith Bool.
Import ListNotations.
From TV Require Import Lib.Obs Lib.C21_Utf8 C06.Model C07.PyTables C07.Model C07.Run
  C07.ProofsBase C07.ProofsInv C07.Proofs C07.ProofsRoutes C07.SrcGen C07.SrcEquiv.
Local Open Scope N_scope.

Definition env0 : text * text := (t "TornadoServer/6.6", t "Mon, 12 Jan 1970 13:46:40 GMT").
Example env0_ok : env_ok env0.
Proof. split; vm_compute; reflexivity. Qed.

(* MAIN.  For every call sequence: if anything at all reaches the wire, it is
     status-line CRLF header-line CRLF ... header-line CRLF CRLF      and nothing else (no body),
   a strict client parser (split at CRLF only; a bare CR or LF, a NUL, any C0 control or DEL, an
   empty line inside the block, or bytes after the blank line are errors) reads back exactly
   those lines; the status line is "HTTP/1.1 <code> <reason>" for a code and a reason taken from
   the calls (or the defaults / "Unknown"); every header line reads  token ": " value; every
   header line is one of the framework's own 7 constant lines or THE line one call that was not
   rejected is entitled to (normalised-name ": " value / "Location: " url / "Set-Cookie: "
   cookie), and there are at most 5 + (number of entitled lines) of them: a call cannot add a
   second line, a second status line, or a body. *)
Theorem C07_header_block_is_exactly_the_intended_lines :
  forall env cx ops rs fin w, env_ok env ->
    run env cx ops = (rs, fin, w) -> w <> [] ->
    exists sl hls,
      w = join CRLF (sl :: hls) ++ CRLF ++ CRLF /\
      strict_parse w = Some (sl, hls) /\
      In (Some sl) (status_candidates ops) /\
      forallb well_formed_header hls = true /\
      Forall (fun l => In l (default_lines env ++ framing_lines ++ app_lines ops rs)) hls /\
      (length hls <= 5 + length (app_lines ops rs))%nat.
Proof. intros env cx ops rs fin w He. exact (block_exact env He cx ops rs fin w). Qed.
Print Assumptions C07_header_block_is_exactly_the_intended_lines.

(* the hypotheses are met by a non-trivial run (a header, a cookie, a custom reason) *)
Example C07_main_nontrivial :
  exists rs fin w,
    run env0 (mkCtx false true CKeepAlive) [SetHeader (Str (t "x-ab")) (Byt (t "v 1")); SetStatus 299 (Some (Str (t "Fine")));
              SetCookie (Str (t "sid")) (Str (t "a;b")) None (Some (Str (t "/"))) None (mkFl (Some 60) true false);
              SetHeaderNum (Str (t "x-n")) 42; ClearHeader (Str (t "server"))] = (rs, fin, w)
    /\ w <> [] /\ fin = Some Ok.
Proof. eexists _, _, _. vm_compute. repeat split. discriminate. Qed.

(* No CR, LF, NUL (or any other control byte) supplied by the application reaches the wire: every
   byte on the wire is HTAB / SP / VCHAR / obs-text, or belongs to the CRLF separators that the
   theorem above accounts for one by one. *)
Theorem C07_only_separator_control_bytes_on_the_wire :
  forall env cx ops rs fin w, env_ok env -> run env cx ops = (rs, fin, w) ->
    Forall (fun b => b = 13 \/ b = 10 \/ valid_hchar b = true) w.
Proof. intros env cx ops rs fin w He. exact (wire_bytes env He cx ops rs fin w). Qed.
Print Assumptions C07_only_separator_control_bytes_on_the_wire.

Theorem C07_no_NUL_on_the_wire :
  forall env cx ops rs fin w, env_ok env -> run env cx ops = (rs, fin, w) -> ~ In 0 w.
Proof. intros env cx ops rs fin w He. exact (no_nul_on_wire env He cx ops rs fin w). Qed.
Print Assumptions C07_no_NUL_on_the_wire.

(* the boolean checker applied to the implementation's observable accepts the model's own output *)
Theorem C07_model_satisfies_checker :
  forall env cx ops, env_ok env -> check_case (env, cx, Handler ops) (run_case (env, cx, Handler ops)) = true.
Proof. intros env cx ops He. exact (check_case_model env He cx ops). Qed.
Print Assumptions C07_model_satisfies_checker.

(* ---- "the call is rejected": per argument, for every character ---- *)
(* header values (str or bytes), set_header and add_header: any code point outside
   [\t\x20-\x7e\x80-\xff] -> ValueError, handler unchanged *)
Theorem C07_set_header_rejects_unsafe_value :
  forall n v s c, In c (value_text v) -> valid_hchar c = false ->
    set_header n v s = (Err EValue, s) /\ add_header n v s = (Err EValue, s).
Proof. intros. split; [eapply set_header_rejects|eapply add_header_rejects]; eauto. Qed.
Print Assumptions C07_set_header_rejects_unsafe_value.

(* reason phrase: an unsafe character or '<' -> the phrase is dropped for "Unknown" (no exception, by design) *)
Theorem C07_unsafe_reason_is_replaced :
  forall c x s ch, In ch x -> (valid_hchar ch = false \/ ch = 60) ->
    set_status c (Some (Str x)) s =
    (Ok, mkSt c (t "Unknown") (hdrs s) (cookies s) (written s) (wire s)).
Proof. exact set_status_replaces. Qed.
Print Assumptions C07_unsafe_reason_is_replaced.

(* cookies: a C0 control or space in the value, or a C0 control, space, ';' or DEL in the name,
   domain, path or samesite -> exception, handler unchanged *)
Theorem C07_set_cookie_rejects_control_characters :
  forall n v d p ss fl s name value,
    native_str n = Some name -> native_str v = Some value ->
    (exists c, In c value /\ c <= 32) \/ (exists c, In c name /\ cookie_attr_bad c = true) \/
    attr_has_bad d \/ attr_has_bad p \/ attr_has_bad ss ->
    exists e, set_cookie n v d p ss fl s = (Err e, s).
Proof. exact set_cookie_rejects. Qed.
Print Assumptions C07_set_cookie_rejects_control_characters.
Example C07_set_cookie_hyp_example :
  native_str (Byt [115; 195; 169]) = Some [115; 233] /\ attr_has_bad (Some (Str [47; 13; 10; 88])).
Proof. split; [vm_compute; reflexivity|]. exists [47; 13; 10; 88], 13. repeat split; simpl; auto. Qed.

(* redirect: an unsafe byte in the target -> ValueError, nothing written, headers unchanged *)
Theorem C07_redirect_rejects_unsafe_target :
  forall cx u p s b c, written s = false -> utf8 u = Some b -> In c b -> valid_hchar c = false ->
    exists s', redirect cx u p s = (Err EValue, s') /\ wire s' = wire s /\ written s' = false /\ hdrs s' = hdrs s.
Proof. exact redirect_rejects. Qed.
Print Assumptions C07_redirect_rejects_unsafe_target.

(* the witness of DESIGN.md section 8 ("X-A\x00b: v" on the wire), fixed in /repo by 56282e5:
   the call is accepted, the flush raises ValueError and nothing reaches the wire *)
Example C07_nul_in_header_name_rejected_at_flush :
  forall cx, run env0 cx [SetHeader (Str [88; 45; 65; 0; 98]) (Str (t "v"))] = ([Ok], Some (Err EValue), []).
Proof. intros [[|] [|] [| |]]; vm_compute; reflexivity. Qed.

(* ================= routes 2 and 3: applications that reach write_headers without RequestHandler =================
   Route 2 [run_raw c reason hs]: a low-level delegate application fills its own HTTPHeaders
   (h[n] = v, unvalidated, or h.add(n, v)) and calls write_headers(ResponseStartLine(.., c, reason), h).
   Route 3 [run_wsgi server status hs]: a WSGI application under WSGIContainer calls
   start_response(status, hs).
   Same statement as MAIN, at full strength (since fix 92da2a1 write_headers itself refuses every
   character outside [\t\x20-\x7e\x80-\xff] in the reason and in every value): the call is rejected
   and nothing is written, or the strict parser reads back exactly  HTTP/1.1 <code> <reason as given>
   and, per accepted (name, value) pair, THE line normalised-name ": " value (plus the chunked marker /
   the three WSGI defaults), nothing more, no body. *)
Theorem C07_raw_header_block_is_exactly_the_intended_lines :
  forall cx c rsn hs rs fin w, run_raw cx c rsn hs = (rs, fin, w) ->
    length rs = length hs /\ (fin = Ok \/ w = []) /\
    (w <> [] ->
     exists start hls,
       status_line c rsn = Some start /\
       w = join CRLF (start :: hls) ++ CRLF ++ CRLF /\
       strict_parse w = Some (start, hls) /\
       forallb well_formed_header hls = true /\
       Forall (fun l => In l (header_line (k_te, v_chunked) :: conn_lines ++ raw_lines hs rs)) hls /\
       (length hls <= 2 + length (raw_lines hs rs))%nat).
Proof. exact raw_block_exact. Qed.
Print Assumptions C07_raw_header_block_is_exactly_the_intended_lines.
Example C07_raw_nontrivial :
  exists rs w, run_raw (mkCtx false false CKeepAlive) 404 (t "Not Here") [HSet (t "x-ab") (t "v 1"); HAdd (t "X-C") (t "w")] = (rs, Ok, w) /\ w <> [].
Proof. eexists _, _. vm_compute. split; [reflexivity|discriminate]. Qed.

Theorem C07_wsgi_header_block_is_exactly_the_intended_lines :
  forall env cx status hs w, run_wsgi cx (fst env) status hs = w -> w <> [] ->
    exists cs rsn c start hls,
      split_sp status = Some (cs, rsn) /\ py_int cs = Some c /\
      status_line c rsn = Some start /\
      w = join CRLF (start :: hls) ++ CRLF ++ CRLF /\
      strict_parse w = Some (start, hls) /\
      forallb well_formed_header hls = true /\
      Forall (fun l => In l (wsgi_consts env ++ map pair_line hs)) hls /\
      (length hls <= 5 + length hs)%nat.
Proof. exact wsgi_block_exact. Qed.
Print Assumptions C07_wsgi_header_block_is_exactly_the_intended_lines.
Example C07_wsgi_nontrivial :
  run_wsgi (mkCtx true true CClose) (fst env0) (t "404 Not Here") [(t "x-ab", t "v 1")] <> [].
Proof. vm_compute. discriminate. Qed.

(* write_headers on its own: CR, LF, NUL, any C0 control but HTAB, DEL or a code point above U+00FF in the
   reason, or in a stored header value, makes it raise before anything is written
   (the guard on the reason is what seeded/C07_1 removes for CR/LF) *)
Theorem C07_write_headers_rejects_unsafe_reason :
  forall cx c rsn h ch, In ch rsn -> valid_hchar ch = false -> exists e, write_headers cx c rsn h = inl e.
Proof. exact write_headers_rejects_unsafe_reason. Qed.
Print Assumptions C07_write_headers_rejects_unsafe_reason.
Theorem C07_write_headers_rejects_unsafe_value :
  forall cx c rsn h k v ch, In (k, v) (pairs_of h) -> text_eqb k_te k = false -> text_eqb k_conn k = false ->
    In ch v -> valid_hchar ch = false -> exists e, write_headers cx c rsn h = inl e.
Proof. exact write_headers_rejects_unsafe_value. Qed.
Print Assumptions C07_write_headers_rejects_unsafe_value.

(* the full-strength checker accepts the model on both routes *)
Theorem C07_routes_model_satisfies_checker :
  forall env cx,
    (forall c rsn hs, check_case (env, cx, Raw c rsn hs) (run_case (env, cx, Raw c rsn hs)) = true) /\
    (forall status hs, check_case (env, cx, Wsgi status hs) (run_case (env, cx, Wsgi status hs)) = true).
Proof. intros env cx. split; intros; [apply check_raw|apply check_wsgi]. Qed.
Print Assumptions C07_routes_model_satisfies_checker.

(* the former witnesses (NUL on the wire through these routes before 92da2a1) are now rejected *)
Example C07_raw_nul_in_reason_rejected :
  run_raw (mkCtx true false CNone) 200 [97; 0; 98] [] = ([], Err EValue, []).
Proof. vm_compute. reflexivity. Qed.
Example C07_raw_nul_in_value_rejected :
  run_raw (mkCtx true false CNone) 204 (t "OK") [HSet (t "X") [118; 0]] = ([Ok], Err EValue, []).
Proof. vm_compute. reflexivity. Qed.
Example C07_wsgi_nul_in_reason_rejected :
  run_wsgi (mkCtx true false CNone) (fst env0) (t "304 a" ++ [0]) [] = [].
Proof. vm_compute. reflexivity. Qed.
Example C07_raw_crlf_in_reason_rejected :
  run_raw (mkCtx true false CNone) 200 (t "OK" ++ CRLF ++ t "Set-Cookie: x=y") [] = ([], Err EValue, []).
Proof. vm_compute. reflexivity. Qed.

(* ================= the guards in the source are the model's (translators/c07_src.py, regenerated every run) =================
   The character classes of _VALID_HEADER_CHARS, _FIELD_VALUE_CHARS_RE, _ABNF.reason_phrase, _ABNF.field_name,
   the two set_cookie classes and CR_OR_LF_RE, read from the source text, denote exactly the model's predicates
   (for every code point); the statements that apply them (tail of write_headers incl. "for line in lines",
   _convert_header_value, the set_status test, the head of set_cookie) are pinned by the reader, which fails
   closed on any other shape. *)
Theorem C07_source_guards_are_the_models :
  (forall c, in_ranges src_valid_header_chars c = valid_hchar c) /\
  (forall c, in_ranges src_field_value_chars c = valid_hchar c) /\
  (forall c, in_ranges src_reason_phrase c = is_fv_char c) /\
  (forall c, in_ranges src_field_name c = is_tchar c) /\
  (forall c, in_ranges src_cookie_value_bad c = cookie_value_bad c) /\
  (forall c, in_ranges src_cookie_attr_bad c = cookie_attr_bad c) /\
  (forall l, existsb (in_ranges src_cr_or_lf) l = has_cr_lf l) /\
  src_valid_header_chars_q = QStar /\ src_field_value_chars_q = QStar /\
  src_reason_phrase_q = QPlus /\ src_field_name_q = QPlus.
Proof.
  pose proof src_valid_header_chars_ok as [A1 A2]. pose proof src_field_value_chars_ok as [B1 B2].
  pose proof src_reason_phrase_ok as [C1 C2]. pose proof src_field_name_ok as [D1 D2].
  pose proof src_cookie_classes_ok as (E1 & E2 & _).
  repeat split; auto. apply src_cr_lf_ok.
Qed.
Print Assumptions C07_source_guards_are_the_models.
