(* C07 — every header-producing call of tornado.web.RequestHandler, down to the bytes that
   HTTP1Connection.write_headers hands to the transport, as the code is in /repo (after fixes
   56282e5, 9b29e11, cb7d7c0, 92da2a1).  Executable model of

     web.py      RequestHandler.clear (default headers), set_status, set_header, add_header,
                 _convert_header_value, set_cookie, redirect, finish (the part redirect reaches),
                 flush (cookie finalisation + write_headers call)
     httputil.py _normalize_header (with Python's full Unicode case mapping, PyTables.v),
                 HTTPHeaders.__setitem__ / add / __contains__ / __getitem__ / get_all,
                 _ABNF.field_name / field_value / reason_phrase
     escape.py   utf8, native_str (UTF-8 codec: Lib/C21_Utf8.v)
     http/cookies.py (CPython 3.12)  _is_legal_key, _quote, Morsel.set, Morsel.OutputString
     http1connection.py  HTTP1Connection.write_headers (server side, HTTP/1.1 GET request,
                 keep-alive), parse_int, the Content-Length check of HTTP1Connection.finish

   Text (str) is a list of code points, bytes a list of byte values; both [list N].
   Definitions only. *)
From Coq Require Import List NArith Bool String Ascii.
Import ListNotations.
From TV Require Import Lib.C21_Utf8 C06.Model C07.PyTables.
Local Open Scope N_scope.

(* ---------- literals ---------- *)
Fixpoint t (s : string) : text :=
  match s with EmptyString => [] | String a r => N_of_ascii a :: t r end.

Definition CRLF : text := [13; 10].

(* ---------- arguments: Python str or bytes ---------- *)
Inductive pstr := Str (s : text) | Byt (b : text).

Inductive exn :=
| EValue      (* ValueError *)
| EType       (* TypeError *)
| ECookie     (* http.cookies.CookieError *)
| EUniDec     (* UnicodeDecodeError *)
| EUniEnc     (* UnicodeEncodeError *)
| EInput      (* httputil.HTTPInputError *)
| EOutput     (* httputil.HTTPOutputError *)
| EKeyErr     (* KeyError *)
| EException. (* Exception("Cannot redirect after headers have been written") *)
Inductive res := Ok | Err (e : exn).

(* ---------- Python's str.capitalize: full titlecase of the first code point, full lowercase of
   the rest (tables from unicodedata of the running interpreter; U+03A3, whose lowercase depends on
   context, is outside the table's domain and outside the generated inputs) ---------- *)
Fixpoint assoc {V} (c : N) (l : list (N * V)) : option V :=
  match l with
  | [] => None
  | (k, v) :: l' => if c =? k then Some v else assoc c l'
  end.
Definition py_title (c : N) : text :=
  match assoc c case_table with Some (ti, _) => ti | None => [c] end.
Definition py_lower (c : N) : text :=
  match assoc c case_table with Some (_, lo) => lo | None => [c] end.
Definition capitalize_u (w : text) : text :=
  match w with [] => [] | c :: r => py_title c ++ flat_map py_lower r end.
(* httputil._normalize_header *)
Definition normalize_u (n : text) : text :=
  join [c_dash] (map capitalize_u (split_on c_dash n)).

(* ---------- escape.native_str / escape.utf8 ---------- *)
Definition native_str (x : pstr) : option text :=        (* None = UnicodeDecodeError *)
  match x with Str s => Some s | Byt b => utf8_decode b end.
Definition utf8 (x : pstr) : option text :=              (* None = UnicodeEncodeError *)
  match x with Str s => utf8_encode s | Byt b => Some b end.

(* ---------- RequestHandler._convert_header_value (str / bytes arguments) ---------- *)
(* _VALID_HEADER_CHARS = [\x09\x20-\x7e\x80-\xff]* *)
Definition valid_hchar (c : N) : bool := (c =? 9) || in_range 32 126 c || in_range 128 255 c.
Definition value_text (v : pstr) : text :=
  match v with Str s => s | Byt b => b (* .decode("latin1") *) end.
Definition convert_header_value (v : pstr) : option text :=   (* None = ValueError *)
  let s := value_text v in if forallb valid_hchar s then Some s else None.

(* ---------- decimal rendering ("%d") ---------- *)
Fixpoint dec_aux (fuel : nat) (n : N) (acc : text) : text :=
  match fuel with
  | O => acc
  | S f => let acc' := (48 + n mod 10) :: acc in
           if n <? 10 then acc' else dec_aux f (n / 10) acc'
  end.
(* N.size_nat n binary digits bound the number of decimal digits *)
Definition dec (n : N) : text := dec_aux (S (N.size_nat n)) n [].

(* ---------- http.cookies ---------- *)
(* _LegalChars = letters + digits + "!#$%&'*+-.^_`|~:" *)
Definition cookie_legal (c : N) : bool := is_tchar c || (c =? 58).
(* _UnescapedChars = _LegalChars + ' ()/<=>?@[]{}' *)
Definition cookie_unescaped (c : N) : bool :=
  cookie_legal c || existsb (N.eqb c) [32; 40; 41; 47; 60; 61; 62; 63; 64; 91; 93; 123; 125].
Definition is_legal_key (k : text) : bool :=
  match k with [] => false | _ => forallb cookie_legal k end.
Definition octal3 (c : N) : text := [48 + c / 64; 48 + (c / 8) mod 8; 48 + c mod 8].
(* str.translate(_Translator) for one code point *)
Definition translate1 (c : N) : text :=
  if c =? 34 then [92; 34]
  else if c =? 92 then [92; 92]
  else if (c <? 256) && negb (cookie_unescaped c) then 92 :: octal3 c
  else [c].
Definition cookie_quote (v : text) : text :=
  if is_legal_key v then v else [34] ++ flat_map translate1 v ++ [34].
Definition reserved_keys : list text :=
  map t ["expires"; "path"; "comment"; "domain"; "max-age"; "secure"; "httponly"; "version"; "samesite"]%string.
Definition mem_text (x : text) (l : list text) : bool := existsb (text_eqb x) l.
(* Morsel.set: key.lower() in _reserved, or not _is_legal_key(key) -> CookieError *)
Definition morsel_key_ok (k : text) : bool :=
  negb (mem_text (flat_map py_lower k) reserved_keys) && is_legal_key k.

(* the attributes set_cookie takes from the application *)
Record cflags := mkFl { f_maxage : option N; f_httponly : bool; f_secure : bool }.
Record morsel := mkMorsel {
  m_key : text; m_coded : text;
  m_domain : option text; m_path : option text; m_samesite : option text;
  m_flags : cflags }.
Definition flag_part (label : string) (b : bool) : list text := if b then [t label] else [].
Definition maxage_part (a : option N) : list text :=
  match a with Some n => [t "Max-Age=" ++ dec n] | None => [] end.
Definition attr_part (label : string) (a : option text) : list text :=
  match a with Some v => [t label ++ [61] ++ v] | None => [] end.
(* Morsel.OutputString(None): key=coded, then the non-empty attributes sorted by key
   (domain, httponly, max-age, path, samesite, secure) *)
Definition output_string (m : morsel) : text :=
  join (t "; ") ((m_key m ++ [61] ++ m_coded m)
                 :: attr_part "Domain" (m_domain m)
                 ++ flag_part "HttpOnly" (f_httponly (m_flags m))
                 ++ maxage_part (f_maxage (m_flags m))
                 ++ attr_part "Path" (m_path m)
                 ++ attr_part "SameSite" (m_samesite m)
                 ++ flag_part "Secure" (f_secure (m_flags m))).

(* ---------- handler + connection state ---------- *)
Record st := mkSt {
  code : N; reason : text;
  hdrs : list (text * list text);        (* RequestHandler._headers._as_list (insertion ordered) *)
  cookies : list (text * morsel);        (* RequestHandler._new_cookie (insertion ordered) *)
  written : bool;                        (* _headers_written *)
  wire : text                            (* every byte handed to the transport *)
}.

Definition k_server := t "Server".  Definition k_ctype := t "Content-Type".  Definition k_date := t "Date".
Definition k_clen := t "Content-Length".  Definition k_te := t "Transfer-Encoding".
Definition k_location := t "Location".  Definition k_setcookie := t "Set-Cookie".
Definition v_ctype := t "text/html; charset=UTF-8".
Definition v_chunked := t "chunked".

(* HTTPHeaders.__setitem__ / __contains__ / __getitem__ *)
Definition h_set (n v : text) (h : list (text * list text)) := d_set (normalize_u n) [v] h.
Definition h_mem (n : text) (h : list (text * list text)) : bool := d_mem (normalize_u n) h.
Definition h_get (n : text) (h : list (text * list text)) : option text :=
  match d_get (normalize_u n) h with Some vs => Some (join [c_comma] vs) | None => None end.

(* HTTPHeaders.add *)
Definition h_add (n v : text) (h : list (text * list text)) : res * list (text * list text) :=
  if negb (is_token n) then (Err EInput, h) else
  if negb (is_field_value v) then (Err EInput, h) else
  let k := normalize_u n in
  if h_mem k h then
    match d_get k h with
    | Some vs => (Ok, d_set k (vs ++ [v]) h)
    | None => (Err EKeyErr, h)
    end
  else (Ok, h_set k v h).

(* RequestHandler.clear(): HTTPHeaders({"Server":..., "Content-Type":..., "Date":...}); 200 OK.
   env = (Server value, Date value): constants of the run, supplied by the harness *)
Definition init (env : text * text) : st :=
  mkSt 200 (t "OK")
       (h_set k_date (snd env) (h_set k_ctype v_ctype (h_set k_server (fst env) [])))
       [] false [].

(* httputil.responses.get(code, "Unknown") *)
Definition std_reason (c : N) : text :=
  match assoc c responses_table with Some r => r | None => t "Unknown" end.

(* _ABNF.reason_phrase = (?:[\t ]|VCHAR|obs-text)+ *)
Definition is_reason_phrase (r : text) : bool :=
  match r with [] => false | _ => forallb is_fv_char r end.

Definition set_status (c : N) (r : option pstr) (s : st) : res * st :=
  let s1 := mkSt c (reason s) (hdrs s) (cookies s) (written s) (wire s) in
  match r with
  | None => (Ok, mkSt c (std_reason c) (hdrs s) (cookies s) (written s) (wire s))
  | Some (Byt _) => (Err EType, s1)            (* "<" in reason  on bytes *)
  | Some (Str x) =>
      let x' := if existsb (N.eqb 60) x || negb (is_reason_phrase x) then t "Unknown" else x in
      (Ok, mkSt c x' (hdrs s) (cookies s) (written s) (wire s))
  end.

Definition with_hdrs (h : list (text * list text)) (s : st) : st :=
  mkSt (code s) (reason s) h (cookies s) (written s) (wire s).

(* the right-hand side (value conversion) is evaluated before the subscript assignment *)
Definition set_header (n v : pstr) (s : st) : res * st :=
  match convert_header_value v with
  | None => (Err EValue, s)
  | Some x =>
      match n with
      | Byt _ => (Err EType, s)               (* name.split("-") on bytes *)
      | Str nt => (Ok, with_hdrs (h_set nt x (hdrs s)) s)
      end
  end.

(* an int value: str(value), returned without the character check *)
Definition set_header_num (n : pstr) (v : N) (s : st) : res * st :=
  match n with
  | Byt _ => (Err EType, s)
  | Str nt => (Ok, with_hdrs (h_set nt (dec v) (hdrs s)) s)
  end.
(* clear_header: `if name in self._headers: del self._headers[name]` (a bytes name is never "in") *)
Definition clear_header (n : pstr) (s : st) : res * st :=
  match n with
  | Byt _ => (Ok, s)
  | Str nt => (Ok, if h_mem nt (hdrs s) then with_hdrs (d_del (normalize_u nt) (hdrs s)) s else s)
  end.

Definition add_header (n v : pstr) (s : st) : res * st :=
  match convert_header_value v with
  | None => (Err EValue, s)
  | Some x =>
      match n with
      | Byt _ => (Err EType, s)               (* str pattern on bytes *)
      | Str nt => let '(r, h) := h_add nt x (hdrs s) in (r, with_hdrs h s)
      end
  end.

(* re.search(r"[\x00-\x20]", value) *)
Definition cookie_value_bad (c : N) : bool := c <=? 32.
(* re.search(r"[\x00-\x20\x3b\x7f]", attr) *)
Definition cookie_attr_bad (c : N) : bool := (c <=? 32) || (c =? 59) || (c =? 127).

Definition check_attr (a : option pstr) : res :=
  match a with
  | None => Ok
  | Some (Byt _) => Err EType
  | Some (Str x) => if existsb cookie_attr_bad x then Err ECookie else Ok
  end.
(* `if domain:` — only a non-empty str reaches the morsel (bytes were rejected before) *)
Definition attr_val (a : option pstr) : option text :=
  match a with Some (Str (c :: r)) => Some (c :: r) | _ => None end.

Definition set_cookie (n v : pstr) (domain path samesite : option pstr) (fl : cflags) (s : st) : res * st :=
  match native_str n with
  | None => (Err EUniDec, s)
  | Some name =>
    match native_str v with
    | None => (Err EUniDec, s)
    | Some value =>
      if existsb cookie_value_bad value then (Err EValue, s) else
      if existsb cookie_attr_bad name then (Err ECookie, s) else
      match check_attr domain with Err e => (Err e, s) | Ok =>
      match check_attr path with Err e => (Err e, s) | Ok =>
      match check_attr samesite with Err e => (Err e, s) | Ok =>
        if negb (morsel_key_ok name) then (Err ECookie, s) else
        let m := mkMorsel name (cookie_quote value) (attr_val domain) (attr_val path) (attr_val samesite) fl in
        (* fix 9b29e11 / cb7d7c0: the serialized cookie must be a sendable header value NOW; on
           failure the new entry is dropped and an earlier cookie of that name is put back
           (at the end of the jar) *)
        if forallb valid_hchar (output_string m) then
          (Ok, mkSt (code s) (reason s) (hdrs s) (d_del name (cookies s) ++ [(name, m)]) (written s) (wire s))
        else
          (Err EValue,
           mkSt (code s) (reason s) (hdrs s)
                (match d_get name (cookies s) with
                 | Some prev => d_del name (cookies s) ++ [(name, prev)]
                 | None => d_del name (cookies s)
                 end) (written s) (wire s))
      end end end
    end
  end.

(* ---------- HTTP1Connection.write_headers (server side; HTTP/1.0 or 1.1, GET or HEAD, any request
   Connection header; empty chunk) ---------- *)
Definition no_body_code (c : N) : bool := (c =? 204) || (c =? 304) || ((100 <=? c) && (c <? 200)).
Definition all_digits (x : text) : bool := match x with [] => false | _ => forallb (in_range 48 57) x end.
Definition latin1 (x : text) : option text := if forallb (fun c => c <? 256) x then Some x else None.
Fixpoint sequence_o {A} (l : list (option A)) : option (list A) :=
  match l with
  | [] => Some []
  | None :: _ => None
  | Some a :: r => match sequence_o r with Some r' => Some (a :: r') | None => None end
  end.
Definition has_cr_lf (l : text) : bool := existsb (fun c => (c =? 13) || (c =? 10)) l.
Definition header_line (kv : text * text) : text := fst kv ++ [c_colon; c_sp] ++ snd kv.

(* ---------- the request the response answers (what write_headers reads from the connection) ---------- *)
Inductive conn_hdr := CNone | CKeepAlive | CClose.   (* request Connection header, lower-cased *)
Record ctx := mkCtx {
  v11 : bool;          (* request version HTTP/1.1 (else HTTP/1.0) *)
  is_head : bool;      (* request method HEAD (else GET) *)
  rconn : conn_hdr }.
(* _read_message: _disconnect_on_finish = not _can_keep_alive(start_line, headers), GET / HEAD request *)
Definition disconnect0 (x : ctx) : bool :=
  if v11 x then match rconn x with CClose => true | _ => false end
  else match rconn x with CKeepAlive => false | _ => true end.
Definition k_conn := t "Connection".
Definition v_close := t "close".  Definition v_keepalive := t "Keep-Alive".
Definition apply_sets (sets : list (text * text)) (h : list (text * list text)) :=
  fold_left (fun h kv => h_set (fst kv) (snd kv) h) sets h.
(* the header assignments write_headers makes itself, in order:
   Connection: close / Connection: Keep-Alive / Transfer-Encoding: chunked *)
Definition framing_sets (x : ctx) (c : N) (h0 : list (text * list text)) : list (text * text) :=
  let body_ok := negb (no_body_code c) in
  let chunking := v11 x && negb (is_head x) && body_ok && negb (h_mem k_clen h0) in
  let s1 := if v11 x && disconnect0 x then [(k_conn, v_close)] else [] in
  let h1 := apply_sets s1 h0 in
  let disc := disconnect0 x || (negb (v11 x) && negb (is_head x) && body_ok && negb (h_mem k_clen h1)) in
  let s2 := if negb (v11 x) && (match rconn x with CKeepAlive => true | _ => false end) && negb disc
            then [(k_conn, v_keepalive)] else [] in
  let s3 := if chunking then [(k_te, v_chunked)] else [] in
  s1 ++ s2 ++ s3.

(* result: exception, or (the bytes written, _expected_content_remaining is a non-zero number) *)
Definition write_headers (x : ctx) (c : N) (rsn : text) (h0 : list (text * list text))
  : exn + (text * bool * list (text * list text)) :=
  match utf8_encode (t "HTTP/1.1 " ++ dec c ++ [c_sp] ++ rsn) with
  | None => inl EUniEnc
  | Some start =>
    let h := apply_sets (framing_sets x c h0) h0 in
    let expect : option (option bool) :=      (* None = parse_int raised; Some None = no length *)
      if is_head x || no_body_code c then Some (Some false)
      else match h_get k_clen h with
           | None => Some None
           | Some x => if all_digits x then Some (Some (negb (forallb (N.eqb 48) x))) else None
           end in
    match expect with
    | None => inl EValue
    | Some ex =>
      (* fix 92da2a1: a non-empty reason must match _ABNF.reason_phrase; every value must be
         made of [\t\x20-\x7e\x80-\xff] (checked pair by pair together with the name) *)
      if negb (match rsn with [] => true | _ => forallb is_fv_char rsn end) then inl EValue else
      if negb (forallb (fun kv => is_token (fst kv) && forallb valid_hchar (snd kv)) (pairs_of h))
      then inl EValue else
      match sequence_o (map (fun kv => latin1 (header_line kv)) (pairs_of h)) with
      | None => inl EUniEnc
      | Some ls =>
          let lines := start :: ls in
          if existsb has_cr_lf lines then inl EValue
          else inr (join CRLF lines ++ CRLF ++ CRLF,
                    match ex with Some true => true | _ => false end, h)
      end
    end
  end.

(* RequestHandler.flush() while the headers are unwritten: finalise the cookies, write the block *)
Fixpoint add_cookies (cs : list (text * morsel)) (h : list (text * list text))
  : res * list (text * list text) :=
  match cs with
  | [] => (Ok, h)
  | (_, m) :: cs' =>
      match convert_header_value (Str (output_string m)) with
      | None => (Err EValue, h)
      | Some x => match h_add k_setcookie x h with
                  | (Ok, h') => add_cookies cs' h'
                  | (e, h') => (e, h')
                  end
      end
  end.

(* returns (outcome, state, expected-content-remaining is non-zero) *)
Definition flush_headers (x : ctx) (s : st) : res * st * bool :=
  match add_cookies (cookies s) (hdrs s) with
  | (Err e, h) => (Err e, mkSt (code s) (reason s) h (cookies s) true (wire s), false)
  | (Ok, h) =>
      match write_headers x (code s) (reason s) h with
      | inl e => (Err e, mkSt (code s) (reason s) h (cookies s) true (wire s), false)
      | inr (w, nz, h') => (Ok, mkSt (code s) (reason s) h' (cookies s) true (wire s ++ w), nz)
      end
  end.

(* RequestHandler.redirect(url, permanent) -> set_status, set_header("Location", utf8(url)), finish() *)
Definition redirect (x : ctx) (url : pstr) (permanent : bool) (s : st) : res * st :=
  if written s then (Err EException, s) else
  let c := if permanent then 301 else 302 in
  let s1 := snd (set_status c None s) in
  match utf8 url with
  | None => (Err EUniEnc, s1)
  | Some u =>
    match set_header (Str k_location) (Byt u) s1 with
    | (Err e, s2) => (Err e, s2)
    | (Ok, s2) =>
        (* finish(): 301/302 are not 204/304/1xx; Content-Length: 0 unless one is present *)
        let s3 := if h_mem k_clen (hdrs s2) then s2
                  else with_hdrs (h_set k_clen (dec 0) (hdrs s2)) s2 in
        match flush_headers x s3 with
        | (Err e, s4, _) => (Err e, s4)
        | (Ok, s4, nz) => if nz then (Err EOutput, s4) (* HTTP1Connection.finish: short body *)
                          else (Ok, s4)
        end
    end
  end.

Inductive op :=
| SetHeader (n v : pstr)
| AddHeader (n v : pstr)
| SetStatus (c : N) (r : option pstr)
| SetCookie (n v : pstr) (domain path samesite : option pstr) (fl : cflags)
| SetHeaderNum (n : pstr) (v : N)      (* set_header(name, <int>) *)
| ClearHeader (n : pstr)
| Redirect (url : pstr) (permanent : bool).

Definition step (x : ctx) (o : op) (s : st) : res * st :=
  match o with
  | SetHeader n v => set_header n v s
  | AddHeader n v => add_header n v s
  | SetStatus c r => set_status c r s
  | SetCookie n v d p ss fl => set_cookie n v d p ss fl s
  | SetHeaderNum n v => set_header_num n v s
  | ClearHeader n => clear_header n s
  | Redirect u p => redirect x u p s
  end.

(* the application swallows exceptions and carries on *)
Fixpoint run_ops (x : ctx) (ops : list op) (s : st) : list res * st :=
  match ops with
  | [] => ([], s)
  | o :: ops' => let '(r, s1) := step x o s in
                 let '(rs, s2) := run_ops x ops' s1 in (r :: rs, s2)
  end.

(* the whole scenario: fresh handler, the calls, then flush() unless the headers were written.
   final outcome: None = no final flush was made *)
Definition run (env : text * text) (x : ctx) (ops : list op) : list res * option res * text :=
  let '(rs, s) := run_ops x ops (init env) in
  if written s then (rs, None, wire s)
  else let '(r, s', _) := flush_headers x s in (rs, Some r, wire s').

(* ================= the other application-facing routes into write_headers ================= *)

(* ---- route 2: a low-level HTTPMessageDelegate application builds an HTTPHeaders object itself
   (h[name] = value : unvalidated;  h.add(name, value) : validated) and calls
   connection.write_headers(ResponseStartLine("HTTP/1.1", code, reason), h) ---- *)
Inductive hop := HSet (n v : text) | HAdd (n v : text).
Fixpoint build (hs : list hop) (h : list (text * list text)) : list res * list (text * list text) :=
  match hs with
  | [] => ([], h)
  | HSet n v :: r => let '(rs, h') := build r (h_set n v h) in (Ok :: rs, h')
  | HAdd n v :: r => let '(x, h1) := h_add n v h in
                     let '(rs, h') := build r h1 in (x :: rs, h')
  end.
Definition run_raw (x : ctx) (c : N) (rsn : text) (hs : list hop) : list res * res * text :=
  let '(rs, h) := build hs [] in
  match write_headers x c rsn h with
  | inl e => (rs, Err e, [])
  | inr (w, _, _) => (rs, Ok, w)
  end.

(* ---- route 3: tornado.wsgi.WSGIContainer.handle_request; the WSGI application calls
   start_response(status, headers) and returns an empty body ---- *)
(* status.split(" ", 1) must give two parts *)
Fixpoint split_sp (s : text) : option (text * text) :=
  match s with
  | [] => None
  | c :: r => if c =? c_sp then Some ([], r)
              else match split_sp r with Some (a, b) => Some (c :: a, b) | None => None end
  end.
(* int(x) on the inputs we generate: ASCII digits -> the number; anything else we generate
   (empty, or containing an ASCII letter) -> ValueError *)
Definition py_int (x : text) : option N :=
  if all_digits x then Some (fold_left (fun a d => 10 * a + (d - 48)) x 0) else None.
Definition lower_u (n : text) : text := flat_map py_lower n.
Fixpoint add_all (ps : list (text * text)) (h : list (text * list text)) : option (list (text * list text)) :=
  match ps with
  | [] => Some h
  | (n, v) :: r => match h_add n v h with
                   | (Ok, h') => add_all r h'
                   | (Err _, _) => None         (* HTTPInputError escapes handle_request *)
                   end
  end.
Definition wsgi_headers (server : text) (c : N) (hs : list (text * text)) : list (text * text) :=
  let names := map (fun kv => lower_u (fst kv)) hs in
  let hs1 := if c =? 304 then hs else
             let a := if mem_text (t "content-length") names then hs else hs ++ [(k_clen, dec 0)] in
             if mem_text (t "content-type") names then a else a ++ [(k_ctype, v_ctype)] in
  if mem_text (t "server") names then hs1 else hs1 ++ [(k_server, server)].
(* every failure is an exception inside the handle_request coroutine: nothing is written *)
Definition run_wsgi (x : ctx) (server : text) (status : text) (hs : list (text * text)) : text :=
  match split_sp status with
  | None => []
  | Some (cs, rsn) =>
    match py_int cs with
    | None => []
    | Some c =>
      match add_all (wsgi_headers server c hs) [] with
      | None => []
      | Some h => match write_headers x c rsn h with inl _ => [] | inr (w, _, _) => w end
      end
    end
  end.
