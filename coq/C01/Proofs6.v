(* C01 — exact delivery (round trip) of message bodies for every framing:
   Content-Length with any body, chunked with any split into chunks and any
   spelling of the chunk sizes, and no body. *)
From Coq Require Import String.
From Coq Require Import List NArith Arith Bool Lia.
Import ListNotations.
From TV Require Import C01.Model C01.Proofs1 C01.Proofs2 C01.Proofs3 C01.Proofs4.

(* ---------- a chunk-size line is found by read_until(CRLF, 64) ---------- *)
Lemma hexdig_cls x : is_hexdig x = true -> cls x = cO.
Proof.
  unfold is_hexdig, is_digit, in_range, cls, CR, LF. intros H.
  destruct (N.eqb_spec x 13) as [->|_]; [vm_compute in H; discriminate|].
  destruct (N.eqb_spec x 10) as [->|_]; [vm_compute in H; discriminate|]. reflexivity.
Qed.

Lemma find_crlf_c_line (os : list cl) r :
  Forall (fun k => k = cO) os -> find_crlf_c (os ++ cC :: cL :: r) = Some (length os + 2)%nat.
Proof.
  induction 1 as [|k os -> _ IH]; [reflexivity|].
  cbn [app find_crlf_c crlf_at length Nat.add]. rewrite IH. reflexivity.
Qed.

Lemma find_crlf_line sz rest :
  forallb is_hexdig sz = true -> find_crlf (sz ++ CRLF ++ rest) = Some (length sz + 2)%nat.
Proof.
  intros H. unfold find_crlf. rewrite map_app. cbn [CRLF app map].
  change (cls CR) with cC. change (cls LF) with cL.
  rewrite find_crlf_c_line; [rewrite map_length; reflexivity|].
  apply Forall_map. rewrite forallb_forall in H. apply Forall_forall. intros x I.
  apply hexdig_cls. apply H. exact I.
Qed.

Lemma w_until_size_line sz rest :
  forallb is_hexdig sz = true -> (length sz <= 62)%nat ->
  w_delim find_crlf 64 (sz ++ CRLF ++ rest) = RData (sz ++ CRLF) rest.
Proof.
  intros H L. unfold w_delim, delim_pos. rewrite (find_crlf_line sz rest H).
  replace (length sz + 2 <=? 64)%nat with true by (symmetry; apply Nat.leb_le; lia).
  rewrite app_assoc.
  replace (length sz + 2)%nat with (length (sz ++ CRLF)) by (rewrite app_length; reflexivity).
  rewrite firstn_app_le, skipn_app_le by lia.
  rewrite firstn_all, skipn_all. reflexivity.
Qed.

Lemma size_of_line sz : firstn (length (sz ++ CRLF) - 2) (sz ++ CRLF) = sz.
Proof.
  rewrite app_length. cbn [CRLF length]. replace (length sz + 2 - 2)%nat with (length sz) by lia.
  rewrite firstn_app_le by lia. apply firstn_all.
Qed.

(* ---------- chunked bodies ---------- *)
(* a chunk on the wire: any spelling [sz] of the size that the hex parser reads as the
   length of the data (upper/lower case, leading zeros), at most 62 characters *)
Definition chunk_ok (sd : bytes * bytes) : Prop :=
  let '(sz, d) := sd in
  parse_hex_int sz = Some (N.of_nat (length d)) /\ (length sz <= 62)%nat /\ d <> [].
Definition chunk_wire (sd : bytes * bytes) : bytes := fst sd ++ CRLF ++ snd sd ++ CRLF.
Definition chunks_wire (cs : list (bytes * bytes)) : bytes := concat (map chunk_wire cs).
Definition chunks_data (cs : list (bytes * bytes)) : bytes := concat (map snd cs).
Definition chunks_len (cs : list (bytes * bytes)) : N := N.of_nat (length (chunks_data cs)).

Lemma parse_hex_int_hexdig sz n : parse_hex_int sz = Some n -> forallb is_hexdig sz = true.
Proof. unfold parse_hex_int. destruct sz; [discriminate|]. destruct (forallb _ _); [auto|discriminate]. Qed.

Lemma w_exact_crlf rest : w_exact 2 (CRLF ++ rest) = RData CRLF rest.
Proof. reflexivity. Qed.

Theorem chunked_roundtrip (c : cfg) (z : bytes) (rest : bytes) :
  parse_hex_int z = Some 0%N -> (length z <= 62)%nat ->
  forall cs fuel maxb total,
    Forall chunk_ok cs -> (length cs < fuel)%nat -> (total + chunks_len cs <= maxb)%N ->
    exists pieces,
      read_chunked whole_ops c fuel maxb total (chunks_wire cs ++ z ++ CRLF ++ CRLF ++ rest)
        = (pieces, BDone rest) /\ concat pieces = chunks_data cs.
Proof.
  intros Z ZL cs. induction cs as [|[sz d] cs IH]; intros fuel maxb total OK F M.
  - destruct fuel as [|f]; [simpl in F; lia|].
    exists []. split; [|reflexivity].
    cbn [chunks_wire map concat app read_chunked rd_until rd_exact whole_ops].
    rewrite (w_until_size_line z (CRLF ++ rest) (parse_hex_int_hexdig _ _ Z) ZL).
    rewrite size_of_line, Z. cbn [N.eqb]. rewrite w_exact_crlf. reflexivity.
  - destruct fuel as [|f]; [simpl in F; lia|].
    inversion OK as [|? ? CK OK']; subst. cbn [chunk_ok] in CK. destruct CK as [P [L D]].
    assert (LEN : (chunks_len ((sz, d) :: cs) = N.of_nat (length d) + chunks_len cs)%N).
    { unfold chunks_len, chunks_data. cbn [map concat snd]. rewrite app_length. lia. }
    destruct (IH f maxb (total + N.of_nat (length d))%N OK') as (pieces & RC & CP).
    { simpl in F. lia. }
    { rewrite LEN in M. lia. }
    set (tail := chunks_wire cs ++ z ++ CRLF ++ CRLF ++ rest) in *.
    assert (W : chunks_wire ((sz, d) :: cs) ++ z ++ CRLF ++ CRLF ++ rest
                = sz ++ CRLF ++ (d ++ CRLF ++ tail)).
    { unfold chunks_wire, chunk_wire, tail. cbn [map concat fst snd].
      rewrite <- !app_assoc. reflexivity. }
    rewrite W.
    assert (ND : N.of_nat (length d) <> 0%N) by (destruct d; [congruence|simpl; lia]).
    rewrite (chunk_good c f maxb total _ (sz ++ CRLF) (d ++ CRLF ++ tail)
               (N.of_nat (length d)) tail).
    + rewrite RC. cbn [fst snd]. eexists. split; [reflexivity|].
      rewrite concat_app, CP. rewrite Nat2N.id, firstn_app_le, firstn_all by lia.
      rewrite concat_split_by by lia. unfold chunks_data. reflexivity.
    + apply w_until_size_line; [exact (parse_hex_int_hexdig _ _ P)|exact L].
    + rewrite size_of_line. exact P.
    + exact ND.
    + rewrite LEN in M. lia.
    + rewrite app_length. lia.
    + rewrite Nat2N.id, skipn_app_le, skipn_all by lia. apply w_exact_crlf.
Qed.

(* ---------- whole messages ---------- *)
Section Accept.
  Variables (c : cfg) (b hd rest : bytes) (m t v : bytes) (h : headers) (ka : bool).
  Hypothesis Hhead : head_at c b hd rest.
  Hypothesis Hparse : parse_head hd = Some (m, t, v, h).
  Hypothesis Hka : can_keep_alive (no_keep_alive c) m v h = Some ka.
  Hypothesis Hhost : host_check v h = HOk.

  Let req := req_evs m t v h.
  Let after (s : bytes) : list ev * option bytes := if ka then ([], Some s) else ([EvDone], None).

  (* no Content-Length, no Transfer-Encoding: no body *)
  Theorem accept_no_body :
    body_plan (eff_max_body c) h = Some PNone ->
    serve_msg whole_ops plain_dlg c b = (req ++ EvFin :: fst (after rest), snd (after rest)).
  Proof.
    intros Pl. open_msg Hhead. rewrite Hparse, Hka. cbn [d_headers plain_dlg]. rewrite Hhost, Pl.
    unfold finish_body, next, after. cbn [body_ev]. rewrite app_nil_r. destruct ka; reflexivity.
  Qed.

  (* Content-Length: n with at least n bytes following: exactly those n bytes are delivered
     and the next message starts right after them *)
  Theorem accept_content_length n :
    body_plan (eff_max_body c) h = Some (PFixed n) -> (n <= N.of_nat (length rest))%N ->
    serve_msg whole_ops plain_dlg c b =
      ((req ++ body_ev (firstn (N.to_nat n) rest)) ++ EvFin :: fst (after (skipn (N.to_nat n) rest)),
       snd (after (skipn (N.to_nat n) rest))).
  Proof.
    intros Pl Le. open_msg Hhead. rewrite Hparse, Hka. cbn [d_headers plain_dlg]. rewrite Hhost, Pl.
    cbn [rd_body whole_ops]. unfold w_body. apply N.leb_le in Le. rewrite Le.
    cbn [d_data plain_dlg]. rewrite concat_split_by by (rewrite firstn_length; lia).
    unfold finish_body, next, after. destruct ka; reflexivity.
  Qed.

  (* Content-Length: n but the peer stops early: what arrived is delivered, the request is
     never finished *)
  Theorem truncated_content_length n :
    body_plan (eff_max_body c) h = Some (PFixed n) -> (N.of_nat (length rest) < n)%N ->
    serve_msg whole_ops plain_dlg c b = ((req ++ body_ev rest) ++ [EvEof], None).
  Proof.
    intros Pl Le. open_msg Hhead. rewrite Hparse, Hka. cbn [d_headers plain_dlg]. rewrite Hhost, Pl.
    cbn [rd_body whole_ops]. unfold w_body. apply N.leb_gt in Le. rewrite Le.
    cbn [d_data plain_dlg]. rewrite concat_split_by by lia. reflexivity.
  Qed.

  (* Transfer-Encoding: chunked, any split of the body into chunks, any spelling of the sizes *)
  Theorem accept_chunked cs z rest' :
    body_plan (eff_max_body c) h = Some PChunked ->
    rest = chunks_wire cs ++ z ++ CRLF ++ CRLF ++ rest' ->
    Forall chunk_ok cs -> parse_hex_int z = Some 0%N -> (length z <= 62)%nat ->
    (chunks_len cs <= eff_max_body c)%N ->
    serve_msg whole_ops plain_dlg c b =
      ((req ++ body_ev (chunks_data cs)) ++ EvFin :: fst (after rest'), snd (after rest')).
  Proof.
    intros Pl W OK Z ZL M. open_msg Hhead. rewrite Hparse, Hka. cbn [d_headers plain_dlg].
    rewrite Hhost, Pl. cbn [remaining whole_ops].
    destruct (chunked_roundtrip c z rest' Z ZL cs (S (length rest)) (eff_max_body c) 0%N OK)
      as (pieces & RC & CP).
    - subst rest. unfold chunks_wire. rewrite app_length.
      assert (G : (length cs <= length (concat (map chunk_wire cs)))%nat).
      { clear. induction cs as [|[sz d] cs IH]; [simpl; lia|].
        cbn [map concat]. rewrite app_length. unfold chunk_wire at 1. cbn [fst snd].
        rewrite !app_length. cbn [CRLF length]. simpl length in IH. lia. }
      lia.
    - lia.
    - rewrite <- W in RC. rewrite RC. cbn [d_data plain_dlg]. rewrite CP.
      unfold finish_body, next, after. destruct ka; reflexivity.
  Qed.
End Accept.
