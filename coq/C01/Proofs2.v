(* C01 — the message logic commutes with any simulation between two stream
   implementations (refinement), never runs out of fuel on a stream whose reads make
   progress, and always produces a well-terminated trace. *)
From Coq Require Import List NArith Arith Bool Lia.
Import ListNotations.
From TV Require Import C01.Model C01.Proofs1.

Section Sim.
  Context {S1 S2 : Type} (o1 : sops S1) (o2 : sops S2) (R : S1 -> S2 -> Prop) (dl : dlg) (c : cfg).

  Definition rrelG (r1 : rres S1) (r2 : rres S2) : Prop :=
    match r1, r2 with
    | RData d s, RData d' s' => d = d' /\ R s s'
    | RUnsat, RUnsat => True
    | REof, REof => True
    | _, _ => False
    end.
  Definition orelG (x1 : option S1) (x2 : option S2) : Prop :=
    match x1, x2 with
    | Some s, Some s' => R s s'
    | None, None => True
    | _, _ => False
    end.
  Definition brelG (b1 : bstat S1) (b2 : bstat S2) : Prop :=
    match b1, b2 with
    | BDone s, BDone s' => R s s'
    | BEofS, BEofS | BBadS, BBadS | BUnsatS, BUnsatS | BFuel, BFuel => True
    | _, _ => False
    end.

  Hypothesis H_regex : forall m s1 s2, R s1 s2 -> rrelG (rd_regex o1 m s1) (rd_regex o2 m s2).
  Hypothesis H_until : forall m s1 s2, R s1 s2 -> rrelG (rd_until o1 m s1) (rd_until o2 m s2).
  Hypothesis H_exact : forall n s1 s2, R s1 s2 -> rrelG (rd_exact o1 n s1) (rd_exact o2 n s2).
  Hypothesis H_body : forall cs n s1 s2, R s1 s2 ->
      concat (fst (rd_body o1 cs n s1)) = concat (fst (rd_body o2 cs n s2)) /\
      orelG (snd (rd_body o1 cs n s1)) (snd (rd_body o2 cs n s2)).
  Hypothesis H_rem : forall s1 s2, R s1 s2 -> remaining o1 s1 = remaining o2 s2.
  (* the delegate only looks at the concatenation of the pieces it is given *)
  Hypothesis H_dl : forall act cs cs', concat cs = concat cs' -> d_data dl act cs = d_data dl act cs'.

  Lemma read_chunked_sim fuel : forall maxb total s1 s2, R s1 s2 ->
      concat (fst (read_chunked o1 c fuel maxb total s1)) =
      concat (fst (read_chunked o2 c fuel maxb total s2)) /\
      brelG (snd (read_chunked o1 c fuel maxb total s1)) (snd (read_chunked o2 c fuel maxb total s2)).
  Proof.
    induction fuel as [|f IH]; intros maxb total s1 s2 HR; [simpl; auto|].
    cbn [read_chunked].
    pose proof (H_until 64 s1 s2 HR) as U.
    destruct (rd_until o1 64 s1) as [l1 t1| |], (rd_until o2 64 s2) as [l2 t2| |];
      simpl in U; try contradiction; try (simpl; auto; fail).
    destruct U as [<- HR1].
    destruct (parse_hex_int (firstn (length l1 - 2) l1)) as [len|]; [|simpl; auto].
    destruct (len =? 0)%N.
    - pose proof (H_exact 2 t1 t2 HR1) as X.
      destruct (rd_exact o1 2 t1) as [d1 u1| |], (rd_exact o2 2 t2) as [d2 u2| |];
        simpl in X; try contradiction; try (simpl; auto; fail).
      destruct X as [<- HR2]. destruct (beqb d1 CRLF); simpl; auto.
    - destruct (maxb <? total + len)%N; [simpl; auto|].
      pose proof (H_body (chunk_pred c) len t1 t2 HR1) as [B1 B2].
      destruct (rd_body o1 (chunk_pred c) len t1) as [cs1 ob1].
      destruct (rd_body o2 (chunk_pred c) len t2) as [cs2 ob2].
      cbn [fst snd] in B1, B2.
      destruct ob1 as [u1|], ob2 as [u2|]; simpl in B2; try contradiction; [|simpl; auto].
      pose proof (H_exact 2 u1 u2 B2) as X.
      destruct (rd_exact o1 2 u1) as [d1 v1| |], (rd_exact o2 2 u2) as [d2 v2| |];
        simpl in X; try contradiction; try (simpl; auto; fail).
      destruct X as [<- HR3]. destruct (beqb d1 CRLF); [|simpl; auto].
      specialize (IH maxb (total + len)%N v1 v2 HR3).
      destruct (read_chunked o1 c f maxb (total + len) v1) as [p1 r1].
      destruct (read_chunked o2 c f maxb (total + len) v2) as [p2 r2].
      cbn [fst snd] in *. destruct IH as [I1 I2].
      rewrite !concat_app, B1, I1. auto.
  Qed.

  Lemma finish_body_sim req data dr b1 b2 ka :
    brelG b1 b2 ->
    fst (finish_body (S:=S1) req data dr b1 ka) = fst (finish_body (S:=S2) req data dr b2 ka) /\
    orelG (snd (finish_body req data dr b1 ka)) (snd (finish_body req data dr b2 ka)).
  Proof.
    intros HB. unfold finish_body. destruct dr; simpl; auto;
      destruct b1, b2; simpl in HB; try contradiction; simpl; auto;
      unfold next; destruct ka; simpl; auto.
  Qed.

  Lemma serve_msg_sim s1 s2 : R s1 s2 ->
    fst (serve_msg o1 dl c s1) = fst (serve_msg o2 dl c s2) /\
    orelG (snd (serve_msg o1 dl c s1)) (snd (serve_msg o2 dl c s2)).
  Proof.
    intros HR. unfold serve_msg.
    pose proof (H_regex (max_header c) s1 s2 HR) as U.
    destruct (rd_regex o1 (max_header c) s1) as [hd t1| |],
             (rd_regex o2 (max_header c) s2) as [hd2 t2| |];
      simpl in U; try contradiction; try (simpl; auto; fail).
    destruct U as [<- HR1].
    destruct (parse_head hd) as [[[[m t] v] h0]|]; [|simpl; auto].
    destruct (can_keep_alive (no_keep_alive c) m v h0) as [ka|]; [|simpl; auto].
    destruct (d_headers dl h0) as [h act].
    destruct (host_check v h); [|simpl; auto].
    destruct (body_plan (eff_max_body c) h) as [[|n|]|]; [| | |simpl; auto].
    - apply finish_body_sim. exact HR1.
    - pose proof (H_body (chunk_pred c) n t1 t2 HR1) as [B1 B2].
      destruct (rd_body o1 (chunk_pred c) n t1) as [cs1 ob1].
      destruct (rd_body o2 (chunk_pred c) n t2) as [cs2 ob2].
      cbn [fst snd] in B1, B2.
      rewrite (H_dl act cs1 cs2 B1). destruct (d_data dl act cs2) as [data dr].
      apply finish_body_sim.
      destruct ob1, ob2; simpl in *; auto.
    - rewrite (H_rem _ _ HR1).
      pose proof (read_chunked_sim (S (remaining o2 t2)) (eff_max_body c) 0%N t1 t2 HR1) as [B1 B2].
      destruct (read_chunked o1 c (S (remaining o2 t2)) (eff_max_body c) 0 t1) as [cs1 b1].
      destruct (read_chunked o2 c (S (remaining o2 t2)) (eff_max_body c) 0 t2) as [cs2 b2].
      cbn [fst snd] in B1, B2.
      rewrite (H_dl act cs1 cs2 B1). destruct (d_data dl act cs2) as [data dr].
      apply finish_body_sim. exact B2.
  Qed.

  Lemma serve_loop_sim fuel : forall s1 s2, R s1 s2 ->
    serve_loop o1 dl c fuel s1 = serve_loop o2 dl c fuel s2.
  Proof.
    induction fuel as [|f IH]; intros s1 s2 HR; [reflexivity|].
    cbn [serve_loop].
    pose proof (serve_msg_sim s1 s2 HR) as [E1 E2].
    destruct (serve_msg o1 dl c s1) as [e1 x1], (serve_msg o2 dl c s2) as [e2 x2].
    cbn [fst snd] in *. subst e2.
    destruct x1, x2; simpl in E2; try contradiction; auto.
    rewrite (IH _ _ E2). reflexivity.
  Qed.

  Theorem serve_sim s1 s2 : R s1 s2 -> serve o1 dl c s1 = serve o2 dl c s2.
  Proof.
    intros HR. unfold serve. rewrite (H_rem _ _ HR). apply serve_loop_sim. exact HR.
  Qed.
End Sim.

(* ---------- the refinement: segment-fed server = strict reader of the concatenation ---------- *)
Lemma plain_dlg_concat : forall act cs cs',
  concat cs = concat cs' -> d_data plain_dlg act cs = d_data plain_dlg act cs'.
Proof. intros act cs cs' H. simpl. rewrite H. reflexivity. Qed.

Lemma rrel_is_rrelG r1 r2 : rrel r1 r2 -> rrelG (fun s b => flat s = b) r1 r2.
Proof. destruct r1, r2; simpl; auto. Qed.

Theorem seg_refines_whole (dl : dlg) (c : cfg)
  (Hdl : forall act cs cs', concat cs = concat cs' -> d_data dl act cs = d_data dl act cs') :
  forall s : sstream, serve seg_ops dl c s = serve whole_ops dl c (flat s).
Proof.
  intros s.
  apply (serve_sim seg_ops whole_ops (fun s b => flat s = b) dl c).
  - intros m [buf segs] b <-. apply rrel_is_rrelG. exact (s_delim_sim _ find_term_stable m segs buf).
  - intros m [buf segs] b <-. apply rrel_is_rrelG. exact (s_delim_sim _ find_crlf_stable m segs buf).
  - intros n [buf segs] b <-. apply rrel_is_rrelG. exact (s_exact_sim n segs buf).
  - intros cs n [buf segs] b <-. cbn [rd_body seg_ops whole_ops fst snd flat].
    destruct (s_body_sim cs segs n buf) as [A B]. split; [exact A|exact B].
  - intros [buf segs] b <-. reflexivity.
  - exact Hdl.
  - reflexivity.
Qed.

Theorem serve_seg_eq_strict_reader (c : cfg) (segs : list bytes) :
  serve_seg c segs = strict_reader c (concat segs).
Proof.
  unfold serve_seg, strict_reader.
  rewrite (seg_refines_whole plain_dlg c plain_dlg_concat). reflexivity.
Qed.

(* ---------- well-terminated traces (INV) ---------- *)
Fixpoint well_terminated (evs : list ev) : bool :=
  match evs with
  | [] => false
  | [t] => is_terminal t
  | e :: r => negb (is_terminal e) && well_terminated r
  end.
Definition no_terminal (evs : list ev) : bool := forallb (fun e => negb (is_terminal e)) evs.

Lemma wt_app pre post : no_terminal pre = true -> well_terminated post = true ->
  well_terminated (pre ++ post) = true.
Proof.
  induction pre as [|e pre IH]; intros H1 H2; [exact H2|].
  simpl in H1. apply andb_true_iff in H1 as [He Hp].
  specialize (IH Hp H2). simpl.
  destruct (pre ++ post) eqn:E.
  - destruct pre; simpl in *; [subst; discriminate|discriminate].
  - rewrite He. exact IH.
Qed.

Lemma no_terminal_app a b : no_terminal (a ++ b) = no_terminal a && no_terminal b.
Proof. apply forallb_app. Qed.

Lemma body_ev_nt b : no_terminal (body_ev b) = true.
Proof. destruct b; reflexivity. Qed.

Section Inv.
  Context {S : Type} (ops : sops S) (dl : dlg) (c : cfg).

  Lemma finish_body_shape pre0 data dr (bs : bstat S) ka :
    no_terminal pre0 = true ->
    let r := finish_body pre0 data dr bs ka in
    match snd r with
    | Some _ => no_terminal (fst r) = true
    | None => well_terminated (fst r) = true
    end.
  Proof.
    intros NT0. unfold finish_body.
    assert (P : no_terminal (pre0 ++ body_ev data) = true)
      by (rewrite no_terminal_app, NT0, body_ev_nt; reflexivity).
    destruct dr; cbn [fst snd]; try (apply wt_app; [exact P|reflexivity]);
      destruct bs; cbn [fst snd]; try (apply wt_app; [exact P|reflexivity]);
      unfold next; destruct ka; cbn [fst snd];
      try (rewrite no_terminal_app, P; reflexivity); apply wt_app; [exact P|reflexivity].
  Qed.

  Lemma serve_msg_shape st :
    match snd (serve_msg ops dl c st) with
    | Some _ => no_terminal (fst (serve_msg ops dl c st)) = true
    | None => well_terminated (fst (serve_msg ops dl c st)) = true
    end.
  Proof.
    unfold serve_msg.
    destruct (rd_regex ops (max_header c) st) as [hd t1| |]; try reflexivity.
    destruct (parse_head hd) as [[[[m t] v] h0]|]; [|reflexivity].
    destruct (can_keep_alive (no_keep_alive c) m v h0) as [ka|]; [|reflexivity].
    destruct (d_headers dl h0) as [h act].
    destruct (host_check v h); [|reflexivity].
    assert (NT : no_terminal (req_evs m t v h) = true) by (unfold req_evs; destruct (expects_continue h); reflexivity).
    destruct (body_plan (eff_max_body c) h) as [[|n|]|]; [| | |cbn [fst snd]; apply wt_app; [exact NT|reflexivity]].
    - apply finish_body_shape. exact NT.
    - destruct (rd_body ops (chunk_pred c) n t1) as [cs ob].
      destruct (d_data dl act cs) as [data dr]. apply finish_body_shape. exact NT.
    - destruct (read_chunked ops c _ _ _ t1) as [cs bs].
      destruct (d_data dl act cs) as [data dr]. apply finish_body_shape. exact NT.
  Qed.

  Lemma serve_loop_wt fuel : forall st, well_terminated (serve_loop ops dl c fuel st) = true.
  Proof.
    induction fuel as [|f IH]; intros st; [reflexivity|].
    cbn [serve_loop]. pose proof (serve_msg_shape st) as Sh.
    destruct (serve_msg ops dl c st) as [e o]. cbn [fst snd] in Sh.
    destruct o; [|exact Sh]. apply wt_app; [exact Sh|apply IH].
  Qed.

  Theorem serve_well_terminated st : well_terminated (serve ops dl c st) = true.
  Proof. apply serve_loop_wt. Qed.
End Inv.

(* what well_terminated means *)
Lemma well_terminated_spec evs : well_terminated evs = true ->
  exists pre t, evs = pre ++ [t] /\ no_terminal pre = true /\ is_terminal t = true.
Proof.
  induction evs as [|e r IH]; intros H; [discriminate|].
  destruct r as [|e2 r].
  - exists [], e. simpl in H. auto.
  - change (negb (is_terminal e) && well_terminated (e2 :: r) = true) in H.
    apply andb_true_iff in H as [He Hr].
    destruct (IH Hr) as (pre & t & E & P & T).
    exists (e :: pre), t. rewrite E. simpl. rewrite He, P. auto.
Qed.

Lemma nothing_after_terminal evs : well_terminated evs = true ->
  forall pre e post, evs = pre ++ e :: post -> is_terminal e = true -> post = [].
Proof.
  intros H pre e post E T.
  destruct (well_terminated_spec _ H) as (p & t & E2 & P & _).
  subst evs. clear H.
  revert p E2 P. induction pre as [|x pre IH]; intros p E2 P.
  - destruct p as [|y p].
    + simpl in E2. inversion E2. reflexivity.
    + simpl in *. inversion E2; subst. rewrite T in P. discriminate.
  - destruct p as [|y p].
    + simpl in E2. inversion E2. destruct pre; discriminate.
    + simpl in *. inversion E2; subst. apply andb_true_iff in P as [_ P]. eapply IH; eauto.
Qed.
