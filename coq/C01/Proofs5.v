(* C01 — the model satisfies the checker used on the implementation's observables. *)
From Coq Require Import String.
From Coq Require Import List NArith ZArith Bool.
Import ListNotations.
From TV Require Import Lib.Obs C01.Model C01.Run C01.Proofs2.

Lemma list_eqb_N_refl (l : list N) : list_eqb N.eqb l l = true.
Proof. induction l as [|x l IH]; simpl; [reflexivity|]. rewrite N.eqb_refl, IH. reflexivity. Qed.

Lemma obs_eqb_refl : forall o, obs_eqb o o = true.
Proof.
  fix IH 1. intros o. destruct o as [|b|z|l|s|l]; simpl.
  - reflexivity.
  - destruct b; reflexivity.
  - apply Z.eqb_refl.
  - apply list_eqb_N_refl.
  - apply String.eqb_refl.
  - revert l. fix IHl 1. intros [|a l]; [reflexivity|].
    rewrite IH. simpl. apply IHl.
Qed.

Theorem model_satisfies_checker : forall i, check_case i (run_case i) = true.
Proof.
  intros i. unfold check_case, run_case.
  rewrite serve_seg_eq_strict_reader. apply obs_eqb_refl.
Qed.
