(* C01 — executable entry points used by the correspondence check. *)
From Coq Require Import String.
From Coq Require Import List NArith ZArith Bool.
Import ListNotations.
From TV Require Import Lib.Obs C01.Model.

Definition pair_obs (kv : bytes * bytes) : obs := OList [OBytes (fst kv); OBytes (snd kv)].

Definition cur_t := (bytes * bytes * bytes * list (bytes * bytes) * bytes)%type.

Definition req_obs (c : cur_t) (state : string) : obs :=
  let '(m, t, v, hs, body) := c in
  OList [OBytes m; OBytes t; OBytes v; OList (map pair_obs hs); OBytes body; OTag state].

Definition flush (acc : list obs) (cur : option cur_t) : list obs :=
  match cur with Some c => acc ++ [req_obs c "open"] | None => acc end.

Definition final_tag (e : ev) : string :=
  match e with
  | EvBad400 => "Bad400" | EvClosed => "Unsat" | EvDone => "Done" | EvEof => "Eof"
  | EvUncaught => "Uncaught" | EvOutOfFuel => "OutOfFuel"
  | _ => "NotTerminal"
  end.

(* requests as the application delegate saw them, how the connection ended, and the
   status codes of the (non-1xx) responses on the wire *)
Fixpoint collect (evs : list ev) (cur : option cur_t) (acc : list obs) (codes : list obs) : obs :=
  match evs with
  | [] => OList [OList (flush acc cur); OTag "NoTerminal"; OList codes]
  | e :: r =>
      match e with
      | EvReq m t v hs => collect r (Some (m, t, v, hs, [])) (flush acc cur) codes
      | EvBody b =>
          match cur with
          | Some (m, t, v, hs, body) => collect r (Some (m, t, v, hs, body ++ b)) acc codes
          | None => OList [OList acc; OTag "BodyWithoutRequest"; OList codes]
          end
      | EvContinue => collect r cur acc (codes ++ [OInt 100])
      | EvFin =>
          match cur with
          | Some c => collect r None (acc ++ [req_obs c "fin"]) (codes ++ [OInt 200])
          | None => OList [OList acc; OTag "FinWithoutRequest"; OList codes]
          end
      | _ =>
          match r with
          | [] => OList [OList (flush acc cur); OTag (final_tag e);
                         OList (match e with EvBad400 => codes ++ [OInt 400] | _ => codes end)]
          | _ => OList [OList (flush acc cur); OTag "EventsAfterTerminal"; OList codes]
          end
      end
  end.
Definition obs_of_events (evs : list ev) : obs := collect evs None [] [].

(* input: (max_header_size, max_body_size, chunk_size, no_keep_alive, TCP segments) *)
Definition input := (nat * N * nat * bool * list (list N))%type.
Definition cfg_of (i : input) : cfg :=
  let '(mh, mb, cs, nka, _) := i in
  {| max_header := mh; max_body := mb; body_override := None; chunk_pred := Nat.pred cs; no_keep_alive := nka |}.
Definition segs_of (i : input) : list bytes := snd i.

(* the operational model: the server fed segment by segment *)
Definition run_case (i : input) : obs := obs_of_events (serve_seg (cfg_of i) (segs_of i)).

(* the property: what the application saw and how the connection ended is exactly what
   the strict reader extracts from the concatenated byte stream *)
Definition check_case (i : input) (o : obs) : bool :=
  obs_eqb o (obs_of_events (strict_reader (cfg_of i) (concat (segs_of i)))).
