(* C01 — HTTP/1.x request framing is exact, strict and chunking-independent.
   Property theorems only; proofs are in Proofs1..8.v, instances in Examples.v and Proofs8.v.
   strict_reader : the pure strict reader of a byte string (the specification);
   serve_seg     : the server fed one TCP segment at a time (operational model of
                   HTTP1ServerConnection over IOStream), both in Model.v. *)
From Coq Require Import String.
From Coq Require Import List NArith Arith Bool.
Import ListNotations.
From TV Require Import Lib.Obs C01.Model C01.Run C01.Proofs1 C01.Proofs2 C01.Proofs3 C01.Proofs4
  C01.Proofs5 C01.Proofs6 C01.Proofs7 C01.Proofs8 C01.Proofs9 C01.SrcDesc Gen.C01_src Gen.C01_equiv.

(* (REF) For every configuration and every way of cutting the byte stream into TCP
   segments, the application sees exactly what the strict reader extracts from the
   concatenated bytes: same requests, same bodies, same end of connection. *)
Theorem C01_segmentation_independence :
  forall (c : cfg) (segs : list bytes), serve_seg c segs = strict_reader c (concat segs).
Proof. exact serve_seg_eq_strict_reader. Qed.
Print Assumptions C01_segmentation_independence.

Theorem C01_any_two_segmentations_agree :
  forall (c : cfg) (s1 s2 : list bytes), concat s1 = concat s2 -> serve_seg c s1 = serve_seg c s2.
Proof. intros c s1 s2 H. rewrite !serve_seg_eq_strict_reader, H. reflexivity. Qed.
Print Assumptions C01_any_two_segmentations_agree.

(* Prefix-stability of the header-terminator search (\r?\n\r?\n) and of the CRLF search:
   a match found in a prefix is the leftmost match of every extension, lies inside the
   prefix, and a match of an extension that ends inside the prefix is found in the prefix. *)
Theorem C01_terminator_search_prefix_stable : stable find_term /\ stable find_crlf.
Proof. exact (conj find_term_stable find_crlf_stable). Qed.
Print Assumptions C01_terminator_search_prefix_stable.

(* (INV) Every trace ends with exactly one terminal event (400 / close / EOF) and nothing
   is delivered after it. *)
Theorem C01_nothing_after_rejection :
  forall (c : cfg) (segs : list bytes),
    well_terminated (serve_seg c segs) = true /\
    forall pre e post, serve_seg c segs = pre ++ e :: post -> is_terminal e = true -> post = [].
Proof.
  intros c segs. split; [apply serve_well_terminated|].
  apply nothing_after_terminal. apply serve_well_terminated.
Qed.
Print Assumptions C01_nothing_after_rejection.

(* The peer's input is never reported as an uncaught application error, and the model's
   fuel always suffices: for every stream and segmentation. *)
Theorem C01_no_uncaught_error :
  forall (c : cfg) (segs : list bytes),
    ~ In EvUncaught (serve_seg c segs) /\ ~ In EvOutOfFuel (serve_seg c segs).
Proof. intros c segs. rewrite serve_seg_eq_strict_reader. apply strict_reader_ok. Qed.
Print Assumptions C01_no_uncaught_error.

(* The trace is compositional: one message, then the reader on the rest of the bytes. *)
Theorem C01_reader_is_compositional :
  forall c b,
    strict_reader c b =
    match snd (serve_msg whole_ops plain_dlg c b) with
    | Some b' => fst (serve_msg whole_ops plain_dlg c b) ++ strict_reader c b'
    | None => fst (serve_msg whole_ops plain_dlg c b)
    end.
Proof. exact strict_reader_step. Qed.
Print Assumptions C01_reader_is_compositional.

(* After any number of complete earlier requests (events pre), a message that is rejected
   contributes its own events e and ends the trace: nothing further is delivered. *)
Theorem C01_rejected_message_ends_trace :
  forall c b0 pre b e,
    reads c b0 pre b -> serve_msg whole_ops plain_dlg c b = (e, None) ->
    strict_reader c b0 = pre ++ e.
Proof. exact rejected_message_ends_trace. Qed.
Print Assumptions C01_rejected_message_ends_trace.

(* --- rejection, clause by clause: what the rejected message contributes --- *)
(* malformed request line or header line: 400, request not delivered *)
Theorem C01_reject_unparsable_head :
  forall c b hd rest, head_at c b hd rest -> parse_head hd = None ->
    serve_msg whole_ops plain_dlg c b = ([EvBad400], None).
Proof. exact reject_unparsable_head. Qed.
Print Assumptions C01_reject_unparsable_head.

Theorem C01_reject_malformed_request_line :
  forall data,
    parse_request_line (rstrip (N.eqb CR) (fst (split_first_lf (lstrip is_crlf_char data)))) = None ->
    parse_head data = None.
Proof. exact parse_head_bad_line. Qed.
Print Assumptions C01_reject_malformed_request_line.

(* missing / invalid / multiple (comma) Host: 400, request not delivered *)
Theorem C01_reject_bad_host :
  forall c b hd rest m t v h, head_at c b hd rest -> parse_head hd = Some (m, t, v, h) ->
    (hcomb h K_HOST = None /\ v <> s2b "HTTP/1.0" \/
     (exists host, hcomb h K_HOST = Some host /\ (host_ok host = false \/ mem COMMA host = true)) \/
     (exists a b' r, hget h K_HOST = Some (a :: b' :: r))) ->
    serve_msg whole_ops plain_dlg c b = ([EvBad400], None).
Proof.
  intros c b hd rest m t v h H P D. apply (reject_bad_host c b hd rest m t v h H P).
  destruct D as [[A B]|[(host & A & [B|B])|(a & b' & r & A)]].
  - apply host_missing; assumption.
  - eapply host_invalid; eassumption.
  - eapply host_comma; eassumption.
  - eapply host_multiple; eassumption.
Qed.
Print Assumptions C01_reject_bad_host.

(* Content-Length together with Transfer-Encoding; a transfer coding other than chunked;
   non-numeric Content-Length; two different Content-Length values: 400, and the
   application never gets the request (no EvFin, no body) *)
Theorem C01_reject_bad_framing_headers :
  forall c b hd rest m t v h, head_at c b hd rest -> parse_head hd = Some (m, t, v, h) ->
    (hmem h K_CL = true /\ hmem h K_TE = true \/
     (exists te, hcomb h K_TE = Some te /\ lower_s te <> s2b "chunked") \/
     (exists cl, hcomb h K_CL = Some cl /\ mem COMMA cl = false /\ parse_int cl = None) \/
     (exists v1 x v2, hget h K_CL = Some [v1; x :: v2] /\ mem COMMA v1 = false /\
                      mem COMMA (x :: v2) = false /\ is_pyspace x = false /\ v1 <> x :: v2)) ->
    exists pre, serve_msg whole_ops plain_dlg c b = (pre ++ [EvBad400], None) /\
                (pre = [] \/ pre = req_evs m t v h).
Proof.
  intros c b hd rest m t v h H P D. apply (reject_bad_framing c b hd rest m t v h H P).
  destruct D as [[A B]|[(te & A & B)|[(cl & A & B & C)|(v1 & x & v2 & A & B & C & D & E)]]].
  - apply plan_cl_and_te; assumption.
  - eapply plan_te_not_chunked; eassumption.
  - eapply plan_cl_not_integer; eassumption.
  - eapply plan_cl_unequal; eassumption.
Qed.
Print Assumptions C01_reject_bad_framing_headers.

Theorem C01_non_digit_content_length_is_not_an_integer :
  forall s, forallb is_digit s = false -> parse_int s = None.
Proof. exact parse_int_nondigit. Qed.
Print Assumptions C01_non_digit_content_length_is_not_an_integer.

(* malformed chunk size, bad chunk terminator, bad last-chunk terminator: 400 after the
   data already delivered; chunk-size line longer than 64 bytes: closed *)
Theorem C01_reject_malformed_chunk :
  forall c fuel maxb total b line rest,
    w_delim find_crlf 64 b = RData line rest ->
    (parse_hex_int (firstn (length line - 2) line) = None ->
       read_chunked whole_ops c (S fuel) maxb total b = ([], BBadS)) /\
    (forall len t rest2,
       parse_hex_int (firstn (length line - 2) line) = Some len -> len <> 0%N ->
       (total + len <= maxb)%N -> (len <= N.of_nat (length rest))%N ->
       w_exact 2 (skipn (N.to_nat len) rest) = RData t rest2 -> t <> CRLF ->
       read_chunked whole_ops c (S fuel) maxb total b =
         (split_by (N.to_nat len) (chunk_pred c) (firstn (N.to_nat len) rest), BBadS)) /\
    (forall t rest2,
       parse_hex_int (firstn (length line - 2) line) = Some 0%N ->
       w_exact 2 rest = RData t rest2 -> t <> CRLF ->
       read_chunked whole_ops c (S fuel) maxb total b = ([], BBadS)).
Proof.
  intros c fuel maxb total b line rest A. repeat split.
  - intros B. eapply chunk_bad_size; eassumption.
  - intros. eapply chunk_bad_terminator; eassumption.
  - intros. eapply chunk_bad_last; eassumption.
Qed.
Print Assumptions C01_reject_malformed_chunk.

Theorem C01_chunk_size_line_over_64_bytes_closes :
  forall c fuel maxb total b, w_delim find_crlf 64 b = RUnsat ->
    read_chunked whole_ops c (S fuel) maxb total b = ([], BUnsatS).
Proof. exact chunk_size_line_too_long. Qed.
Print Assumptions C01_chunk_size_line_over_64_bytes_closes.

Theorem C01_rejected_chunked_body_trace :
  forall c b hd rest m t v h ka cs,
    head_at c b hd rest -> parse_head hd = Some (m, t, v, h) ->
    can_keep_alive (no_keep_alive c) m v h = Some ka -> host_check v h = HOk ->
    body_plan (eff_max_body c) h = Some PChunked ->
    read_chunked whole_ops c (S (length rest)) (eff_max_body c) 0 rest = (cs, BBadS) ->
    serve_msg whole_ops plain_dlg c b =
      ((req_evs m t v h ++ body_ev (concat cs)) ++ [EvBad400], None).
Proof. exact reject_bad_chunk. Qed.
Print Assumptions C01_rejected_chunked_body_trace.

(* --- exact delivery (round trip) of bodies --- *)
(* Any body split into any chunks, each size spelled in any way the hex parser accepts,
   is decoded to exactly the concatenation of the chunk data, and decoding stops exactly
   at the end of the last-chunk CRLF. *)
Theorem C01_chunked_roundtrip :
  forall (c : cfg) (z rest : bytes),
    parse_hex_int z = Some 0%N -> (length z <= 62)%nat ->
    forall cs fuel maxb total,
      Forall chunk_ok cs -> (length cs < fuel)%nat -> (total + chunks_len cs <= maxb)%N ->
      exists pieces,
        read_chunked whole_ops c fuel maxb total (chunks_wire cs ++ z ++ CRLF ++ CRLF ++ rest)
          = (pieces, BDone rest) /\ concat pieces = chunks_data cs.
Proof. exact chunked_roundtrip. Qed.
Print Assumptions C01_chunked_roundtrip.

(* A message whose header block parses and passes the Host and framing rules delivers the
   request, exactly the framed body bytes, and finish; the next message starts right
   after the body. *)
Theorem C01_accept_message :
  forall c b hd rest m t v h ka,
    head_at c b hd rest -> parse_head hd = Some (m, t, v, h) ->
    can_keep_alive (no_keep_alive c) m v h = Some ka -> host_check v h = HOk ->
    let req := req_evs m t v h in
    let after := fun s : bytes => if ka then ([], Some s) else ([EvDone], None) in
    (body_plan (eff_max_body c) h = Some PNone ->
       serve_msg whole_ops plain_dlg c b = (req ++ EvFin :: fst (after rest), snd (after rest))) /\
    (forall n, body_plan (eff_max_body c) h = Some (PFixed n) -> (n <= N.of_nat (length rest))%N ->
       serve_msg whole_ops plain_dlg c b =
         ((req ++ body_ev (firstn (N.to_nat n) rest)) ++ EvFin :: fst (after (skipn (N.to_nat n) rest)),
          snd (after (skipn (N.to_nat n) rest)))) /\
    (forall cs z rest', body_plan (eff_max_body c) h = Some PChunked ->
       rest = chunks_wire cs ++ z ++ CRLF ++ CRLF ++ rest' ->
       Forall chunk_ok cs -> parse_hex_int z = Some 0%N -> (length z <= 62)%nat ->
       (chunks_len cs <= eff_max_body c)%N ->
       serve_msg whole_ops plain_dlg c b =
         ((req ++ body_ev (chunks_data cs)) ++ EvFin :: fst (after rest'), snd (after rest'))).
Proof.
  intros c b hd rest m t v h ka H P K Ho req after. repeat split.
  - apply (accept_no_body c b hd rest m t v h ka H P K Ho).
  - apply (accept_content_length c b hd rest m t v h ka H P K Ho).
  - apply (accept_chunked c b hd rest m t v h ka H P K Ho).
Qed.
Print Assumptions C01_accept_message.

(* Header block round trip: any token method, target of visible characters, HTTP/1.<digit>,
   any list of fields (token name, valid field value) each followed by any number of obsolete
   line-folding continuation lines (leading SP/HT, valid part), optional whitespace around
   values and parts, CRLF or bare LF at the end of every line, and an optional leading blank
   line: the terminator search ends exactly at the end of the block (whatever follows) and the
   block parses back to the same line and, in order, the same fields with the continuation
   parts joined by single spaces (and stripped, as HTTPHeaders.parse_line does). *)
Theorem C01_header_block_roundtrip :
  forall lead m t d e0 hls eF rest,
    lead_ok lead -> line_ok m t d -> Forall fline_ok hls ->
    find_term (render_fhead lead m t d e0 hls eF ++ rest) = Some (length (render_fhead lead m t d e0 hls eF)) /\
    parse_head (render_fhead lead m t d e0 hls eF) =
      Some (m, t, version_of d, fst (ffields_of hls ([], None))).
Proof.
  intros. split; [apply fhead_found; assumption|apply fhead_roundtrip; assumption].
Qed.
Print Assumptions C01_header_block_roundtrip.

(* (RT) For every list of abstract well-formed requests (freq_ok c true: syntax as above
   incl. folding, header block within max_header_size, connection kept open, acceptable Host,
   body framed by none | Content-Length | chunked with ANY chunk split and ANY spelling of the
   sizes), rendered with any mix of the documented leniencies, the strict reader delivers
   exactly their events, in order, and then sees EOF ... *)
Theorem C01_requests_roundtrip :
  forall c rs, Forall (freq_ok c true) rs ->
    strict_reader c (concat (map render_freq rs)) = concat (map freq_events rs) ++ [EvEof].
Proof. exact frequests_roundtrip. Qed.
Print Assumptions C01_requests_roundtrip.

(* ... and when they are followed by a request after which the server closes (Connection:
   close, HTTP/1.0 without keep-alive, no_keep_alive), that request is delivered too, the
   connection is closed and whatever bytes follow are never looked at. *)
Theorem C01_requests_roundtrip_closing :
  forall c rs last junk,
    Forall (freq_ok c true) rs -> freq_ok c false last ->
    strict_reader c (concat (map render_freq rs) ++ render_freq last ++ junk) =
      concat (map freq_events rs) ++ freq_events last ++ [EvDone].
Proof. exact frequests_roundtrip_closing. Qed.
Print Assumptions C01_requests_roundtrip_closing.

(* Both hold for the server under every segmentation of the same bytes. *)
Theorem C01_requests_roundtrip_any_segmentation :
  forall c rs last junk segs,
    Forall (freq_ok c true) rs ->
    (concat segs = concat (map render_freq rs) ->
       serve_seg c segs = concat (map freq_events rs) ++ [EvEof]) /\
    (freq_ok c false last -> concat segs = concat (map render_freq rs) ++ render_freq last ++ junk ->
       serve_seg c segs = concat (map freq_events rs) ++ freq_events last ++ [EvDone]).
Proof.
  intros c rs last junk segs H. split.
  - intros E. rewrite serve_seg_eq_strict_reader, E. apply frequests_roundtrip. exact H.
  - intros HL E. rewrite serve_seg_eq_strict_reader, E. apply frequests_roundtrip_closing; assumption.
Qed.
Print Assumptions C01_requests_roundtrip_any_segmentation.

(* no_keep_alive=True: whatever the peer sends and however it is segmented, the connection
   serves exactly one message (at most one request reaches the application). *)
Theorem C01_no_keep_alive_serves_one_message :
  forall c segs, no_keep_alive c = true ->
    serve_seg c segs = fst (serve_msg seg_ops plain_dlg c ([], segs)) /\
    (count_req (serve_seg c segs) <= 1)%nat.
Proof.
  intros c segs H. split; [apply (nka_single seg_ops plain_dlg c H)|apply nka_at_most_one_request; exact H].
Qed.
Print Assumptions C01_no_keep_alive_serves_one_message.

(* Expect: 100-continue.  The interim "100 (Continue)" response is written only immediately
   after a request's head has been accepted (EvReq), so at most once per request and never
   for a head that is rejected -- for every stream and segmentation.  (That it is written
   exactly when the combined Expect value is "100-continue" is the definition of req_evs,
   which all acceptance / rejection theorems above are stated with.) *)
Theorem C01_continue_only_after_accepted_request :
  forall c segs, continue_ok false (serve_seg c segs) = true.
Proof. exact continue_only_after_accepted_request. Qed.
Print Assumptions C01_continue_only_after_accepted_request.

(* Extra CRs before a line terminator.  Only one CR belongs to the terminator, so a header
   line ending in CR CR LF keeps a CR, and a line of CRs only stays non-empty; both are
   malformed wherever they occur in the block (Content-Length / Transfer-Encoding / Host
   included): the block does not parse, hence (C01_reject_unparsable_head) 400 and nothing
   behind it is dispatched. *)
Theorem C01_reject_extra_cr_before_line_terminator :
  (forall s, strip1cr (s ++ [CR; CR]) = s ++ [CR]) /\
  (forall st name u, token_ok name = true -> parse_line st (name ++ COLON :: u ++ [CR]) = None) /\
  (forall st k, parse_line st (repeat CR (S k)) = None) /\
  (forall a l b, (forall st, parse_line st l = None) -> forall st, parse_lines st (a ++ l :: b) = None).
Proof.
  split; [exact strip1cr_two_cr|]. split; [exact parse_line_trailing_cr|].
  split; [exact parse_line_cr_only|exact parse_lines_bad_line].
Qed.
Print Assumptions C01_reject_extra_cr_before_line_terminator.

(* Tie to the source text: the constants, comparison operators and accumulation forms that
   translators/c01_src.py extracts from tornado/http1connection.py on every run (fail-closed)
   are exactly the ones the model was written against. *)
Theorem C01_source_facts_are_the_modelled_ones :
  c01_src = src_expected /\
  sd_chunk_delim c01_src = CRLF /\ sd_chunk_line_max c01_src = 64%nat /\ sd_chunk_line_strip c01_src = 2%nat /\
  sd_chunk_terminator c01_src = CRLF /\ sd_chunk_terminator_len c01_src = 2%nat /\
  s2b (sd_te_literal c01_src) = s2b "chunked" /\ sd_te_cmp c01_src = CmpEq /\ sd_cl_and_te_rejected c01_src = true.
Proof. split; [exact c01_src_is_expected|exact src_chunk_constants]. Qed.
Print Assumptions C01_source_facts_are_the_modelled_ones.

(* The operational model satisfies the checker that is applied to the implementation. *)
Theorem C01_model_satisfies_checker : forall i, check_case i (run_case i) = true.
Proof. exact model_satisfies_checker. Qed.
Print Assumptions C01_model_satisfies_checker.
