(* C01 — round trip of the header block: every well-formed request line and list of
   header fields, rendered with any mix of CRLF / bare-LF line ends, optional whitespace
   around values and an optional leading blank line, is found by the terminator search at
   exactly its end and parsed back to exactly the same line and fields. *)
From Coq Require Import String.
From Coq Require Import List NArith Arith Bool Lia.
Import ListNotations.
From TV Require Import C01.Model C01.Proofs1 C01.Proofs2 C01.Proofs3 C01.Proofs4 C01.Proofs6.

(* ---------- generic list / strip lemmas ---------- *)
Lemma forallb_imp {A} (p q : A -> bool) l :
  (forall x, p x = true -> q x = true) -> forallb p l = true -> forallb q l = true.
Proof.
  intros H. induction l as [|x l IH]; simpl; [auto|].
  intros E. apply andb_true_iff in E as [E1 E2]. rewrite (H _ E1), (IH E2). reflexivity.
Qed.

Definition nochar (c : N) (s : bytes) : bool := forallb (fun x => negb (x =? c)%N) s.

Lemma split_at_app c a b : nochar c a = true -> split_at c (a ++ c :: b) = Some (a, b).
Proof.
  induction a as [|x a IH]; intros H.
  - cbn [app split_at]. rewrite N.eqb_refl. reflexivity.
  - cbn [nochar forallb] in H. apply andb_true_iff in H as [H1 H2].
    cbn [app split_at]. apply negb_true_iff in H1. rewrite H1. rewrite (IH H2). reflexivity.
Qed.

Lemma lstrip_app p a b : forallb p a = true -> lstrip p (a ++ b) = lstrip p b.
Proof.
  induction a as [|x a IH]; intros H; [reflexivity|].
  cbn [forallb] in H. apply andb_true_iff in H as [H1 H2]. cbn [app lstrip]. rewrite H1. auto.
Qed.
Lemma lstrip_stop p x r : p x = false -> lstrip p (x :: r) = x :: r.
Proof. intros H. cbn [lstrip]. rewrite H. reflexivity. Qed.
Lemma lstrip_all p a : forallb p a = true -> lstrip p a = [].
Proof. intros H. rewrite <- (app_nil_r a). rewrite lstrip_app by exact H. reflexivity. Qed.

Lemma rstrip_keep p a y : p y = false -> rstrip p (a ++ [y]) = a ++ [y].
Proof.
  intros H. induction a as [|x a IH].
  - cbn [app rstrip]. rewrite H. reflexivity.
  - cbn [app rstrip]. rewrite IH. destruct (a ++ [y]) eqn:E; [destruct a; discriminate|reflexivity].
Qed.
Lemma rstrip_drop1 p s z : p z = true -> rstrip p (s ++ [z]) = rstrip p s.
Proof.
  intros H. induction s as [|x s IH].
  - cbn [app rstrip]. rewrite H. reflexivity.
  - cbn [app rstrip]. rewrite IH. reflexivity.
Qed.
Lemma rstrip_drop p w : forall s, forallb p w = true -> rstrip p (s ++ w) = rstrip p s.
Proof.
  induction w as [|z w IH]; intros s H; [rewrite app_nil_r; reflexivity|].
  cbn [forallb] in H. apply andb_true_iff in H as [H1 H2].
  replace (s ++ z :: w) with ((s ++ [z]) ++ w) by (rewrite <- app_assoc; reflexivity).
  rewrite IH by exact H2. apply rstrip_drop1. exact H1.
Qed.
Lemma rstrip_all p w : forallb p w = true -> rstrip p w = [].
Proof. intros H. change w with ([] ++ w). rewrite rstrip_drop by exact H. reflexivity. Qed.

Lemma exists_last_ne (s : bytes) : s <> [] -> exists a y, s = a ++ [y] /\ last s 0%N = y.
Proof.
  intros H. destruct (exists_last H) as (a & y & E). exists a, y. split; [exact E|].
  subst. apply last_last.
Qed.

Lemma strip1cr_keep s : nochar CR s = true -> strip1cr s = s.
Proof.
  induction s as [|x s IH]; intros H; [reflexivity|].
  cbn [nochar forallb] in H. apply andb_true_iff in H as [H1 H2]. apply negb_true_iff in H1.
  destruct s as [|y s]; cbn [strip1cr].
  - rewrite H1. reflexivity.
  - f_equal. apply IH. exact H2.
Qed.
Lemma strip1cr_cons x r : r <> [] -> strip1cr (x :: r) = x :: strip1cr r.
Proof. destruct r; [congruence|reflexivity]. Qed.
Lemma strip1cr_cr s : nochar CR s = true -> strip1cr (s ++ [CR]) = s.
Proof.
  induction s as [|x s IH]; intros H; [reflexivity|].
  cbn [nochar forallb] in H. apply andb_true_iff in H as [H1 H2].
  cbn [app]. rewrite strip1cr_cons by (destruct s; discriminate).
  f_equal. apply IH. exact H2.
Qed.

(* ---------- character class facts ---------- *)
Ltac byval H := intros ->; vm_compute in H; discriminate.
Lemma tchar_not x c : is_tchar x = true -> mem c [SP; HT; CR; LF; COLON] = true -> (x =? c)%N = false.
Proof.
  intros H M. apply N.eqb_neq. intros ->. unfold mem in M. cbn [existsb] in M.
  repeat (apply orb_true_iff in M as [M|M]; [apply N.eqb_eq in M; subst; vm_compute in H; discriminate|]).
  discriminate.
Qed.
Lemma fvchar_not x c : is_fvchar x = true -> mem c [SP; HT; CR; LF] = true -> (x =? c)%N = false.
Proof.
  intros H M. apply N.eqb_neq. intros ->. unfold mem in M. cbn [existsb] in M.
  repeat (apply orb_true_iff in M as [M|M]; [apply N.eqb_eq in M; subst; vm_compute in H; discriminate|]).
  discriminate.
Qed.
Lemma hws_not x c : is_hws x = true -> mem c [CR; LF] = true -> (x =? c)%N = false.
Proof.
  intros H M. apply N.eqb_neq. intros ->. unfold mem in M. cbn [existsb] in M.
  repeat (apply orb_true_iff in M as [M|M]; [apply N.eqb_eq in M; subst; vm_compute in H; discriminate|]).
  discriminate.
Qed.
Lemma digit_not x c : is_digit x = true -> mem c [SP; CR; LF] = true -> (x =? c)%N = false.
Proof.
  intros H M. apply N.eqb_neq. intros ->. unfold mem in M. cbn [existsb] in M.
  repeat (apply orb_true_iff in M as [M|M]; [apply N.eqb_eq in M; subst; vm_compute in H; discriminate|]).
  discriminate.
Qed.
Lemma tchar_not_hws x : is_tchar x = true -> is_hws x = false.
Proof.
  intros H. unfold is_hws. rewrite (tchar_not x SP H), (tchar_not x HT H); reflexivity.
Qed.
Lemma fvchar_not_hws x : is_fvchar x = true -> is_hws x = false.
Proof.
  intros H. unfold is_hws. rewrite (fvchar_not x SP H), (fvchar_not x HT H); reflexivity.
Qed.

(* a byte that is neither CR nor LF *)
Definition plain (x : N) : bool := negb (x =? CR)%N && negb (x =? LF)%N.
Lemma plain_cls x : plain x = true -> cls x = cO.
Proof.
  unfold plain, cls. intros H. apply andb_true_iff in H as [A B].
  apply negb_true_iff in A, B. rewrite A, B. reflexivity.
Qed.
Lemma tchar_plain x : is_tchar x = true -> plain x = true.
Proof. intros H. unfold plain. rewrite (tchar_not x CR H), (tchar_not x LF H); reflexivity. Qed.
Lemma fvchar_plain x : is_fvchar x = true -> plain x = true.
Proof. intros H. unfold plain. rewrite (fvchar_not x CR H), (fvchar_not x LF H); reflexivity. Qed.
Lemma hws_plain x : is_hws x = true -> plain x = true.
Proof. intros H. unfold plain. rewrite (hws_not x CR H), (hws_not x LF H); reflexivity. Qed.
Lemma fvh_plain x : is_fvchar x || is_hws x = true -> plain x = true.
Proof. intros H. apply orb_true_iff in H as [H|H]; [apply fvchar_plain|apply hws_plain]; exact H. Qed.
Lemma plain_nochar s : forallb plain s = true -> nochar CR s = true /\ nochar LF s = true.
Proof.
  intros H. split; eapply forallb_imp; try exact H; intros x P; unfold plain in P;
    apply andb_true_iff in P as [A B]; assumption.
Qed.
Lemma forallb_plain_app a b : forallb plain (a ++ b) = forallb plain a && forallb plain b.
Proof. apply forallb_app. Qed.

(* ---------- the terminator search on rendered blocks ---------- *)
Definition eol (crlf : bool) : bytes := if crlf then [CR; LF] else [LF].

Lemma find_term_skip s r : forallb plain s = true ->
  find_term (s ++ r) = option_map (Nat.add (length s)) (find_term r).
Proof.
  unfold find_term. induction s as [|x s IH]; intros H.
  - simpl. destruct (find_term_c (map cls r)); reflexivity.
  - cbn [forallb] in H. apply andb_true_iff in H as [H1 H2].
    cbn [app map]. rewrite (plain_cls _ H1). cbn [find_term_c term_len].
    rewrite (IH H2). destruct (find_term_c (map cls r)); reflexivity.
Qed.

Lemma find_term_eol_then_plain e x r : plain x = true ->
  find_term (eol e ++ x :: r) = option_map (Nat.add (length (eol e))) (find_term (x :: r)).
Proof.
  intros H. unfold find_term. destruct e; cbn [eol app map].
  - change (cls CR) with cC. change (cls LF) with cL. rewrite (plain_cls _ H).
    cbn [find_term_c term_len tail_len option_map].
    destruct (find_term_c (map cls r)); reflexivity.
  - change (cls LF) with cL. rewrite (plain_cls _ H).
    cbn [find_term_c term_len tail_len option_map].
    destruct (find_term_c (map cls r)); reflexivity.
Qed.

Lemma find_term_two_eols e e' r :
  find_term (eol e ++ eol e' ++ r) = Some (length (eol e) + length (eol e'))%nat.
Proof. unfold find_term. destruct e, e'; reflexivity. Qed.

(* ---------- rendering ---------- *)
Record hline := {
  hl_name : bytes; hl_ows : bytes; hl_value : bytes; hl_tws : bytes; hl_crlf : bool
}.
Definition hline_content (l : hline) : bytes :=
  hl_name l ++ COLON :: hl_ows l ++ hl_value l ++ hl_tws l.
Definition render_hline (l : hline) : bytes := hline_content l ++ eol (hl_crlf l).
Definition hline_ok (l : hline) : Prop :=
  token_ok (hl_name l) = true /\ forallb is_hws (hl_ows l) = true /\
  forallb is_hws (hl_tws l) = true /\ field_value_ok (hl_value l) = true.

Definition render_fields (hls : list hline) (eF : bool) : bytes :=
  concat (map render_hline hls) ++ eol eF.
Definition fields_of (hls : list hline) (st : pstate) : pstate :=
  fold_left (fun s l => (hadd (fst s) (norm_name (hl_name l)) (hl_value l), Some (norm_name (hl_name l)))) hls st.

Lemma token_ok_parts n : token_ok n = true -> exists x r, n = x :: r /\ forallb is_tchar n = true.
Proof. unfold token_ok. destruct n as [|x r]; [discriminate|]. intros H. eauto. Qed.

Lemma field_value_parts v : field_value_ok v = true ->
  forallb (fun c => is_fvchar c || is_hws c) v = true /\
  (v = [] \/ exists x r a y, v = x :: r /\ is_fvchar x = true /\ v = a ++ [y] /\ is_fvchar y = true).
Proof.
  unfold field_value_ok. destruct v as [|x r]; [auto|].
  intros H. apply andb_true_iff in H as [H H3]. apply andb_true_iff in H as [H1 H2].
  split; [exact H1|]. right.
  destruct (exists_last_ne (x :: r)) as (a & y & E & L); [discriminate|].
  exists x, r, a, y. rewrite L in H3. auto.
Qed.

Lemma content_plain l : hline_ok l -> forallb plain (hline_content l) = true /\ hline_content l <> [].
Proof.
  intros (T & O & W & V). destruct (token_ok_parts _ T) as (x & r & E & TA).
  destruct (field_value_parts _ V) as [VA _].
  split.
  - unfold hline_content. rewrite forallb_plain_app. cbn [forallb]. rewrite !forallb_plain_app.
    rewrite (forallb_imp _ _ _ tchar_plain TA), (forallb_imp _ _ _ hws_plain O),
      (forallb_imp _ _ _ hws_plain W), (forallb_imp _ _ _ fvh_plain VA). reflexivity.
  - unfold hline_content. rewrite E. discriminate.
Qed.

(* the terminator search finds exactly the end of a rendered field block *)
Lemma find_term_fields rest eF : forall hls e,
  Forall hline_ok hls ->
  find_term (eol e ++ render_fields hls eF ++ rest) = Some (length (eol e ++ render_fields hls eF)).
Proof.
  induction hls as [|l hls IH]; intros e OK.
  - unfold render_fields. cbn [map concat app]. rewrite find_term_two_eols.
    rewrite app_length. reflexivity.
  - inversion OK as [|? ? Hl OK']; subst.
    destruct (content_plain l Hl) as [P NE].
    unfold render_fields in *. cbn [map concat]. unfold render_hline at 1.
    destruct (hline_content l) as [|x cont] eqn:C; [congruence|].
    cbn [forallb] in P. apply andb_true_iff in P as [Px Pc].
    rewrite <- !app_assoc. cbn [app].
    rewrite (find_term_eol_then_plain e x _ Px).
    change (x :: cont ++ eol (hl_crlf l) ++ concat (map render_hline hls) ++ eol eF ++ rest)
      with ((x :: cont) ++ eol (hl_crlf l) ++ concat (map render_hline hls) ++ eol eF ++ rest).
    rewrite find_term_skip by (cbn [forallb]; rewrite Px, Pc; reflexivity).
    specialize (IH (hl_crlf l) OK'). rewrite <- !app_assoc in IH. rewrite IH.
    cbn [option_map]. unfold render_hline. rewrite C. repeat rewrite app_length. cbn [length].
    repeat rewrite app_length. apply f_equal. lia.
Qed.

(* ---------- parsing a rendered field block ---------- *)
Lemma lines_of_nonempty d : exists l ls, lines_of d = l :: ls.
Proof.
  induction d as [|x d (l & ls & E)]; [simpl; eauto|].
  cbn [lines_of]. rewrite E. destruct (x =? LF)%N; eauto.
Qed.
Lemma lines_of_line a r : nochar LF a = true -> lines_of (a ++ LF :: r) = a :: lines_of r.
Proof.
  induction a as [|x a IH]; intros H.
  - cbn [app lines_of]. rewrite N.eqb_refl. destruct (lines_of_nonempty r) as (l & ls & E).
    rewrite E. reflexivity.
  - cbn [nochar forallb] in H. apply andb_true_iff in H as [H1 H2]. apply negb_true_iff in H1.
    cbn [app lines_of]. rewrite (IH H2), H1. reflexivity.
Qed.
Lemma strip_terminated_cons l d :
  strip_terminated (l :: lines_of d) = strip1cr l :: strip_terminated (lines_of d).
Proof. destruct (lines_of_nonempty d) as (l' & ls & E). rewrite E. reflexivity. Qed.

Lemma lines_eol_line a e r : forallb plain a = true ->
  strip_terminated (lines_of (a ++ eol e ++ r)) = a :: strip_terminated (lines_of r).
Proof.
  intros P. destruct (plain_nochar _ P) as [NC NL]. destruct e; cbn [eol app].
  - replace (a ++ CR :: LF :: r) with ((a ++ [CR]) ++ LF :: r) by (rewrite <- app_assoc; reflexivity).
    rewrite lines_of_line.
    + rewrite strip_terminated_cons, (strip1cr_cr _ NC). reflexivity.
    + unfold nochar in *. rewrite forallb_app, NL. reflexivity.
  - rewrite (lines_of_line _ _ NL), strip_terminated_cons, (strip1cr_keep _ NC). reflexivity.
Qed.

Lemma parse_line_field st l : hline_ok l ->
  parse_line st (hline_content l) =
    Some (hadd (fst st) (norm_name (hl_name l)) (hl_value l), Some (norm_name (hl_name l))).
Proof.
  intros (T & O & W & V). destruct st as [h lk].
  destruct (token_ok_parts _ T) as (x & r & E & TA).
  unfold parse_line, hline_content. rewrite E. cbn [app].
  assert (Tx : is_tchar x = true).
  { rewrite E in TA. cbn [forallb] in TA. apply andb_true_iff in TA as [A _]. exact A. }
  rewrite (tchar_not_hws _ Tx). rewrite <- E.
  change (x :: r ++ COLON :: hl_ows l ++ hl_value l ++ hl_tws l)
    with ((x :: r) ++ COLON :: hl_ows l ++ hl_value l ++ hl_tws l). rewrite <- E.
  rewrite split_at_app.
  2:{ unfold nochar. eapply forallb_imp; [|exact TA]. intros y Hy. apply negb_true_iff.
      apply (tchar_not y COLON Hy). reflexivity. }
  assert (S : strip is_hws (hl_ows l ++ hl_value l ++ hl_tws l) = hl_value l).
  { unfold strip. rewrite (lstrip_app _ _ _ O).
    destruct (field_value_parts _ V) as [_ [VE|(vx & vr & a & y & E1 & F1 & E2 & F2)]].
    - rewrite VE. cbn [app]. rewrite (lstrip_all _ _ W). reflexivity.
    - rewrite E1. cbn [app]. rewrite (lstrip_stop _ _ _ (fvchar_not_hws _ F1)).
      change (vx :: vr ++ hl_tws l) with ((vx :: vr) ++ hl_tws l). rewrite <- E1.
      rewrite (rstrip_drop _ _ _ W). rewrite E2. apply rstrip_keep. apply fvchar_not_hws. exact F2. }
  rewrite S, T, V. reflexivity.
Qed.

Lemma parse_fields eF : forall hls st,
  Forall hline_ok hls ->
  parse_lines st (strip_terminated (lines_of (render_fields hls eF))) = Some (fields_of hls st).
Proof.
  induction hls as [|l hls IH]; intros st OK.
  - unfold render_fields. cbn [map concat app fields_of fold_left].
    destruct eF; cbn; destruct st; reflexivity.
  - inversion OK as [|? ? Hl OK']; subst.
    destruct (content_plain l Hl) as [P _].
    unfold render_fields in *. cbn [map concat]. unfold render_hline at 1. rewrite <- !app_assoc.
    rewrite (lines_eol_line _ _ _ P). cbn [parse_lines].
    rewrite (parse_line_field st l Hl). rewrite IH by exact OK'. reflexivity.
Qed.

(* ---------- the request line ---------- *)
Definition version_of (d : N) : bytes := s2b "HTTP/1." ++ [d].
Definition render_line (m t : bytes) (d : N) : bytes := m ++ SP :: t ++ SP :: version_of d.
Definition line_ok (m t : bytes) (d : N) : Prop :=
  token_ok m = true /\ target_ok t = true /\ is_digit d = true.

Lemma target_ok_parts t : target_ok t = true -> forallb is_fvchar t = true.
Proof. unfold target_ok. destruct t; [discriminate|auto]. Qed.

Lemma parse_request_line_render m t d : line_ok m t d ->
  parse_request_line (render_line m t d) = Some (m, t, version_of d).
Proof.
  intros (M & T & D). unfold parse_request_line, render_line.
  destruct (token_ok_parts _ M) as (x & r & E & TA).
  rewrite split_at_app.
  2:{ unfold nochar. eapply forallb_imp; [|exact TA]. intros y Hy. apply negb_true_iff.
      apply (tchar_not y SP Hy). reflexivity. }
  rewrite split_at_app.
  2:{ unfold nochar. eapply forallb_imp; [|exact (target_ok_parts _ T)]. intros y Hy.
      apply negb_true_iff. apply (fvchar_not y SP Hy). reflexivity. }
  rewrite M, T. unfold version_of. cbn. rewrite D. reflexivity.
Qed.

Lemma render_line_plain m t d : line_ok m t d ->
  forallb plain (render_line m t d) = true /\
  exists x r, render_line m t d = x :: r /\ is_crlf_char x = false /\
  exists a, render_line m t d = a ++ [d].
Proof.
  intros (M & T & D). destruct (token_ok_parts _ M) as (x & r & E & TA). split; [|].
  - unfold render_line, version_of. rewrite forallb_plain_app. cbn [forallb]. rewrite forallb_plain_app.
    rewrite (forallb_imp _ _ _ tchar_plain TA), (forallb_imp _ _ _ fvchar_plain (target_ok_parts _ T)).
    cbn. unfold plain. rewrite (digit_not d CR D), (digit_not d LF D); reflexivity.
  - exists x, (r ++ SP :: t ++ SP :: version_of d). split; [unfold render_line; rewrite E; reflexivity|].
    split.
    + assert (Tx : is_tchar x = true).
      { rewrite E in TA. cbn [forallb] in TA. apply andb_true_iff in TA as [A _]. exact A. }
      unfold is_crlf_char. rewrite (tchar_not x CR Tx), (tchar_not x LF Tx); reflexivity.
    + exists (m ++ SP :: t ++ SP :: s2b "HTTP/1."). unfold render_line, version_of.
      rewrite <- !app_assoc. cbn [app]. rewrite <- !app_assoc. reflexivity.
Qed.

(* ---------- the whole header block ---------- *)
Definition lead_ok (lead : bytes) : Prop := lead = [] \/ lead = [CR; LF] \/ lead = [LF].
Definition render_head (lead m t : bytes) (d : N) (e0 : bool) (hls : list hline) (eF : bool) : bytes :=
  lead ++ render_line m t d ++ eol e0 ++ render_fields hls eF.

Theorem head_roundtrip lead m t d e0 hls eF :
  lead_ok lead -> line_ok m t d -> Forall hline_ok hls ->
  parse_head (render_head lead m t d e0 hls eF) =
    Some (m, t, version_of d, fst (fields_of hls ([], None))).
Proof.
  intros LD LN OK. destruct (render_line_plain m t d LN) as (P & x & r & E & NX & a & EA).
  destruct (plain_nochar _ P) as [NC NL].
  unfold parse_head, render_head.
  assert (L1 : lstrip is_crlf_char (lead ++ render_line m t d ++ eol e0 ++ render_fields hls eF)
               = render_line m t d ++ eol e0 ++ render_fields hls eF).
  { rewrite lstrip_app by (destruct LD as [->|[->| ->]]; reflexivity).
    rewrite E. cbn [app]. apply lstrip_stop. exact NX. }
  rewrite L1.
  assert (L2 : split_first_lf (render_line m t d ++ eol e0 ++ render_fields hls eF)
               = (render_line m t d ++ (if e0 then [CR] else []), LF :: render_fields hls eF)).
  { unfold split_first_lf. destruct e0; cbn [eol app].
    - replace (render_line m t d ++ CR :: LF :: render_fields hls eF)
        with ((render_line m t d ++ [CR]) ++ LF :: render_fields hls eF)
        by (rewrite <- app_assoc; reflexivity).
      rewrite split_at_app; [reflexivity|]. unfold nochar in *. rewrite forallb_app, NL. reflexivity.
    - rewrite split_at_app by exact NL. rewrite app_nil_r. reflexivity. }
  rewrite L2.
  assert (L3 : headers_parse (LF :: render_fields hls eF) = Some (fst (fields_of hls ([], None)))).
  { unfold headers_parse. change (LF :: render_fields hls eF) with ([] ++ LF :: render_fields hls eF).
    rewrite lines_of_line by reflexivity. rewrite strip_terminated_cons. cbn [strip1cr parse_lines parse_line].
    rewrite (parse_fields eF hls ([], None) OK). reflexivity. }
  rewrite L3.
  assert (L4 : rstrip (N.eqb CR) (render_line m t d ++ (if e0 then [CR] else [])) = render_line m t d).
  { destruct LN as (_ & _ & D).
    assert (K : rstrip (N.eqb CR) (render_line m t d) = render_line m t d).
    { rewrite EA. apply rstrip_keep. rewrite N.eqb_sym. apply (digit_not d CR D). reflexivity. }
    destruct e0; [|rewrite app_nil_r; exact K].
    rewrite rstrip_drop by reflexivity. exact K. }
  rewrite L4, (parse_request_line_render m t d LN). reflexivity.
Qed.

Theorem head_found lead m t d e0 hls eF rest :
  lead_ok lead -> line_ok m t d -> Forall hline_ok hls ->
  find_term (render_head lead m t d e0 hls eF ++ rest) = Some (length (render_head lead m t d e0 hls eF)).
Proof.
  intros LD LN OK. destruct (render_line_plain m t d LN) as (P & x & r & E & NX & _).
  unfold render_head. rewrite <- !app_assoc.
  assert (Px : plain x = true) by (rewrite E in P; cbn [forallb] in P; apply andb_true_iff in P as [A _]; exact A).
  assert (G : find_term (render_line m t d ++ eol e0 ++ render_fields hls eF ++ rest)
              = Some (length (render_line m t d ++ eol e0 ++ render_fields hls eF))).
  { rewrite find_term_skip by exact P. rewrite (find_term_fields rest eF hls e0 OK).
    cbn [option_map]. repeat rewrite app_length. apply f_equal. lia. }
  destruct LD as [->|[->| ->]].
  - exact G.
  - change ([CR; LF] ++ render_line m t d ++ eol e0 ++ render_fields hls eF ++ rest)
      with (eol true ++ render_line m t d ++ eol e0 ++ render_fields hls eF ++ rest).
    rewrite E in *. cbn [app] in *. rewrite (find_term_eol_then_plain true x _ Px), G. reflexivity.
  - change ([LF] ++ render_line m t d ++ eol e0 ++ render_fields hls eF ++ rest)
      with (eol false ++ render_line m t d ++ eol e0 ++ render_fields hls eF ++ rest).
    rewrite E in *. cbn [app] in *. rewrite (find_term_eol_then_plain false x _ Px), G. reflexivity.
Qed.

(* hence: the header block is what the strict reader reads first, when it fits the limit *)
Theorem head_at_render c lead m t d e0 hls eF rest :
  lead_ok lead -> line_ok m t d -> Forall hline_ok hls ->
  (length (render_head lead m t d e0 hls eF) <= max_header c)%nat ->
  head_at c (render_head lead m t d e0 hls eF ++ rest) (render_head lead m t d e0 hls eF) rest.
Proof.
  intros LD LN OK L. unfold head_at, w_delim, delim_pos.
  rewrite (head_found lead m t d e0 hls eF rest LD LN OK).
  apply Nat.leb_le in L. rewrite L.
  rewrite firstn_app_le, skipn_app_le by lia. rewrite firstn_all, skipn_all. reflexivity.
Qed.
