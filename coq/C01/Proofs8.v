(* C01 — (RT) the strict reader on any sequence of rendered well-formed requests yields
   exactly their events, in order. *)
From Coq Require Import String.
From Coq Require Import List NArith Arith Bool Lia.
Import ListNotations.
From TV Require Import C01.Model C01.Proofs1 C01.Proofs2 C01.Proofs3 C01.Proofs4 C01.Proofs6 C01.Proofs7.

Inductive abody :=
| ANone
| AFixed (data : bytes)                                   (* framed by Content-Length *)
| AChunked (cs : list (bytes * bytes)) (z : bytes).      (* (size spelling, data) chunks; last-chunk spelling *)

Record areq := {
  a_lead : bytes; a_method : bytes; a_target : bytes; a_minor : N; a_eol0 : bool;
  a_fields : list hline; a_eolF : bool; a_body : abody
}.

Definition a_head (r : areq) : bytes :=
  render_head (a_lead r) (a_method r) (a_target r) (a_minor r) (a_eol0 r) (a_fields r) (a_eolF r).
Definition a_headers (r : areq) : headers := fst (fields_of (a_fields r) ([], None)).
Definition body_wire (b : abody) : bytes :=
  match b with
  | ANone => []
  | AFixed data => data
  | AChunked cs z => chunks_wire cs ++ z ++ CRLF ++ CRLF
  end.
Definition body_data (b : abody) : bytes :=
  match b with ANone => [] | AFixed data => data | AChunked cs _ => chunks_data cs end.
Definition render_req (r : areq) : bytes := a_head r ++ body_wire (a_body r).
Definition req_events (r : areq) : list ev :=
  (req_evs (a_method r) (a_target r) (version_of (a_minor r)) (a_headers r)
     ++ body_ev (body_data (a_body r))) ++ [EvFin].

(* well-formed abstract request under configuration c: syntax of line and fields, header
   block within max_header_size, the connection stays open after it, Host acceptable, and
   the header fields announce exactly the framing that is used *)
Definition areq_ok (c : cfg) (r : areq) : Prop :=
  lead_ok (a_lead r) /\ line_ok (a_method r) (a_target r) (a_minor r) /\ Forall hline_ok (a_fields r) /\
  (length (a_head r) <= max_header c)%nat /\
  can_keep_alive (no_keep_alive c) (a_method r) (version_of (a_minor r)) (a_headers r) = Some true /\
  host_check (version_of (a_minor r)) (a_headers r) = HOk /\
  match a_body r with
  | ANone => body_plan (eff_max_body c) (a_headers r) = Some PNone
  | AFixed data => body_plan (eff_max_body c) (a_headers r) = Some (PFixed (N.of_nat (length data)))
  | AChunked cs z =>
      body_plan (eff_max_body c) (a_headers r) = Some PChunked /\ Forall chunk_ok cs /\
      parse_hex_int z = Some 0%N /\ (length z <= 62)%nat /\ (chunks_len cs <= eff_max_body c)%N
  end.

Lemma req_roundtrip c r rest : areq_ok c r ->
  serve_msg whole_ops plain_dlg c (render_req r ++ rest) = (req_events r, Some rest).
Proof.
  intros (LD & LN & OK & LEN & KA & HO & BD).
  unfold render_req. rewrite <- List.app_assoc.
  pose proof (head_at_render c _ _ _ _ _ _ _ (body_wire (a_body r) ++ rest) LD LN OK LEN) as HA.
  pose proof (head_roundtrip _ _ _ _ (a_eol0 r) _ (a_eolF r) LD LN OK) as HP.
  fold (a_head r) in HA, HP. fold (a_headers r) in HP.
  unfold req_events. destruct (a_body r) as [|data|cs z]; cbn [body_wire body_data] in *.
  - rewrite (accept_no_body c _ _ _ _ _ _ _ true HA HP KA HO BD). cbn [body_ev fst snd]. rewrite app_nil_r. reflexivity.
  - rewrite (accept_content_length c _ _ _ _ _ _ _ true HA HP KA HO _ BD).
    + rewrite Nat2N.id, firstn_app_le, skipn_app_le, firstn_all, skipn_all by lia.
      cbn [fst snd app]. reflexivity.
    + rewrite app_length. lia.
  - destruct BD as (PL & CK & Z & ZL & M).
    rewrite (accept_chunked c _ _ _ _ _ _ _ true HA HP KA HO cs z rest PL); try assumption.
    + cbn [fst snd]. reflexivity.
    + rewrite <- !app_assoc. reflexivity.
Qed.

Theorem requests_roundtrip c rs : Forall (areq_ok c) rs ->
  strict_reader c (concat (map render_req rs)) = concat (map req_events rs) ++ [EvEof].
Proof.
  induction 1 as [|r rs Hr _ IH].
  - reflexivity.
  - cbn [map concat]. rewrite (strict_reader_step c), (req_roundtrip c r _ Hr). cbn [fst snd].
    rewrite IH, <- app_assoc. reflexivity.
Qed.

(* an instance: bare LF line ends, leading blank line, whitespace around values, chunked *)
Local Open Scope string_scope.
Local Open Scope list_scope.
Definition ex_req1 : areq :=
  {| a_lead := [13; 10]%N; a_method := s2b "POST"; a_target := s2b "/a?b"; a_minor := 49%N; a_eol0 := false;
     a_fields := [ {| hl_name := s2b "host"; hl_ows := [32]%N; hl_value := s2b "example.com:80"; hl_tws := [9]%N; hl_crlf := true |};
                   {| hl_name := s2b "transfer-encoding"; hl_ows := []; hl_value := s2b "Chunked"; hl_tws := []; hl_crlf := false |} ];
     a_eolF := true; a_body := AChunked [(s2b "03", s2b "abc"); (s2b "A", s2b "0123456789")] (s2b "000") |}.
Definition ex_req2 : areq :=
  {| a_lead := []; a_method := s2b "PUT"; a_target := s2b "*"; a_minor := 48%N; a_eol0 := true;
     a_fields := [ {| hl_name := s2b "Content-Length"; hl_ows := [32; 32]%N; hl_value := s2b "005"; hl_tws := []; hl_crlf := true |};
                   {| hl_name := s2b "Connection"; hl_ows := []; hl_value := s2b "Keep-Alive"; hl_tws := []; hl_crlf := true |} ];
     a_eolF := false; a_body := AFixed (s2b "hello") |}.
Definition ex_cfg : cfg := {| max_header := 200; max_body := 64; body_override := None; chunk_pred := 3; no_keep_alive := false |}.

Ltac fin_ok :=
  first [ reflexivity | discriminate | (vm_compute; reflexivity)
        | (apply Nat.leb_le; vm_compute; reflexivity) | (apply N.leb_le; vm_compute; reflexivity) ].
Example ex_areq_ok : Forall (areq_ok ex_cfg) [ex_req1; ex_req2].
Proof.
  constructor; [|constructor; [|constructor]].
  - unfold areq_ok. cbn [ex_req1 a_lead a_method a_target a_minor a_fields a_body].
    split; [right; left; reflexivity|]. split; [repeat split; fin_ok|].
    split; [repeat constructor; fin_ok|]. split; [fin_ok|]. split; [fin_ok|]. split; [fin_ok|].
    split; [fin_ok|]. split; [repeat constructor; fin_ok|]. repeat split; fin_ok.
  - unfold areq_ok. cbn [ex_req2 a_lead a_method a_target a_minor a_fields a_body].
    split; [left; reflexivity|]. split; [repeat split; fin_ok|].
    split; [repeat constructor; fin_ok|]. split; [fin_ok|]. split; [fin_ok|]. split; [fin_ok|]. fin_ok.
Qed.

Example ex_roundtrip_trace :
  strict_reader ex_cfg (render_req ex_req1 ++ render_req ex_req2) =
    req_events ex_req1 ++ req_events ex_req2 ++ [EvEof].
Proof. vm_compute. reflexivity. Qed.
