(* C01 — concrete instances showing that the hypotheses of the theorems are satisfiable
   (and regression tests of the model on the classic smuggling vectors). *)
From Coq Require Import String.
From Coq Require Import List NArith Arith Bool Lia.
Import ListNotations.
From TV Require Import C01.Model C01.Proofs1 C01.Proofs2 C01.Proofs3 C01.Proofs4 C01.Proofs6.

Local Open Scope string_scope.
Local Open Scope list_scope.
Definition cfg0 : cfg := {| max_header := 1000; max_body := 1000; body_override := None; chunk_pred := 15; no_keep_alive := false |}.
Definition nl : bytes := [13; 10]%N.
Definition lines (ls : list string) : bytes := concat (map (fun s => s2b s ++ nl) ls).

Definition ex_cl_te : bytes :=
  lines ["POST / HTTP/1.1"; "Host: a"; "Content-Length: 4"; "Transfer-Encoding: chunked"; ""] ++ s2b "0" ++ nl ++ nl.
Definition ex_cl_te_head := lines ["POST / HTTP/1.1"; "Host: a"; "Content-Length: 4"; "Transfer-Encoding: chunked"; ""].

Example ex_cl_te_hyps :
  head_at cfg0 ex_cl_te ex_cl_te_head (s2b "0" ++ nl ++ nl) /\
  exists m t v h, parse_head ex_cl_te_head = Some (m, t, v, h) /\
                  hmem h K_CL = true /\ hmem h K_TE = true /\
                  strict_reader cfg0 ex_cl_te = [EvReq m t v (get_all h); EvBad400].
Proof. split; [vm_compute; reflexivity|]. do 4 eexists. vm_compute. repeat split; reflexivity. Qed.

Example ex_two_cl_unequal :
  exists m t v h,
    parse_head (lines ["POST / HTTP/1.1"; "Host: a"; "Content-Length: 3"; "Content-Length: 4"; ""])
      = Some (m, t, v, h) /\
    hget h K_CL = Some [s2b "3"; s2b "4"] /\ body_plan 1000 h = None.
Proof. do 4 eexists. vm_compute. repeat split; reflexivity. Qed.

Example ex_te_not_chunked :
  exists m t v h,
    parse_head (lines ["POST / HTTP/1.1"; "Host: a"; "Transfer-Encoding: gzip, chunked"; ""])
      = Some (m, t, v, h) /\
    hcomb h K_TE = Some (s2b "gzip, chunked") /\ body_plan 1000 h = None.
Proof. do 4 eexists. vm_compute. repeat split; reflexivity. Qed.

Example ex_cl_plus :
  parse_int (s2b "+5") = None /\ parse_int (s2b "0x5") = None /\ parse_int (s2b "5") = Some 5%N /\
  parse_hex_int (s2b "5;ext=1") = None /\ parse_hex_int (s2b "0x5") = None /\ parse_hex_int (s2b "1A") = Some 26%N.
Proof. vm_compute. repeat split; reflexivity. Qed.

Example ex_bad_lines :
  parse_request_line (s2b "GET  / HTTP/1.1") = None /\ parse_request_line (s2b "GET / HTTP/2.0") = None /\
  parse_request_line (s2b "GET /") = None /\ parse_request_line (s2b "G@T / HTTP/1.1") = None /\
  parse_request_line (s2b "GET / HTTP/1.1") = Some (s2b "GET", s2b "/", s2b "HTTP/1.1").
Proof. vm_compute. repeat split; reflexivity. Qed.

Example ex_hosts :
  host_ok (s2b "a b") = false /\ host_ok (s2b "a/b") = false /\ host_ok (s2b "%zz") = false /\
  host_ok (s2b "[::1]:8080") = true /\ host_ok (s2b "a%41b") = true /\ mem COMMA (s2b "a,b") = true.
Proof. vm_compute. repeat split; reflexivity. Qed.

(* a pipelined stream: two complete requests, then a rejected one; chunk terminator witness *)
Definition ex_pipeline : bytes :=
  lines ["POST /1 HTTP/1.1"; "Host: a"; "Content-Length: 3"; ""] ++ s2b "abc" ++
  lines ["POST /2 HTTP/1.1"; "Host: a"; "Transfer-Encoding: chunked"; ""] ++
    s2b "2" ++ nl ++ s2b "de" ++ nl ++ s2b "0" ++ nl ++ nl ++
  lines ["POST /3 HTTP/1.1"; "Host: a"; "Transfer-Encoding: chunked"; ""] ++
    s2b "3" ++ nl ++ s2b "abcXX0" ++ nl ++ nl.

Example ex_pipeline_trace :
  exists h1 h2 h3,
    strict_reader cfg0 ex_pipeline =
      [EvReq (s2b "POST") (s2b "/1") (s2b "HTTP/1.1") h1; EvBody (s2b "abc"); EvFin;
       EvReq (s2b "POST") (s2b "/2") (s2b "HTTP/1.1") h2; EvBody (s2b "de"); EvFin;
       EvReq (s2b "POST") (s2b "/3") (s2b "HTTP/1.1") h3; EvBody (s2b "abc"); EvBad400].
Proof. do 3 eexists. vm_compute. reflexivity. Qed.

Example ex_chunks_ok :
  Forall chunk_ok [(s2b "2", s2b "de"); (s2b "00A", s2b "0123456789")] /\ parse_hex_int (s2b "000") = Some 0%N.
Proof.
  split; [|reflexivity]. repeat constructor; try (vm_compute; reflexivity); try (simpl; lia); discriminate.
Qed.

Example ex_stable_nontrivial :
  find_term (s2b "GET / HTTP/1.1" ++ [13;10;13]%N) = None /\
  find_term (s2b "GET / HTTP/1.1" ++ [13;10;13]%N ++ [10]%N) = Some 18%nat.
Proof. vm_compute. split; reflexivity. Qed.

(* extra CR before the terminator of the Content-Length line: refused, the pipelined request is never dispatched *)
Example ex_extra_cr :
  strict_reader cfg0 (s2b "POST / HTTP/1.1" ++ nl ++ s2b "Host: a" ++ nl ++ s2b "Content-Length: 3" ++ [13; 13; 10]%N ++ nl ++
                      s2b "abc" ++ lines ["GET /smuggled HTTP/1.1"; "Host: a"; ""]) = [EvBad400] /\
  strict_reader cfg0 (lines ["GET / HTTP/1.1"; "Host: a"] ++ [13; 13; 10]%N ++ lines ["X: y"; ""] ++
                      lines ["GET /smuggled HTTP/1.1"; "Host: a"; ""]) = [EvBad400].
Proof. split; vm_compute; reflexivity. Qed.
