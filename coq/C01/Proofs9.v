(* C01 — (RT, full) round trip with obsolete line folding, and with a last request that
   closes the connection; the no_keep_alive configuration. *)
From Coq Require Import String.
From Coq Require Import List NArith Arith Bool Lia.
Import ListNotations.
From TV Require Import C01.Model C01.Proofs1 C01.Proofs2 C01.Proofs3 C01.Proofs4 C01.Proofs6 C01.Proofs7 C01.Proofs8.

(* ---------- physical lines ---------- *)
Definition pline := (bytes * bool)%type.                 (* content, ends with CRLF? *)
Definition pl_ok (p : pline) : Prop := forallb plain (fst p) = true /\ fst p <> [].
Definition render_plines (pls : list pline) : bytes :=
  concat (map (fun p => fst p ++ eol (snd p)) pls).

Lemma find_term_plines rest eF : forall pls e,
  Forall pl_ok pls ->
  find_term (eol e ++ render_plines pls ++ eol eF ++ rest) =
    Some (length (eol e ++ render_plines pls ++ eol eF)).
Proof.
  induction pls as [|[cont cr] pls IH]; intros e OK.
  - unfold render_plines. cbn [map concat app]. rewrite find_term_two_eols.
    rewrite app_length. reflexivity.
  - inversion OK as [|? ? [P NE] OK']; subst. cbn [fst] in P, NE.
    unfold render_plines in *. cbn [map concat fst snd].
    destruct cont as [|x cont]; [congruence|].
    cbn [forallb] in P. apply andb_true_iff in P as [Px Pc].
    rewrite <- !app_assoc. cbn [app].
    rewrite (find_term_eol_then_plain e x _ Px).
    change (x :: cont ++ eol cr ++ concat (map (fun p => fst p ++ eol (snd p)) pls) ++ eol eF ++ rest)
      with ((x :: cont) ++ eol cr ++ concat (map (fun p => fst p ++ eol (snd p)) pls) ++ eol eF ++ rest).
    rewrite find_term_skip by (cbn [forallb]; rewrite Px, Pc; reflexivity).
    specialize (IH cr OK'). rewrite IH.
    cbn [option_map]. repeat rewrite app_length. cbn [length]. repeat rewrite app_length.
    apply f_equal. lia.
Qed.

Lemma lines_plines tail : forall pls,
  Forall pl_ok pls ->
  strip_terminated (lines_of (render_plines pls ++ tail)) =
    map fst pls ++ strip_terminated (lines_of tail).
Proof.
  induction pls as [|[cont cr] pls IH]; intros OK; [reflexivity|].
  inversion OK as [|? ? [P _] OK']; subst. cbn [fst] in P.
  unfold render_plines in *. cbn [map concat fst snd]. rewrite <- !app_assoc.
  rewrite (lines_eol_line _ _ _ P), (IH OK'). reflexivity.
Qed.

Lemma parse_lines_app : forall a b st,
  parse_lines st (a ++ b) =
    match parse_lines st a with Some st' => parse_lines st' b | None => None end.
Proof.
  induction a as [|l a IH]; intros b st; [reflexivity|].
  cbn [app parse_lines]. destruct (parse_line st l); [apply IH|reflexivity].
Qed.

(* ---------- header fields with obsolete line folding ---------- *)
Record fold := { f_ws : bytes; f_part : bytes; f_tws : bytes; f_crlf : bool }.
Definition fold_content (f : fold) : bytes := f_ws f ++ f_part f ++ f_tws f.
Definition fold_ok (f : fold) : Prop :=
  f_ws f <> [] /\ forallb is_hws (f_ws f) = true /\ forallb is_hws (f_tws f) = true /\
  field_value_ok (f_part f) = true.

Record fline := { fl_line : hline; fl_folds : list fold }.
Definition fline_ok (l : fline) : Prop := hline_ok (fl_line l) /\ Forall fold_ok (fl_folds l).
(* HTTPHeaders.parse_line on a continuation: value = (value + " " + part).strip(" \t") *)
Definition fold_value (v : bytes) (f : fold) : bytes := strip is_hws (v ++ SP :: f_part f).
Definition fl_value (l : fline) : bytes := fold_left fold_value (fl_folds l) (hl_value (fl_line l)).
Definition fl_key (l : fline) : bytes := norm_name (hl_name (fl_line l)).

Definition plines_of (l : fline) : list pline :=
  (hline_content (fl_line l), hl_crlf (fl_line l))
    :: map (fun f => (fold_content f, f_crlf f)) (fl_folds l).
Definition plines_of_all (hls : list fline) : list pline := flat_map plines_of hls.
Definition render_ffields (hls : list fline) (eF : bool) : bytes :=
  render_plines (plines_of_all hls) ++ eol eF.
Definition ffields_of (hls : list fline) (st : pstate) : pstate :=
  fold_left (fun s l => (hadd (fst s) (fl_key l) (fl_value l), Some (fl_key l))) hls st.

Lemma strip_ows_value o v w :
  forallb is_hws o = true -> forallb is_hws w = true -> field_value_ok v = true ->
  strip is_hws (o ++ v ++ w) = v.
Proof.
  intros O W V. unfold strip. rewrite (lstrip_app _ _ _ O).
  destruct (field_value_parts _ V) as [_ [VE|(vx & vr & a & y & E1 & F1 & E2 & F2)]].
  - rewrite VE. cbn [app]. rewrite (lstrip_all _ _ W). reflexivity.
  - rewrite E1. cbn [app]. rewrite (lstrip_stop _ _ _ (fvchar_not_hws _ F1)).
    change (vx :: vr ++ w) with ((vx :: vr) ++ w). rewrite <- E1.
    rewrite (rstrip_drop _ _ _ W). rewrite E2. apply rstrip_keep. apply fvchar_not_hws. exact F2.
Qed.

Lemma fold_plain f : fold_ok f -> pl_ok (fold_content f, f_crlf f).
Proof.
  intros (NE & O & W & V). destruct (field_value_parts _ V) as [VA _]. split; cbn [fst].
  - unfold fold_content. rewrite !forallb_plain_app.
    rewrite (forallb_imp _ _ _ hws_plain O), (forallb_imp _ _ _ hws_plain W),
      (forallb_imp _ _ _ fvh_plain VA). reflexivity.
  - unfold fold_content. destruct (f_ws f); [congruence|discriminate].
Qed.

Lemma plines_ok hls : Forall fline_ok hls -> Forall pl_ok (plines_of_all hls).
Proof.
  induction 1 as [|l hls [Hl Hf] _ IH]; [constructor|].
  unfold plines_of_all. cbn [flat_map]. apply Forall_app. split; [|exact IH].
  unfold plines_of. constructor.
  - destruct (content_plain _ Hl) as [P NE]. split; assumption.
  - apply Forall_map. eapply Forall_impl; [|exact Hf]. intros f. apply fold_plain.
Qed.

Lemma app_last_cons x r e : r <> [] -> app_last (x :: r) e = x :: app_last r e.
Proof. destruct r; [congruence|reflexivity]. Qed.
Lemma app_last_snoc vs v e : app_last (vs ++ [v]) e = vs ++ [strip is_hws (v ++ e)].
Proof.
  induction vs as [|x vs IH]; [reflexivity|].
  cbn [app]. rewrite app_last_cons by (destruct vs; discriminate). rewrite IH. reflexivity.
Qed.

Lemma hfold_hadd h k v e : hfold (hadd h k v) k e = hadd h k (strip is_hws (v ++ e)).
Proof.
  induction h as [|[k' vs] h IH].
  - cbn [hadd hfold]. rewrite beqb_refl. reflexivity.
  - cbn [hadd]. destruct (beqb k k') eqn:E; cbn [hfold]; rewrite E.
    + rewrite app_last_snoc. reflexivity.
    + rewrite IH. reflexivity.
Qed.

Lemma parse_line_fold h k f : fold_ok f ->
  parse_line (h, Some k) (fold_content f) = Some (hfold h k (SP :: f_part f), Some k).
Proof.
  intros (NE & O & W & V). unfold parse_line, fold_content.
  destruct (f_ws f) as [|w0 ws] eqn:E; [congruence|].
  cbn [app]. cbn [forallb] in O. apply andb_true_iff in O as [O0 O1]. rewrite O0.
  change (w0 :: ws ++ f_part f ++ f_tws f) with ((w0 :: ws) ++ f_part f ++ f_tws f).
  rewrite strip_ows_value; [|cbn [forallb]; rewrite O0, O1; reflexivity|exact W|exact V].
  rewrite V. reflexivity.
Qed.

Lemma parse_folds h k : forall folds v,
  Forall fold_ok folds ->
  parse_lines (hadd h k v, Some k) (map (fun f => fold_content f) folds) =
    Some (hadd h k (fold_left fold_value folds v), Some k).
Proof.
  induction folds as [|f folds IH]; intros v OK; [reflexivity|].
  inversion OK as [|? ? Hf OK']; subst.
  cbn [map parse_lines fold_left]. rewrite (parse_line_fold _ _ _ Hf), hfold_hadd.
  apply IH. exact OK'.
Qed.

Lemma parse_ffields : forall hls st tail,
  Forall fline_ok hls ->
  parse_lines st (map fst (plines_of_all hls) ++ tail) = parse_lines (ffields_of hls st) tail.
Proof.
  induction hls as [|l hls IH]; intros st tail OK; [reflexivity|].
  inversion OK as [|? ? [Hl Hf] OK']; subst.
  unfold plines_of_all. cbn [flat_map]. rewrite map_app, <- app_assoc.
  unfold plines_of at 1. cbn [map fst app parse_lines].
  rewrite (parse_line_field st _ Hl). rewrite map_map. cbn [fst].
  rewrite parse_lines_app.
  rewrite (parse_folds (fst st) (norm_name (hl_name (fl_line l))) (fl_folds l) (hl_value (fl_line l)) Hf).
  fold (plines_of_all hls). rewrite (IH _ tail OK'). reflexivity.
Qed.

(* ---------- the header block ---------- *)
Definition render_fhead (lead m t : bytes) (d : N) (e0 : bool) (hls : list fline) (eF : bool) : bytes :=
  lead ++ render_line m t d ++ eol e0 ++ render_ffields hls eF.

Lemma fheaders_parse hls eF : Forall fline_ok hls ->
  headers_parse (LF :: render_ffields hls eF) = Some (fst (ffields_of hls ([], None))).
Proof.
  intros OK. unfold headers_parse, render_ffields.
  change (LF :: render_plines (plines_of_all hls) ++ eol eF)
    with ([] ++ LF :: render_plines (plines_of_all hls) ++ eol eF).
  rewrite lines_of_line by reflexivity. rewrite strip_terminated_cons.
  rewrite (lines_plines (eol eF) _ (plines_ok _ OK)).
  cbn [strip1cr parse_lines parse_line].
  rewrite (parse_ffields hls ([], None) _ OK).
  destruct eF; cbn; destruct (ffields_of hls ([], None)); reflexivity.
Qed.

Theorem fhead_roundtrip lead m t d e0 hls eF :
  lead_ok lead -> line_ok m t d -> Forall fline_ok hls ->
  parse_head (render_fhead lead m t d e0 hls eF) =
    Some (m, t, version_of d, fst (ffields_of hls ([], None))).
Proof.
  intros LD LN OK. destruct (render_line_plain m t d LN) as (P & x & r & E & NX & a & EA).
  destruct (plain_nochar _ P) as [NC NL].
  unfold parse_head, render_fhead.
  assert (L1 : lstrip is_crlf_char (lead ++ render_line m t d ++ eol e0 ++ render_ffields hls eF)
               = render_line m t d ++ eol e0 ++ render_ffields hls eF).
  { rewrite lstrip_app by (destruct LD as [->|[->| ->]]; reflexivity).
    rewrite E. cbn [app]. apply lstrip_stop. exact NX. }
  rewrite L1.
  assert (L2 : split_first_lf (render_line m t d ++ eol e0 ++ render_ffields hls eF)
               = (render_line m t d ++ (if e0 then [CR] else []), LF :: render_ffields hls eF)).
  { unfold split_first_lf. destruct e0; cbn [eol app].
    - replace (render_line m t d ++ CR :: LF :: render_ffields hls eF)
        with ((render_line m t d ++ [CR]) ++ LF :: render_ffields hls eF)
        by (rewrite <- app_assoc; reflexivity).
      rewrite split_at_app; [reflexivity|]. unfold nochar in *. rewrite forallb_app, NL. reflexivity.
    - rewrite split_at_app by exact NL. rewrite app_nil_r. reflexivity. }
  rewrite L2, (fheaders_parse hls eF OK).
  assert (L4 : rstrip (N.eqb CR) (render_line m t d ++ (if e0 then [CR] else [])) = render_line m t d).
  { destruct LN as (_ & _ & D).
    assert (K : rstrip (N.eqb CR) (render_line m t d) = render_line m t d).
    { rewrite EA. apply rstrip_keep. rewrite N.eqb_sym. apply (digit_not d CR D). reflexivity. }
    destruct e0; [|rewrite app_nil_r; exact K].
    rewrite rstrip_drop by reflexivity. exact K. }
  rewrite L4, (parse_request_line_render m t d LN). reflexivity.
Qed.

Theorem fhead_found lead m t d e0 hls eF rest :
  lead_ok lead -> line_ok m t d -> Forall fline_ok hls ->
  find_term (render_fhead lead m t d e0 hls eF ++ rest) = Some (length (render_fhead lead m t d e0 hls eF)).
Proof.
  intros LD LN OK. destruct (render_line_plain m t d LN) as (P & x & r & E & NX & _).
  unfold render_fhead, render_ffields. rewrite <- !app_assoc.
  assert (Px : plain x = true) by (rewrite E in P; cbn [forallb] in P; apply andb_true_iff in P as [A _]; exact A).
  set (F := render_plines (plines_of_all hls)) in *.
  assert (G : find_term (render_line m t d ++ eol e0 ++ F ++ eol eF ++ rest)
              = Some (length (render_line m t d ++ eol e0 ++ F ++ eol eF))).
  { rewrite find_term_skip by exact P. unfold F.
    rewrite (find_term_plines rest eF _ e0 (plines_ok _ OK)).
    cbn [option_map]. repeat rewrite app_length. apply f_equal. lia. }
  destruct LD as [->|[->| ->]].
  - exact G.
  - change ([CR; LF] ++ render_line m t d ++ eol e0 ++ F ++ eol eF ++ rest)
      with (eol true ++ render_line m t d ++ eol e0 ++ F ++ eol eF ++ rest).
    rewrite E in *. cbn [app] in *. rewrite (find_term_eol_then_plain true x _ Px), G. reflexivity.
  - change ([LF] ++ render_line m t d ++ eol e0 ++ F ++ eol eF ++ rest)
      with (eol false ++ render_line m t d ++ eol e0 ++ F ++ eol eF ++ rest).
    rewrite E in *. cbn [app] in *. rewrite (find_term_eol_then_plain false x _ Px), G. reflexivity.
Qed.

Theorem fhead_at_render c lead m t d e0 hls eF rest :
  lead_ok lead -> line_ok m t d -> Forall fline_ok hls ->
  (length (render_fhead lead m t d e0 hls eF) <= max_header c)%nat ->
  head_at c (render_fhead lead m t d e0 hls eF ++ rest) (render_fhead lead m t d e0 hls eF) rest.
Proof.
  intros LD LN OK L. unfold head_at, w_delim, delim_pos.
  rewrite (fhead_found lead m t d e0 hls eF rest LD LN OK).
  apply Nat.leb_le in L. rewrite L.
  rewrite firstn_app_le, skipn_app_le by lia. rewrite firstn_all, skipn_all. reflexivity.
Qed.

(* ---------- abstract requests ---------- *)
Record freq := {
  q_lead : bytes; q_method : bytes; q_target : bytes; q_minor : N; q_eol0 : bool;
  q_fields : list fline; q_eolF : bool; q_body : abody
}.
Definition q_head (r : freq) : bytes :=
  render_fhead (q_lead r) (q_method r) (q_target r) (q_minor r) (q_eol0 r) (q_fields r) (q_eolF r).
Definition q_headers (r : freq) : headers := fst (ffields_of (q_fields r) ([], None)).
Definition render_freq (r : freq) : bytes := q_head r ++ body_wire (q_body r).
Definition freq_events (r : freq) : list ev :=
  (req_evs (q_method r) (q_target r) (version_of (q_minor r)) (q_headers r)
     ++ body_ev (body_data (q_body r))) ++ [EvFin].

(* well-formed under configuration c, and the connection stays open after it iff ka *)
Definition freq_ok (c : cfg) (ka : bool) (r : freq) : Prop :=
  lead_ok (q_lead r) /\ line_ok (q_method r) (q_target r) (q_minor r) /\ Forall fline_ok (q_fields r) /\
  (length (q_head r) <= max_header c)%nat /\
  can_keep_alive (no_keep_alive c) (q_method r) (version_of (q_minor r)) (q_headers r) = Some ka /\
  host_check (version_of (q_minor r)) (q_headers r) = HOk /\
  match q_body r with
  | ANone => body_plan (eff_max_body c) (q_headers r) = Some PNone
  | AFixed data => body_plan (eff_max_body c) (q_headers r) = Some (PFixed (N.of_nat (length data)))
  | AChunked cs z =>
      body_plan (eff_max_body c) (q_headers r) = Some PChunked /\ Forall chunk_ok cs /\
      parse_hex_int z = Some 0%N /\ (length z <= 62)%nat /\ (chunks_len cs <= eff_max_body c)%N
  end.

Lemma freq_roundtrip c ka r rest : freq_ok c ka r ->
  serve_msg whole_ops plain_dlg c (render_freq r ++ rest) =
    (freq_events r ++ (if ka then [] else [EvDone]), if ka then Some rest else None).
Proof.
  intros (LD & LN & OK & LEN & KA & HO & BD).
  unfold render_freq. rewrite <- List.app_assoc.
  pose proof (fhead_at_render c _ _ _ _ _ _ _ (body_wire (q_body r) ++ rest) LD LN OK LEN) as HA.
  pose proof (fhead_roundtrip _ _ _ _ (q_eol0 r) _ (q_eolF r) LD LN OK) as HP.
  fold (q_head r) in HA, HP. fold (q_headers r) in HP.
  unfold freq_events. destruct (q_body r) as [|data|cs z]; cbn [body_wire body_data] in *.
  - rewrite (accept_no_body c _ _ _ _ _ _ _ ka HA HP KA HO BD).
    destruct ka; cbn [fst snd body_ev]; rewrite ?app_nil_r, <- ?List.app_assoc; reflexivity.
  - rewrite (accept_content_length c _ _ _ _ _ _ _ ka HA HP KA HO _ BD).
    + rewrite Nat2N.id, firstn_app_le, skipn_app_le, firstn_all, skipn_all by lia.
      destruct ka; cbn [fst snd app]; rewrite ?app_nil_r, <- ?List.app_assoc; reflexivity.
    + rewrite app_length. lia.
  - destruct BD as (PL & CK & Z & ZL & M).
    rewrite (accept_chunked c _ _ _ _ _ _ _ ka HA HP KA HO cs z rest PL); try assumption.
    + destruct ka; cbn [fst snd app]; rewrite ?app_nil_r, <- ?List.app_assoc; reflexivity.
    + rewrite <- !List.app_assoc. reflexivity.
Qed.

(* (RT) requests that keep the connection open, then EOF *)
Theorem frequests_roundtrip c rs : Forall (freq_ok c true) rs ->
  strict_reader c (concat (map render_freq rs)) = concat (map freq_events rs) ++ [EvEof].
Proof.
  induction 1 as [|r rs Hr _ IH]; [reflexivity|].
  cbn [map concat]. rewrite (strict_reader_step c), (freq_roundtrip c true r _ Hr). cbn [fst snd].
  rewrite IH, app_nil_r, <- List.app_assoc. reflexivity.
Qed.

(* (RT) ... then a request after which the server closes: whatever follows is ignored *)
Theorem frequests_roundtrip_closing c rs last junk :
  Forall (freq_ok c true) rs -> freq_ok c false last ->
  strict_reader c (concat (map render_freq rs) ++ render_freq last ++ junk) =
    concat (map freq_events rs) ++ freq_events last ++ [EvDone].
Proof.
  intros H HL. induction H as [|r rs Hr _ IH].
  - cbn [map concat app]. rewrite (strict_reader_step c), (freq_roundtrip c false last junk HL).
    reflexivity.
  - cbn [map concat]. rewrite <- List.app_assoc.
    rewrite (strict_reader_step c), (freq_roundtrip c true r _ Hr). cbn [fst snd].
    rewrite IH, app_nil_r, <- List.app_assoc. reflexivity.
Qed.

(* ---------- no_keep_alive ---------- *)
Section NoKeepAlive.
  Context {S : Type} (ops : sops S) (dl : dlg) (c : cfg).
  Hypothesis NKA : no_keep_alive c = true.

  Lemma nka_one_message st : snd (serve_msg ops dl c st) = None.
  Proof.
    unfold serve_msg. rewrite NKA. cbn [can_keep_alive].
    destruct (rd_regex ops (max_header c) st) as [hd t1| |]; try reflexivity.
    destruct (parse_head hd) as [[[[m t] v] h0]|]; [|reflexivity].
    destruct (d_headers dl h0) as [h act].
    destruct (host_check v h); [|reflexivity].
    destruct (body_plan (eff_max_body c) h) as [[|n|]|]; [| | |reflexivity].
    - reflexivity.
    - destruct (rd_body ops (chunk_pred c) n t1) as [cs o].
      destruct (d_data dl act cs) as [data dr]. unfold finish_body.
      destruct dr, o; reflexivity.
    - destruct (read_chunked ops c _ _ _ t1) as [cs bs].
      destruct (d_data dl act cs) as [data dr]. unfold finish_body.
      destruct dr, bs; reflexivity.
  Qed.

  (* with no_keep_alive the connection serves exactly one message *)
  Theorem nka_single st : serve ops dl c st = fst (serve_msg ops dl c st).
  Proof.
    unfold serve. cbn [serve_loop]. pose proof (nka_one_message st) as H.
    destruct (serve_msg ops dl c st) as [e o]. cbn [fst snd] in *. subst o. reflexivity.
  Qed.
End NoKeepAlive.

Definition count_req (evs : list ev) : nat :=
  length (filter (fun e => match e with EvReq _ _ _ _ => true | _ => false end) evs).

Lemma count_req_app a b : count_req (a ++ b) = (count_req a + count_req b)%nat.
Proof. unfold count_req. rewrite filter_app, app_length. reflexivity. Qed.
Lemma count_req_body b : count_req (body_ev b) = 0%nat.
Proof. destruct b; reflexivity. Qed.

Lemma serve_msg_one_req {S} (ops : sops S) dl c st : (count_req (fst (serve_msg ops dl c st)) <= 1)%nat.
Proof.
  unfold serve_msg.
  destruct (rd_regex ops (max_header c) st) as [hd t1| |]; try (cbn; lia).
  destruct (parse_head hd) as [[[[m t] v] h0]|]; [|cbn; lia].
  destruct (can_keep_alive _ m v h0) as [ka|]; [|cbn; lia].
  destruct (d_headers dl h0) as [h act].
  destruct (host_check v h); [|cbn; lia].
  assert (CP : forall data tl, count_req ((req_evs m t v h ++ body_ev data) ++ tl) = Datatypes.S (count_req tl))
    by (intros data tl; unfold req_evs; destruct (expects_continue h), data; reflexivity).
  assert (FB : forall data dr (bs : bstat S),
             (count_req (fst (finish_body (req_evs m t v h) data dr bs ka)) <= 1)%nat).
  { intros data dr bs. unfold finish_body.
    destruct dr; cbn [fst]; try (rewrite CP; cbn; lia);
      destruct bs; cbn [fst]; try (rewrite CP; cbn; lia);
      unfold next; destruct ka; cbn [fst]; rewrite CP; cbn; lia. }
  destruct (body_plan (eff_max_body c) h) as [[|n|]|];
    [| | |cbn [fst]; unfold req_evs; destruct (expects_continue h); cbn; lia].
  - apply FB.
  - destruct (rd_body ops (chunk_pred c) n t1) as [cs o].
    destruct (d_data dl act cs) as [data dr]. apply FB.
  - destruct (read_chunked ops c _ _ _ t1) as [cs bs].
    destruct (d_data dl act cs) as [data dr]. apply FB.
Qed.

Theorem nka_at_most_one_request c segs :
  no_keep_alive c = true -> (count_req (serve_seg c segs) <= 1)%nat.
Proof.
  intros H. unfold serve_seg. rewrite (nka_single seg_ops plain_dlg c H). apply serve_msg_one_req.
Qed.

(* ---------- Expect: 100-continue ---------- *)
(* the interim response is written only immediately after headers_received accepted a
   request, hence at most once per request and never for a rejected head *)
Fixpoint continue_ok (prev_is_req : bool) (evs : list ev) : bool :=
  match evs with
  | [] => true
  | EvContinue :: r => prev_is_req && continue_ok false r
  | EvReq _ _ _ _ :: r => continue_ok true r
  | _ :: r => continue_ok false r
  end.
Definition nocont (evs : list ev) : bool :=
  forallb (fun e => match e with EvContinue | EvReq _ _ _ _ => false | _ => true end) evs.
(* e can be followed by any well-behaved continuation *)
Definition co_seg (e : list ev) : Prop :=
  forall p rest, (forall p', continue_ok p' rest = true) -> continue_ok p (e ++ rest) = true.

Lemma co_nocont e : nocont e = true -> co_seg e.
Proof.
  induction e as [|x e IH]; intros H p rest R; [apply R|].
  cbn [nocont forallb] in H. apply andb_true_iff in H as [Hx He].
  destruct x; try discriminate; cbn [app continue_ok]; apply IH; assumption.
Qed.
Lemma co_req m t v h tl : nocont tl = true -> co_seg (req_evs m t v h ++ tl).
Proof.
  intros H p rest R. unfold req_evs. destruct (expects_continue h); cbn [app continue_ok andb];
    apply (co_nocont tl H); exact R.
Qed.
Lemma nocont_body b : nocont (body_ev b) = true.
Proof. destruct b; reflexivity. Qed.

Lemma serve_msg_co {S} (ops : sops S) dl c st : co_seg (fst (serve_msg ops dl c st)).
Proof.
  unfold serve_msg.
  destruct (rd_regex ops (max_header c) st) as [hd t1| |]; try (apply co_nocont; reflexivity).
  destruct (parse_head hd) as [[[[m t] v] h0]|]; [|apply co_nocont; reflexivity].
  destruct (can_keep_alive _ m v h0) as [ka|]; [|apply co_nocont; reflexivity].
  destruct (d_headers dl h0) as [h act].
  destruct (host_check v h); [|apply co_nocont; reflexivity].
  assert (FB : forall data dr (bs : bstat S), co_seg (fst (finish_body (req_evs m t v h) data dr bs ka))).
  { intros data dr bs. unfold finish_body.
    assert (Q : forall tl, nocont tl = true -> co_seg ((req_evs m t v h ++ body_ev data) ++ tl)).
    { intros tl Htl. rewrite <- List.app_assoc. apply co_req. unfold nocont. rewrite forallb_app.
      fold (nocont (body_ev data)). rewrite nocont_body. exact Htl. }
    destruct dr; cbn [fst]; try (apply Q; reflexivity);
      destruct bs; cbn [fst]; try (apply Q; reflexivity);
      unfold next; destruct ka; cbn [fst]; apply Q; reflexivity. }
  destruct (body_plan (eff_max_body c) h) as [[|n|]|]; [| | |cbn [fst]; apply co_req; reflexivity].
  - apply FB.
  - destruct (rd_body ops (chunk_pred c) n t1) as [cs o].
    destruct (d_data dl act cs) as [data dr]. apply FB.
  - destruct (read_chunked ops c _ _ _ t1) as [cs bs].
    destruct (d_data dl act cs) as [data dr]. apply FB.
Qed.

Lemma serve_loop_co {S} (ops : sops S) dl c fuel : forall st p, continue_ok p (serve_loop ops dl c fuel st) = true.
Proof.
  induction fuel as [|f IH]; intros st p; [reflexivity|].
  cbn [serve_loop]. pose proof (serve_msg_co ops dl c st) as M.
  destruct (serve_msg ops dl c st) as [e o]. cbn [fst] in M.
  destruct o as [s|].
  - apply M. intros p'. apply IH.
  - rewrite <- (app_nil_r e). apply M. reflexivity.
Qed.

Theorem continue_only_after_accepted_request c segs : continue_ok false (serve_seg c segs) = true.
Proof. unfold serve_seg, serve. apply serve_loop_co. Qed.

(* ---------- extra CRs before the line terminator ---------- *)
(* only one CR belongs to the terminator (`\r?\n$`): a second one stays in the line *)
Lemma strip1cr_two_cr s : strip1cr (s ++ [CR; CR]) = s ++ [CR].
Proof.
  induction s as [|x s IH]; [reflexivity|].
  cbn [app]. rewrite strip1cr_cons by (destruct s; discriminate). rewrite IH. reflexivity.
Qed.

Lemma lstrip_snoc p u z : p z = false -> exists w, lstrip p (u ++ [z]) = w ++ [z].
Proof.
  intros H. induction u as [|x u [w IH]].
  - exists []. cbn [app lstrip]. rewrite H. reflexivity.
  - cbn [app lstrip]. destruct (p x); [exists w; exact IH|exists (x :: u); reflexivity].
Qed.

Lemma field_value_ends_cr s : field_value_ok (s ++ [CR]) = false.
Proof.
  unfold field_value_ok. destruct (s ++ [CR]) as [|x r] eqn:E; [destruct s; discriminate|].
  rewrite <- E. rewrite forallb_app. cbn [forallb]. rewrite andb_false_r. reflexivity.
Qed.

(* a field line that still ends with CR after the terminator was removed is malformed *)
Lemma parse_line_trailing_cr st name u :
  token_ok name = true -> parse_line st (name ++ COLON :: u ++ [CR]) = None.
Proof.
  intros T. destruct st as [h lk]. destruct (token_ok_parts _ T) as (x & r & E & TA).
  unfold parse_line. rewrite E. cbn [app].
  assert (Tx : is_tchar x = true).
  { rewrite E in TA. cbn [forallb] in TA. apply andb_true_iff in TA as [A _]. exact A. }
  rewrite (tchar_not_hws _ Tx).
  change (x :: r ++ COLON :: u ++ [CR]) with ((x :: r) ++ COLON :: u ++ [CR]). rewrite <- E.
  rewrite split_at_app.
  2:{ unfold nochar. eapply forallb_imp; [|exact TA]. intros y Hy. apply negb_true_iff.
      apply (tchar_not y COLON Hy). reflexivity. }
  unfold strip. destruct (lstrip_snoc is_hws u CR eq_refl) as [w W]. rewrite W.
  rewrite rstrip_keep by reflexivity. rewrite field_value_ends_cr, andb_false_r. reflexivity.
Qed.

(* a line of CRs only (what is left of "\r\r\n", "\r\r\r\n", ...) is malformed, not skipped *)
Lemma parse_line_cr_only st k : parse_line st (repeat CR (Datatypes.S k)) = None.
Proof.
  destruct st as [h lk]. unfold parse_line. cbn [repeat].
  assert (N : forall j, split_at COLON (repeat CR j) = None).
  { induction j as [|j IH]; [reflexivity|]. cbn [repeat split_at]. rewrite IH. reflexivity. }
  change (CR :: repeat CR k) with (repeat CR (Datatypes.S k)). rewrite N. reflexivity.
Qed.

Lemma parse_lines_bad_line a l b : (forall st, parse_line st l = None) ->
  forall st, parse_lines st (a ++ l :: b) = None.
Proof.
  intros H st. rewrite parse_lines_app. destruct (parse_lines st a); [|reflexivity].
  cbn [parse_lines]. rewrite H. reflexivity.
Qed.

(* an instance with folds and a closing request *)
Local Open Scope string_scope.
Local Open Scope list_scope.
Definition ex_freq : freq :=
  {| q_lead := [10]%N; q_method := s2b "PUT"; q_target := s2b "/x"; q_minor := 49%N; q_eol0 := true;
     q_fields :=
       [ {| fl_line := {| hl_name := s2b "X-Long"; hl_ows := [32]%N; hl_value := s2b "abc"; hl_tws := []; hl_crlf := true |};
            fl_folds := [ {| f_ws := [32; 9]%N; f_part := s2b "def ghi"; f_tws := [32]%N; f_crlf := false |};
                          {| f_ws := [9]%N; f_part := []; f_tws := []; f_crlf := true |} ] |};
         {| fl_line := {| hl_name := s2b "Host"; hl_ows := []; hl_value := []; hl_tws := []; hl_crlf := true |};
            fl_folds := [ {| f_ws := [32]%N; f_part := s2b "h.example"; f_tws := []; f_crlf := true |} ] |};
         {| fl_line := {| hl_name := s2b "Connection"; hl_ows := [32]%N; hl_value := s2b "close"; hl_tws := []; hl_crlf := true |};
            fl_folds := [] |};
         {| fl_line := {| hl_name := s2b "Content-Length"; hl_ows := [32]%N; hl_value := s2b "2"; hl_tws := []; hl_crlf := true |};
            fl_folds := [] |} ];
     q_eolF := true; q_body := AFixed (s2b "hi") |}.

Example ex_freq_ok : freq_ok ex_cfg false ex_freq.
Proof.
  unfold freq_ok. cbn [ex_freq q_lead q_method q_target q_minor q_fields q_body].
  split; [right; right; reflexivity|]. split; [repeat split; fin_ok|].
  split; [repeat constructor; try fin_ok; discriminate|].
  split; [fin_ok|]. split; [fin_ok|]. split; [fin_ok|]. fin_ok.
Qed.

Example ex_freq_trace :
  strict_reader ex_cfg (render_freq ex_freq ++ s2b "GET / HTTP/1.1") = freq_events ex_freq ++ [EvDone] /\
  get_all (q_headers ex_freq) =
    [(s2b "X-Long", s2b "abc def ghi"); (s2b "Host", s2b "h.example"); (s2b "Connection", s2b "close");
     (s2b "Content-Length", s2b "2")].
Proof. split; vm_compute; reflexivity. Qed.
