(* C01/C04 — the shape of the source facts extracted from tornado/http1connection.py by
   translators/c01_src.py (regenerated into Gen/C01_src.v on every run), what they mean, and
   the values the model (C01/Model.v, C04/Model.v) was written against.  Definitions only. *)
From Coq Require Import String.
From Coq Require Import List NArith Bool.
Import ListNotations.

Inductive cmp := CmpGt | CmpGe | CmpLt | CmpLe | CmpEq | CmpNe.
(* [cmp_holds c a b] = the Python comparison `a <c> b` on non-negative integers *)
Definition cmp_holds (c : cmp) (a b : N) : bool :=
  match c with
  | CmpGt => (b <? a)%N | CmpGe => (b <=? a)%N | CmpLt => (a <? b)%N | CmpLe => (a <=? b)%N
  | CmpEq => (a =? b)%N | CmpNe => negb (a =? b)%N
  end.

(* HTTP1Connection.__init__: `X if X is not None else D` versus `X or D` *)
Inductive unset_kind := UnsetIsNone | UnsetFalsy.
Definition apply_unset (k : unset_kind) (configured : option N) (fallback : N) : N :=
  match configured with
  | None => fallback
  | Some n => match k with UnsetIsNone => n | UnsetFalsy => if (n =? 0)%N then fallback else n end
  end.

Record src_desc := {
  sd_digits : string;                  (* DIGITS pattern; parse_int = fullmatch + int(s) *)
  sd_hexdigits : string;               (* HEXDIGITS pattern; parse_hex_int = fullmatch + int(s, 16) *)
  sd_terminator : list N;              (* regex given to read_until_regex in _read_message (max_bytes = max_header_size) *)
  sd_chunk_delim : list N;             (* read_until delimiter of the chunk-size line *)
  sd_chunk_line_max : nat;             (* its max_bytes *)
  sd_chunk_line_strip : nat;           (* chunk_len_str[:-k] *)
  sd_chunk_terminator : list N;        (* both `crlf != ...` comparisons *)
  sd_chunk_terminator_len : nat;       (* both read_bytes(k) *)
  sd_chunk_total_cumulative : bool;    (* total_size = 0 once, then only total_size += chunk_len *)
  sd_chunk_limit_cmp : cmp;            (* total_size <cmp> self._max_body_size -> HTTPInputError *)
  sd_cl_limit_cmp : cmp;               (* content_length <cmp> self._max_body_size -> HTTPInputError *)
  sd_unset : unset_kind;               (* how max_body_size=None is recognised *)
  sd_te_cmp : cmp;                     (* headers["Transfer-Encoding"].lower() <cmp> literal *)
  sd_te_literal : string;
  sd_cl_and_te_rejected : bool;        (* `if "Content-Length" in headers: raise HTTPInputError` precedes it *)
  sd_gzip_cumulative : bool;           (* _decompressed_body_size += len(decompressed) *)
  sd_gzip_limit_cmp : cmp;             (* _decompressed_body_size <cmp> self._max_body_size -> HTTPInputError *)
  sd_default_header_size : N           (* max_header_size or <this> *)
}.

Definition src_expected : src_desc :=
  {| sd_digits := "[0-9]+"; sd_hexdigits := "[0-9a-fA-F]+";
     sd_terminator := [13; 63; 10; 13; 63; 10]%N;        (* \r?\n\r?\n *)
     sd_chunk_delim := [13; 10]%N; sd_chunk_line_max := 64; sd_chunk_line_strip := 2;
     sd_chunk_terminator := [13; 10]%N; sd_chunk_terminator_len := 2;
     sd_chunk_total_cumulative := true; sd_chunk_limit_cmp := CmpGt; sd_cl_limit_cmp := CmpGt;
     sd_unset := UnsetIsNone; sd_te_cmp := CmpEq; sd_te_literal := "chunked"; sd_cl_and_te_rejected := true;
     sd_gzip_cumulative := true; sd_gzip_limit_cmp := CmpGt; sd_default_header_size := 65536%N |}.
