(* C01 / C04 — shared model of Tornado's HTTP/1.x server-side request reader.
   Definitions only (total, computable).  Mirrors, for is_client = False:
     http1connection.py  HTTP1Connection._read_message / _parse_headers / _can_keep_alive /
                         _read_body / _read_fixed_body / _read_chunked_body,
                         parse_int / parse_hex_int / is_transfer_encoding_chunked,
                         HTTP1ServerConnection._server_request_loop
     httputil.py         _ABNF.request_line / field_name / field_value / host,
                         parse_request_start_line, HTTPHeaders.parse / parse_line / add,
                         _normalize_header, HTTPServerRequest.__init__ (Host rules),
                         split_host_and_port
     iostream.py         BaseIOStream.read_until_regex / read_until / read_bytes
                         (_find_read_pos, _check_max_bytes) over a scripted transport
   The message logic is written ONCE over an abstract stream interface [sops];
   it is instantiated with a whole-buffer stream (the strict reader = the spec)
   and with a segment-fed stream (the operational model of IOStream). *)
From Coq Require Import String Ascii.
From Coq Require Import List NArith Arith Bool.
Import ListNotations.
Local Open Scope N_scope.

Definition bytes := list N.

Definition s2b (s : string) : bytes := map N_of_ascii (list_ascii_of_string s).
Arguments s2b _%string.

Definition CR : N := 13.
Definition LF : N := 10.
Definition SP : N := 32.
Definition HT : N := 9.
Definition COLON : N := 58.
Definition COMMA : N := 44.
Definition DASH : N := 45.
Definition PCT : N := 37.

Fixpoint beqb (a b : bytes) : bool :=
  match a, b with
  | [], [] => true
  | x :: a', y :: b' => (x =? y) && beqb a' b'
  | _, _ => false
  end.

(* ---------- character classes (httputil._ABNF) ---------- *)
Definition in_range (lo hi x : N) : bool := (lo <=? x) && (x <=? hi).
Definition is_digit (x : N) := in_range 48 57 x.
Definition is_upper (x : N) := in_range 65 90 x.
Definition is_lower (x : N) := in_range 97 122 x.
Definition is_alpha (x : N) := is_upper x || is_lower x.
Definition is_hexdig (x : N) := is_digit x || in_range 65 70 x || in_range 97 102 x.
Definition mem (x : N) (l : list N) : bool := existsb (N.eqb x) l.
(* tchar = [!#$%&'*+\-.^_`|~0-9A-Za-z] *)
Definition is_tchar (x : N) :=
  is_digit x || is_alpha x || mem x [33;35;36;37;38;39;42;43;45;46;94;95;96;124;126].
(* field_vchar = VCHAR | obs-text *)
Definition is_fvchar (x : N) := in_range 33 126 x || in_range 128 255 x.
Definition is_hws (x : N) := (x =? SP) || (x =? HT).             (* HTTP_WHITESPACE *)
Definition is_crlf_char (x : N) := (x =? CR) || (x =? LF).
(* Python str "\s" restricted to code points < 256 *)
Definition is_pyspace (x : N) := in_range 9 13 x || in_range 28 32 x || (x =? 133) || (x =? 160).
Definition lower (x : N) : N := if is_upper x then x + 32 else x.
Definition upper (x : N) : N := if is_lower x then x - 32 else x.
Definition lower_s (s : bytes) : bytes := map lower s.

(* ---------- small string functions ---------- *)
Fixpoint lstrip (p : N -> bool) (s : bytes) : bytes :=
  match s with
  | [] => []
  | x :: r => if p x then lstrip p r else s
  end.
Fixpoint rstrip (p : N -> bool) (s : bytes) : bytes :=
  match s with
  | [] => []
  | x :: r =>
      match rstrip p r with
      | [] => if p x then [] else [x]
      | r' => x :: r'
      end
  end.
Definition strip (p : N -> bool) (s : bytes) : bytes := rstrip p (lstrip p s).

(* s.partition(c) without the separator: None when c does not occur *)
Fixpoint split_at (c : N) (s : bytes) : option (bytes * bytes) :=
  match s with
  | [] => None
  | x :: r =>
      if x =? c then Some ([], r)
      else match split_at c r with
           | Some (a, b) => Some (x :: a, b)
           | None => None
           end
  end.

Fixpoint join_comma (vs : list bytes) : bytes :=
  match vs with
  | [] => []
  | [v] => v
  | v :: r => v ++ COMMA :: join_comma r
  end.

Fixpoint dec_val (acc : N) (s : bytes) : N :=
  match s with [] => acc | x :: r => dec_val (acc * 10 + (x - 48)) r end.
Definition hex_digit_val (x : N) : N :=
  if is_digit x then x - 48 else if in_range 65 70 x then x - 55 else x - 87.
Fixpoint hex_val (acc : N) (s : bytes) : N :=
  match s with [] => acc | x :: r => hex_val (acc * 16 + hex_digit_val x) r end.

(* sys.int_info.default_max_str_digits: int(s) raises ValueError beyond this
   many digits (decimal only; powers of two are exempt). *)
Definition INT_MAX_STR_DIGITS : nat := 4300.

(* parse_int: DIGITS.fullmatch then int(); None = ValueError *)
Definition parse_int (s : bytes) : option N :=
  match s with
  | [] => None
  | _ => if forallb is_digit s && (length s <=? INT_MAX_STR_DIGITS)%nat
         then Some (dec_val 0 s) else None
  end.
(* parse_hex_int: HEXDIGITS.fullmatch then int(s, 16) *)
Definition parse_hex_int (s : bytes) : option N :=
  match s with
  | [] => None
  | _ => if forallb is_hexdig s then Some (hex_val 0 s) else None
  end.

(* ---------- HTTPHeaders ---------- *)
(* _as_list: normalised name -> field lines, in order of first insertion *)
Definition headers := list (bytes * list bytes).

(* _normalize_header: "-".join(w.capitalize() for w in name.split("-")) *)
Fixpoint norm_from (start : bool) (n : bytes) : bytes :=
  match n with
  | [] => []
  | x :: r =>
      if x =? DASH then x :: norm_from true r
      else (if start then upper x else lower x) :: norm_from false r
  end.
Definition norm_name (n : bytes) : bytes := norm_from true n.

Fixpoint hadd (h : headers) (k v : bytes) : headers :=
  match h with
  | [] => [(k, [v])]
  | (k', vs) :: r => if beqb k k' then (k', vs ++ [v]) :: r else (k', vs) :: hadd r k v
  end.
Fixpoint hget (h : headers) (k : bytes) : option (list bytes) :=
  match h with
  | [] => None
  | (k', vs) :: r => if beqb k k' then Some vs else hget r k
  end.
(* headers[k] : the combined value *)
Definition hcomb (h : headers) (k : bytes) : option bytes := option_map join_comma (hget h k).
Definition hmem (h : headers) (k : bytes) : bool :=
  match hget h k with Some _ => true | None => false end.
Fixpoint hdel (h : headers) (k : bytes) : headers :=
  match h with
  | [] => []
  | (k', vs) :: r => if beqb k k' then r else (k', vs) :: hdel r k
  end.
Fixpoint app_last (vs : list bytes) (extra : bytes) : list bytes :=
  match vs with
  | [] => []
  | [v] => [strip is_hws (v ++ extra)]
  | v :: r => v :: app_last r extra
  end.
(* self._as_list[k][-1] = (self._as_list[k][-1] + extra).strip(HTTP_WHITESPACE) *)
Fixpoint hfold (h : headers) (k extra : bytes) : headers :=
  match h with
  | [] => []
  | (k', vs) :: r => if beqb k k' then (k', app_last vs extra) :: r else (k', vs) :: hfold r k extra
  end.
(* get_all() *)
Definition get_all (h : headers) : list (bytes * bytes) :=
  flat_map (fun kv => map (fun v => (fst kv, v)) (snd kv)) h.

Definition token_ok (s : bytes) : bool :=
  match s with [] => false | _ => forallb is_tchar s end.
(* _ABNF.field_value.fullmatch *)
Definition field_value_ok (v : bytes) : bool :=
  match v with
  | [] => true
  | x :: _ =>
      forallb (fun c => is_fvchar c || is_hws c) v && is_fvchar x && is_fvchar (last v 0)
  end.

(* headers text -> raw lines, split at LF (LF removed); the last element is the
   unterminated remainder *)
Fixpoint lines_of (d : bytes) : list bytes :=
  match d with
  | [] => [[]]
  | x :: r =>
      match lines_of r with
      | l :: ls => if x =? LF then [] :: l :: ls else (x :: l) :: ls
      | [] => [[]]          (* unreachable: lines_of is never empty *)
      end
  end.
(* the `\r?\n$` strip of parse_line for a line that ended with LF *)
Fixpoint strip1cr (l : bytes) : bytes :=
  match l with
  | [] => []
  | [x] => if x =? CR then [] else [x]
  | x :: r => x :: strip1cr r
  end.
Fixpoint strip_terminated (ls : list bytes) : list bytes :=
  match ls with
  | [] => []
  | [l] => [l]
  | l :: r => strip1cr l :: strip_terminated r
  end.

Definition pstate := (headers * option bytes)%type.    (* (_as_list, _last_key) *)

(* HTTPHeaders.parse_line on a line whose terminator has been removed; None = HTTPInputError *)
Definition parse_line (st : pstate) (line : bytes) : option pstate :=
  let '(h, lk) := st in
  match line with
  | [] => Some st
  | x :: _ =>
      if is_hws x then
        match lk with
        | None => None
        | Some k =>
            let part := strip is_hws line in
            if field_value_ok part then Some (hfold h k (SP :: part), lk) else None
        end
      else
        match split_at COLON line with
        | None => None
        | Some (name, value) =>
            let v := strip is_hws value in
            if token_ok name && field_value_ok v
            then let k := norm_name name in Some (hadd h k v, Some k)
            else None
        end
  end.
Fixpoint parse_lines (st : pstate) (ls : list bytes) : option pstate :=
  match ls with
  | [] => Some st
  | l :: r => match parse_line st l with Some st' => parse_lines st' r | None => None end
  end.
Definition headers_parse (text : bytes) : option headers :=
  option_map fst (parse_lines ([], None) (strip_terminated (lines_of text))).

(* ---------- request line ---------- *)
(* HTTP_version fullmatch and startswith("HTTP/1"): "HTTP/1.<digit>" *)
Definition version_ok (v : bytes) : bool :=
  match v with
  | [h; t1; t2; p; sl; one; dot; d] =>
      beqb [h; t1; t2; p; sl; one; dot] (s2b "HTTP/1.") && is_digit d
  | _ => false
  end.
Definition target_ok (t : bytes) : bool :=
  match t with [] => false | _ => forallb is_fvchar t end.
Definition parse_request_line (l : bytes) : option (bytes * bytes * bytes) :=
  match split_at SP l with
  | None => None
  | Some (m, r) =>
      match split_at SP r with
      | None => None
      | Some (t, v) =>
          if token_ok m && target_ok t && version_ok v then Some (m, t, v) else None
      end
  end.

(* HTTP1Connection._parse_headers + parse_request_start_line *)
Definition split_first_lf (d : bytes) : bytes * bytes :=
  match split_at LF d with
  | Some (a, b) => (a, LF :: b)
  | None => (removelast d, match d with [] => [] | _ => [last d 0] end)  (* eol = -1 *)
  end.
Definition parse_head (data : bytes) : option (bytes * bytes * bytes * headers) :=
  let d := lstrip is_crlf_char data in
  let '(sl, rest) := split_first_lf d in
  match headers_parse rest with
  | None => None
  | Some h =>
      match parse_request_line (rstrip (N.eqb CR) sl) with
      | None => None
      | Some (m, t, v) => Some (m, t, v, h)
      end
  end.

(* ---------- framing decisions ---------- *)
Definition K_CL := s2b "Content-Length".
Definition K_TE := s2b "Transfer-Encoding".
Definition K_HOST := s2b "Host".
Definition K_CONN := s2b "Connection".
Definition K_CE := s2b "Content-Encoding".
Definition K_XCCE := s2b "X-Consumed-Content-Encoding".
Definition K_EXPECT := s2b "Expect".

(* is_transfer_encoding_chunked: None = HTTPInputError *)
Definition te_chunked (h : headers) : option bool :=
  match hcomb h K_TE with
  | None => Some false
  | Some te =>
      if hmem h K_CL then None
      else if beqb (lower_s te) (s2b "chunked") then Some true else None
  end.

(* _can_keep_alive (nka = params.no_keep_alive); None = HTTPInputError raised
   by is_transfer_encoding_chunked *)
Definition can_keep_alive (nka : bool) (m v : bytes) (h : headers) : option bool :=
  if nka then Some false else
  let conn := option_map lower_s (hcomb h K_CONN) in
  let is c := match conn with Some x => beqb x (s2b c) | None => false end in
  if beqb v (s2b "HTTP/1.1") then Some (negb (is "close"%string))
  else if hmem h K_CL then Some (is "keep-alive"%string)
  else match te_chunked h with
       | None => None
       | Some true => Some (is "keep-alive"%string)
       | Some false =>
           if beqb m (s2b "HEAD") || beqb m (s2b "GET") then Some (is "keep-alive"%string)
           else Some false
       end.

(* re.split(r",\s*", v) *)
Fixpoint split_cl (skipping : bool) (cur : bytes) (v : bytes) : list bytes :=
  match v with
  | [] => [cur]
  | x :: r =>
      if skipping && is_pyspace x then split_cl true [] r
      else if x =? COMMA then cur :: split_cl true [] r
      else split_cl false (cur ++ [x]) r
  end.

Inductive plan := PNone | PFixed (n : N) | PChunked.

(* _read_body with code = 0; None = HTTPInputError *)
Definition content_length (maxb : N) (h : headers) : option (option N) :=
  match hcomb h K_CL with
  | None => Some None
  | Some v =>
      let v1 :=
        if mem COMMA v then
          match split_cl false [] v with
          | p0 :: ps => if forallb (beqb p0) ps then Some p0 else None
          | [] => None
          end
        else Some v in
      match v1 with
      | None => None
      | Some s =>
          match parse_int s with
          | None => None
          | Some n => if maxb <? n then None else Some (Some n)
          end
      end
  end.
Definition body_plan (maxb : N) (h : headers) : option plan :=
  match content_length maxb h with
  | None => None
  | Some cl =>
      match te_chunked h with
      | None => None
      | Some true => Some PChunked
      | Some false => match cl with Some n => Some (PFixed n) | None => Some PNone end
      end
  end.

(* ---------- HTTPServerRequest.__init__: Host ---------- *)
Definition is_host_char (x : N) : bool :=
  is_alpha x || is_digit x ||
  mem x [91;93;58 (* [ ] : *); 45;46;95;126 (* - . _ ~ *);
         33;36;38;39;40;41;42;43;44;59;61 (* ! $ & ' ( ) * + , ; = *)].
(* _ABNF.host.fullmatch *)
Fixpoint host_ok (h : bytes) : bool :=
  match h with
  | [] => true
  | x :: r =>
      if x =? PCT then
        match r with
        | a :: b :: r' => is_hexdig a && is_hexdig b && host_ok r'
        | _ => false
        end
      else is_host_char x && host_ok r
  end.
(* split_host_and_port(host.lower()) cannot raise (an over-long port digit string is
   treated as "no port" since /repo commit deca566), and its result does not affect
   the observables of this property. *)
Inductive hostres := HOk | HBad.
Definition host_check (v : bytes) (h : headers) : hostres :=
  match hcomb h K_HOST with
  | None => if beqb v (s2b "HTTP/1.0") then HOk else HBad
  | Some host =>
      if negb (host_ok host) then HBad
      else if mem COMMA host then HBad
      else HOk
  end.

(* ---------- events ---------- *)
Inductive ev :=
| EvReq (m t v : bytes) (hs : list (bytes * bytes))  (* headers_received accepted *)
| EvBody (b : bytes)                                 (* data_received, concatenated per request *)
| EvContinue                                         (* "HTTP/1.1 100 (Continue)" written (Expect: 100-continue) *)
| EvFin                                              (* finish(): the application gets the request *)
| EvBad400                                           (* "HTTP/1.1 400 Bad Request" written, closed *)
| EvClosed                                           (* UnsatisfiableReadError: closed, no response *)
| EvDone                                             (* closed after a non-keep-alive exchange *)
| EvEof                                              (* peer EOF (StreamClosedError) *)
| EvUncaught                                         (* "Uncaught exception" logged, closed *)
| EvOutOfFuel.

Definition is_terminal (e : ev) : bool :=
  match e with EvReq _ _ _ _ | EvBody _ | EvFin | EvContinue => false | _ => true end.

(* ---------- the stream interface ---------- *)
Inductive rres (S : Type) :=
| RData (d : bytes) (s : S)
| RUnsat                      (* UnsatisfiableReadError -> stream closed *)
| REof.                       (* StreamClosedError *)
Arguments RData {S}. Arguments RUnsat {S}. Arguments REof {S}.

Record sops (S : Type) := {
  rd_regex : nat -> S -> rres S;          (* read_until_regex(b"\r?\n\r?\n", max_bytes) *)
  rd_until : nat -> S -> rres S;          (* read_until(b"\r\n", max_bytes) *)
  rd_exact : nat -> S -> rres S;          (* read_bytes(n) *)
  (* repeated read_bytes(min(remaining, chunk_size), partial=True) until n bytes
     were returned or EOF: the pieces, and the stream afterwards (None = EOF) *)
  rd_body : nat -> N -> S -> list bytes * option S;
  remaining : S -> nat
}.
Arguments rd_regex {S}. Arguments rd_until {S}. Arguments rd_exact {S}.
Arguments rd_body {S}. Arguments remaining {S}.

(* ---------- the message delegate between the connection and the application ---------- *)
(* outcome of the delegate on the body pieces: DFinishBad = the data was accepted but the
   delegate's finish() raises HTTPInputError (e.g. truncated gzip body, /repo 4172fcb) *)
Inductive dres := DOk | DBad | DUncaught | DFinishBad.
Record dlg := {
  d_headers : headers -> headers * bool;             (* header rewrite, "decoder active" *)
  d_data : bool -> list bytes -> bytes * dres        (* pieces in -> bytes handed on, outcome *)
}.
Definition plain_dlg : dlg :=
  {| d_headers := fun h => (h, false); d_data := fun _ cs => (concat cs, DOk) |}.

Record cfg := {
  max_header : nat;              (* max_header_size *)
  max_body : N;                  (* max_body_size *)
  body_override : option N;      (* set_max_body_size called by the application in headers_received *)
  chunk_pred : nat;              (* chunk_size - 1 *)
  no_keep_alive : bool           (* HTTPServer(no_keep_alive=...) *)
}.
Definition eff_max_body (c : cfg) : N :=
  match body_override c with Some n => n | None => max_body c end.

Inductive bstat (S : Type) :=
| BDone (s : S) | BEofS | BBadS | BUnsatS | BFuel.
Arguments BDone {S}. Arguments BEofS {S}. Arguments BBadS {S}. Arguments BUnsatS {S}. Arguments BFuel {S}.

Definition CRLF : bytes := [CR; LF].

(* _read_message: `if headers.get("Expect") == "100-continue" and not self._write_finished` *)
Definition expects_continue (h : headers) : bool :=
  match hcomb h K_EXPECT with Some v => beqb v (s2b "100-continue") | None => false end.
(* what a request whose head was accepted contributes first: headers_received, then the
   interim response if it was asked for *)
Definition req_evs (m t v : bytes) (h : headers) : list ev :=
  EvReq m t v (get_all h) :: (if expects_continue h then [EvContinue] else []).

Section Generic.
  Context {S : Type} (ops : sops S) (dl : dlg) (c : cfg).

  (* _read_chunked_body *)
  Fixpoint read_chunked (fuel : nat) (maxb total : N) (st : S) : list bytes * bstat S :=
    match fuel with
    | O => ([], BFuel)
    | Datatypes.S f =>
        match rd_until ops 64 st with
        | RUnsat => ([], BUnsatS)
        | REof => ([], BEofS)
        | RData line st1 =>
            match parse_hex_int (firstn (length line - 2) line) with
            | None => ([], BBadS)
            | Some len =>
                if len =? 0 then
                  match rd_exact ops 2 st1 with
                  | RData t st2 => if beqb t CRLF then ([], BDone st2) else ([], BBadS)
                  | RUnsat => ([], BUnsatS)
                  | REof => ([], BEofS)
                  end
                else
                  let total' := total + len in
                  if maxb <? total' then ([], BBadS)
                  else
                    let '(cs, o) := rd_body ops (chunk_pred c) len st1 in
                    match o with
                    | None => (cs, BEofS)
                    | Some st2 =>
                        match rd_exact ops 2 st2 with
                        | RData t st3 =>
                            if beqb t CRLF then
                              let '(cs2, r) := read_chunked f maxb total' st3 in (cs ++ cs2, r)
                            else (cs, BBadS)
                        | RUnsat => (cs, BUnsatS)
                        | REof => (cs, BEofS)
                        end
                    end
            end
        end
    end.

  Definition body_ev (b : bytes) : list ev := match b with [] => [] | _ => [EvBody b] end.

  Definition next (ka : bool) (s : S) : list ev * option S :=
    if ka then ([], Some s) else ([EvDone], None).

  Definition finish_body (pre0 : list ev) (data : bytes) (dr : dres) (bs : bstat S) (ka : bool)
    : list ev * option S :=
    let pre := pre0 ++ body_ev data in
    match dr with
    | DBad => (pre ++ [EvBad400], None)
    | DUncaught => (pre ++ [EvUncaught], None)
    | _ =>
        match bs with
        | BDone s =>
            match dr with
            | DFinishBad => (pre ++ [EvBad400], None)
            | _ => let '(e, o) := next ka s in (pre ++ EvFin :: e, o)
            end
        | BEofS => (pre ++ [EvEof], None)
        | BBadS => (pre ++ [EvBad400], None)
        | BUnsatS => (pre ++ [EvClosed], None)
        | BFuel => (pre ++ [EvOutOfFuel], None)
        end
    end.

  (* one iteration of _server_request_loop: HTTP1Connection._read_message *)
  Definition serve_msg (st : S) : list ev * option S :=
    match rd_regex ops (max_header c) st with
    | RUnsat => ([EvClosed], None)
    | REof => ([EvEof], None)
    | RData hd st1 =>
        match parse_head hd with
        | None => ([EvBad400], None)
        | Some (m, t, v, h0) =>
            match can_keep_alive (no_keep_alive c) m v h0 with
            | None => ([EvBad400], None)
            | Some ka =>
                let '(h, act) := d_headers dl h0 in
                match host_check v h with
                | HBad => ([EvBad400], None)
                | HOk =>
                    let req := req_evs m t v h in
                    let maxb := eff_max_body c in
                    match body_plan maxb h with
                    | None => (req ++ [EvBad400], None)
                    | Some PNone => finish_body req [] DOk (BDone st1) ka
                    | Some (PFixed n) =>
                        let '(cs, o) := rd_body ops (chunk_pred c) n st1 in
                        let '(data, dr) := d_data dl act cs in
                        finish_body req data dr
                          (match o with Some s => BDone s | None => BEofS end) ka
                    | Some PChunked =>
                        let '(cs, bs) := read_chunked (Datatypes.S (remaining ops st1)) maxb 0 st1 in
                        let '(data, dr) := d_data dl act cs in
                        finish_body req data dr bs ka
                    end
                end
            end
        end
    end.

  Fixpoint serve_loop (fuel : nat) (st : S) : list ev :=
    match fuel with
    | O => [EvOutOfFuel]
    | Datatypes.S f =>
        let '(e, o) := serve_msg st in
        match o with
        | None => e
        | Some st' => e ++ serve_loop f st'
        end
    end.

  Definition serve (st : S) : list ev := serve_loop (Datatypes.S (remaining ops st)) st.
End Generic.

(* ---------- delimiter searches (replace the regex / bytearray.find) ---------- *)
Inductive cl := cC | cL | cO.
Definition cls (x : N) : cl := if x =? CR then cC else if x =? LF then cL else cO.

(* after the first LF of a terminator: length of `\r?\n` at the head *)
Definition tail_len (b : list cl) : option nat :=
  match b with
  | cL :: _ => Some 1%nat
  | cC :: cL :: _ => Some 2%nat
  | _ => None
  end.
(* length of a match of \r?\n\r?\n anchored at the head *)
Definition term_len (b : list cl) : option nat :=
  match b with
  | cL :: r => option_map Datatypes.S (tail_len r)
  | cC :: cL :: r => option_map (fun k => Datatypes.S (Datatypes.S k)) (tail_len r)
  | _ => None
  end.
(* re.search(b"\r?\n\r?\n"): end offset of the leftmost match *)
Fixpoint find_term_c (b : list cl) : option nat :=
  match term_len b with
  | Some k => Some k
  | None => match b with [] => None | _ :: b' => option_map Datatypes.S (find_term_c b') end
  end.
Definition find_term (b : bytes) : option nat := find_term_c (map cls b).

(* bytearray.find(b"\r\n") + 2 *)
Definition crlf_at (b : list cl) : bool :=
  match b with cC :: cL :: _ => true | _ => false end.
Fixpoint find_crlf_c (b : list cl) : option nat :=
  match b with
  | [] => None
  | _ :: r => if crlf_at b then Some 2%nat else option_map Datatypes.S (find_crlf_c r)
  end.
Definition find_crlf (b : bytes) : option nat := find_crlf_c (map cls b).

(* _find_read_pos for a delimited read on the current buffer:
   Some (Some e) = satisfied at e, Some None = UnsatisfiableReadError, None = need more *)
Definition delim_pos (find : bytes -> option nat) (max : nat) (buf : bytes) : option (option nat) :=
  match find buf with
  | Some e => if (e <=? max)%nat then Some (Some e) else Some None
  | None => if (max <? length buf)%nat then Some None else None
  end.

(* consecutive partial reads of at most cs+1 bytes from one buffer load *)
Fixpoint split_by (fuel cs : nat) (d : bytes) : list bytes :=
  match fuel with
  | O => []
  | Datatypes.S f =>
      match d with
      | [] => []
      | _ => firstn (Datatypes.S cs) d :: split_by f cs (skipn (Datatypes.S cs) d)
      end
  end.

(* ---------- instance 1: the whole byte string is available, then EOF ---------- *)
Definition w_delim (find : bytes -> option nat) (max : nat) (b : bytes) : rres bytes :=
  match delim_pos find max b with
  | Some (Some e) => RData (firstn e b) (skipn e b)
  | Some None => RUnsat
  | None => REof
  end.
Definition w_exact (n : nat) (b : bytes) : rres bytes :=
  if (n <=? length b)%nat then RData (firstn n b) (skipn n b) else REof.
Definition w_body (cs : nat) (n : N) (b : bytes) : list bytes * option bytes :=
  if n <=? N.of_nat (length b) then
    let k := N.to_nat n in (split_by k cs (firstn k b), Some (skipn k b))
  else (split_by (length b) cs b, None).
Definition whole_ops : sops bytes :=
  {| rd_regex := w_delim find_term; rd_until := w_delim find_crlf; rd_exact := w_exact;
     rd_body := w_body; remaining := @length N |}.

(* ---------- instance 2: IOStream fed one TCP segment at a time, then EOF ---------- *)
Definition sstream := (bytes * list bytes)%type.       (* (_read_buffer, segments still to arrive) *)
Definition flat (s : sstream) : bytes := fst s ++ concat (snd s).

Fixpoint s_delim (find : bytes -> option nat) (max : nat) (buf : bytes) (segs : list bytes)
  : rres sstream :=
  match delim_pos find max buf with
  | Some (Some e) => RData (firstn e buf) (skipn e buf, segs)
  | Some None => RUnsat
  | None =>
      match segs with
      | [] => REof
      | s :: segs' => s_delim find max (buf ++ s) segs'
      end
  end.
Fixpoint s_exact (n : nat) (buf : bytes) (segs : list bytes) : rres sstream :=
  if (n <=? length buf)%nat then RData (firstn n buf) (skipn n buf, segs)
  else match segs with
       | [] => REof
       | s :: segs' => s_exact n (buf ++ s) segs'
       end.
Fixpoint s_body (cs : nat) (n : N) (buf : bytes) (segs : list bytes)
  : list bytes * option sstream :=
  let l := N.of_nat (length buf) in
  if n <=? l then
    let k := N.to_nat n in (split_by k cs (firstn k buf), Some (skipn k buf, segs))
  else
    match segs with
    | [] => (split_by (length buf) cs buf, None)
    | s :: segs' =>
        let '(p, o) := s_body cs (n - l) s segs' in (split_by (length buf) cs buf ++ p, o)
    end.
Definition seg_ops : sops sstream :=
  {| rd_regex := fun max s => s_delim find_term max (fst s) (snd s);
     rd_until := fun max s => s_delim find_crlf max (fst s) (snd s);
     rd_exact := fun n s => s_exact n (fst s) (snd s);
     rd_body := fun cs n s => s_body cs n (fst s) (snd s);
     remaining := fun s => length (flat s) |}.

(* ---------- the two readers ---------- *)
(* the strict reader (specification): a pure function of the byte string *)
Definition strict_reader (c : cfg) (b : bytes) : list ev := serve whole_ops plain_dlg c b.
(* the server fed segment by segment (operational model) *)
Definition serve_seg (c : cfg) (segs : list bytes) : list ev := serve seg_ops plain_dlg c ([], segs).
