(* C01 — rejection lemmas, one per clause of the statement, and their reading on
   traces: events of the earlier requests, then exactly one Bad400 (or close). *)
From Coq Require Import String.
From Coq Require Import List NArith Arith Bool Lia.
Import ListNotations.
From TV Require Import C01.Model C01.Proofs1 C01.Proofs2 C01.Proofs3.

Lemma beqb_eq a b : beqb a b = true <-> a = b.
Proof.
  revert b; induction a as [|x a IH]; intros [|y b]; simpl; split; intros H;
    try discriminate; auto.
  - apply andb_true_iff in H as [H1 H2]. apply N.eqb_eq in H1. apply IH in H2. congruence.
  - inversion H; subst. rewrite N.eqb_refl. simpl. apply IH. reflexivity.
Qed.
Lemma beqb_refl a : beqb a a = true.
Proof. apply beqb_eq. reflexivity. Qed.
Lemma beqb_neq a b : a <> b -> beqb a b = false.
Proof. intros H. destruct (beqb a b) eqn:E; auto. apply beqb_eq in E. contradiction. Qed.

(* ---------- reading complete messages ---------- *)
(* [reads c b pre b']: from b the strict reader consumes whole messages, emitting pre,
   and is ready to read the next message at b' (connection still open). *)
Inductive reads (c : cfg) : bytes -> list ev -> bytes -> Prop :=
| reads_nil b : reads c b [] b
| reads_step b e b1 pre b2 :
    serve_msg whole_ops plain_dlg c b = (e, Some b1) ->
    reads c b1 pre b2 -> reads c b (e ++ pre) b2.

Lemma reads_strict c b pre b' : reads c b pre b' ->
  strict_reader c b = pre ++ strict_reader c b'.
Proof.
  induction 1 as [|b e b1 pre b2 H _ IH]; [reflexivity|].
  rewrite (strict_reader_step c b), H. cbn [fst snd]. rewrite IH, app_assoc. reflexivity.
Qed.

Lemma stops_strict c b e : serve_msg whole_ops plain_dlg c b = (e, None) -> strict_reader c b = e.
Proof. intros H. rewrite (strict_reader_step c b), H. reflexivity. Qed.

(* the header block of the next message is complete, within the limit, and parses *)
Definition head_at (c : cfg) (b hd rest : bytes) : Prop :=
  w_delim find_term (max_header c) b = RData hd rest.

Ltac open_msg H :=
  unfold serve_msg; cbn [rd_regex whole_ops]; unfold head_at in H; rewrite H.

(* malformed request line, malformed header line, invalid header name/value, folding
   without a previous header: the block does not parse *)
Theorem reject_unparsable_head c b hd rest :
  head_at c b hd rest -> parse_head hd = None ->
  serve_msg whole_ops plain_dlg c b = ([EvBad400], None).
Proof. intros H P. open_msg H. rewrite P. reflexivity. Qed.

Theorem reject_keepalive_te c b hd rest m t v h :
  head_at c b hd rest -> parse_head hd = Some (m, t, v, h) ->
  can_keep_alive (no_keep_alive c) m v h = None ->
  serve_msg whole_ops plain_dlg c b = ([EvBad400], None).
Proof. intros H P K. open_msg H. rewrite P, K. reflexivity. Qed.

Theorem reject_bad_host c b hd rest m t v h :
  head_at c b hd rest -> parse_head hd = Some (m, t, v, h) ->
  host_check v h = HBad ->
  serve_msg whole_ops plain_dlg c b = ([EvBad400], None).
Proof.
  intros H P K. open_msg H. rewrite P.
  destruct (can_keep_alive (no_keep_alive c) m v h); [|reflexivity]. cbn [d_headers plain_dlg]. rewrite K. reflexivity.
Qed.

Theorem reject_bad_framing c b hd rest m t v h :
  head_at c b hd rest -> parse_head hd = Some (m, t, v, h) ->
  body_plan (eff_max_body c) h = None ->
  exists pre, serve_msg whole_ops plain_dlg c b = (pre ++ [EvBad400], None) /\
              (pre = [] \/ pre = req_evs m t v h).
Proof.
  intros H P K. open_msg H. rewrite P.
  destruct (can_keep_alive (no_keep_alive c) m v h); [|exists []; auto]. cbn [d_headers plain_dlg].
  destruct (host_check v h); [|exists []; auto]. rewrite K.
  exists (req_evs m t v h). auto.
Qed.

(* ---------- clause: request line ---------- *)
Lemma parse_head_bad_line data :
  parse_request_line
    (rstrip (N.eqb CR) (fst (split_first_lf (lstrip is_crlf_char data)))) = None ->
  parse_head data = None.
Proof.
  intros H. unfold parse_head.
  destruct (split_first_lf (lstrip is_crlf_char data)) as [sl rest]. cbn [fst] in H.
  destruct (headers_parse rest); [|reflexivity]. rewrite H. reflexivity.
Qed.

(* ---------- clause: Host ---------- *)
Lemma host_missing v h : hcomb h K_HOST = None -> v <> s2b "HTTP/1.0" -> host_check v h = HBad.
Proof. intros H V. unfold host_check. rewrite H, (beqb_neq _ _ V). reflexivity. Qed.
Lemma host_invalid v h host : hcomb h K_HOST = Some host -> host_ok host = false -> host_check v h = HBad.
Proof. intros H V. unfold host_check. rewrite H, V. reflexivity. Qed.
Lemma host_comma v h host : hcomb h K_HOST = Some host -> mem COMMA host = true -> host_check v h = HBad.
Proof.
  intros H V. unfold host_check. rewrite H, V. destruct (host_ok host); reflexivity.
Qed.

Lemma mem_cons x y l : mem x (y :: l) = (x =? y)%N || mem x l.
Proof. reflexivity. Qed.
Lemma mem_app x a b : mem x (a ++ b) = mem x a || mem x b.
Proof. unfold mem. apply existsb_app. Qed.
Lemma join_comma_two_mem a b r : mem COMMA (join_comma (a :: b :: r)) = true.
Proof.
  change (join_comma (a :: b :: r)) with (a ++ COMMA :: join_comma (b :: r)).
  rewrite mem_app, mem_cons, N.eqb_refl. cbn [orb]. apply orb_true_r.
Qed.
(* several Host field lines: the combined value has a comma *)
Lemma host_multiple v h a b r : hget h K_HOST = Some (a :: b :: r) -> host_check v h = HBad.
Proof.
  intros H. apply (host_comma v h (join_comma (a :: b :: r))).
  - unfold hcomb. rewrite H. reflexivity.
  - apply join_comma_two_mem.
Qed.

(* ---------- clause: Content-Length / Transfer-Encoding ---------- *)
Lemma plan_cl_and_te maxb h : hmem h K_CL = true -> hmem h K_TE = true -> body_plan maxb h = None.
Proof.
  intros A B. unfold body_plan.
  assert (T : te_chunked h = None).
  { unfold te_chunked, hcomb. unfold hmem in B. destruct (hget h K_TE); [|discriminate].
    simpl. rewrite A. reflexivity. }
  rewrite T. destruct (content_length maxb h) as [[?|]|]; reflexivity.
Qed.

Lemma plan_te_not_chunked maxb h te :
  hcomb h K_TE = Some te -> lower_s te <> s2b "chunked" -> body_plan maxb h = None.
Proof.
  intros A B. unfold body_plan.
  assert (T : te_chunked h = None).
  { unfold te_chunked. rewrite A. destruct (hmem h K_CL); [reflexivity|].
    rewrite (beqb_neq _ _ B). reflexivity. }
  rewrite T. destruct (content_length maxb h) as [[?|]|]; reflexivity.
Qed.

Lemma parse_int_nondigit s : forallb is_digit s = false -> parse_int s = None.
Proof. intros H. unfold parse_int. destruct s; [reflexivity|]. rewrite H. reflexivity. Qed.

Lemma plan_cl_not_integer maxb h v :
  hcomb h K_CL = Some v -> mem COMMA v = false -> parse_int v = None -> body_plan maxb h = None.
Proof. intros A B C. unfold body_plan, content_length. rewrite A, B, C. reflexivity. Qed.

Lemma plan_cl_too_large maxb h v n :
  hcomb h K_CL = Some v -> mem COMMA v = false -> parse_int v = Some n -> (maxb < n)%N ->
  body_plan maxb h = None.
Proof.
  intros A B C D. unfold body_plan, content_length. rewrite A, B, C.
  apply N.ltb_lt in D. rewrite D. reflexivity.
Qed.

Lemma split_cl_nocomma v : forall cur, mem COMMA v = false -> split_cl false cur v = [cur ++ v].
Proof.
  induction v as [|x v IH]; intros cur H; cbn [split_cl andb].
  - rewrite app_nil_r. reflexivity.
  - rewrite mem_cons in H. apply orb_false_iff in H as [H1 H2].
    rewrite N.eqb_sym in H1. rewrite H1. rewrite IH by exact H2.
    rewrite <- app_assoc. reflexivity.
Qed.

Lemma split_cl_two v1 v2 x :
  mem COMMA v1 = false -> mem COMMA (x :: v2) = false -> is_pyspace x = false ->
  split_cl false [] (v1 ++ COMMA :: x :: v2) = [v1; x :: v2].
Proof.
  intros A B C.
  assert (G : forall cur, split_cl false cur (v1 ++ COMMA :: x :: v2) = [cur ++ v1; x :: v2]).
  { induction v1 as [|y v1 IH]; intros cur.
    - cbn [app split_cl andb]. rewrite app_nil_r. rewrite N.eqb_refl.
      cbn [split_cl andb]. rewrite C.
      rewrite mem_cons in B. apply orb_false_iff in B as [B1 B2].
      rewrite N.eqb_sym in B1. rewrite B1.
      rewrite (split_cl_nocomma v2 [x] B2). reflexivity.
    - rewrite mem_cons in A. apply orb_false_iff in A as [A1 A2].
      cbn [app split_cl andb]. rewrite N.eqb_sym in A1. rewrite A1. rewrite IH by exact A2.
      rewrite <- app_assoc. reflexivity. }
  apply G.
Qed.

(* two Content-Length field lines with different values *)
Lemma plan_cl_unequal maxb h v1 v2 x :
  hget h K_CL = Some [v1; x :: v2] ->
  mem COMMA v1 = false -> mem COMMA (x :: v2) = false -> is_pyspace x = false ->
  v1 <> x :: v2 -> body_plan maxb h = None.
Proof.
  intros A B C D E. unfold body_plan, content_length, hcomb. rewrite A.
  change (option_map join_comma (Some [v1; x :: v2])) with (Some (v1 ++ COMMA :: x :: v2)).
  cbv beta iota.
  assert (M : mem COMMA (v1 ++ COMMA :: x :: v2) = true).
  { rewrite mem_app, mem_cons, N.eqb_refl. cbn [orb]. apply orb_true_r. }
  rewrite M, (split_cl_two v1 v2 x B C D). cbn [forallb]. rewrite (beqb_neq _ _ E). reflexivity.
Qed.

(* ---------- clause: chunk size line / chunk terminator ---------- *)
Section Chunk.
  Variable c : cfg.

  Lemma chunk_bad_size fuel maxb total b line rest :
    w_delim find_crlf 64 b = RData line rest ->
    parse_hex_int (firstn (length line - 2) line) = None ->
    read_chunked whole_ops c (S fuel) maxb total b = ([], BBadS).
  Proof. intros A B. cbn [read_chunked rd_until whole_ops]. rewrite A, B. reflexivity. Qed.

  (* no CRLF within 64 bytes: the stream is closed without a response *)
  Lemma chunk_size_line_too_long fuel maxb total b :
    w_delim find_crlf 64 b = RUnsat ->
    read_chunked whole_ops c (S fuel) maxb total b = ([], BUnsatS).
  Proof. intros A. cbn [read_chunked rd_until whole_ops]. rewrite A. reflexivity. Qed.

  Lemma chunk_too_large fuel maxb total b line rest len :
    w_delim find_crlf 64 b = RData line rest ->
    parse_hex_int (firstn (length line - 2) line) = Some len -> len <> 0%N ->
    (maxb < total + len)%N ->
    read_chunked whole_ops c (S fuel) maxb total b = ([], BBadS).
  Proof.
    intros A B C D. cbn [read_chunked rd_until whole_ops]. rewrite A, B.
    apply N.eqb_neq in C. rewrite C. apply N.ltb_lt in D. rewrite D. reflexivity.
  Qed.

  (* chunk data not followed by CRLF *)
  Lemma chunk_bad_terminator fuel maxb total b line rest len t rest2 :
    w_delim find_crlf 64 b = RData line rest ->
    parse_hex_int (firstn (length line - 2) line) = Some len -> len <> 0%N ->
    (total + len <= maxb)%N -> (len <= N.of_nat (length rest))%N ->
    w_exact 2 (skipn (N.to_nat len) rest) = RData t rest2 -> t <> CRLF ->
    read_chunked whole_ops c (S fuel) maxb total b =
      (split_by (N.to_nat len) (chunk_pred c) (firstn (N.to_nat len) rest), BBadS).
  Proof.
    intros A B C D E F G. cbn [read_chunked rd_until rd_body rd_exact whole_ops]. rewrite A, B.
    apply N.eqb_neq in C. rewrite C.
    replace (maxb <? total + len)%N with false by (symmetry; apply N.ltb_ge; exact D).
    unfold w_body. apply N.leb_le in E. rewrite E. rewrite F.
    rewrite (beqb_neq _ _ G). reflexivity.
  Qed.

  (* last chunk not followed by CRLF (e.g. a trailer section) *)
  Lemma chunk_bad_last fuel maxb total b line rest t rest2 :
    w_delim find_crlf 64 b = RData line rest ->
    parse_hex_int (firstn (length line - 2) line) = Some 0%N ->
    w_exact 2 rest = RData t rest2 -> t <> CRLF ->
    read_chunked whole_ops c (S fuel) maxb total b = ([], BBadS).
  Proof.
    intros A B F G. cbn [read_chunked rd_until rd_exact whole_ops]. rewrite A, B.
    simpl. rewrite F, (beqb_neq _ _ G). reflexivity.
  Qed.

  (* one well-formed chunk, then whatever the decoder does on the rest *)
  Lemma chunk_good fuel maxb total b line rest len rest2 :
    w_delim find_crlf 64 b = RData line rest ->
    parse_hex_int (firstn (length line - 2) line) = Some len -> len <> 0%N ->
    (total + len <= maxb)%N -> (len <= N.of_nat (length rest))%N ->
    w_exact 2 (skipn (N.to_nat len) rest) = RData CRLF rest2 ->
    read_chunked whole_ops c (S fuel) maxb total b =
      (split_by (N.to_nat len) (chunk_pred c) (firstn (N.to_nat len) rest)
         ++ fst (read_chunked whole_ops c fuel maxb (total + len) rest2),
       snd (read_chunked whole_ops c fuel maxb (total + len) rest2)).
  Proof.
    intros A B C D E F. cbn [read_chunked rd_until rd_body rd_exact whole_ops]. rewrite A, B.
    apply N.eqb_neq in C. rewrite C.
    replace (maxb <? total + len)%N with false by (symmetry; apply N.ltb_ge; exact D).
    unfold w_body. apply N.leb_le in E. rewrite E. rewrite F.
    rewrite beqb_refl.
    destruct (read_chunked whole_ops c fuel maxb (total + len) rest2). reflexivity.
  Qed.
End Chunk.

(* a message whose chunked body is rejected: request, the data delivered so far, 400 *)
Theorem reject_bad_chunk c b hd rest m t v h ka cs :
  head_at c b hd rest -> parse_head hd = Some (m, t, v, h) ->
  can_keep_alive (no_keep_alive c) m v h = Some ka -> host_check v h = HOk ->
  body_plan (eff_max_body c) h = Some PChunked ->
  read_chunked whole_ops c (S (length rest)) (eff_max_body c) 0 rest = (cs, BBadS) ->
  serve_msg whole_ops plain_dlg c b =
    ((req_evs m t v h ++ body_ev (concat cs)) ++ [EvBad400], None).
Proof.
  intros H P K Ho Pl RC. open_msg H. rewrite P, K. cbn [d_headers plain_dlg]. rewrite Ho, Pl.
  cbn [remaining whole_ops]. rewrite RC. reflexivity.
Qed.

Theorem close_on_long_chunk_line c b hd rest m t v h ka cs :
  head_at c b hd rest -> parse_head hd = Some (m, t, v, h) ->
  can_keep_alive (no_keep_alive c) m v h = Some ka -> host_check v h = HOk ->
  body_plan (eff_max_body c) h = Some PChunked ->
  read_chunked whole_ops c (S (length rest)) (eff_max_body c) 0 rest = (cs, BUnsatS) ->
  serve_msg whole_ops plain_dlg c b =
    ((req_evs m t v h ++ body_ev (concat cs)) ++ [EvClosed], None).
Proof.
  intros H P K Ho Pl RC. open_msg H. rewrite P, K. cbn [d_headers plain_dlg]. rewrite Ho, Pl.
  cbn [remaining whole_ops]. rewrite RC. reflexivity.
Qed.

(* header block larger than max_header_size: closed, nothing delivered *)
Theorem close_on_large_header c b :
  w_delim find_term (max_header c) b = RUnsat ->
  serve_msg whole_ops plain_dlg c b = ([EvClosed], None).
Proof. intros H. unfold serve_msg. cbn [rd_regex whole_ops]. rewrite H. reflexivity. Qed.

(* ---------- trace-level reading ---------- *)
(* after any number of complete earlier requests, a rejected message ends the trace *)
Theorem rejected_message_ends_trace c b0 pre b e :
  reads c b0 pre b -> serve_msg whole_ops plain_dlg c b = (e, None) ->
  strict_reader c b0 = pre ++ e.
Proof. intros R S. rewrite (reads_strict _ _ _ _ R), (stops_strict _ _ _ S). reflexivity. Qed.
