(* C01 — stream layer: prefix-stability of the delimiter searches and the
   simulation between the segment-fed stream and the whole-buffer stream. *)
From Coq Require Import List NArith Arith Bool Lia.
Import ListNotations.
From TV Require Import C01.Model.

(* ---------- anchored matches ---------- *)
Lemma tail_len_app a x k : tail_len a = Some k -> tail_len (a ++ x) = Some k.
Proof.
  destruct a as [|c1 a]; [discriminate|].
  destruct c1; simpl; auto; try discriminate.
  destruct a as [|c2 a]; [discriminate|]. destruct c2; simpl; auto; discriminate.
Qed.

Lemma tail_len_range a k : tail_len a = Some k -> (1 <= k <= 2 /\ k <= length a)%nat.
Proof.
  destruct a as [|c1 a]; [discriminate|].
  destruct c1; simpl; try discriminate.
  - destruct a as [|c2 a]; [discriminate|]. destruct c2; simpl; try discriminate.
    intros H; inversion H; simpl; lia.
  - intros H; inversion H; simpl; lia.
Qed.

Lemma tail_len_app_inv a x k :
  tail_len (a ++ x) = Some k -> (k <= length a)%nat -> tail_len a = Some k.
Proof.
  intros H Hk.
  destruct a as [|c1 a].
  - simpl in *. apply tail_len_range in H. lia.
  - destruct c1; simpl in *; auto; try discriminate.
    destruct a as [|c2 a].
    + simpl in *. destruct x as [|x1 x]; [discriminate|]. destruct x1; try discriminate.
      inversion H; subst. simpl in Hk. lia.
    + destruct c2; simpl in *; auto; discriminate.
Qed.

Lemma term_len_app a x k : term_len a = Some k -> term_len (a ++ x) = Some k.
Proof.
  destruct a as [|c1 a]; [discriminate|].
  destruct c1; simpl; try discriminate.
  - destruct a as [|c2 a]; [discriminate|]. destruct c2; simpl; try discriminate.
    destruct (tail_len a) eqn:E; simpl; [|discriminate].
    intros H. rewrite (tail_len_app _ x _ E). exact H.
  - destruct (tail_len a) eqn:E; simpl; [|discriminate].
    intros H. rewrite (tail_len_app _ x _ E). exact H.
Qed.

Lemma term_len_range a k : term_len a = Some k -> (2 <= k <= 4 /\ k <= length a)%nat.
Proof.
  destruct a as [|c1 a]; [discriminate|].
  destruct c1; simpl; try discriminate.
  - destruct a as [|c2 a]; [discriminate|]. destruct c2; simpl; try discriminate.
    destruct (tail_len a) eqn:E; simpl; [|discriminate].
    apply tail_len_range in E. intros H; inversion H; simpl; lia.
  - destruct (tail_len a) eqn:E; simpl; [|discriminate].
    apply tail_len_range in E. intros H; inversion H; simpl; lia.
Qed.

Lemma term_len_app_inv a x k :
  term_len (a ++ x) = Some k -> (k <= length a)%nat -> term_len a = Some k.
Proof.
  intros H Hk.
  destruct a as [|c1 a].
  - apply term_len_range in H. simpl in Hk. lia.
  - destruct c1; simpl in *; try discriminate.
    + destruct a as [|c2 a].
      * simpl in *. destruct x as [|x1 x]; [discriminate|]. destruct x1; try discriminate.
        destruct (tail_len x) eqn:E; simpl in H; [|discriminate].
        inversion H; subst. lia.
      * destruct c2; simpl in *; try discriminate.
        destruct (tail_len (a ++ x)) eqn:E; simpl in H; [|discriminate].
        inversion H; subst.
        rewrite (tail_len_app_inv a x n E); [reflexivity|lia].
    + destruct (tail_len (a ++ x)) eqn:E; simpl in H; [|discriminate].
      inversion H; subst.
      rewrite (tail_len_app_inv a x n E); [reflexivity|lia].
Qed.

(* ---------- the leftmost match ---------- *)
Lemma find_term_c_range a e : find_term_c a = Some e -> (2 <= e <= length a)%nat.
Proof.
  revert e; induction a as [|c a IH]; intros e H.
  - simpl in H. discriminate.
  - cbn [find_term_c] in H. destruct (term_len (c :: a)) eqn:E.
    + inversion H; subst. apply term_len_range in E. lia.
    + destruct (find_term_c a) eqn:F; simpl in H; [|discriminate].
      inversion H; subst. specialize (IH _ eq_refl). simpl. lia.
Qed.

(* a match that needs bytes beyond [a] cannot start before a match lying inside [a] *)
Lemma term_len_none_stable a x e :
  term_len a = None -> find_term_c a = Some e -> term_len (a ++ x) = None.
Proof.
  intros Hn Hf.
  destruct (term_len (a ++ x)) as [k|] eqn:E; [exfalso|reflexivity].
  pose proof (term_len_range _ _ E) as [Hk _].
  destruct (le_lt_dec k (length a)) as [Hle|Hgt].
  - rewrite (term_len_app_inv a x k E Hle) in Hn. discriminate.
  - destruct a as [|c1 [|c2 [|c3 [|c4 a]]]]; try (simpl in Hgt; lia).
    + simpl in Hf. discriminate.
    + destruct c1; simpl in Hf; discriminate.
    + destruct c1, c2; simpl in Hf, Hn, E; try discriminate.
    + destruct c1, c2, c3; simpl in Hf, Hn, E; try discriminate.
Qed.

Lemma find_term_c_app a x e : find_term_c a = Some e -> find_term_c (a ++ x) = Some e.
Proof.
  revert e; induction a as [|c a IH]; intros e H.
  - simpl in H. discriminate.
  - pose proof H as H0.
    cbn [find_term_c] in H. rewrite <- app_comm_cons. cbn [find_term_c].
    destruct (term_len (c :: a)) eqn:E.
    + inversion H; subst. rewrite app_comm_cons, (term_len_app _ x _ E). reflexivity.
    + rewrite app_comm_cons, (term_len_none_stable _ x _ E H0).
      destruct (find_term_c a) eqn:F; simpl in H; [|discriminate].
      rewrite (IH _ eq_refl). exact H.
Qed.

Lemma find_term_c_app_inv a x e :
  find_term_c (a ++ x) = Some e -> (e <= length a)%nat -> find_term_c a = Some e.
Proof.
  revert e; induction a as [|c a IH]; intros e H Hle.
  - apply find_term_c_range in H. simpl in Hle. lia.
  - rewrite <- app_comm_cons in H. cbn [find_term_c] in H |- *.
    destruct (term_len (c :: a ++ x)) eqn:E.
    + inversion H; subst. rewrite app_comm_cons in E.
      rewrite (term_len_app_inv _ x _ E Hle). reflexivity.
    + destruct (term_len (c :: a)) eqn:E2.
      * rewrite app_comm_cons, (term_len_app _ x _ E2) in E. discriminate.
      * destruct (find_term_c (a ++ x)) eqn:F; simpl in H; [|discriminate].
        inversion H; subst. simpl in Hle.
        rewrite (IH n eq_refl); [reflexivity|lia].
Qed.

Lemma crlf_at_app a x : crlf_at a = true -> crlf_at (a ++ x) = true.
Proof. destruct a as [|[] [|[] a]]; simpl; auto; discriminate. Qed.
Lemma crlf_at_app_inv a x : (2 <= length a)%nat -> crlf_at (a ++ x) = crlf_at a.
Proof. destruct a as [|c1 [|c2 a]]; simpl; try lia. reflexivity. Qed.

Lemma find_crlf_c_range a e : find_crlf_c a = Some e -> (2 <= e <= length a)%nat.
Proof.
  revert e; induction a as [|c a IH]; intros e H; [discriminate|].
  cbn [find_crlf_c] in H. destruct (crlf_at (c :: a)) eqn:E.
  - inversion H; subst. destruct c; try discriminate. destruct a as [|[] a]; try discriminate.
    simpl. lia.
  - destruct (find_crlf_c a) eqn:F; simpl in H; [|discriminate].
    inversion H; subst. specialize (IH _ eq_refl). simpl. lia.
Qed.

Lemma find_crlf_c_app a x e : find_crlf_c a = Some e -> find_crlf_c (a ++ x) = Some e.
Proof.
  revert e; induction a as [|c a IH]; intros e H; [discriminate|].
  rewrite <- app_comm_cons. cbn [find_crlf_c] in *.
  destruct (crlf_at (c :: a)) eqn:E.
  - rewrite app_comm_cons, (crlf_at_app _ x E). exact H.
  - destruct (find_crlf_c a) eqn:F; simpl in H; [|discriminate].
    pose proof (find_crlf_c_range _ _ F) as R.
    rewrite app_comm_cons, crlf_at_app_inv, E by (simpl; lia).
    rewrite (IH _ eq_refl). exact H.
Qed.

Lemma find_crlf_c_app_inv a x e :
  find_crlf_c (a ++ x) = Some e -> (e <= length a)%nat -> find_crlf_c a = Some e.
Proof.
  revert e; induction a as [|c a IH]; intros e H Hle.
  - apply find_crlf_c_range in H. simpl in Hle. lia.
  - rewrite <- app_comm_cons in H. cbn [find_crlf_c] in H |- *.
    destruct (crlf_at (c :: a ++ x)) eqn:E.
    + inversion H; subst. rewrite app_comm_cons, crlf_at_app_inv in E by exact Hle.
      rewrite E. reflexivity.
    + destruct (find_crlf_c (a ++ x)) eqn:F; simpl in H; [|discriminate].
      inversion H; subst. simpl in Hle.
      destruct (crlf_at (c :: a)) eqn:E2.
      * rewrite app_comm_cons, (crlf_at_app _ x E2) in E. discriminate.
      * rewrite (IH n eq_refl); [reflexivity|lia].
Qed.

(* ---------- searches on bytes ---------- *)
Record stable (find : bytes -> option nat) : Prop := {
  st_app : forall a x e, find a = Some e -> find (a ++ x) = Some e;
  st_range : forall a e, find a = Some e -> (2 <= e <= length a)%nat;
  st_inv : forall a x e, find (a ++ x) = Some e -> (e <= length a)%nat -> find a = Some e
}.

(* Prefix-stability: the leftmost header terminator found in a prefix is the leftmost
   terminator of every extension, and a terminator of an extension that ends inside the
   prefix is already found in the prefix. *)
Lemma find_term_stable : stable find_term.
Proof.
  unfold find_term. constructor.
  - intros a x e H. rewrite map_app. apply find_term_c_app. exact H.
  - intros a e H. apply find_term_c_range in H. rewrite map_length in H. exact H.
  - intros a x e H Hle. rewrite map_app in H. apply find_term_c_app_inv in H; auto.
    rewrite map_length. exact Hle.
Qed.

Lemma find_crlf_stable : stable find_crlf.
Proof.
  unfold find_crlf. constructor.
  - intros a x e H. rewrite map_app. apply find_crlf_c_app. exact H.
  - intros a e H. apply find_crlf_c_range in H. rewrite map_length in H. exact H.
  - intros a x e H Hle. rewrite map_app in H. apply find_crlf_c_app_inv in H; auto.
    rewrite map_length. exact Hle.
Qed.

(* ---------- relating results on the two streams ---------- *)
Definition rrel (r1 : rres sstream) (r2 : rres bytes) : Prop :=
  match r1, r2 with
  | RData d s, RData d' b => d = d' /\ flat s = b
  | RUnsat, RUnsat => True
  | REof, REof => True
  | _, _ => False
  end.

Lemma firstn_app_le {A} (n : nat) (a b : list A) :
  (n <= length a)%nat -> firstn n (a ++ b) = firstn n a.
Proof.
  intros H. rewrite firstn_app. replace (n - length a)%nat with 0%nat by lia.
  simpl. apply app_nil_r.
Qed.
Lemma skipn_app_le {A} (n : nat) (a b : list A) :
  (n <= length a)%nat -> skipn n (a ++ b) = skipn n a ++ b.
Proof.
  intros H. rewrite skipn_app. replace (n - length a)%nat with 0%nat by lia. reflexivity.
Qed.

Lemma s_delim_sim find (Hs : stable find) max segs :
  forall buf, rrel (s_delim find max buf segs) (w_delim find max (buf ++ concat segs)).
Proof.
  induction segs as [|s segs IH]; intros buf.
  - simpl. rewrite app_nil_r. unfold w_delim.
    destruct (delim_pos find max buf) as [[e|]|]; simpl; auto.
    unfold flat; simpl. rewrite app_nil_r. auto.
  - cbn [s_delim concat]. unfold delim_pos.
    destruct (find buf) as [e|] eqn:F.
    + pose proof (st_range _ Hs _ _ F) as R.
      unfold w_delim, delim_pos. rewrite (st_app _ Hs _ (s ++ concat segs) _ F).
      destruct (e <=? max)%nat; simpl; auto.
      unfold flat; simpl. rewrite firstn_app_le, skipn_app_le by lia. auto.
    + destruct (max <? length buf)%nat eqn:M.
      * unfold w_delim, delim_pos.
        destruct (find (buf ++ s ++ concat segs)) as [e|] eqn:F2.
        -- destruct (e <=? max)%nat eqn:Le; simpl; auto.
           apply Nat.leb_le in Le. apply Nat.ltb_lt in M.
           rewrite (st_inv _ Hs buf _ e F2) in F by lia. discriminate.
        -- rewrite app_length. apply Nat.ltb_lt in M.
           replace (max <? length buf + length (s ++ concat segs))%nat with true
             by (symmetry; apply Nat.ltb_lt; lia).
           simpl. auto.
      * specialize (IH (buf ++ s)). rewrite <- app_assoc in IH. exact IH.
Qed.

Lemma s_exact_sim n segs :
  forall buf, rrel (s_exact n buf segs) (w_exact n (buf ++ concat segs)).
Proof.
  induction segs as [|s segs IH]; intros buf.
  - simpl. rewrite app_nil_r. unfold w_exact.
    destruct (n <=? length buf)%nat; simpl; auto.
    unfold flat; simpl. rewrite app_nil_r. auto.
  - cbn [s_exact concat].
    destruct (n <=? length buf)%nat eqn:E.
    + apply Nat.leb_le in E. unfold w_exact. rewrite app_length.
      replace (n <=? length buf + length (s ++ concat segs))%nat with true
        by (symmetry; apply Nat.leb_le; lia).
      simpl. unfold flat; simpl. rewrite firstn_app_le, skipn_app_le by lia. auto.
    + specialize (IH (buf ++ s)). rewrite <- app_assoc in IH. exact IH.
Qed.

Lemma concat_split_by cs d : forall fuel, (length d <= fuel)%nat -> concat (split_by fuel cs d) = d.
Proof.
  intros fuel; revert d; induction fuel as [|f IH]; intros d H.
  - destruct d; simpl in *; [reflexivity|lia].
  - destruct d as [|x d]; [reflexivity|].
    cbn [split_by concat].
    rewrite IH.
    + apply (firstn_skipn (S cs) (x :: d)).
    + rewrite skipn_length. simpl in *. lia.
Qed.

Definition orel (o1 : option sstream) (o2 : option bytes) : Prop :=
  match o1, o2 with
  | Some s, Some b => flat s = b
  | None, None => True
  | _, _ => False
  end.

Lemma w_body_le cs n b :
  (n <= N.of_nat (length b))%N ->
  concat (fst (w_body cs n b)) = firstn (N.to_nat n) b /\
  snd (w_body cs n b) = Some (skipn (N.to_nat n) b).
Proof.
  intros H. unfold w_body. apply N.leb_le in H. rewrite H. cbn [fst snd].
  split; [|reflexivity]. apply concat_split_by. rewrite firstn_length. lia.
Qed.
Lemma w_body_gt cs n b :
  (N.of_nat (length b) < n)%N ->
  concat (fst (w_body cs n b)) = b /\ snd (w_body cs n b) = None.
Proof.
  intros H. unfold w_body. apply N.leb_gt in H. rewrite H. cbn [fst snd].
  split; [|reflexivity]. apply concat_split_by. lia.
Qed.

Lemma s_body_sim cs segs :
  forall n buf,
    concat (fst (s_body cs n buf segs)) = concat (fst (w_body cs n (buf ++ concat segs))) /\
    orel (snd (s_body cs n buf segs)) (snd (w_body cs n (buf ++ concat segs))).
Proof.
  induction segs as [|s segs IH]; intros n buf.
  - simpl. rewrite app_nil_r. unfold w_body.
    destruct (n <=? N.of_nat (length buf))%N; simpl; split; auto.
    unfold flat; simpl. apply app_nil_r.
  - cbn [s_body concat].
    destruct (n <=? N.of_nat (length buf))%N eqn:E.
    + apply N.leb_le in E.
      assert (L2 : (n <= N.of_nat (length (buf ++ s ++ concat segs)))%N)
        by (rewrite app_length; lia).
      destruct (w_body_le cs _ _ L2) as [A2 B2]. rewrite A2, B2. cbn [fst snd].
      assert (K : (N.to_nat n <= length buf)%nat) by lia.
      rewrite firstn_app_le, skipn_app_le by exact K. split.
      * apply concat_split_by. rewrite firstn_length. lia.
      * unfold flat; reflexivity.
    + apply N.leb_gt in E.
      specialize (IH (n - N.of_nat (length buf))%N s).
      destruct (s_body cs (n - N.of_nat (length buf)) s segs) as [p o] eqn:SB.
      cbn [fst snd] in *. destruct IH as [IH1 IH2].
      rewrite concat_app, IH1. rewrite (concat_split_by cs buf (length buf)) by lia.
      set (rest := s ++ concat segs) in *.
      destruct (N.le_gt_cases (n - N.of_nat (length buf)) (N.of_nat (length rest))) as [L|G].
      * destruct (w_body_le cs _ _ L) as [A B]. rewrite A. rewrite B in IH2.
        assert (L2 : (n <= N.of_nat (length (buf ++ rest)))%N) by (rewrite app_length; lia).
        destruct (w_body_le cs _ _ L2) as [A2 B2]. rewrite A2, B2.
        assert (K : N.to_nat n = (length buf + N.to_nat (n - N.of_nat (length buf)))%nat) by lia.
        rewrite K. split.
        -- rewrite firstn_app. rewrite (firstn_all2 buf) by lia.
           replace (length buf + N.to_nat (n - N.of_nat (length buf)) - length buf)%nat
             with (N.to_nat (n - N.of_nat (length buf))) by lia.
           reflexivity.
        -- destruct o as [st|]; simpl in *; [|contradiction].
           rewrite IH2. rewrite skipn_app. rewrite (skipn_all2 buf) by lia.
           replace (length buf + N.to_nat (n - N.of_nat (length buf)) - length buf)%nat
             with (N.to_nat (n - N.of_nat (length buf))) by lia.
           reflexivity.
      * destruct (w_body_gt cs _ _ G) as [A B]. rewrite A. rewrite B in IH2.
        assert (G2 : (N.of_nat (length (buf ++ rest)) < n)%N) by (rewrite app_length; lia).
        destruct (w_body_gt cs _ _ G2) as [A2 B2]. rewrite A2, B2.
        split; [reflexivity|]. destruct o; simpl in *; auto.
Qed.
