(* C01 — fuel adequacy and absence of uncaught errors: on a stream whose reads make
   progress, with a delegate that never fails with an unexpected exception, the trace
   contains neither EvOutOfFuel nor EvUncaught. *)
From Coq Require Import List NArith Arith Bool Lia.
Import ListNotations.
From TV Require Import C01.Model C01.Proofs1 C01.Proofs2.

Definition ev_ok (e : ev) : bool :=
  match e with EvUncaught | EvOutOfFuel => false | _ => true end.
Definition all_ok (evs : list ev) : bool := forallb ev_ok evs.

Lemma all_ok_app a b : all_ok (a ++ b) = all_ok a && all_ok b.
Proof. apply forallb_app. Qed.
Lemma body_ev_ok b : all_ok (body_ev b) = true.
Proof. destruct b; reflexivity. Qed.

Section Fuel.
  Context {S : Type} (ops : sops S) (dl : dlg) (c : cfg).
  Hypothesis P_regex : forall m st d s, rd_regex ops m st = RData d s ->
      (remaining ops s < remaining ops st)%nat.
  Hypothesis P_until : forall m st d s, rd_until ops m st = RData d s ->
      (remaining ops s < remaining ops st)%nat.
  Hypothesis P_exact : forall n st d s, rd_exact ops n st = RData d s ->
      (remaining ops s <= remaining ops st)%nat.
  Hypothesis P_body : forall cs n st s, snd (rd_body ops cs n st) = Some s ->
      (remaining ops s <= remaining ops st)%nat.
  Hypothesis P_dl : forall act cs, snd (d_data dl act cs) <> DUncaught.

  Lemma read_chunked_fuel fuel : forall maxb total st,
      (remaining ops st < fuel)%nat ->
      match snd (read_chunked ops c fuel maxb total st) with
      | BFuel => False
      | BDone s => (remaining ops s <= remaining ops st)%nat
      | _ => True
      end.
  Proof.
    induction fuel as [|f IH]; intros maxb total st Hf; [lia|].
    cbn [read_chunked].
    destruct (rd_until ops 64 st) as [l t1| |] eqn:U; cbn [snd]; auto.
    apply P_until in U.
    destruct (parse_hex_int _) as [len|]; cbn [snd]; auto.
    destruct (len =? 0)%N.
    - destruct (rd_exact ops 2 t1) as [d u| |] eqn:X; cbn [snd]; auto.
      apply P_exact in X. destruct (beqb d CRLF); cbn [snd]; auto. lia.
    - destruct (maxb <? total + len)%N; cbn [snd]; auto.
      destruct (rd_body ops (chunk_pred c) len t1) as [cs ob] eqn:B.
      pose proof (P_body (chunk_pred c) len t1) as PB. rewrite B in PB. cbn [snd] in PB.
      destruct ob as [u|]; cbn [snd]; auto.
      specialize (PB u eq_refl).
      destruct (rd_exact ops 2 u) as [d v| |] eqn:X; cbn [snd]; auto.
      apply P_exact in X. destruct (beqb d CRLF); cbn [snd]; auto.
      specialize (IH maxb (total + len)%N v).
      destruct (read_chunked ops c f maxb (total + len) v) as [p r]. cbn [snd] in *.
      assert (Hv : (remaining ops v < f)%nat) by lia. specialize (IH Hv).
      destruct r; auto. lia.
  Qed.

  Lemma finish_body_ok pre0 data dr (bs : bstat S) ka :
    all_ok pre0 = true -> dr <> DUncaught -> bs <> BFuel ->
    all_ok (fst (finish_body pre0 data dr bs ka)) = true.
  Proof.
    intros H0 Hd Hb. unfold finish_body.
    assert (P : all_ok (pre0 ++ body_ev data) = true) by (rewrite all_ok_app, H0, body_ev_ok; reflexivity).
    destruct dr; cbn [fst]; try congruence; try (rewrite all_ok_app, P; reflexivity);
      destruct bs; cbn [fst]; try congruence; try (rewrite all_ok_app, P; reflexivity);
      unfold next; destruct ka; cbn [fst]; rewrite all_ok_app, P; reflexivity.
  Qed.

  Lemma finish_body_next pre0 data dr (bs : bstat S) ka s :
    snd (finish_body pre0 data dr bs ka) = Some s -> bs = BDone s.
  Proof.
    unfold finish_body. destruct dr; cbn [snd]; try discriminate;
      destruct bs; cbn [snd]; try discriminate;
      unfold next; destruct ka; cbn [snd]; try discriminate; intros H; inversion H; reflexivity.
  Qed.

  Lemma serve_msg_ok st :
    all_ok (fst (serve_msg ops dl c st)) = true /\
    (forall s, snd (serve_msg ops dl c st) = Some s -> (remaining ops s < remaining ops st)%nat).
  Proof.
    unfold serve_msg.
    destruct (rd_regex ops (max_header c) st) as [hd t1| |] eqn:U;
      try (split; [reflexivity|discriminate]).
    apply P_regex in U.
    destruct (parse_head hd) as [[[[m t] v] h0]|]; [|split; [reflexivity|discriminate]].
    destruct (can_keep_alive (no_keep_alive c) m v h0) as [ka|]; [|split; [reflexivity|discriminate]].
    destruct (d_headers dl h0) as [h act].
    destruct (host_check v h); [|split; [reflexivity|discriminate]].
    assert (RO : all_ok (req_evs m t v h) = true) by (unfold req_evs; destruct (expects_continue h); reflexivity).
    destruct (body_plan (eff_max_body c) h) as [[|n|]|];
      [| | |split; [cbn [fst]; rewrite all_ok_app, RO; reflexivity|discriminate]].
    - split; [apply finish_body_ok; [exact RO|discriminate|discriminate]|].
      intros s H. apply finish_body_next in H. inversion H; subst. exact U.
    - destruct (rd_body ops (chunk_pred c) n t1) as [cs ob] eqn:B.
      pose proof (P_dl act cs) as PD.
      destruct (d_data dl act cs) as [data dr]. cbn [snd] in PD.
      split; [apply finish_body_ok; [exact RO|exact PD|destruct ob; discriminate]|].
      intros s H. apply finish_body_next in H.
      pose proof (P_body (chunk_pred c) n t1) as PB. rewrite B in PB. cbn [snd] in PB.
      destruct ob as [u|]; [|discriminate]. inversion H; subst. specialize (PB s eq_refl). lia.
    - pose proof (read_chunked_fuel (Datatypes.S (remaining ops t1)) (eff_max_body c) 0%N t1
                    (Nat.lt_succ_diag_r _)) as RC.
      destruct (read_chunked ops c _ _ _ t1) as [cs bs]. cbn [snd] in RC.
      pose proof (P_dl act cs) as PD.
      destruct (d_data dl act cs) as [data dr]. cbn [snd] in PD.
      split; [apply finish_body_ok; [exact RO|exact PD|intros ->; exact RC]|].
      intros s H. apply finish_body_next in H. subst bs. lia.
  Qed.

  Lemma serve_loop_ok fuel : forall st, (remaining ops st < fuel)%nat ->
      all_ok (serve_loop ops dl c fuel st) = true.
  Proof.
    induction fuel as [|f IH]; intros st Hf; [lia|].
    cbn [serve_loop]. destruct (serve_msg_ok st) as [A B].
    destruct (serve_msg ops dl c st) as [e o]. cbn [fst snd] in *.
    destruct o as [s|]; [|exact A].
    rewrite all_ok_app, A. apply IH. specialize (B s eq_refl). lia.
  Qed.

  Theorem serve_ok st : all_ok (serve ops dl c st) = true.
  Proof. apply serve_loop_ok. lia. Qed.

  Lemma serve_loop_irrel f1 : forall f2 st,
      (remaining ops st < f1)%nat -> (remaining ops st < f2)%nat ->
      serve_loop ops dl c f1 st = serve_loop ops dl c f2 st.
  Proof.
    induction f1 as [|f1 IH]; intros f2 st H1 H2; [lia|].
    destruct f2 as [|f2]; [lia|].
    cbn [serve_loop]. destruct (serve_msg_ok st) as [_ B].
    destruct (serve_msg ops dl c st) as [e o]. cbn [snd] in B.
    destruct o as [s|]; [|reflexivity].
    specialize (B s eq_refl). rewrite (IH f2 s) by lia. reflexivity.
  Qed.

  (* compositional reading of the trace: one message, then the rest of the stream *)
  Theorem serve_step st :
    serve ops dl c st =
    match snd (serve_msg ops dl c st) with
    | Some s => fst (serve_msg ops dl c st) ++ serve ops dl c s
    | None => fst (serve_msg ops dl c st)
    end.
  Proof.
    unfold serve. cbn [serve_loop]. destruct (serve_msg_ok st) as [_ B].
    destruct (serve_msg ops dl c st) as [e o]. cbn [fst snd] in *.
    destruct o as [s|]; [|reflexivity].
    specialize (B s eq_refl). rewrite (serve_loop_irrel _ (Datatypes.S (remaining ops s))) by lia.
    reflexivity.
  Qed.
End Fuel.

(* ---------- the whole-buffer stream makes progress ---------- *)
Lemma w_delim_progress find (Hs : stable find) m b d s :
  w_delim find m b = RData d s -> (length s < length b)%nat.
Proof.
  unfold w_delim, delim_pos. destruct (find b) as [e|] eqn:F.
  - destruct (e <=? m)%nat; [|discriminate]. intros H; inversion H; subst.
    apply (st_range _ Hs) in F. rewrite skipn_length. lia.
  - destruct (m <? length b)%nat; discriminate.
Qed.

Lemma whole_ok (dl : dlg) (c : cfg) (Hdl : forall act cs, snd (d_data dl act cs) <> DUncaught) b :
  all_ok (serve whole_ops dl c b) = true.
Proof.
  apply serve_ok; auto.
  - intros m st d s. apply (w_delim_progress _ find_term_stable).
  - intros m st d s. apply (w_delim_progress _ find_crlf_stable).
  - intros n st d s. simpl. unfold w_exact. destruct (n <=? length st)%nat; [|discriminate].
    intros H; inversion H; subst. rewrite skipn_length. lia.
  - intros cs n st s. simpl. unfold w_body.
    destruct (n <=? N.of_nat (length st))%N; cbn [snd]; [|discriminate].
    intros H; inversion H; subst. rewrite skipn_length. lia.
Qed.

Lemma all_ok_in evs : all_ok evs = true -> ~ In EvUncaught evs /\ ~ In EvOutOfFuel evs.
Proof.
  intros H. unfold all_ok in H. rewrite forallb_forall in H.
  split; intros I; apply H in I; discriminate.
Qed.

Theorem strict_reader_ok c b : ~ In EvUncaught (strict_reader c b) /\ ~ In EvOutOfFuel (strict_reader c b).
Proof. apply all_ok_in. apply whole_ok. intros act cs. simpl. discriminate. Qed.

Lemma strict_reader_step c b :
  strict_reader c b =
  match snd (serve_msg whole_ops plain_dlg c b) with
  | Some b' => fst (serve_msg whole_ops plain_dlg c b) ++ strict_reader c b'
  | None => fst (serve_msg whole_ops plain_dlg c b)
  end.
Proof.
  unfold strict_reader. apply serve_step.
  - intros m st d s. apply (w_delim_progress _ find_term_stable).
  - intros m st d s. apply (w_delim_progress _ find_crlf_stable).
  - intros n st d s. simpl. unfold w_exact. destruct (n <=? length st)%nat; [|discriminate].
    intros H; inversion H; subst. rewrite skipn_length. lia.
  - intros cs n st s. simpl. unfold w_body.
    destruct (n <=? N.of_nat (length st))%N; cbn [snd]; [|discriminate].
    intros H; inversion H; subst. rewrite skipn_length. lia.
  - intros act cs. simpl. discriminate.
Qed.
