(* C31 — Routing picks the first matching rule and reverse URLs route back.
   Property theorems only; proofs are in Proofs1-5.v. *)
From Coq Require Import List NArith Bool.
From TV Require Import Lib.Obs Lib.C21_Utf8 Lib.C21_Pct C31.Model C31.Spec C31.Run
     C31.Proofs1 C31.Proofs2 C31.Proofs3 C31.Proofs4 C31.Proofs5 C31.Proofs6 C31.Proofs7 C31.Proofs8 C31.ProofsP4.
Import ListNotations.
Local Open Scope N_scope.

(* regex.fullmatch as modelled (priority-ordered backtracking) succeeds exactly on
   the strings the pattern matches as a whole, and the groups it returns are a
   parse of that whole string. *)
Theorem C31_matcher_accepts_exactly_whole_matches :
  forall r s,
    ((exists caps, whole_match r s = Some caps) <-> rx_whole r s) /\
    (forall caps, whole_match r s = Some caps -> pmatch (rx_pieces r) s caps).
Proof.
  intros r s. split.
  - rewrite whole_match_iff_full. apply rx_full_iff.
  - intros caps. apply whole_match_sound.
Qed.
Print Assumptions C31_matcher_accepts_exactly_whole_matches.

(* For every Application configuration (host groups, default host, nested routers)
   and request: if leaf number |l1| of the depth-first rule table is the first one
   all of whose matchers (its own and those of the enclosing routers) match the
   whole host name / whole path, the request is dispatched to its handler, and the
   path arguments are the percent-decoded groups of the leaf's own pattern. *)
Theorem C31_dispatches_to_first_matching_rule :
  forall a rq l1 anc m h l2,
    valid_text (rq_path rq) ->
    leaves (app_rules a) = l1 ++ (anc, m, h) :: l2 ->
    (forall lf, In lf l1 -> ~ leaf_accepts rq lf) ->
    leaf_accepts rq (anc, m, h) ->
    exists args, app_find a rq = RtHandler h args /\ leaf_args rq m args.
Proof. exact first_match_dispatch. Qed.
Print Assumptions C31_dispatches_to_first_matching_rule.

(* ... and to the default handler / 404 when no leaf matches *)
Theorem C31_default_when_no_rule_matches :
  forall a rq,
    valid_text (rq_path rq) ->
    (forall lf, In lf (leaves (app_rules a)) -> ~ leaf_accepts rq lf) ->
    app_find a rq = if a_default_handler a then RtDefault else RtNotFound.
Proof. exact no_match_default. Qed.
Print Assumptions C31_default_when_no_rule_matches.

(* conversely, a handler is only ever chosen as the first matching leaf *)
Theorem C31_dispatch_only_to_first_match :
  forall a rq h args,
    valid_text (rq_path rq) ->
    app_find a rq = RtHandler h args ->
    exists l1 anc m l2,
      leaves (app_rules a) = l1 ++ (anc, m, h) :: l2 /\
      (forall lf, In lf l1 -> ~ leaf_accepts rq lf) /\
      leaf_accepts rq (anc, m, h) /\ leaf_args rq m args.
Proof. exact dispatch_is_first_match. Qed.
Print Assumptions C31_dispatch_only_to_first_match.

(* the router equals the executable first-match specification used by check_case *)
Theorem C31_router_equals_first_match_spec :
  forall a rq, valid_text (rq_path rq) -> app_find a rq = spec_route a rq.
Proof. exact app_find_spec. Qed.
Print Assumptions C31_router_equals_first_match_spec.

(* Round trip: the URL read off a literals-and-groups pattern (group i replaced
   by quote(arg i)) is matched by PathMatches.match with exactly those arguments,
   whenever the quoted arguments lie in the groups' languages and that is the
   only way to parse the URL. *)
Theorem C31_reverse_then_match_returns_arguments :
  forall pm args u,
    pm_whole pm = true ->
    spec_url (rx_pieces (pm_rx pm)) args = Some u ->
    Forall bytes args ->
    representable (rx_pieces (pm_rx pm)) args ->
    (forall caps', pmatch (rx_pieces (pm_rx pm)) u caps' -> caps' = map quote_arg args) ->
    pm_match pm u = MHit args.
Proof. exact reverse_match_roundtrip. Qed.
Print Assumptions C31_reverse_then_match_returns_arguments.

(* "separators are unambiguous", syntactically: every group is one quantified
   character set and is last or followed by a literal outside that set *)
Theorem C31_reverse_then_match_with_unambiguous_separators :
  forall pm args u,
    pm_whole pm = true ->
    spec_url (rx_pieces (pm_rx pm)) args = Some u ->
    Forall bytes args ->
    representable (rx_pieces (pm_rx pm)) args ->
    sep_ok (rx_pieces (pm_rx pm)) ->
    pm_match pm u = MHit args.
Proof. exact reverse_match_roundtrip_sep. Qed.
Print Assumptions C31_reverse_then_match_with_unambiguous_separators.

(* inside check_case's round-trip scope the URL is routed to the named rule's
   handler with the original arguments *)
Theorem C31_reversed_url_routes_back :
  forall a name args host u h,
    roundtrip_expect a name args host = Some (u, h) ->
    app_find a (mk_request host u false) = RtHandler h args.
Proof. exact roundtrip_routes. Qed.
Print Assumptions C31_reversed_url_routes_back.

(* the model satisfies the checker applied to the implementation: all routing cases *)
Theorem C31_model_satisfies_checker_on_routing :
  forall hs hosts dh dflt host uri xreal,
    let i := (hs, hosts, dh, dflt, OpRoute host uri xreal) in check_case i (run_case i) = true.
Proof. exact check_case_route. Qed.
Print Assumptions C31_model_satisfies_checker_on_routing.

(* From the pattern TEXT: for every pattern written as plain / backslash-escaped
   literal characters (including '%' and an escaped '$' at the end) and groups
   without parentheses in their bodies, PathMatches(text) has the corresponding
   structure, reverse() returns the URL read off it, and match() of that URL
   returns the arguments (under the representable / unambiguous hypotheses). *)
Theorem C31_plain_pattern_reverse_and_match_roundtrip :
  forall segs args u,
    Forall seg_ok segs ->
    spec_url (map seg_piece segs) args = Some u ->
    Forall bytes args ->
    representable (map seg_piece segs) args ->
    (forall caps', pmatch (map seg_piece segs) u caps' -> caps' = map quote_arg args) ->
    exists pm, compile_path (pat_text segs) = Some pm /\
               pm_reverse pm args = RvOk u /\ pm_match pm u = MHit args.
Proof. exact plain_pattern_roundtrip. Qed.
Print Assumptions C31_plain_pattern_reverse_and_match_roundtrip.

Theorem C31_plain_pattern_compiles_to_its_structure :
  forall segs, Forall seg_ok segs ->
    exists pm, compile_path (pat_text segs) = Some pm /\
               rx_pieces (pm_rx pm) = map seg_piece segs /\ pm_faithful pm.
Proof.
  intros segs H. destruct (compile_plain_pattern segs H) as (pm & Hc & Hp & _ & Hr).
  exists pm. repeat split; try assumption. intros args u Hu. apply Hr. rewrite <- Hp. exact Hu.
Qed.
Print Assumptions C31_plain_pattern_compiles_to_its_structure.

(* reverse_url: the name denotes the last rule so named at the shallowest level
   reached depth-first (lookup_rule); when its path pattern is faithful the URL
   returned is the one read off the pattern, and inside the round-trip scope it
   routes back to that rule's handler with the same arguments. *)
Theorem C31_reverse_url_routes_back :
  forall a name args host u h,
    (forall p, In p (app_paths a) -> pm_faithful p) ->
    roundtrip_expect a name args host = Some (u, h) ->
    app_reverse a name args = Some (RvOk u) /\
    app_find a (mk_request host u false) = RtHandler h args.
Proof.
  intros a name args host u h Hf Hr. split.
  - exact (reverse_agrees_of_faithful a Hf _ _ _ _ _ Hr).
  - exact (roundtrip_routes _ _ _ _ _ _ Hr).
Qed.
Print Assumptions C31_reverse_url_routes_back.

(* the same without any hypothesis on the patterns, for every configuration that
   compiles: inside the scope (which requires the named pattern to be plainly
   written, as recognised by plain_segs) reverse_url returns the URL read off the
   pattern and that URL routes back to the rule's handler with the arguments *)
Theorem C31_compiled_app_reverse_url_routes_back :
  forall hs hosts dh dflt a name args host u h,
    compile_app hs hosts dh dflt = Some a ->
    roundtrip_expect a name args host = Some (u, h) ->
    app_reverse a name args = Some (RvOk u) /\
    app_find a (mk_request host u false) = RtHandler h args.
Proof.
  intros hs hosts dh dflt a name args host u h Ha Hr. split.
  - exact (reverse_agrees_wf a (compile_app_wf _ _ _ _ _ Ha) _ _ _ _ _ Hr).
  - exact (roundtrip_routes _ _ _ _ _ _ Hr).
Qed.
Print Assumptions C31_compiled_app_reverse_url_routes_back.

(* the recogniser of plainly written pattern texts used in that scope is sound *)
Theorem C31_plain_recogniser_sound :
  forall t segs, plain_segs t = Some segs -> Forall seg_ok segs /\ pat_text segs = t.
Proof. exact plain_segs_sound. Qed.
Print Assumptions C31_plain_recogniser_sound.

(* the model satisfies the checker applied to the implementation on EVERY case *)
Theorem C31_model_satisfies_checker : forall i, check_case i (run_case i) = true.
Proof. exact check_case_model. Qed.
Print Assumptions C31_model_satisfies_checker.

(* Host: name:port is routed exactly like Host: name (split_host_and_port) *)
Theorem C31_host_port_does_not_affect_routing :
  forall a h ds uri x,
    h <> [] -> ds <> [] -> forallb is_digit ds = true -> ~ In 58 h ->
    app_find a (mk_request (h ++ 58 :: ds) uri x) = app_find a (mk_request h uri x).
Proof.
  intros a h ds uri x Hh Hd Hdig Hc. f_equal. unfold mk_request at 1 2.
  change (mkReq (rq_host (mk_request (h ++ 58 :: ds) uri x)) (before_q uri) x =
          mkReq (rq_host (mk_request h uri x)) (before_q uri) x).
  rewrite (host_port_ignored h ds uri x Hh Hd Hdig), (host_without_colon h uri x Hc). reflexivity.
Qed.
Print Assumptions C31_host_port_does_not_affect_routing.

(* both PathMatches code paths (string pattern: fullmatch / precompiled re.Pattern:
   match): a hit exactly when the pattern accepts the path in the respective sense *)
Theorem C31_path_matcher_semantics_both_code_paths :
  forall p path,
    (exists args, pm_match p path = MHit args) \/ pm_match p path = MErr <->
    exists caps, pm_parse p path caps.
Proof. exact path_matcher_semantics. Qed.
Print Assumptions C31_path_matcher_semantics_both_code_paths.

(* Applications built by a SEQUENCE of add_handlers calls (a_hosts, in call order;
   repeated and overlapping host patterns are separate groups at their own
   positions): the request is served by the first group whose host pattern matches
   the host name and which contains a matching rule, and by that group's first
   matching rule ... *)
Theorem C31_host_groups_are_tried_in_call_order :
  forall a rq g1 r rs g2 l1 anc m h l2,
    valid_text (rq_path rq) ->
    a_hosts a = g1 ++ (r, rs) :: g2 ->
    leaves rs = l1 ++ (anc, m, h) :: l2 ->
    (forall hr lf, In hr g1 -> m_accepts rq (MHost (fst hr)) -> In lf (leaves (snd hr)) -> ~ leaf_accepts rq lf) ->
    m_accepts rq (MHost r) ->
    (forall lf, In lf l1 -> ~ leaf_accepts rq lf) ->
    leaf_accepts rq (anc, m, h) ->
    exists args, app_find a rq = RtHandler h args /\ leaf_args rq m args.
Proof. exact host_groups_in_call_order. Qed.
Print Assumptions C31_host_groups_are_tried_in_call_order.

(* ... and the constructor's handlers (".*$" group, then the default-host groups)
   come after every add_handlers group *)
Theorem C31_constructor_handlers_come_after_host_groups :
  forall a rq l1 anc m h l2,
    valid_text (rq_path rq) ->
    (forall hr lf, In hr (a_hosts a) -> m_accepts rq (MHost (fst hr)) -> In lf (leaves (snd hr)) -> ~ leaf_accepts rq lf) ->
    leaves (wildcard_rules a) = l1 ++ (anc, m, h) :: l2 ->
    (forall lf, In lf l1 -> ~ leaf_accepts rq lf) ->
    leaf_accepts rq (anc, m, h) ->
    exists args, app_find a rq = RtHandler h args /\ leaf_args rq m args.
Proof. exact constructor_handlers_after_host_groups. Qed.
Print Assumptions C31_constructor_handlers_come_after_host_groups.

(* Named groups.  The first matching leaf's groups are handed over by keyword
   exactly when its pattern names them (all of them): the observable of the
   dispatch is route_obs (kw_names ...) of the handler and its unquoted captures. *)
Theorem C31_named_groups_dispatch_by_keyword :
  forall a rq l1 anc p h l2,
    valid_text (rq_path rq) ->
    leaves (app_rules a) = l1 ++ (anc, MPath p, h) :: l2 ->
    (forall lf, In lf l1 -> ~ leaf_accepts rq lf) ->
    leaf_accepts rq (anc, MPath p, h) ->
    exists args, app_find a rq = RtHandler h args /\ leaf_args rq (MPath p) args /\
                 hit_kw a rq = kw_names (pm_names p) /\
                 route_obs_at a rq (app_find a rq) = route_obs (kw_names (pm_names p)) (RtHandler h args).
Proof. exact named_dispatch. Qed.
Print Assumptions C31_named_groups_dispatch_by_keyword.

(* each capture is paired with exactly one name, in group order, URL-unescaped *)
Theorem C31_named_captures_pair_up :
  forall p path args ns,
    built p -> pm_match p path = MHit args -> kw_names (pm_names p) = Some ns ->
    length ns = length args /\
    exists caps, pm_parse p path caps /\ map_opt unq caps = Some args /\
                 map fst (combine ns args) = ns /\ map snd (combine ns args) = args.
Proof. exact named_captures_pair_up. Qed.
Print Assumptions C31_named_captures_pair_up.

(* a pattern mixing named and unnamed groups is refused at construction
   (the code asserts; it does not fall back to positional arguments) *)
Theorem C31_mixed_named_and_unnamed_groups_refused :
  forall pat n,
    In (Some n) (pat_names (add_dollar pat)) -> In None (pat_names (add_dollar pat)) ->
    compile_path pat = None.
Proof. exact mixed_groups_refused. Qed.
Print Assumptions C31_mixed_named_and_unnamed_groups_refused.
