(* C31 — the backtracking matcher against the declarative pattern semantics:
   soundness, completeness, unique parses, the whole-string acceptor and the
   enumeration of all parses. *)
From Coq Require Import List NArith Bool Arith Lia.
From TV Require Import Lib.Obs C31.Model C31.Spec.
Import ListNotations.
Local Open Scope N_scope.

Lemma rev_cons_app {A} (c : A) w acc : rev (c :: w) ++ acc = rev w ++ c :: acc.
Proof. simpl. rewrite <- app_assoc. reflexivity. Qed.

Lemma max_le_step n mx : max_ok mx = true -> max_le n (max_dec mx) -> max_le (S n) mx.
Proof.
  destruct mx as [[|k]|]; simpl; intros Hok Hle; try discriminate; try exact I. lia.
Qed.

Lemma max_le_unstep n mx : max_le (S n) mx -> max_ok mx = true /\ max_le n (max_dec mx).
Proof.
  destruct mx as [[|k]|]; simpl; intros H; try lia; (split; [reflexivity|]); try exact I; lia.
Qed.

Definition all_in (cs : cset) (w : str) : Prop := Forall (fun c => cs_in cs c = true) w.

(* ------------------------------------------------------------------ *)
Section RepProofs.
  Context {R : Type}.
  Implicit Types k : str -> str -> option R.

  Lemma rep_sound cs g k : forall s mn mx acc r,
    rep cs g k mn mx acc s = Some r ->
    exists w s', s = w ++ s' /\ all_in cs w /\ (mn <= length w)%nat /\ max_le (length w) mx /\
                 k (rev w ++ acc) s' = Some r.
  Proof.
    induction s as [|c s IH]; intros mn mx acc r H.
    - simpl in H. destruct mn as [|m]; [|discriminate].
      exists [], []. repeat split; try constructor; simpl; try lia; try exact H.
      destruct mx; simpl; [lia|exact I].
    - assert (Hmore : forall m,
                (if cs_in cs c && max_ok mx then rep cs g k m (max_dec mx) (c :: acc) s else None) = Some r ->
                exists w s', c :: s = w ++ s' /\ all_in cs w /\ (S m <= length w)%nat /\ max_le (length w) mx /\
                             k (rev w ++ acc) s' = Some r).
      { intros m Hm. destruct (cs_in cs c && max_ok mx) eqn:E; [|discriminate].
        apply andb_true_iff in E as [Ec Eok].
        destruct (IH _ _ _ _ Hm) as (w & s' & -> & Hall & Hmin & Hmax & Hk).
        exists (c :: w), s'. repeat split.
        - constructor; assumption.
        - simpl. lia.
        - simpl. apply max_le_step; assumption.
        - rewrite rev_cons_app. exact Hk. }
      assert (Hstop : k acc (c :: s) = Some r ->
                exists w s', c :: s = w ++ s' /\ all_in cs w /\ (0 <= length w)%nat /\ max_le (length w) mx /\
                             k (rev w ++ acc) s' = Some r).
      { intros Hk. exists [], (c :: s). repeat split; try constructor; simpl; try lia; try exact Hk.
        destruct mx; simpl; [lia|exact I]. }
      simpl in H. destruct mn as [|m].
      + destruct g.
        * destruct (if cs_in cs c && max_ok mx then rep cs true k 0 (max_dec mx) (c :: acc) s else None) eqn:E.
          -- inversion H; subst. destruct (Hmore 0%nat E) as (w & s' & H1 & H2 & H3 & H4 & H5).
             exists w, s'. repeat split; try assumption. lia.
          -- apply Hstop. exact H.
        * destruct (k acc (c :: s)) eqn:E.
          -- inversion H; subst. apply Hstop. reflexivity.
          -- destruct (Hmore 0%nat H) as (w & s' & H1 & H2 & H3 & H4 & H5).
             exists w, s'. repeat split; try assumption. lia.
      + apply Hmore. exact H.
  Qed.

  Lemma rep_complete cs g k : forall w mn mx acc s',
    all_in cs w -> (mn <= length w)%nat -> max_le (length w) mx ->
    (exists r, k (rev w ++ acc) s' = Some r) ->
    exists r', rep cs g k mn mx acc (w ++ s') = Some r'.
  Proof.
    induction w as [|c w IH]; intros mn mx acc s' Hall Hmin Hmax [r Hk].
    - simpl in Hmin. assert (mn = 0%nat) by lia. subst mn. simpl in Hk. simpl.
      destruct s' as [|c s]; simpl.
      + eauto.
      + destruct g.
        * destruct (if cs_in cs c && max_ok mx then rep cs true k 0 (max_dec mx) (c :: acc) s else None); eauto.
        * rewrite Hk. eauto.
    - inversion Hall as [|? ? Hc Hw]; subst. simpl in Hmax. apply max_le_unstep in Hmax as [Hok Hmax'].
      assert (Hcond : cs_in cs c && max_ok mx = true) by (rewrite Hc, Hok; reflexivity).
      rewrite rev_cons_app in Hk.
      change ((c :: w) ++ s') with (c :: (w ++ s')). simpl. rewrite Hcond. destruct mn as [|m].
      + destruct (IH 0%nat (max_dec mx) (c :: acc) s' Hw ltac:(lia) Hmax' (ex_intro _ r Hk)) as [r' Hr'].
        destruct g.
        * rewrite Hr'. eauto.
        * destruct (k acc (c :: w ++ s')); eauto.
      + simpl in Hmin. apply (IH m (max_dec mx) (c :: acc) s' Hw ltac:(lia) Hmax' (ex_intro _ r Hk)).
  Qed.

  Lemma m_items_sound : forall its k acc s r,
    m_items its k acc s = Some r ->
    exists w s', s = w ++ s' /\ items_lang its w /\ k (rev w ++ acc) s' = Some r.
  Proof.
    induction its as [|it its IH]; intros k acc s r H.
    - exists [], s. repeat split; [constructor|exact H].
    - simpl in H. apply rep_sound in H as (w1 & s1 & -> & Hall & Hmin & Hmax & Hk).
      apply IH in Hk as (w2 & s2 & -> & Hl & Hk).
      exists (w1 ++ w2), s2. repeat split.
      + rewrite app_assoc. reflexivity.
      + constructor; [|exact Hl]. repeat split; assumption.
      + rewrite rev_app_distr, <- app_assoc. exact Hk.
  Qed.

  Lemma m_items_complete : forall its w, items_lang its w -> forall k acc s',
    (exists r, k (rev w ++ acc) s' = Some r) ->
    exists r', m_items its k acc (w ++ s') = Some r'.
  Proof.
    induction 1 as [|it its w1 w2 (Hall & Hmin & Hmax) Hl IH]; intros k acc s' Hk.
    - simpl in *. exact Hk.
    - simpl. rewrite <- app_assoc. apply rep_complete; try assumption.
      apply IH. rewrite rev_app_distr, <- app_assoc in Hk. exact Hk.
  Qed.
End RepProofs.

(* ------------------------------------------------------------------ *)
Lemma items_lang_single it w : items_lang [it] w <-> item_lang it w.
Proof.
  split.
  - intros H. inversion H as [|? ? w1 w2 H1 H2]; subst. inversion H2; subst. rewrite app_nil_r. exact H1.
  - intros H. rewrite <- (app_nil_r w). constructor; [exact H|constructor].
Qed.

Lemma m_pieces_sound fin : forall ps done s caps rest,
  m_pieces ps fin done s = Some (caps, rest) ->
  exists s0 caps', s = s0 ++ rest /\ pmatch ps s0 caps' /\ fin rest = true /\ caps = rev done ++ caps'.
Proof.
  induction ps as [|p ps IH]; intros done s caps rest H.
  - simpl in H. destruct (fin s) eqn:E; [|discriminate]. inversion H; subst.
    exists [], []. repeat split; [constructor|exact E|rewrite app_nil_r; reflexivity].
  - destruct p as [it|body]; simpl in H.
    + apply (m_items_sound [it]) in H as (w & s' & -> & Hl & Hk).
      apply IH in Hk as (s0 & caps' & -> & Hp & Hf & ->).
      exists (w ++ s0), caps'. repeat split; try assumption.
      * rewrite app_assoc. reflexivity.
      * constructor; [apply items_lang_single; exact Hl|exact Hp].
    + apply m_items_sound in H as (w & s' & -> & Hl & Hk).
      apply IH in Hk as (s0 & caps' & -> & Hp & Hf & ->).
      exists (w ++ s0), (w :: caps'). repeat split; try assumption.
      * rewrite app_assoc. reflexivity.
      * constructor; assumption.
      * rewrite app_nil_r, rev_involutive. simpl. rewrite <- app_assoc. reflexivity.
Qed.

Lemma m_pieces_complete fin : forall ps s0 caps', pmatch ps s0 caps' -> forall done rest,
  fin rest = true -> exists caps rest', m_pieces ps fin done (s0 ++ rest) = Some (caps, rest').
Proof.
  induction 1 as [|it ps w s caps Hit Hp IH|body ps w s caps Hb Hp IH]; intros done rest Hf.
  - simpl. rewrite Hf. eauto.
  - simpl. rewrite <- app_assoc.
    destruct (m_items_complete [it] w (proj2 (items_lang_single it w) Hit)
                (fun _ s' => m_pieces ps fin done s') [] (s ++ rest)) as [[c r] Hr].
    + destruct (IH done rest Hf) as (c & r & Hc). eauto.
    + eauto.
  - simpl. rewrite <- app_assoc.
    destruct (m_items_complete body w Hb
                (fun acc s' => m_pieces ps fin (rev acc :: done) s') [] (s ++ rest)) as [[c r] Hr].
    + destruct (IH (rev (rev w ++ []) :: done) rest Hf) as (c & r & Hc). eauto.
    + eauto.
Qed.

(* ---------- regex.fullmatch ---------- *)
Lemma whole_fin_nil r t : fin_of (rx_anch r) t && is_nilb t = true -> t = [].
Proof. destruct t; [reflexivity|]. rewrite andb_false_r. discriminate. Qed.

Theorem whole_match_sound r s caps :
  whole_match r s = Some caps -> pmatch (rx_pieces r) s caps.
Proof.
  unfold whole_match. intros H.
  destruct (m_pieces (rx_pieces r) _ [] s) as [[c rest]|] eqn:E; [|discriminate].
  inversion H; subst. apply m_pieces_sound in E as (s0 & caps' & -> & Hp & Hf & ->).
  apply whole_fin_nil in Hf. subst. rewrite app_nil_r. exact Hp.
Qed.

Theorem whole_match_complete r s caps :
  pmatch (rx_pieces r) s caps -> exists caps', whole_match r s = Some caps'.
Proof.
  intros Hp. unfold whole_match.
  destruct (m_pieces_complete (fun t => fin_of (rx_anch r) t && is_nilb t) _ _ _ Hp [] [])
    as (c & rest & Hc).
  - destruct (rx_anch r); reflexivity.
  - rewrite app_nil_r in Hc. rewrite Hc. eauto.
Qed.

(* a string with exactly one parse is matched with that parse *)
Theorem whole_match_unique r s caps :
  pmatch (rx_pieces r) s caps ->
  (forall caps', pmatch (rx_pieces r) s caps' -> caps' = caps) ->
  whole_match r s = Some caps.
Proof.
  intros Hp Hu. destruct (whole_match_complete _ _ _ Hp) as [c Hc].
  rewrite Hc. f_equal. apply Hu. apply whole_match_sound. exact Hc.
Qed.

(* regex.match (used by DefaultHostMatches) *)
Theorem rx_match_sound r s caps rest :
  rx_match r s = Some (caps, rest) -> rx_accepts r s caps.
Proof.
  unfold rx_match. intros H. apply m_pieces_sound in H as (s0 & caps' & -> & Hp & Hf & ->).
  exists s0, rest. repeat split; assumption.
Qed.

Theorem rx_match_complete r s caps :
  rx_accepts r s caps -> exists caps' rest, rx_match r s = Some (caps', rest).
Proof.
  intros (s0 & tl & -> & Hp & Hf). unfold rx_match. eapply m_pieces_complete; eassumption.
Qed.

(* ------------------------------------------------------------------ *)
(* the boolean whole-string acceptor                                     *)
(* ------------------------------------------------------------------ *)
Lemma acc_rep_iff cs (k : str -> bool) : forall s mn mx,
  acc_rep cs k mn mx s = true <->
  exists w s', s = w ++ s' /\ all_in cs w /\ (mn <= length w)%nat /\ max_le (length w) mx /\ k s' = true.
Proof.
  induction s as [|c s IH]; intros mn mx.
  - simpl. split.
    + destruct mn; [|discriminate]. intros H. exists [], []. repeat split; try constructor; simpl; try lia; try exact H.
      destruct mx; simpl; [lia|exact I].
    + intros (w & s' & E & _ & Hmin & _ & Hk). symmetry in E. apply app_eq_nil in E as [-> ->].
      simpl in Hmin. destruct mn; [exact Hk|lia].
  - simpl. rewrite orb_true_iff, !andb_true_iff, IH. split.
    + intros [H|[[Hc Hok] (w & s' & -> & Hall & Hmin & Hmax & Hk)]].
      * destruct mn; [|discriminate]. exists [], (c :: s). repeat split; try constructor; simpl; try lia; try exact H.
        destruct mx; simpl; [lia|exact I].
      * exists (c :: w), s'. repeat split; try assumption.
        -- constructor; assumption.
        -- simpl. lia.
        -- simpl. apply max_le_step; assumption.
    + intros (w & s' & E & Hall & Hmin & Hmax & Hk). destruct w as [|c' w].
      * left. simpl in E. subst s'. simpl in Hmin. destruct mn; [exact Hk|lia].
      * right. simpl in E. inversion E; subst. inversion Hall; subst. simpl in Hmax.
        apply max_le_unstep in Hmax as [Hok Hmax']. split; [split; assumption|].
        exists w, s'. repeat split; try assumption. simpl in Hmin. lia.
Qed.

Lemma acc_items_iff : forall its s, acc_items its s = true <-> items_lang its s.
Proof.
  induction its as [|it its IH]; intros s.
  - simpl. split.
    + destruct s; [constructor|discriminate].
    + intros H. inversion H. reflexivity.
  - simpl. rewrite acc_rep_iff. split.
    + intros (w & s' & -> & Hall & Hmin & Hmax & Hk). constructor; [repeat split; assumption|apply IH; exact Hk].
    + intros H. inversion H as [|? ? w1 w2 (Hall & Hmin & Hmax) H2]; subst.
      exists w1, w2. repeat split; try assumption. apply IH. exact H2.
Qed.

Lemma items_lang_app : forall a b s,
  items_lang (a ++ b) s <-> exists s1 s2, s = s1 ++ s2 /\ items_lang a s1 /\ items_lang b s2.
Proof.
  induction a as [|it a IH]; intros b s.
  - simpl. split.
    + intros H. exists [], s. repeat split; [constructor|exact H].
    + intros (s1 & s2 & -> & H1 & H2). inversion H1; subst. exact H2.
  - simpl. split.
    + intros H. inversion H as [|? ? w1 w2 Hi H2]; subst. apply IH in H2 as (s1 & s2 & -> & Ha & Hb).
      exists (w1 ++ s1), s2. repeat split; [apply app_assoc|constructor; assumption|exact Hb].
    + intros (s1 & s2 & -> & H1 & H2). inversion H1 as [|? ? w1 w2 Hi Ha]; subst.
      rewrite <- app_assoc. constructor; [exact Hi|]. apply IH. eauto.
Qed.

Lemma flat_items_lang : forall ps s,
  items_lang (flat_items ps) s <-> exists caps, pmatch ps s caps.
Proof.
  induction ps as [|p ps IH]; intros s.
  - simpl. split.
    + intros H. inversion H. exists []. constructor.
    + intros [caps H]. inversion H. constructor.
  - unfold flat_items in *. simpl. rewrite items_lang_app. split.
    + intros (s1 & s2 & -> & H1 & H2). apply IH in H2 as [caps Hc]. destruct p as [it|body].
      * exists caps. constructor; [apply items_lang_single; exact H1|exact Hc].
      * exists (s1 :: caps). constructor; assumption.
    + intros [caps H]. inversion H as [|it ps' w s' caps' Hi Hp|body ps' w s' caps' Hb Hp]; subst.
      * exists w, s'. repeat split; [apply items_lang_single; exact Hi|apply IH; eauto].
      * exists w, s'. repeat split; [exact Hb|apply IH; eauto].
Qed.

(* rx_full decides "the pattern matches the whole string" *)
Theorem rx_full_iff r s : rx_full r s = true <-> rx_whole r s.
Proof. unfold rx_full, rx_whole. rewrite acc_items_iff. apply flat_items_lang. Qed.

(* ... and fullmatch succeeds exactly on those strings *)
Theorem whole_match_iff_full r s :
  (exists caps, whole_match r s = Some caps) <-> rx_full r s = true.
Proof.
  rewrite rx_full_iff. split.
  - intros [caps H]. exists caps. apply whole_match_sound. exact H.
  - intros [caps H]. eapply whole_match_complete. exact H.
Qed.

(* ------------------------------------------------------------------ *)
(* all_parses enumerates the parses                                      *)
(* ------------------------------------------------------------------ *)
Section ParProofs.
  Context {R : Type}.
  Implicit Types k : str -> str -> list R.

  Lemma par_rep_iff cs k r : forall s mn mx acc,
    In r (par_rep cs k mn mx acc s) <->
    exists w s', s = w ++ s' /\ all_in cs w /\ (mn <= length w)%nat /\ max_le (length w) mx /\
                 In r (k (rev w ++ acc) s').
  Proof.
    induction s as [|c s IH]; intros mn mx acc.
    - simpl. split.
      + destruct mn; [|intros []]. intros H. exists [], []. repeat split; try constructor; simpl; try lia; try exact H.
        destruct mx; simpl; [lia|exact I].
      + intros (w & s' & E & _ & Hmin & _ & Hk). symmetry in E. apply app_eq_nil in E as [-> ->].
        simpl in Hmin, Hk. destruct mn; [exact Hk|lia].
    - simpl. rewrite in_app_iff. split.
      + intros [H|H].
        * destruct mn; [|destruct H]. exists [], (c :: s). repeat split; try constructor; simpl; try lia; try exact H.
          destruct mx; simpl; [lia|exact I].
        * destruct (cs_in cs c && max_ok mx) eqn:E; [|destruct H]. apply andb_true_iff in E as [Hc Hok].
          apply IH in H as (w & s' & -> & Hall & Hmin & Hmax & Hk).
          exists (c :: w), s'. repeat split.
          -- constructor; assumption.
          -- simpl. lia.
          -- simpl. apply max_le_step; assumption.
          -- rewrite rev_cons_app. exact Hk.
      + intros (w & s' & E & Hall & Hmin & Hmax & Hk). destruct w as [|c' w].
        * left. simpl in E. subst s'. simpl in Hmin, Hk. destruct mn; [exact Hk|lia].
        * right. simpl in E. inversion E; subst. inversion Hall; subst. simpl in Hmax.
          apply max_le_unstep in Hmax as [Hok Hmax'].
          match goal with |- In _ (if ?b then _ else _) =>
            replace b with true by (symmetry; apply andb_true_iff; split; assumption) end.
          apply IH. exists w, s'. repeat split; try assumption.
          -- simpl in Hmin. lia.
          -- rewrite rev_cons_app in Hk. exact Hk.
  Qed.

  Lemma par_items_iff r : forall its k acc s,
    In r (par_items its k acc s) <->
    exists w s', s = w ++ s' /\ items_lang its w /\ In r (k (rev w ++ acc) s').
  Proof.
    induction its as [|it its IH]; intros k acc s.
    - simpl. split.
      + intros H. exists [], s. repeat split; [constructor|exact H].
      + intros (w & s' & -> & Hl & Hk). inversion Hl; subst. exact Hk.
    - simpl. rewrite par_rep_iff. split.
      + intros (w1 & s1 & -> & Hall & Hmin & Hmax & Hk). apply IH in Hk as (w2 & s2 & -> & Hl & Hk).
        exists (w1 ++ w2), s2. repeat split.
        * rewrite app_assoc. reflexivity.
        * constructor; [repeat split; assumption|exact Hl].
        * rewrite rev_app_distr, <- app_assoc. exact Hk.
      + intros (w & s' & -> & Hl & Hk). inversion Hl as [|? ? w1 w2 (Hall & Hmin & Hmax) H2]; subst.
        exists w1, (w2 ++ s'). repeat split; try assumption.
        * rewrite app_assoc. reflexivity.
        * apply IH. exists w2, s'. repeat split; [exact H2|].
          rewrite rev_app_distr, <- app_assoc in Hk. exact Hk.
  Qed.
End ParProofs.

Lemma par_pieces_iff caps : forall ps done s,
  In caps (par_pieces ps done s) <-> exists caps', pmatch ps s caps' /\ caps = rev done ++ caps'.
Proof.
  induction ps as [|p ps IH]; intros done s.
  - simpl. split.
    + destruct s; [|intros []]. intros [<-|[]]. exists []. split; [constructor|rewrite app_nil_r; reflexivity].
    + intros (caps' & Hp & ->). inversion Hp; subst. left. rewrite app_nil_r. reflexivity.
  - destruct p as [it|body]; cbn [par_pieces].
    + rewrite (par_items_iff caps [it]). split.
      * intros (w & s' & -> & Hl & Hk). apply IH in Hk as (caps' & Hp & ->).
        exists caps'. split; [|reflexivity]. constructor; [apply items_lang_single; exact Hl|exact Hp].
      * intros (caps' & Hp & ->). inversion Hp as [|? ? w s' ? Hi Hp'|]; subst.
        exists w, s'. repeat split; [apply items_lang_single; exact Hi|]. apply IH. eauto.
    + rewrite par_items_iff. split.
      * intros (w & s' & -> & Hl & Hk). apply IH in Hk as (caps' & Hp & ->).
        exists (w :: caps'). split; [constructor; assumption|].
        rewrite app_nil_r, rev_involutive. simpl. rewrite <- app_assoc. reflexivity.
      * intros (caps' & Hp & ->). inversion Hp as [| |? ? w s' c' Hb Hp']; subst.
        exists w, s'. repeat split; [exact Hb|]. apply IH. exists c'. split; [exact Hp'|].
        rewrite app_nil_r, rev_involutive. simpl. rewrite <- app_assoc. reflexivity.
Qed.

Theorem all_parses_iff r s caps : In caps (all_parses r s) <-> pmatch (rx_pieces r) s caps.
Proof.
  unfold all_parses. rewrite par_pieces_iff. simpl. split.
  - intros (c & H & ->). exact H.
  - intros H. eauto.
Qed.

(* a singleton enumeration means fullmatch returns exactly that parse *)
Theorem all_parses_single r s caps : all_parses r s = [caps] -> whole_match r s = Some caps.
Proof.
  intros H. apply whole_match_unique.
  - apply all_parses_iff. rewrite H. left. reflexivity.
  - intros c Hc. apply all_parses_iff in Hc. rewrite H in Hc. destruct Hc as [<-|[]]. reflexivity.
Qed.
