(* C31 — request attributes and the second matcher code path:
   the port of the Host header does not influence routing; precompiled
   patterns keep Pattern.match (prefix / `$`) semantics. *)
From Coq Require Import List NArith Bool Arith Lia.
From TV Require Import Lib.Obs Lib.C21_Utf8 Lib.C21_Pct C31.Model C31.Spec C31.Run
     C31.Proofs1 C31.Proofs2.
Import ListNotations.
Local Open Scope N_scope.

Lemma span58_nocolon : forall a r acc, ~ In 58 a -> span58 (a ++ 58 :: r) acc = Some (rev (rev a ++ acc), r).
Proof.
  induction a as [|c a IH]; intros r acc H; [reflexivity|]. simpl.
  assert (c <> 58) by (intros ->; apply H; left; reflexivity).
  replace (c =? 58) with false by (symmetry; apply N.eqb_neq; assumption).
  rewrite IH by (intros Hin; apply H; right; exact Hin). rewrite <- app_assoc. reflexivity.
Qed.

Lemma span58_none : forall s acc, ~ In 58 s -> span58 s acc = None.
Proof.
  induction s as [|c s IH]; intros acc H; [reflexivity|]. simpl.
  assert (c <> 58) by (intros ->; apply H; left; reflexivity).
  replace (c =? 58) with false by (symmetry; apply N.eqb_neq; assumption).
  apply IH. intros Hin. apply H. right. exact Hin.
Qed.

Lemma digits_no_colon ds : forallb is_digit ds = true -> ~ In 58 ds.
Proof. intros H Hin. rewrite forallb_forall in H. specialize (H 58 Hin). discriminate. Qed.

Lemma lower_digit c : is_digit c = true -> ascii_lower c = c.
Proof.
  unfold is_digit, ascii_lower. intros H. apply andb_true_iff in H as [H1 H2].
  apply N.leb_le in H1, H2. destruct ((65 <=? c) && (c <=? 90)) eqn:E; [|reflexivity].
  apply andb_true_iff in E as [E1 _]. apply N.leb_le in E1. lia.
Qed.

Lemma split_port_strip h ds :
  h <> [] -> ds <> [] -> forallb is_digit ds = true -> split_port (h ++ 58 :: ds) = h.
Proof.
  intros Hh Hd Hdig. unfold split_port. rewrite rev_app_distr. simpl. rewrite <- app_assoc. simpl.
  rewrite span58_nocolon by (rewrite <- in_rev; apply digits_no_colon; exact Hdig).
  rewrite app_nil_r, rev_involutive.
  destruct (rev ds) as [|d ds'] eqn:Er.
  { exfalso. apply Hd. rewrite <- (rev_involutive ds), Er. reflexivity. }
  destruct (rev h) as [|x h'] eqn:Eh.
  { exfalso. apply Hh. rewrite <- (rev_involutive h), Eh. reflexivity. }
  rewrite <- Er, <- Eh.
  assert (forallb is_digit (rev ds) = true) as ->.
  { apply forallb_forall. intros c Hc. rewrite <- in_rev in Hc. rewrite forallb_forall in Hdig. apply Hdig. exact Hc. }
  apply rev_involutive.
Qed.

Lemma map_lower_digits ds : forallb is_digit ds = true -> map ascii_lower ds = ds.
Proof.
  induction ds as [|d ds IH]; [reflexivity|]. simpl. intros H. apply andb_true_iff in H as [Hd Hds].
  rewrite (lower_digit d Hd), (IH Hds). reflexivity.
Qed.

(* Host: name:port is routed exactly like Host: name *)
Theorem host_port_ignored h ds uri x :
  h <> [] -> ds <> [] -> forallb is_digit ds = true ->
  rq_host (mk_request (h ++ 58 :: ds) uri x) = map ascii_lower h.
Proof.
  intros Hh Hd Hdig. simpl. rewrite map_app. simpl map.
  change (ascii_lower 58) with 58. rewrite (map_lower_digits ds Hdig).
  apply split_port_strip; [destruct h; [contradiction|discriminate]|exact Hd|exact Hdig].
Qed.

Theorem host_without_colon h uri x :
  ~ In 58 h -> rq_host (mk_request h uri x) = map ascii_lower h.
Proof.
  intros H. simpl. unfold split_port. rewrite span58_none; [reflexivity|].
  rewrite <- in_rev. intros Hin. apply in_map_iff in Hin as (c & Hc & Hin).
  assert (c = 58); [|subst; exact (H Hin)].
  unfold ascii_lower in Hc. destruct ((65 <=? c) && (c <=? 90)) eqn:E; [|exact Hc].
  apply andb_true_iff in E as [E1 E2]. apply N.leb_le in E1, E2. lia.
Qed.

(* both PathMatches code paths: what "the rule's pattern accepts the path" means *)
Theorem path_matcher_semantics p path :
  (exists args, pm_match p path = MHit args) \/ pm_match p path = MErr <->
  exists caps, pm_parse p path caps.
Proof.
  rewrite <- pm_strict_iff, <- pm_caps_strict. unfold pm_match. split.
  - intros [[args H]|H]; destruct (pm_caps p path) as [caps|]; eauto; discriminate.
  - intros [caps ->]. destruct (map_opt unq caps); eauto.
Qed.

(* a precompiled pattern without `$` is a prefix match; with `$` it also accepts a
   final LF; a string pattern accepts neither *)
Example precompiled_vs_string :
  (forall pm, compile_path_re [47; 98] = Some pm ->
     pm_match pm [47; 98; 120] = MHit [] /\ pm_match pm [47; 98] = MHit []) /\
  (forall pm, compile_path_re [47; 98; 36] = Some pm ->
     pm_match pm [47; 98; 10] = MHit [] /\ pm_match pm [47; 98; 120] = MMiss) /\
  (forall pm, compile_path [47; 98] = Some pm ->
     pm_match pm [47; 98; 10] = MMiss /\ pm_match pm [47; 98; 120] = MMiss).
Proof.
  split; [|split]; intros pm H; vm_compute in H; inversion H; subst; repeat split; vm_compute; reflexivity.
Qed.
