(* C31 — reverse / match round trip on the pattern structure:
   the URL read off a literals-and-groups pattern is matched back by
   PathMatches.match with the same arguments, provided the quoted arguments lie
   in the groups' languages and the parse is unambiguous; a syntactic criterion
   for unambiguity (separator not in the group's character set). *)
From Coq Require Import List NArith Bool Arith Lia.
From TV Require Import Lib.Obs Lib.C21_Utf8 Lib.C21_Pct C31.Model C31.Spec C31.Proofs1 C31.Proofs2.
Import ListNotations.
Local Open Scope N_scope.

Definition bodies (ps : list piece) : list (list item) :=
  flat_map (fun p => match p with PGrp b => [b] | PIt _ => [] end) ps.

(* "arguments representable in its groups" *)
Definition representable (ps : list piece) (args : list (list N)) : Prop :=
  Forall2 (fun b a => items_lang b (quote_arg a)) (bodies ps) args.

Lemma lit_of_inv it c : lit_of it = Some c ->
  exists g, it = mkItem (CChar c) 1 (Some 1%nat) g /\ c <> 40 /\ c <> 41.
Proof.
  destruct it as [cs mn mx g]. destruct cs as [d| |neg rs]; simpl; try discriminate.
  destruct mn as [|[|mn]]; try discriminate. destruct mx as [[|[|mx]]|]; try discriminate.
  destruct ((d =? 40) || (d =? 41)) eqn:E; [discriminate|]. intros H. inversion H; subst.
  apply orb_false_iff in E as [E1 E2]. apply N.eqb_neq in E1, E2. eauto.
Qed.

Lemma item_lang_lit c g : item_lang (mkItem (CChar c) 1 (Some 1%nat) g) [c].
Proof. repeat split; simpl; try lia. constructor; [apply N.eqb_refl|constructor]. Qed.

Lemma item_lang_lit_inv c g w : item_lang (mkItem (CChar c) 1 (Some 1%nat) g) w -> w = [c].
Proof.
  intros (Hall & Hmin & Hmax). simpl in *. destruct w as [|x [|y w]]; simpl in *; try lia.
  inversion Hall as [|? ? Hx _]; subst. simpl in Hx. apply N.eqb_eq in Hx. subst. reflexivity.
Qed.

Lemma spec_url_pmatch : forall ps args u,
  spec_url ps args = Some u -> representable ps args -> pmatch ps u (map quote_arg args).
Proof.
  induction ps as [|p ps IH]; intros args u H Hr.
  - simpl in H. destruct args; [|discriminate]. inversion H. constructor.
  - destruct p as [it|body]; simpl in H.
    + destruct (lit_of it) as [c|] eqn:El; [|discriminate].
      destruct (spec_url ps args) as [u'|] eqn:Eu; [|discriminate]. inversion H; subst.
      apply lit_of_inv in El as (g & -> & _). change (c :: u') with ([c] ++ u').
      constructor; [apply item_lang_lit|]. apply IH; [exact Eu|exact Hr].
    + destruct args as [|a args]; [discriminate|].
      destruct (spec_url ps args) as [u'|] eqn:Eu; [|discriminate]. inversion H; subst.
      unfold representable in Hr. simpl in Hr. inversion Hr as [|? ? ? ? Hb Hr']; subst.
      simpl. constructor; [exact Hb|]. apply IH; [exact Eu|exact Hr'].
Qed.

(* unquote_to_bytes(quote(bytes)) = bytes, via the UTF-8 step of unquote_to_bytes(str) *)
Lemma unq_quote a : bytes a -> unq (quote_arg a) = Some a.
Proof.
  intros Hb. unfold unq, quote_arg.
  rewrite utf8_encode_ascii by (apply quote_ascii; [exact safe_slash_ascii|exact Hb]).
  rewrite unquote_bytes_quote by (try exact safe_slash_not_pct; exact Hb). reflexivity.
Qed.

Lemma map_opt_unq_quote args : Forall bytes args -> map_opt unq (map quote_arg args) = Some args.
Proof.
  induction 1 as [|a l Ha Hl IH]; [reflexivity|]. simpl. rewrite (unq_quote a Ha), IH. reflexivity.
Qed.

(* the round trip at PathMatches level *)
Theorem reverse_match_roundtrip pm args u :
  pm_whole pm = true ->
  spec_url (rx_pieces (pm_rx pm)) args = Some u ->
  Forall bytes args ->
  representable (rx_pieces (pm_rx pm)) args ->
  (forall caps', pmatch (rx_pieces (pm_rx pm)) u caps' -> caps' = map quote_arg args) ->
  pm_match pm u = MHit args.
Proof.
  intros Hw Hu Hb Hr Huniq. unfold pm_match, pm_caps. rewrite Hw.
  rewrite (whole_match_unique (pm_rx pm) u (map quote_arg args)).
  - rewrite map_opt_unq_quote by exact Hb. reflexivity.
  - apply spec_url_pmatch; assumption.
  - exact Huniq.
Qed.

(* ---------- a syntactic criterion for "separators are unambiguous" ---------- *)
(* every group is a single quantified character set, and is either last or
   followed by a literal character outside that set *)
Fixpoint sep_ok (ps : list piece) : Prop :=
  match ps with
  | [] => True
  | PIt _ :: ps' => sep_ok ps'
  | PGrp [it] :: ps' =>
      match ps' with
      | [] => True
      | PIt l :: _ => match lit_of l with Some c => cs_in (it_cs it) c = false | None => False end
      | PGrp _ :: _ => False
      end /\ sep_ok ps'
  | PGrp _ :: _ => False
  end.

Lemma prefix_sep cs c : forall w q s u,
  w ++ c :: s = q ++ c :: u -> all_in cs w -> all_in cs q -> cs_in cs c = false -> w = q /\ s = u.
Proof.
  induction w as [|x w IH]; intros q s u E Hw Hq Hc.
  - destruct q as [|y q]; simpl in E.
    + inversion E. auto.
    + inversion E; subst. inversion Hq; subst. congruence.
  - destruct q as [|y q]; simpl in E.
    + inversion E; subst. inversion Hw; subst. congruence.
    + inversion E; subst. inversion Hw; subst. inversion Hq; subst.
      destruct (IH q s u H1 H3 H5 Hc) as [-> ->]. auto.
Qed.

Lemma quote_all_in it a : items_lang [it] (quote_arg a) -> all_in (it_cs it) (quote_arg a).
Proof. intros H. apply items_lang_single in H. apply H. Qed.

Theorem sep_ok_unique : forall ps args u,
  spec_url ps args = Some u -> representable ps args -> sep_ok ps ->
  forall caps', pmatch ps u caps' -> caps' = map quote_arg args.
Proof.
  induction ps as [|p ps IH]; intros args u H Hr Hs caps' Hp.
  - simpl in H. destruct args; [|discriminate]. inversion Hp. reflexivity.
  - destruct p as [it|body]; simpl in H.
    + destruct (lit_of it) as [c|] eqn:El; [|discriminate].
      destruct (spec_url ps args) as [u'|] eqn:Eu; [|discriminate]. inversion H; subst.
      apply lit_of_inv in El as (g & -> & _).
      inversion Hp as [|? ? w s ? Hi Hp'|]; subst. apply item_lang_lit_inv in Hi. subst w.
      match goal with E : [c] ++ s = c :: u' |- _ => simpl in E; inversion E; subst end.
      eapply IH; eauto.
    + destruct args as [|a args]; [discriminate|].
      destruct (spec_url ps args) as [u'|] eqn:Eu; [|discriminate]. inversion H; subst.
      unfold representable in Hr. simpl in Hr. inversion Hr as [|? ? ? ? Hb Hr']; subst.
      destruct body as [|it [|it2 body]]; simpl in Hs; try contradiction. destruct Hs as [Hnext Hs].
      inversion Hp as [| |? ? w s caps Hw Hp']; subst.
      match goal with E : w ++ s = quote_arg a ++ u' |- _ => rename E into Esplit end.
      assert (Hwq : w = quote_arg a /\ s = u').
      { destruct ps as [|[l|b2] ps'].
        - inversion Hp'; subst. simpl in Eu. destruct args; [|discriminate]. inversion Eu; subst.
          rewrite !app_nil_r in Esplit. auto.
        - destruct (lit_of l) as [c|] eqn:El; [|contradiction].
          simpl in Eu. rewrite El in Eu. destruct (spec_url ps' args) as [u''|]; [|discriminate].
          inversion Eu; subst. apply lit_of_inv in El as (g & -> & _).
          inversion Hp' as [|? ? w2 s2 ? Hi2 Hp2|]; subst. apply item_lang_lit_inv in Hi2. subst w2.
          simpl in Esplit. eapply (prefix_sep (it_cs it) c) in Esplit; eauto.
          + destruct Esplit as [-> ->]. auto.
          + apply items_lang_single in Hw. apply Hw.
          + apply quote_all_in. exact Hb.
        - contradiction. }
      destruct Hwq as [-> ->]. simpl. f_equal. eapply IH; eauto.
Qed.

(* the round trip under the syntactic criterion *)
Theorem reverse_match_roundtrip_sep pm args u :
  pm_whole pm = true ->
  spec_url (rx_pieces (pm_rx pm)) args = Some u ->
  Forall bytes args ->
  representable (rx_pieces (pm_rx pm)) args ->
  sep_ok (rx_pieces (pm_rx pm)) ->
  pm_match pm u = MHit args.
Proof.
  intros Hw Hu Hb Hr Hs. apply reverse_match_roundtrip; try assumption.
  apply sep_ok_unique; assumption.
Qed.
