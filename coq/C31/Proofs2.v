(* C31 — RuleRouter.find_handler / Application.find_handler dispatch to the first
   leaf (depth first) all of whose matchers accept. *)
From Coq Require Import List NArith Bool Arith Lia.
From TV Require Import Lib.Obs Lib.C21_Utf8 Lib.C21_Pct C31.Model C31.Spec C31.Proofs1.
Import ListNotations.
Local Open Scope N_scope.

(* ---------- induction principle for the nested rule type ---------- *)
Section RuleInd.
  Variable P : rule -> Prop.
  Hypothesis Hleaf : forall m n h, P (RLeaf m n h).
  Hypothesis Hnode : forall m n sub, Forall P sub -> P (RNode m n sub).
  Fixpoint rule_ind2 (r : rule) : P r :=
    match r with
    | RLeaf m n h => Hleaf m n h
    | RNode m n sub =>
        Hnode m n sub
          ((fix go (l : list rule) : Forall P l :=
              match l with
              | [] => Forall_nil _
              | x :: l' => Forall_cons _ (rule_ind2 x) (go l')
              end) sub)
    end.
End RuleInd.

(* ---------- unfolding the nested fixpoints ---------- *)
Lemma find_rule_node rq m n sub :
  find_rule rq (RNode m n sub) =
  match m_match m rq with MHit _ => find_rules rq sub | MMiss => FMiss | MErr => FErr end.
Proof.
  simpl. destruct (m_match m rq); try reflexivity.
  induction sub as [|x l IH]; [reflexivity|]. simpl. rewrite IH. reflexivity.
Qed.

Lemma leaves_of_node anc m n sub :
  leaves_of anc (RNode m n sub) = flat_map (leaves_of (anc ++ [m])) sub.
Proof.
  simpl. induction sub as [|x l IH]; [reflexivity|]. simpl. rewrite IH. reflexivity.
Qed.

(* ---------- captures are pieces of the subject ---------- *)
Lemma pmatch_caps_sub : forall ps s caps, pmatch ps s caps ->
  forall cap c, In cap caps -> In c cap -> In c s.
Proof.
  induction 1 as [|it ps w s caps Hi Hp IH|body ps w s caps Hb Hp IH]; intros cap c Hcap Hc.
  - destruct Hcap.
  - apply in_or_app. right. eapply IH; eassumption.
  - apply in_or_app. destruct Hcap as [<-|Hcap]; [left; exact Hc|right; eapply IH; eassumption].
Qed.

Lemma map_opt_some {A B} (f : A -> option B) l :
  (forall x, In x l -> exists y, f x = Some y) -> exists ys, map_opt f l = Some ys.
Proof.
  induction l as [|x l IH]; intros H; [exists []; reflexivity|].
  destruct (H x (or_introl eq_refl)) as [y Hy]. destruct IH as [ys Hys]; [intros z Hz; apply H; right; exact Hz|].
  exists (y :: ys). simpl. rewrite Hy, Hys. reflexivity.
Qed.

Lemma unq_valid s : valid_text s -> exists b, unq s = Some b.
Proof. intros H. unfold unq. destruct (utf8_encode_total s H) as [b ->]. eauto. Qed.

(* what the groups returned by PathMatches' regex call mean *)
Definition pm_parse (p : pathm) (s : str) (caps : list str) : Prop :=
  if pm_whole p then pmatch (rx_pieces (pm_rx p)) s caps else rx_accepts (pm_rx p) s caps.

Lemma pm_caps_sound p s caps : pm_caps p s = Some caps -> pm_parse p s caps.
Proof.
  unfold pm_caps, pm_parse. destruct (pm_whole p).
  - apply whole_match_sound.
  - destruct (rx_match (pm_rx p) s) as [[c rest]|] eqn:E; [|discriminate]. intros H. inversion H; subst.
    eapply rx_match_sound. exact E.
Qed.

Lemma pm_caps_strict p s : (exists caps, pm_caps p s = Some caps) <-> pm_strict p s = true.
Proof.
  unfold pm_caps, pm_strict. destruct (pm_whole p).
  - apply whole_match_iff_full.
  - destruct (rx_match (pm_rx p) s) as [[c rest]|]; split; eauto; try discriminate. intros [c H]. discriminate.
Qed.

Lemma pm_parse_sub p s caps : pm_parse p s caps -> forall cap c, In cap caps -> In c cap -> In c s.
Proof.
  unfold pm_parse. destruct (pm_whole p).
  - apply pmatch_caps_sub.
  - intros (s0 & tl & -> & Hp & _) cap c Hcap Hc. apply in_or_app. left. eapply pmatch_caps_sub; eassumption.
Qed.

Lemma pm_match_no_err p path : valid_text path -> pm_match p path <> MErr.
Proof.
  intros Hv. unfold pm_match. destruct (pm_caps p path) as [caps|] eqn:E; [|discriminate].
  apply pm_caps_sound in E.
  destruct (map_opt_some unq caps) as [ys ->]; [|discriminate].
  intros cap Hcap. apply unq_valid. apply Forall_forall. intros c Hc.
  unfold valid_text in Hv. rewrite Forall_forall in Hv. apply Hv. eapply pm_parse_sub; eassumption.
Qed.

Lemma m_match_no_err rq m : valid_text (rq_path rq) -> m_match m rq <> MErr.
Proof.
  intros Hv. destruct m as [|r|r d|p]; simpl.
  - discriminate.
  - destruct (whole_match r (rq_host rq)); discriminate.
  - destruct (rq_xreal rq); [discriminate|]. destruct (rx_match r d); discriminate.
  - apply pm_match_no_err. exact Hv.
Qed.

(* ---------- find_handler = first accepting leaf ---------- *)
Definition res_of (rq : request) (o : option (list matcher * matcher * N)) : fres :=
  match o with
  | Some (_, m, h) => match m_match m rq with MHit a => FHit h a | _ => FErr end
  | None => FMiss
  end.

Lemma find_app {A} (f : A -> bool) l1 l2 :
  find f (l1 ++ l2) = match find f l1 with Some x => Some x | None => find f l2 end.
Proof. induction l1 as [|x l IH]; [reflexivity|]. simpl. destruct (f x); [reflexivity|exact IH]. Qed.

Lemma res_of_app rq (l1 l2 : list (list matcher * matcher * N)) f :
  res_of rq (find f (l1 ++ l2)) =
  match res_of rq (find f l1) with FMiss => res_of rq (find f l2) | o => o end.
Proof.
  rewrite find_app. destruct (find f l1) as [[[a m] h]|]; [|reflexivity].
  simpl. destruct (m_match m rq); reflexivity.
Qed.

Section FirstMatch.
  Variable rq : request.
  Hypothesis Hne : forall m, m_match m rq <> MErr.

  Definition guarded (anc : list matcher) (x : fres) : fres :=
    if forallb (m_ok rq) anc then x else FMiss.

  Lemma forallb_snoc (f : matcher -> bool) l x : forallb f (l ++ [x]) = forallb f l && f x.
  Proof. rewrite forallb_app. simpl. rewrite andb_true_r. reflexivity. Qed.

  Lemma rules_spec sub :
    Forall (fun r => forall anc, guarded anc (find_rule rq r) = res_of rq (find (leaf_ok rq) (leaves_of anc r))) sub ->
    forall anc, guarded anc (find_rules rq sub) = res_of rq (find (leaf_ok rq) (flat_map (leaves_of anc) sub)).
  Proof.
    induction 1 as [|x l Hx Hl IH]; intros anc.
    - unfold guarded. simpl. destruct (forallb (m_ok rq) anc); reflexivity.
    - simpl. rewrite res_of_app, <- Hx, <- IH. unfold guarded.
      destruct (forallb (m_ok rq) anc); [|reflexivity]. destruct (find_rule rq x); reflexivity.
  Qed.

  Lemma rule_spec : forall r anc,
    guarded anc (find_rule rq r) = res_of rq (find (leaf_ok rq) (leaves_of anc r)).
  Proof.
    induction r as [m n h|m n sub IH] using rule_ind2; intros anc.
    - unfold guarded. simpl. unfold leaf_ok. simpl. unfold m_ok.
      destruct (forallb _ anc); simpl.
      + destruct (m_match m rq) eqn:E; simpl; try reflexivity.
        * exfalso. exact (Hne m E).
        * rewrite E. reflexivity.
      + reflexivity.
    - rewrite find_rule_node, leaves_of_node, <- (rules_spec sub IH (anc ++ [m])).
      unfold guarded. rewrite forallb_snoc.
      destruct (forallb (m_ok rq) anc); simpl; [|reflexivity]. unfold m_ok.
      destruct (m_match m rq) eqn:E; try reflexivity. exfalso. exact (Hne m E).
  Qed.

  Lemma find_rules_spec l :
    find_rules rq l = res_of rq (find (leaf_ok rq) (leaves l)).
  Proof.
    unfold leaves. rewrite <- (rules_spec l); [reflexivity|].
    apply Forall_forall. intros r _. apply rule_spec.
  Qed.
End FirstMatch.

(* ---------- the model's acceptance is whole-string acceptance ---------- *)
Lemma m_ok_strict rq m : valid_text (rq_path rq) -> m_ok rq m = m_strict rq m.
Proof.
  intros Hv. unfold m_ok. destruct m as [|r|r d|p]; simpl.
  - reflexivity.
  - destruct (whole_match r (rq_host rq)) as [caps|] eqn:E.
    + symmetry. apply whole_match_iff_full. eauto.
    + destruct (rx_full r (rq_host rq)) eqn:F; [|reflexivity].
      apply whole_match_iff_full in F as [caps F]. congruence.
  - destruct (rq_xreal rq); [reflexivity|]. simpl. destruct (rx_match r d); reflexivity.
  - pose proof (pm_match_no_err p (rq_path rq) Hv) as Hne. unfold pm_match in *.
    destruct (pm_caps p (rq_path rq)) as [caps|] eqn:E.
    + destruct (map_opt unq caps); [|congruence]. symmetry. apply pm_caps_strict. eauto.
    + destruct (pm_strict p (rq_path rq)) eqn:F; [|reflexivity].
      apply pm_caps_strict in F as [caps F]. congruence.
Qed.

Lemma leaf_ok_strict rq lf : valid_text (rq_path rq) -> leaf_ok rq lf = leaf_strict rq lf.
Proof.
  intros Hv. unfold leaf_ok, leaf_strict. rewrite (m_ok_strict rq _ Hv). f_equal.
  induction (fst (fst lf)) as [|m l IH]; [reflexivity|]. simpl. rewrite IH, (m_ok_strict rq _ Hv). reflexivity.
Qed.

Lemma find_ext {A} (f g : A -> bool) l : (forall x, f x = g x) -> find f l = find g l.
Proof. intros H. induction l as [|x l IH]; [reflexivity|]. simpl. rewrite H, IH. reflexivity. Qed.

Theorem app_find_spec a rq : valid_text (rq_path rq) -> app_find a rq = spec_route a rq.
Proof.
  intros Hv. unfold app_find, spec_route.
  rewrite (find_rules_spec rq (fun m => m_match_no_err rq m Hv)).
  rewrite (find_ext (leaf_ok rq) (leaf_strict rq)) by (intros x; apply leaf_ok_strict; exact Hv).
  destruct (find (leaf_strict rq) (leaves (app_rules a))) as [[[anc m] h]|]; simpl; [|reflexivity].
  destruct (m_match m rq) eqn:E; reflexivity.
Qed.

(* ---------- declarative reading ---------- *)
(* a matcher accepts the request: the pattern matches the WHOLE host name / path *)
Definition m_accepts (rq : request) (m : matcher) : Prop :=
  match m with
  | MAny => True
  | MHost r => rx_whole r (rq_host rq)
  | MDefHost r d => rq_xreal rq = false /\ exists caps, rx_accepts r d caps
  | MPath p =>   (* string pattern: whole path; precompiled pattern: Pattern.match semantics *)
      exists caps, pm_parse p (rq_path rq) caps
  end.

Definition leaf_accepts (rq : request) (lf : list matcher * matcher * N) : Prop :=
  Forall (m_accepts rq) (fst (fst lf)) /\ m_accepts rq (snd (fst lf)).

Lemma pm_strict_iff p s : pm_strict p s = true <-> exists caps, pm_parse p s caps.
Proof.
  unfold pm_strict, pm_parse. destruct (pm_whole p).
  - apply rx_full_iff.
  - split.
    + destruct (rx_match (pm_rx p) s) as [[caps rest]|] eqn:E; [|discriminate]. intros _.
      exists caps. eapply rx_match_sound. exact E.
    + intros [caps H]. apply rx_match_complete in H as (c & rest & ->). reflexivity.
Qed.

Lemma m_strict_iff rq m : m_strict rq m = true <-> m_accepts rq m.
Proof.
  destruct m as [|r|r d|p]; simpl.
  - tauto.
  - apply rx_full_iff.
  - rewrite andb_true_iff, negb_true_iff. split; intros [H1 H2]; (split; [exact H1|]).
    + destruct (rx_match r d) as [[caps rest]|] eqn:E; [|discriminate]. exists caps. eapply rx_match_sound. exact E.
    + destruct H2 as [caps H2]. apply rx_match_complete in H2 as (c & rest & ->). reflexivity.
  - apply pm_strict_iff.
Qed.

Lemma leaf_strict_iff rq lf : leaf_strict rq lf = true <-> leaf_accepts rq lf.
Proof.
  unfold leaf_strict, leaf_accepts. rewrite andb_true_iff, forallb_forall, Forall_forall, m_strict_iff.
  split; intros [H1 H2]; (split; [|exact H2]); intros m Hm; apply m_strict_iff; apply H1; exact Hm.
Qed.

Lemma find_first {A} (f : A -> bool) l1 x l2 :
  (forall y, In y l1 -> f y = false) -> f x = true -> find f (l1 ++ x :: l2) = Some x.
Proof.
  intros H1 Hx. induction l1 as [|y l IH]; simpl.
  - rewrite Hx. reflexivity.
  - rewrite (H1 y (or_introl eq_refl)). apply IH. intros z Hz. apply H1. right. exact Hz.
Qed.

Lemma find_none_all {A} (f : A -> bool) l : (forall y, In y l -> f y = false) -> find f l = None.
Proof.
  induction l as [|y l IH]; intros H; [reflexivity|]. simpl. rewrite (H y (or_introl eq_refl)).
  apply IH. intros z Hz. apply H. right. exact Hz.
Qed.

Lemma not_accepts_false rq lf : ~ leaf_accepts rq lf -> leaf_strict rq lf = false.
Proof. intros H. destruct (leaf_strict rq lf) eqn:E; [|reflexivity]. exfalso. apply H, leaf_strict_iff, E. Qed.

(* path arguments of a leaf: [] unless PathMatches, then the percent-decoded groups *)
Definition leaf_args (rq : request) (m : matcher) (args : list (list N)) : Prop :=
  match m with
  | MPath p =>
      exists caps, pm_parse p (rq_path rq) caps /\
                   pm_caps p (rq_path rq) = Some caps /\
                   map_opt unq caps = Some args
  | _ => args = []
  end.

Lemma m_match_args rq m args : m_match m rq = MHit args -> leaf_args rq m args.
Proof.
  destruct m as [|r|r d|p]; simpl.
  - intros H. inversion H. reflexivity.
  - destruct (whole_match r (rq_host rq)); intros H; inversion H. reflexivity.
  - destruct (rq_xreal rq); [discriminate|]. destruct (rx_match r d); intros H; inversion H. reflexivity.
  - unfold pm_match. destruct (pm_caps p (rq_path rq)) as [caps|] eqn:E; [|discriminate].
    destruct (map_opt unq caps) as [a|] eqn:F; [|discriminate]. intros H. inversion H; subst.
    exists caps. repeat split; try assumption. apply pm_caps_sound. exact E.
Qed.

Theorem first_match_dispatch a rq l1 anc m h l2 :
  valid_text (rq_path rq) ->
  leaves (app_rules a) = l1 ++ (anc, m, h) :: l2 ->
  (forall lf, In lf l1 -> ~ leaf_accepts rq lf) ->
  leaf_accepts rq (anc, m, h) ->
  exists args, app_find a rq = RtHandler h args /\ leaf_args rq m args.
Proof.
  intros Hv Hl Hno Hyes. rewrite (app_find_spec a rq Hv). unfold spec_route. rewrite Hl.
  rewrite (find_first (leaf_strict rq) l1 (anc, m, h) l2).
  - destruct (m_match m rq) as [| |args] eqn:E.
    + exfalso. destruct Hyes as [_ Hm]. simpl in Hm. apply m_strict_iff in Hm.
      rewrite <- (m_ok_strict rq m Hv) in Hm. unfold m_ok in Hm. rewrite E in Hm. discriminate.
    + exfalso. exact (m_match_no_err rq m Hv E).
    + exists args. split; [reflexivity|]. apply m_match_args. exact E.
  - intros y Hy. apply not_accepts_false. apply Hno. exact Hy.
  - apply leaf_strict_iff. exact Hyes.
Qed.

Theorem no_match_default a rq :
  valid_text (rq_path rq) ->
  (forall lf, In lf (leaves (app_rules a)) -> ~ leaf_accepts rq lf) ->
  app_find a rq = if a_default_handler a then RtDefault else RtNotFound.
Proof.
  intros Hv Hno. rewrite (app_find_spec a rq Hv). unfold spec_route.
  rewrite (find_none_all (leaf_strict rq)); [reflexivity|].
  intros y Hy. apply not_accepts_false, Hno, Hy.
Qed.

(* conversely: whatever handler is chosen is the first accepting leaf *)
Theorem dispatch_is_first_match a rq h args :
  valid_text (rq_path rq) ->
  app_find a rq = RtHandler h args ->
  exists l1 anc m l2,
    leaves (app_rules a) = l1 ++ (anc, m, h) :: l2 /\
    (forall lf, In lf l1 -> ~ leaf_accepts rq lf) /\
    leaf_accepts rq (anc, m, h) /\ leaf_args rq m args.
Proof.
  intros Hv H. rewrite (app_find_spec a rq Hv) in H. unfold spec_route in H.
  destruct (find (leaf_strict rq) (leaves (app_rules a))) as [[[anc m] h']|] eqn:F.
  - destruct (m_match m rq) as [| |a'] eqn:E; try discriminate. inversion H; subst.
    assert (G : forall l, find (leaf_strict rq) l = Some (anc, m, h) ->
                exists l1 l2, l = l1 ++ (anc, m, h) :: l2 /\ (forall lf, In lf l1 -> leaf_strict rq lf = false) /\
                              leaf_strict rq (anc, m, h) = true).
    { induction l as [|y l IH]; simpl; [discriminate|]. destruct (leaf_strict rq y) eqn:Ey.
      - intros Hy. inversion Hy; subst. exists [], l. repeat split; [intros lf []|exact Ey].
      - intros Hy. destruct (IH Hy) as (l1 & l2 & -> & H1 & H2). exists (y :: l1), l2. repeat split; [|exact H2].
        intros lf [<-|Hlf]; [exact Ey|apply H1; exact Hlf]. }
    destruct (G _ F) as (l1 & l2 & Hl & H1 & H2).
    exists l1, anc, m, l2. repeat split; try assumption.
    + intros lf Hlf Hacc. apply leaf_strict_iff in Hacc. rewrite (H1 lf Hlf) in Hacc. discriminate.
    + apply leaf_strict_iff in H2. apply H2.
    + apply leaf_strict_iff in H2. apply H2.
    + apply m_match_args. exact E.
  - destruct (a_default_handler a); discriminate.
Qed.
