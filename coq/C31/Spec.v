(* C31 — the property, stated independently of the routing algorithm:
   declarative pattern semantics, the flattened rule table, strict (whole
   string) acceptance, and the boolean forms used by check_case.
   Definitions only. *)
From Coq Require Import List NArith Bool Arith.
From TV Require Import Lib.Obs Lib.C21_Utf8 Lib.C21_Pct C31.Model.
Import ListNotations.
Local Open Scope N_scope.

(* ---------- declarative semantics of patterns ---------- *)
Definition max_le (n : nat) (m : option nat) : Prop :=
  match m with Some k => (n <= k)%nat | None => True end.

(* w is in the language of x{min,max} *)
Definition item_lang (it : item) (w : str) : Prop :=
  Forall (fun c => cs_in (it_cs it) c = true) w /\ (it_min it <= length w)%nat /\ max_le (length w) (it_max it).

Inductive items_lang : list item -> str -> Prop :=
| il_nil : items_lang [] []
| il_cons it its w1 w2 : item_lang it w1 -> items_lang its w2 -> items_lang (it :: its) (w1 ++ w2).

(* the string splits along the pieces; caps = what each group spans *)
Inductive pmatch : list piece -> str -> list str -> Prop :=
| pm_nil : pmatch [] [] []
| pm_it it ps w s caps : item_lang it w -> pmatch ps s caps -> pmatch (PIt it :: ps) (w ++ s) caps
| pm_grp body ps w s caps :
    items_lang body w -> pmatch ps s caps -> pmatch (PGrp body :: ps) (w ++ s) (w :: caps).

(* what Pattern.match accepts: a parsed prefix and a remainder allowed by `$` / its absence *)
Definition rx_accepts (r : regex) (s : str) (caps : list str) : Prop :=
  exists s0 tl, s = s0 ++ tl /\ pmatch (rx_pieces r) s0 caps /\ fin_of (rx_anch r) tl = true.

(* the whole string, nothing else *)
Definition rx_whole (r : regex) (s : str) : Prop := exists caps, pmatch (rx_pieces r) s caps.

(* ---------- all strict parses (list monad) ---------- *)
Section Parses.
  Context {R : Type}.
  Fixpoint par_rep (cs : cset) (k : str -> str -> list R) (min : nat) (max : option nat)
           (acc : str) (s : str) {struct s} : list R :=
    match s with
    | [] => match min with O => k acc [] | S _ => [] end
    | c :: s' =>
        (match min with O => k acc s | S _ => [] end)
        ++ (if cs_in cs c && max_ok max then par_rep cs k (pred min) (max_dec max) (c :: acc) s' else [])
    end.
  Fixpoint par_items (its : list item) (k : str -> str -> list R) (acc s : str) : list R :=
    match its with
    | [] => k acc s
    | it :: its' => par_rep (it_cs it) (fun a s' => par_items its' k a s') (it_min it) (it_max it) acc s
    end.
End Parses.

Fixpoint par_pieces (ps : list piece) (done : list str) (s : str) : list (list str) :=
  match ps with
  | [] => match s with [] => [rev done] | _ => [] end
  | PIt it :: ps' => par_items [it] (fun _ s' => par_pieces ps' done s') [] s
  | PGrp body :: ps' => par_items body (fun a s' => par_pieces ps' (rev a :: done) s') [] s
  end.
Definition all_parses (r : regex) (s : str) : list (list str) := par_pieces (rx_pieces r) [] s.

(* ---------- the flattened rule table ---------- *)
(* depth-first list of leaves with the matchers on the way down (outermost first) *)
Fixpoint leaves_of (anc : list matcher) (r : rule) : list (list matcher * matcher * N) :=
  match r with
  | RLeaf m _ h => [(anc, m, h)]
  | RNode m _ sub =>
      (fix go (l : list rule) : list (list matcher * matcher * N) :=
         match l with
         | [] => []
         | x :: l' => leaves_of (anc ++ [m]) x ++ go l'
         end) sub
  end.
Definition leaves (l : list rule) : list (list matcher * matcher * N) :=
  flat_map (leaves_of []) l.

(* a string pattern must match the whole path; a precompiled one is used with Pattern.match *)
Definition pm_strict (p : pathm) (path : str) : bool :=
  if pm_whole p then rx_full (pm_rx p) path
  else match rx_match (pm_rx p) path with Some _ => true | None => false end.

(* strict acceptance: the matcher's pattern matches the whole host / path *)
Definition m_strict (rq : request) (m : matcher) : bool :=
  match m with
  | MAny => true
  | MHost r => rx_full r (rq_host rq)
  | MDefHost r d =>   (* configuration constant, not the request: the code's own test *)
      negb (rq_xreal rq) && match rx_match r d with Some _ => true | None => false end
  | MPath p => pm_strict p (rq_path rq)
  end.

Definition leaf_strict (rq : request) (lf : list matcher * matcher * N) : bool :=
  forallb (m_strict rq) (fst (fst lf)) && m_strict rq (snd (fst lf)).

(* what the model's matchers accept (used in the first-match theorem) *)
Definition m_ok (rq : request) (m : matcher) : bool :=
  match m_match m rq with MHit _ => true | _ => false end.
Definition leaf_ok (rq : request) (lf : list matcher * matcher * N) : bool :=
  forallb (m_ok rq) (fst (fst lf)) && m_ok rq (snd (fst lf)).

(* keyword names of the leaf that find_handler picks (None: positional path_args) *)
Definition hit_kw (a : app) (rq : request) : option (list str) :=
  match find (leaf_ok rq) (leaves (app_rules a)) with
  | Some (_, MPath p, _) => kw_names (pm_names p)
  | _ => None
  end.

(* expected outcome: first strictly accepting leaf, arguments = percent-decoded
   captures of that leaf's own pattern *)
Definition spec_route (a : app) (rq : request) : route :=
  match find (leaf_strict rq) (leaves (app_rules a)) with
  | Some (_, m, h) =>
      match m_match m rq with MHit args => RtHandler h args | _ => RtError end
  | None => if a_default_handler a then RtDefault else RtNotFound
  end.

(* ---------- reverse_url: which rule a name denotes ---------- *)
Fixpoint lookup_rule (name : str) (r : rule) : option rule :=
  match r with
  | RLeaf _ _ _ => None
  | RNode _ _ sub =>
      match find_last_named sub name with
      | Some x => Some x
      | None =>
          (fix go (l : list rule) : option rule :=
             match l with
             | [] => None
             | x :: l' => match lookup_rule name x with Some v => Some v | None => go l' end
             end) sub
      end
  end.

(* the expected URL, read off the pattern's structure: literal characters stay,
   group i becomes quote(arg i).  None when a top-level piece is not a plain
   literal character (or is a parenthesis) or the argument count is wrong. *)
Definition lit_of (it : item) : option N :=
  match it with
  | mkItem (CChar c) 1%nat (Some 1%nat) _ =>
      if (c =? 40) || (c =? 41) then None else Some c   (* "\(" makes _find_groups give up *)
  | _ => None
  end.

Fixpoint spec_url (ps : list piece) (args : list (list N)) : option str :=
  match ps with
  | [] => match args with [] => Some [] | _ => None end
  | PIt it :: ps' =>
      match lit_of it, spec_url ps' args with
      | Some c, Some u => Some (c :: u)
      | _, _ => None
      end
  | PGrp _ :: ps' =>
      match args with
      | a :: args' => match spec_url ps' args' with Some u => Some (quote_arg a ++ u) | None => None end
      | [] => None
      end
  end.

Definition is_bytes (l : list N) : bool := forallb (fun b => b <? 256) l.

(* ---------- plainly written patterns ---------- *)
(* a pattern text made of plain literal characters, backslash-escaped literals and
   unnested groups; [plain_segs] recognises such texts *)
Inductive seg := SLit (c : N) (esc : bool) | SGrp (body : str) (items : list item).

Definition lit_item (c : N) : item := mkItem (CChar c) 1 (Some 1%nat) true.
Definition seg_text (sg : seg) : str :=
  match sg with
  | SLit c false => [c]
  | SLit c true => [92; c]
  | SGrp b _ => 40 :: b ++ [41]
  end.
Definition pat_text (segs : list seg) : str := flat_map seg_text segs.
Definition seg_piece (sg : seg) : piece :=
  match sg with SLit c _ => PIt (lit_item c) | SGrp _ its => PGrp its end.

(* characters with a meaning in `re` syntax *)
Definition is_special (c : N) : bool :=
  existsb (N.eqb c) [92; 46; 94; 36; 42; 43; 63; 123; 125; 91; 93; 124; 40; 41].

Definition items_of (ts : list token) : option (list item) :=
  map_opt (fun t => match t with TItem i => Some i | _ => None end) ts.

Inductive pmode := PTop | PEsc | PBody (b : str).

Fixpoint plain_scan (s : str) (mode : pmode) (acc : list seg) : option (list seg) :=
  match s with
  | [] => match mode with PTop => Some (rev acc) | _ => None end
  | c :: r =>
      match mode with
      | PTop =>
          if c =? 92 then plain_scan r PEsc acc
          else if c =? 40 then plain_scan r (PBody []) acc
          else if is_special c then None
          else plain_scan r PTop (SLit c false :: acc)
      | PEsc =>
          if is_alnum c || (c =? 40) || (c =? 41) then None
          else plain_scan r PTop (SLit c true :: acc)
      | PBody b =>
          if c =? 41 then
            match lexf (rev b) with
            | Some ts =>
                match items_of ts with
                | Some its => plain_scan r PTop (SGrp (rev b) its :: acc)
                | None => None
                end
            | None => None
            end
          else if c =? 40 then None
          else plain_scan r (PBody (c :: b)) acc
      end
  end.
Definition plain_segs (t : str) : option (list seg) := plain_scan t PTop [].

(* scope of the round trip: [name] denotes a leaf with a plainly written
   literal-plus-groups path pattern; byte-string arguments; for the expected URL
   the first strictly accepting leaf has that handler and its pattern parses the
   path in exactly one way, the groups spanning the quoted arguments
   ("representable", "unambiguous", not shadowed) *)
Definition caps_eqb (a b : list str) : bool := list_eqb (list_eqb N.eqb) a b.

Definition roundtrip_expect (a : app) (name : str) (args : list (list N)) (host : str)
  : option (str * N) :=
  match lookup_rule name (RNode MAny None (app_rules a)) with
  | Some (RLeaf (MPath p) _ h) =>
      if match plain_segs (pm_text p) with Some _ => pm_whole p && forallb is_bytes args | None => false end then
        match spec_url (rx_pieces (pm_rx p)) args with
        | Some u =>
            let rq := mk_request host u false in
            if negb (forallb is_scalar (rq_path rq)) then None else
            match find (leaf_strict rq) (leaves (app_rules a)) with
            | Some (_, MPath p', h') =>
                match all_parses (pm_rx p') (rq_path rq) with
                | [caps] =>
                    if pm_whole p' && (h' =? h) && caps_eqb caps (map quote_arg args) then Some (u, h) else None
                | _ => None
                end
            | _ => None
            end
        | None => None
        end
      else None
  | _ => None
  end.
