(* C31 — named groups: (?P<name>...) groups are passed by keyword when ALL groups
   are named; a mixture of named and unnamed groups (or a repeated name) is refused
   at construction; names and captures agree in number. *)
From Coq Require Import List NArith Bool Arith Lia.
From TV Require Import Lib.Obs Lib.C21_Utf8 Lib.C21_Pct C31.Model C31.Spec C31.Run
     C31.Proofs1 C31.Proofs2 C31.Proofs3.
Import ListNotations.
Local Open Scope N_scope.

(* ---------- mixed / repeated names are refused ---------- *)
Lemma all_some_none {A} (l : list (option A)) : In None l -> all_some l = None.
Proof.
  induction l as [|o l IH]; intros H; [destruct H|]. destruct o as [x|]; simpl; [|reflexivity].
  destruct H as [H|H]; [discriminate|]. rewrite (IH H). reflexivity.
Qed.

Lemma forallb_none_some {A} (l : list (option A)) n : In (Some n) l -> forallb is_none l = false.
Proof.
  induction l as [|o l IH]; intros H; [destruct H|]. destruct o as [x|]; simpl; [reflexivity|].
  destruct H as [H|H]; [discriminate|]. apply IH. exact H.
Qed.

Theorem mixed_groups_refused pat n :
  In (Some n) (pat_names (add_dollar pat)) -> In None (pat_names (add_dollar pat)) ->
  compile_path pat = None.
Proof.
  intros Hs Hn. unfold compile_path. destruct (rx_parse (add_dollar pat)); [|reflexivity].
  unfold names_okb. rewrite (forallb_none_some _ n Hs), (all_some_none _ Hn). reflexivity.
Qed.

(* ---------- as many names as groups ---------- *)
Lemma count_groups_rev ps : count_groups (rev ps) = count_groups ps.
Proof.
  unfold count_groups. induction ps as [|p ps IH]; [reflexivity|]. simpl.
  rewrite filter_app, app_length, IH. simpl. destruct p; simpl; lia.
Qed.

Lemma names_of_open_len r : length (names_of (TOpen :: r)) = S (length (names_of r)).
Proof. destruct r as [|[i| | | |n] r]; reflexivity. Qed.

Lemma build_names_len : forall ts grp done ps a,
  build ts grp done = Some (ps, a) ->
  count_groups ps =
  (length (names_of ts) + count_groups done + match grp with Some _ => 1 | None => 0 end)%nat.
Proof.
  induction ts as [|t ts IH]; intros grp done ps a H.
  - simpl in H. destruct grp; [discriminate|]. inversion H; subst. rewrite count_groups_rev. simpl. lia.
  - destruct t as [it| | | |n].
    + simpl in H. destruct grp as [g|]; apply IH in H; rewrite H; unfold count_groups; simpl; lia.
    + rewrite names_of_open_len. simpl in H. destruct grp; [discriminate|]. apply IH in H. rewrite H. lia.
    + simpl in H. destruct grp as [g|]; [|discriminate]. apply IH in H. rewrite H. unfold count_groups. simpl. lia.
    + simpl in H. destruct ts; [|discriminate]. destruct grp; [discriminate|]. inversion H; subst.
      rewrite count_groups_rev. simpl. lia.
    + simpl in H. apply IH in H. rewrite H. reflexivity.
Qed.

Lemma parse_names_len pat rx : rx_parse pat = Some rx -> length (pat_names pat) = count_groups (rx_pieces rx).
Proof.
  unfold rx_parse, pat_names. destruct (lexf (strip_caret pat)) as [ts|]; [|discriminate].
  destruct (build ts None []) as [[ps a]|] eqn:E; [|discriminate]. intros H. inversion H; subst. simpl.
  apply build_names_len in E. rewrite E. unfold count_groups. simpl. lia.
Qed.

Lemma pmatch_caps_len : forall ps s caps, pmatch ps s caps -> length caps = count_groups ps.
Proof.
  induction 1 as [|it ps w s caps _ _ IH|body ps w s caps _ _ IH]; [reflexivity| |].
  - unfold count_groups in *. simpl. exact IH.
  - unfold count_groups in *. simpl. f_equal. exact IH.
Qed.

Lemma map_opt_len {A B} (f : A -> option B) l : forall l', map_opt f l = Some l' -> length l' = length l.
Proof.
  induction l as [|x l IH]; intros l' H; simpl in H.
  - inversion H. reflexivity.
  - destruct (f x); [|discriminate]. destruct (map_opt f l) as [ys|]; [|discriminate]. inversion H; subst.
    simpl. f_equal. apply IH. reflexivity.
Qed.

Lemma all_some_len {A} (l : list (option A)) : forall xs, all_some l = Some xs -> length xs = length l.
Proof.
  induction l as [|o l IH]; intros xs H; simpl in H.
  - inversion H. reflexivity.
  - destruct o as [x|]; [|discriminate].
    destruct (all_some l) as [ys|]; [|discriminate]. inversion H; subst. simpl. f_equal. apply IH. reflexivity.
Qed.

(* a matcher built by PathMatches(...) from text, string or precompiled *)
Definition built (p : pathm) : Prop :=
  exists pat, compile_path pat = Some p \/ compile_path_re pat = Some p.

Lemma built_names_len p : built p -> length (pm_names p) = count_groups (rx_pieces (pm_rx p)).
Proof.
  intros [pat [H|H]].
  - unfold compile_path in H. destruct (rx_parse (add_dollar pat)) as [rx|] eqn:E; [|discriminate].
    destruct (names_okb _); [|discriminate]. inversion H; subst. simpl. apply parse_names_len. exact E.
  - unfold compile_path_re in H. destruct (rx_parse pat) as [rx|] eqn:E; [|discriminate].
    destruct (names_okb _); [|discriminate]. inversion H; subst. simpl. apply parse_names_len. exact E.
Qed.

(* every capture gets exactly one name: the keyword list pairs up with the values *)
Theorem named_captures_pair_up p path args ns :
  built p -> pm_match p path = MHit args -> kw_names (pm_names p) = Some ns ->
  length ns = length args /\
  exists caps, pm_parse p path caps /\ map_opt unq caps = Some args /\
               map fst (combine ns args) = ns /\ map snd (combine ns args) = args.
Proof.
  intros Hb Hm Hk. unfold pm_match in Hm. destruct (pm_caps p path) as [caps|] eqn:Ec; [|discriminate].
  destruct (map_opt unq caps) as [a|] eqn:Eu; [|discriminate]. inversion Hm; subst.
  pose proof (pm_caps_sound _ _ _ Ec) as Hp.
  assert (Hlen : length ns = length args).
  { unfold kw_names in Hk. destruct (forallb is_none (pm_names p)); [discriminate|].
    rewrite (all_some_len _ _ Hk), (built_names_len p Hb), (map_opt_len _ _ _ Eu).
    unfold pm_parse in Hp. destruct (pm_whole p).
    - symmetry. eapply pmatch_caps_len. exact Hp.
    - destruct Hp as (s0 & tl & _ & Hp & _). symmetry. eapply pmatch_caps_len. exact Hp. }
  split; [exact Hlen|]. exists caps. repeat split; try assumption.
  - clear -Hlen. revert args Hlen. induction ns as [|n ns IH]; intros [|x args] H; simpl in *; try discriminate; try reflexivity.
    f_equal. apply IH. lia.
  - clear -Hlen. revert args Hlen. induction ns as [|n ns IH]; intros [|x args] H; simpl in *; try discriminate; try reflexivity.
    f_equal. apply IH. lia.
Qed.

(* dispatch: the first matching leaf's groups go by keyword iff its pattern names them *)
Theorem named_dispatch a rq l1 anc p h l2 :
  valid_text (rq_path rq) ->
  leaves (app_rules a) = l1 ++ (anc, MPath p, h) :: l2 ->
  (forall lf, In lf l1 -> ~ leaf_accepts rq lf) ->
  leaf_accepts rq (anc, MPath p, h) ->
  exists args, app_find a rq = RtHandler h args /\ leaf_args rq (MPath p) args /\
               hit_kw a rq = kw_names (pm_names p) /\
               route_obs_at a rq (app_find a rq) = route_obs (kw_names (pm_names p)) (RtHandler h args).
Proof.
  intros Hv Hl Hno Hyes.
  destruct (first_match_dispatch a rq l1 anc (MPath p) h l2 Hv Hl Hno Hyes) as (args & Hf & Ha).
  assert (Hk : hit_kw a rq = kw_names (pm_names p)).
  { unfold hit_kw. rewrite (find_ext (leaf_ok rq) (leaf_strict rq)) by (intros x; apply leaf_ok_strict; exact Hv).
    rewrite Hl, (find_first (leaf_strict rq) l1 (anc, MPath p, h) l2); [reflexivity| |].
    - intros y Hy. apply not_accepts_false. apply Hno. exact Hy.
    - apply leaf_strict_iff. exact Hyes. }
  exists args. repeat split; try assumption. unfold route_obs_at. rewrite Hk, Hf. reflexivity.
Qed.

(* reverse / match round trip for a named-group pattern with an empty capture:
   /u/ then a group named id of one or more digits, /, then a group named tag of zero or more lower-case letters *)
Definition named_pat : str :=
  [47;117;47;40;63;80;60;105;100;62;91;48;45;57;93;43;41;47;40;63;80;60;116;97;103;62;91;97;45;122;93;42;41].

Example named_roundtrip :
  exists pm, compile_path named_pat = Some pm /\
    kw_names (pm_names pm) = Some [[105;100]; [116;97;103]] /\
    pm_reverse pm [[55]; []] = RvOk [47;117;47;55;47] /\
    pm_match pm [47;117;47;55;47] = MHit [[55]; []] /\
    sep_ok (rx_pieces (pm_rx pm)) /\ pm_whole pm = true.
Proof. eexists. split; [vm_compute; reflexivity|]. repeat split; vm_compute; auto. Qed.

Example mixed_refused : compile_path [47;40;63;80;60;97;62;120;41;47;40;121;41] = None.
Proof. vm_compute. reflexivity. Qed.
