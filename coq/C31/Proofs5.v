(* C31 — from pattern TEXT to structure: for every pattern written as plain or
   backslash-escaped literal characters and groups, PathMatches(pattern) parses to
   the corresponding pieces, and the textual _find_groups / % formatting of
   reverse() produce exactly the URL read off the structure (spec_url).
   This is where the '%' -> '%%' escaping of fix 780da8f and the escaped-dollar
   handling of bb257ac are needed. *)
From Coq Require Import List NArith Bool Arith Lia.
From TV Require Import Lib.Obs Lib.C21_Utf8 Lib.C21_Pct C31.Model C31.Spec
     C31.Proofs1 C31.Proofs2 C31.Proofs3 C31.Proofs4.
Import ListNotations.
Local Open Scope N_scope.

Definition seg_toks (sg : seg) : list token :=
  match sg with SLit c _ => [TItem (lit_item c)] | SGrp _ its => TOpen :: map TItem its ++ [TClose] end.

(* plain literal: not special; escaped literal: not alphanumeric (and not a
   parenthesis, which _find_groups cannot cope with); group body: lexes to items
   and contains no parenthesis character *)
Definition seg_ok (sg : seg) : Prop :=
  match sg with
  | SLit c false => is_special c = false
  | SLit c true => is_alnum c = false /\ c <> 40 /\ c <> 41
  | SGrp b its => ~ In 40 b /\ ~ In 41 b /\ lexf b = Some (map TItem its)
  end.

Lemma special_false c : is_special c = false ->
  (c =? 92) = false /\ (c =? 46) = false /\ (c =? 94) = false /\ (c =? 36) = false /\
  (c =? 42) = false /\ (c =? 43) = false /\ (c =? 63) = false /\ (c =? 123) = false /\
  (c =? 125) = false /\ (c =? 91) = false /\ (c =? 93) = false /\ (c =? 124) = false /\
  (c =? 40) = false /\ (c =? 41) = false.
Proof.
  unfold is_special. simpl. intros H.
  repeat (apply orb_false_iff in H as [? H]). repeat split; assumption.
Qed.

(* ------------------------------------------------------------------ *)
(* lexer                                                                 *)
(* ------------------------------------------------------------------ *)
Lemma lex_run_app a : forall b st,
  lex_run (a ++ b) st =
  let '(st1, e1) := lex_run a st in let '(st2, e2) := lex_run b st1 in (st2, e1 ++ e2).
Proof.
  induction a as [|c a IH]; intros b st; simpl.
  - destruct (lex_run b st). reflexivity.
  - destruct (lex_step st c) as [st1 e1]. rewrite IH.
    destruct (lex_run a st1) as [st2 e2]. destruct (lex_run b st2) as [st3 e3].
    rewrite app_assoc. reflexivity.
Qed.

Lemma lex_run_fail s : lex_run s LFail = (LFail, []).
Proof. induction s as [|c s IH]; [reflexivity|]. simpl. rewrite IH. reflexivity. Qed.

Lemma top_step_flush p c st e :
  top_step P0 c = (st, e) -> st <> LFail -> top_step p c = (st, flush p ++ e).
Proof.
  unfold top_step. intros H Hne.
  repeat match type of H with
         | (if ?b then _ else _) = _ =>
             destruct b;
             [ first [ (inversion H; subst; congruence)
                     | (inversion H; subst; rewrite ?app_nil_r; reflexivity) ] | ]
         end.
  inversion H; subst. rewrite app_nil_r. reflexivity.
Qed.

Lemma lexf_nil : lexf [] = Some [].
Proof. reflexivity. Qed.

Lemma lexf_app a b ta tb :
  lexf a = Some ta -> lexf b = Some tb -> lexf (a ++ b) = Some (ta ++ tb).
Proof.
  unfold lexf. rewrite lex_run_app. destruct (lex_run a (LTop P0)) as [sa ea].
  destruct sa as [p| | | | | | | | | |]; try discriminate. intros Ha. inversion Ha; subst. clear Ha.
  destruct b as [|c b].
  - simpl. intros Hb. inversion Hb; subst. rewrite !app_nil_r. reflexivity.
  - cbn [lex_run lex_step].
    destruct (top_step P0 c) as [s1 e1] eqn:E1.
    destruct (lex_run b s1) as [s2 e2] eqn:E2.
    destruct s2 as [p2| | | | | | | | | |]; try discriminate. intros Hb. inversion Hb; subst. clear Hb.
    assert (Hne : s1 <> LFail) by (intros ->; rewrite lex_run_fail in E2; discriminate).
    rewrite (top_step_flush p c s1 e1 E1 Hne), E2. f_equal.
    repeat rewrite <- app_assoc. reflexivity.
Qed.

Lemma lexf_plain c : is_special c = false -> lexf [c] = Some [TItem (lit_item c)].
Proof.
  intros H. apply special_false in H.
  destruct H as (H92 & H46 & H94 & H36 & H42 & H43 & H63 & H123 & H125 & H91 & H93 & H124 & H40 & H41).
  unfold lexf. cbn [lex_run lex_step]. unfold top_step.
  rewrite H42, H43, H63, H123, H92, H46, H91, H40, H41, H36, H94, H93, H125, H124. reflexivity.
Qed.

Lemma alnum_not_d c : is_alnum c = false -> (c =? 100) = false.
Proof. intros H. destruct (c =? 100) eqn:E; [|reflexivity]. apply N.eqb_eq in E. subst. discriminate. Qed.

Lemma lexf_escaped c : is_alnum c = false -> lexf [92; c] = Some [TItem (lit_item c)].
Proof.
  intros H. unfold lexf. cbn [lex_run lex_step]. unfold top_step. simpl.
  rewrite (alnum_not_d c H), H. reflexivity.
Qed.

Lemma lexf_segs segs : Forall seg_ok segs -> lexf (pat_text segs) = Some (flat_map seg_toks segs).
Proof.
  induction 1 as [|sg segs Hsg _ IH]; [reflexivity|].
  unfold pat_text in *. cbn [flat_map]. apply lexf_app; [|exact IH].
  destruct sg as [c [|]|b its]; simpl in Hsg |- *.
  - apply lexf_escaped. apply Hsg.
  - apply lexf_plain. exact Hsg.
  - destruct Hsg as (_ & _ & Hb).
    change (40 :: b ++ [41]) with ([40] ++ b ++ [41]).
    change (TOpen :: map TItem its ++ [TClose]) with ([TOpen] ++ map TItem its ++ [TClose]).
    apply lexf_app; [reflexivity|]. apply lexf_app; [exact Hb|reflexivity].
Qed.

(* ------------------------------------------------------------------ *)
(* builder                                                               *)
(* ------------------------------------------------------------------ *)
Lemma build_grp : forall its g rest done,
  build (map TItem its ++ TClose :: rest) (Some g) done = build rest None (PGrp (rev g ++ its) :: done).
Proof.
  induction its as [|it its IH]; intros g rest done.
  - simpl. rewrite app_nil_r. reflexivity.
  - simpl. rewrite IH. simpl. rewrite <- app_assoc. reflexivity.
Qed.

Lemma build_segs : forall segs done rest,
  build (flat_map seg_toks segs ++ rest) None done = build rest None (rev (map seg_piece segs) ++ done).
Proof.
  induction segs as [|sg segs IH]; intros done rest; [reflexivity|].
  destruct sg as [c e|b its].
  - simpl. rewrite IH. rewrite <- app_assoc. reflexivity.
  - cbn [flat_map seg_toks map seg_piece].
    rewrite <- app_assoc.
    change ((TOpen :: map TItem its ++ [TClose]) ++ ?x) with (TOpen :: ((map TItem its ++ [TClose]) ++ x)).
    rewrite <- app_assoc. change ([TClose] ++ ?x) with (TClose :: x).
    change (build (TOpen :: ?r) None done) with (build r (Some []) done).
    rewrite build_grp, IH. simpl. rewrite <- app_assoc. reflexivity.
Qed.

(* ------------------------------------------------------------------ *)
(* _find_groups on the text                                              *)
(* ------------------------------------------------------------------ *)
Record fd := mkFd { fd_grp : option str; fd_lits : list (N * bool) }.

Definition lit_text (l : N * bool) : str := if snd l then [92; fst l] else [fst l].
Definition lits_text (ls : list (N * bool)) : str := flat_map lit_text ls.
Definition lit_ok (l : N * bool) : Prop :=
  if snd l then is_alnum (fst l) = false /\ fst l <> 40 /\ fst l <> 41 else is_special (fst l) = false.

Definition fd_text (f : fd) : str :=
  match fd_grp f with Some b => b ++ [41] | None => [] end ++ lits_text (fd_lits f).
Definition fd_tpl (f : fd) : str :=
  match fd_grp f with Some _ => [37; 115] | None => [] end ++ esc_pct (map fst (fd_lits f)).
Definition fd_ok (f : fd) : Prop :=
  match fd_grp f with Some b => ~ In 41 b | None => True end /\ Forall lit_ok (fd_lits f).

Fixpoint frags_of (f : fd) (segs : list seg) : list fd :=
  match segs with
  | [] => [f]
  | SLit c e :: r => frags_of (mkFd (fd_grp f) (fd_lits f ++ [(c, e)])) r
  | SGrp b _ :: r => f :: frags_of (mkFd (Some b) []) r
  end.

Lemma split_on_nosep d : forall a cur s,
  ~ In d a -> split_on d cur (a ++ s) = split_on d (rev a ++ cur) s.
Proof.
  induction a as [|c a IH]; intros cur s H; [reflexivity|].
  simpl. assert (c <> d) by (intros ->; apply H; left; reflexivity).
  replace (c =? d) with false by (symmetry; apply N.eqb_neq; assumption).
  rewrite IH by (intros Hin; apply H; right; exact Hin).
  rewrite <- app_assoc. reflexivity.
Qed.

Lemma seg_text_lit c e : seg_text (SLit c e) = lit_text (c, e).
Proof. destruct e; reflexivity. Qed.

Lemma lit_no_40 c e : seg_ok (SLit c e) -> ~ In 40 (seg_text (SLit c e)).
Proof.
  destruct e; simpl.
  - intros (_ & H40 & _) [H|[H|[]]]; [discriminate|congruence].
  - intros H. apply special_false in H. intros [E|[]]. subst. decompose [and] H. discriminate.
Qed.

Lemma split_frags : forall segs f, Forall seg_ok segs ->
  split_on 40 (rev (fd_text f)) (pat_text segs) = map fd_text (frags_of f segs).
Proof.
  induction segs as [|sg segs IH]; intros f Hok.
  - simpl. rewrite rev_involutive. reflexivity.
  - inversion Hok as [|? ? Hsg Hsegs]; subst. unfold pat_text. cbn [flat_map]. fold (pat_text segs).
    destruct sg as [c e|b its].
    + rewrite split_on_nosep by (apply lit_no_40; exact Hsg).
      rewrite <- rev_app_distr. cbn [frags_of].
      rewrite <- IH by exact Hsegs. f_equal. f_equal.
      rewrite seg_text_lit. unfold fd_text, lits_text. cbn [fd_grp fd_lits].
      rewrite flat_map_app. cbn [flat_map]. rewrite app_nil_r, app_assoc. reflexivity.
    + destruct Hsg as (H40 & H41 & _). cbn [seg_text frags_of map].
      change ((40 :: b ++ [41]) ++ pat_text segs) with (40 :: ((b ++ [41]) ++ pat_text segs)).
      cbn [split_on]. rewrite N.eqb_refl, rev_involutive. f_equal.
      rewrite split_on_nosep.
      * rewrite app_nil_r. rewrite <- (IH (mkFd (Some b) []) Hsegs). f_equal. f_equal.
        unfold fd_text. simpl. rewrite app_nil_r. reflexivity.
      * intros Hin. apply in_app_or in Hin as [Hin|[Hin|[]]]; [exact (H40 Hin)|discriminate].
Qed.

Lemma after_close_none s : ~ In 41 s -> after_close s = None.
Proof.
  induction s as [|c s IH]; intros H; [reflexivity|]. simpl.
  assert (c <> 41) by (intros ->; apply H; left; reflexivity).
  replace (c =? 41) with false by (symmetry; apply N.eqb_neq; assumption).
  apply IH. intros Hin. apply H. right. exact Hin.
Qed.

Lemma after_close_app b r : ~ In 41 b -> after_close (b ++ 41 :: r) = Some r.
Proof.
  induction b as [|c b IH]; intros H; [reflexivity|]. simpl.
  assert (c <> 41) by (intros ->; apply H; left; reflexivity).
  replace (c =? 41) with false by (symmetry; apply N.eqb_neq; assumption).
  apply IH. intros Hin. apply H. right. exact Hin.
Qed.

Lemma lits_no_41 ls : Forall lit_ok ls -> ~ In 41 (lits_text ls).
Proof.
  induction 1 as [|[c e] ls Hl _ IH]; [intros []|].
  unfold lits_text. cbn [flat_map]. intros Hin. apply in_app_or in Hin as [Hin|Hin]; [|exact (IH Hin)].
  unfold lit_text, lit_ok in *. simpl in *. destruct e.
  - destruct Hl as (_ & _ & H41). destruct Hin as [E|[E|[]]]; [discriminate|congruence].
  - apply special_false in Hl. destruct Hin as [E|[]]. subst. decompose [and] Hl. discriminate.
Qed.

Lemma unescape_lits ls : Forall lit_ok ls -> re_unescape (lits_text ls) = Some (map fst ls).
Proof.
  induction 1 as [|[c e] ls Hl _ IH]; [reflexivity|].
  unfold lits_text in *. cbn [flat_map map fst]. unfold lit_text, lit_ok in *. simpl in Hl |- *. destruct e.
  - destruct Hl as (Ha & _). simpl. rewrite Ha, IH. reflexivity.
  - apply special_false in Hl. destruct Hl as (H92 & _). simpl. rewrite H92, IH. reflexivity.
Qed.

Lemma frag_tpl_fd f : fd_ok f -> frag_tpl (fd_text f) = Some (fd_tpl f).
Proof.
  destruct f as [[b|] ls]; unfold fd_ok, fd_text, fd_tpl, frag_tpl; simpl; intros (Hb & Hl).
  - rewrite <- app_assoc. simpl. rewrite (after_close_app b _ Hb), (unescape_lits ls Hl). reflexivity.
  - rewrite (after_close_none _ (lits_no_41 ls Hl)), (unescape_lits ls Hl). reflexivity.
Qed.

Lemma frags_ok : forall segs f, Forall seg_ok segs -> fd_ok f -> Forall fd_ok (frags_of f segs).
Proof.
  induction segs as [|sg segs IH]; intros f Hs Hf; [simpl; constructor; [exact Hf|constructor]|].
  inversion Hs as [|? ? Hsg Hsegs]; subst. destruct sg as [c e|b its]; cbn [frags_of].
  - apply IH; [exact Hsegs|]. destruct Hf as (Hb & Hl). split; [exact Hb|]. simpl.
    apply Forall_app. split; [exact Hl|]. constructor; [|constructor].
    unfold lit_ok. simpl. destruct e; exact Hsg.
  - constructor; [exact Hf|]. apply IH; [exact Hsegs|]. destruct Hsg as (_ & H41 & _).
    split; [exact H41|constructor].
Qed.

Lemma map_opt_frags fds : Forall fd_ok fds ->
  map_opt frag_tpl (map fd_text fds) = Some (map fd_tpl fds).
Proof.
  induction 1 as [|f fds Hf _ IH]; [reflexivity|]. simpl. rewrite (frag_tpl_fd f Hf), IH. reflexivity.
Qed.

(* ---------- % formatting of the template ---------- *)
Lemma rv_app_cons c l r : rv_app (c :: l) r = rv_cons c (rv_app l r).
Proof. destruct r; reflexivity. Qed.
Lemma rv_app_nil r : rv_app [] r = r.
Proof. destruct r; reflexivity. Qed.
Lemma rv_app_app a b r : rv_app (a ++ b) r = rv_app a (rv_app b r).
Proof. destruct r; simpl; try reflexivity. rewrite app_assoc. reflexivity. Qed.

(* literal text, with its '%' doubled, formats back to itself *)
Lemma pyformat_esc l : forall t args, pyformat (esc_pct l ++ t) args = rv_app l (pyformat t args).
Proof.
  induction l as [|c l IH]; intros t args.
  - simpl. rewrite rv_app_nil. reflexivity.
  - unfold esc_pct, replace_char in *. cbn [flat_map]. destruct (c =? 37) eqn:E.
    + apply N.eqb_eq in E. subst. rewrite <- app_assoc. simpl. rewrite IH, rv_app_cons. reflexivity.
    + rewrite <- app_assoc. simpl. rewrite E, IH, rv_app_cons. reflexivity.
Qed.

Lemma pyformat_s t a args : pyformat (37 :: 115 :: t) (a :: args) = rv_app a (pyformat t args).
Proof. reflexivity. Qed.

Lemma frags_peel : forall segs b ls,
  concat (map fd_tpl (frags_of (mkFd (Some b) ls) segs)) =
  37 :: 115 :: concat (map fd_tpl (frags_of (mkFd None ls) segs)).
Proof.
  induction segs as [|sg segs IH]; intros b ls.
  - reflexivity.
  - destruct sg as [c e|b2 its]; cbn [frags_of].
    + apply IH.
    + reflexivity.
Qed.

Lemma lit_of_lit_item c : lit_of (lit_item c) = if (c =? 40) || (c =? 41) then None else Some c.
Proof. reflexivity. Qed.

Lemma pyformat_frags : forall segs ls args u,
  spec_url (map seg_piece segs) args = Some u ->
  pyformat (concat (map fd_tpl (frags_of (mkFd None ls) segs))) (map quote_arg args)
  = RvOk (map fst ls ++ u).
Proof.
  induction segs as [|sg segs IH]; intros ls args u H.
  - simpl in H. destruct args; [|discriminate]. inversion H; subst.
    simpl. unfold fd_tpl. simpl. rewrite app_nil_r.
    rewrite <- (app_nil_r (esc_pct (map fst ls))), pyformat_esc. reflexivity.
  - destruct sg as [c e|b its]; cbn [map seg_piece spec_url frags_of] in *.
    + rewrite lit_of_lit_item in H. destruct ((c =? 40) || (c =? 41)); [discriminate|].
      destruct (spec_url (map seg_piece segs) args) as [u'|] eqn:Eu; [|discriminate]. inversion H; subst.
      cbn [fd_grp fd_lits]. rewrite (IH _ _ _ Eu). rewrite map_app, <- app_assoc. reflexivity.
    + destruct args as [|a args]; [discriminate|].
      destruct (spec_url (map seg_piece segs) args) as [u'|] eqn:Eu; [|discriminate]. inversion H; subst.
      cbn [map concat]. unfold fd_tpl at 1. cbn [fd_grp fd_lits]. change ([] ++ ?x) with x.
      rewrite pyformat_esc, frags_peel, pyformat_s, (IH [] _ _ Eu). reflexivity.
Qed.

Lemma count_char_app d a b : count_char d (a ++ b) = (count_char d a + count_char d b)%nat.
Proof. unfold count_char. rewrite filter_app, app_length. reflexivity. Qed.

Lemma count_char_zero d s : ~ In d s -> count_char d s = 0%nat.
Proof.
  unfold count_char. induction s as [|c s IH]; intros H; [reflexivity|]. simpl.
  assert (c <> d) by (intros ->; apply H; left; reflexivity).
  replace (d =? c) with false by (symmetry; apply N.eqb_neq; congruence).
  apply IH. intros Hin. apply H. right. exact Hin.
Qed.

Lemma count_groups_segs segs : Forall seg_ok segs ->
  count_char 40 (pat_text segs) = count_groups (map seg_piece segs).
Proof.
  induction 1 as [|sg segs Hsg _ IH]; [reflexivity|].
  unfold pat_text in *. cbn [flat_map]. rewrite count_char_app, IH. destruct sg as [c e|b its].
  - rewrite (count_char_zero 40 _ (lit_no_40 c e Hsg)). reflexivity.
  - destruct Hsg as (H40 & _ & _). cbn [seg_text].
    change (40 :: b ++ [41]) with ([40] ++ b ++ [41]). rewrite !count_char_app, (count_char_zero 40 b H40).
    reflexivity.
Qed.

Lemma spec_url_len : forall ps args u, spec_url ps args = Some u -> length args = count_groups ps.
Proof.
  induction ps as [|p ps IH]; intros args u H; simpl in H.
  - destruct args; [reflexivity|discriminate].
  - destruct p as [it|b].
    + destruct (lit_of it); [|discriminate]. destruct (spec_url ps args) eqn:E; [|discriminate].
      apply (IH _ _ E).
    + destruct args as [|a args]; [discriminate|]. destruct (spec_url ps args) eqn:E; [|discriminate].
      unfold count_groups in *. simpl. f_equal. apply (IH _ _ E).
Qed.

(* ---------- trailing backslashes / the appended dollar ---------- *)
Lemma pat_text_snoc segs sg : pat_text (segs ++ [sg]) = pat_text segs ++ seg_text sg.
Proof. unfold pat_text. rewrite flat_map_app. simpl. rewrite app_nil_r. reflexivity. Qed.

Lemma even_trailing_backslashes : forall segs, Forall seg_ok segs ->
  Nat.even (count_lead 92 (rev (pat_text segs))) = true.
Proof.
  induction segs as [|sg segs IH] using rev_ind; intros H; [reflexivity|].
  apply Forall_app in H as [Hsegs Hsg]. inversion Hsg as [|? ? Hsg' _]; subst.
  rewrite pat_text_snoc, rev_app_distr. destruct sg as [c [|]|b its]; simpl in Hsg' |- *.
  - destruct (c =? 92) eqn:E; [|reflexivity]. simpl. apply IH. exact Hsegs.
  - apply special_false in Hsg'. destruct Hsg' as (H92 & _). rewrite H92. reflexivity.
  - rewrite rev_app_distr. reflexivity.
Qed.

Lemma head_not_caret segs t : Forall seg_ok segs -> strip_caret (pat_text segs ++ 36 :: t) = pat_text segs ++ 36 :: t.
Proof.
  intros H. destruct segs as [|sg segs]; [reflexivity|]. inversion H as [|? ? Hsg _]; subst.
  unfold pat_text. cbn [flat_map]. destruct sg as [c [|]|b its]; simpl in Hsg |- *; try reflexivity.
  apply special_false in Hsg. decompose [and] Hsg.
  match goal with H : (c =? 94) = false |- _ => rewrite H end. reflexivity.
Qed.

Lemma head_not_caret' segs : Forall seg_ok segs -> strip_caret (pat_text segs) = pat_text segs.
Proof.
  intros H. destruct segs as [|sg segs]; [reflexivity|]. inversion H as [|? ? Hsg _]; subst.
  unfold pat_text. cbn [flat_map]. destruct sg as [c [|]|b its]; simpl in Hsg |- *; try reflexivity.
  apply special_false in Hsg. decompose [and] Hsg.
  match goal with H : (c =? 94) = false |- _ => rewrite H end. reflexivity.
Qed.

(* the text ends in '$' only through an escaped dollar as last segment *)
Lemma ends_dollar_last segs : Forall seg_ok segs -> ends_dollar (pat_text segs) = true ->
  exists segs', segs = segs' ++ [SLit 36 true].
Proof.
  intros H. destruct segs as [|sg segs] using rev_ind; [discriminate|]. clear IHsegs.
  apply Forall_app in H as [_ Hsg]. inversion Hsg as [|? ? Hsg' _]; subst.
  unfold ends_dollar. rewrite pat_text_snoc, rev_app_distr.
  destruct sg as [c [|]|b its]; simpl in Hsg' |- *.
  - intros E. apply N.eqb_eq in E. subst. eauto.
  - intros E. apply special_false in Hsg'. decompose [and] Hsg'. congruence.
  - rewrite rev_app_distr. simpl. discriminate.
Qed.

(* plainly written patterns have no named groups *)
Lemma names_of_items its : forall rest, names_of (map TItem its ++ rest) = names_of rest.
Proof. induction its as [|it its IH]; intros rest; [reflexivity|]. simpl. apply IH. Qed.

Lemma names_of_open_items its rest :
  names_of (TOpen :: map TItem its ++ TClose :: rest) = None :: names_of rest.
Proof.
  assert (E : names_of (map TItem its ++ TClose :: rest) = names_of rest) by (rewrite names_of_items; reflexivity).
  destruct its as [|it its]; simpl in *; [reflexivity|rewrite E; reflexivity].
Qed.

Lemma plain_names_none : forall segs rest,
  forallb is_none (names_of (flat_map seg_toks segs ++ rest)) = forallb is_none (names_of rest).
Proof.
  induction segs as [|sg segs IH]; intros rest; [reflexivity|]. destruct sg as [c e|b its].
  - simpl. apply IH.
  - cbn [flat_map seg_toks]. rewrite <- app_assoc.
    change ((TOpen :: map TItem its ++ [TClose]) ++ ?x) with (TOpen :: ((map TItem its ++ [TClose]) ++ x)).
    rewrite <- app_assoc. change ([TClose] ++ ?x) with (TClose :: x).
    rewrite names_of_open_items. simpl. apply IH.
Qed.

Lemma plain_names_ok segs : Forall seg_ok segs ->
  names_okb (pat_names (pat_text segs)) = true /\ names_okb (pat_names (pat_text segs ++ [36])) = true.
Proof.
  intros Hok. unfold pat_names, names_okb. split.
  - rewrite (head_not_caret' segs Hok), (lexf_segs segs Hok).
    pose proof (plain_names_none segs []) as H. rewrite app_nil_r in H. rewrite H. reflexivity.
  - rewrite (head_not_caret segs [] Hok).
    rewrite (lexf_app (pat_text segs) [36] _ [TDollar] (lexf_segs segs Hok) eq_refl), plain_names_none. reflexivity.
Qed.

(* ------------------------------------------------------------------ *)
(* PathMatches(text)                                                     *)
(* ------------------------------------------------------------------ *)
Lemma find_groups_text segs t :
  Forall seg_ok segs ->
  strip_last_dollar (strip_caret t) = pat_text segs ->
  find_groups t (count_groups (map seg_piece segs)) =
  Some (concat (map fd_tpl (frags_of (mkFd None []) segs)), count_groups (map seg_piece segs)).
Proof.
  intros Hok Ht. unfold find_groups. rewrite Ht, (count_groups_segs segs Hok), Nat.eqb_refl. simpl.
  change (@nil N) with (rev (fd_text (mkFd None []))) at 1.
  rewrite (split_frags segs _ Hok), map_opt_frags; [reflexivity|].
  apply frags_ok; [exact Hok|]. split; [exact I|constructor].
Qed.

Theorem compile_plain_pattern segs :
  Forall seg_ok segs ->
  exists pm,
    compile_path (pat_text segs) = Some pm /\
    rx_pieces (pm_rx pm) = map seg_piece segs /\ pm_whole pm = true /\
    forall args u, spec_url (map seg_piece segs) args = Some u -> pm_reverse pm args = RvOk u.
Proof.
  intros Hok. unfold compile_path, add_dollar.
  assert (Hrev : forall pm, rx_pieces (pm_rx pm) = map seg_piece segs ->
            pm_tpl pm = Some (concat (map fd_tpl (frags_of (mkFd None []) segs)), count_groups (map seg_piece segs)) ->
            forall args u, spec_url (map seg_piece segs) args = Some u -> pm_reverse pm args = RvOk u).
  { intros pm _ Htpl args u Hu. unfold pm_reverse. rewrite Htpl.
    rewrite (spec_url_len _ _ _ Hu), Nat.eqb_refl. simpl.
    rewrite (pyformat_frags segs [] args u Hu). reflexivity. }
  destruct (plain_names_ok segs Hok) as [Hn1 Hn2].
  destruct (ends_dollar (pat_text segs)) eqn:Ed.
  - (* last segment is an escaped dollar: no anchor is appended *)
    destruct (ends_dollar_last segs Hok Ed) as [segs' Hs].
    unfold rx_parse. rewrite (head_not_caret' segs Hok), (lexf_segs segs Hok).
    rewrite <- (app_nil_r (flat_map seg_toks segs)), build_segs. cbn [build]. rewrite app_nil_r, rev_involutive, Hn1.
    eexists. split; [reflexivity|]. split; [reflexivity|]. split; [reflexivity|]. apply Hrev; [reflexivity|]. cbn [pm_tpl rx_pieces].
    apply find_groups_text; [exact Hok|]. rewrite (head_not_caret' segs Hok).
    unfold strip_last_dollar. rewrite Hs at 1. rewrite pat_text_snoc, rev_app_distr. simpl.
    assert (Hs' : Forall seg_ok segs') by (rewrite Hs in Hok; apply Forall_app in Hok; apply Hok).
    pose proof (even_trailing_backslashes segs' Hs') as Hev.
    destruct (count_lead 92 (rev (pat_text segs'))) as [|n']; [reflexivity|].
    rewrite Nat.even_succ in Hev. rewrite <- Nat.negb_odd, Hev. reflexivity.
  - (* "$" appended: anchored pattern *)
    unfold rx_parse.
    rewrite (head_not_caret segs [] Hok).
    rewrite (lexf_app (pat_text segs) [36] _ [TDollar] (lexf_segs segs Hok) eq_refl).
    rewrite build_segs. cbn [build]. rewrite app_nil_r, rev_involutive, Hn2.
    eexists. split; [reflexivity|]. split; [reflexivity|]. split; [reflexivity|]. apply Hrev; [reflexivity|]. cbn [pm_tpl rx_pieces].
    apply find_groups_text; [exact Hok|]. rewrite (head_not_caret segs [] Hok).
    unfold strip_last_dollar. rewrite rev_app_distr. simpl.
    rewrite (even_trailing_backslashes segs Hok), rev_involutive. reflexivity.
Qed.

(* reverse() followed by match(): the whole round trip from the pattern text *)
Theorem plain_pattern_roundtrip segs args u :
  Forall seg_ok segs ->
  spec_url (map seg_piece segs) args = Some u ->
  Forall bytes args ->
  representable (map seg_piece segs) args ->
  (forall caps', pmatch (map seg_piece segs) u caps' -> caps' = map quote_arg args) ->
  exists pm, compile_path (pat_text segs) = Some pm /\
             pm_reverse pm args = RvOk u /\ pm_match pm u = MHit args.
Proof.
  intros Hok Hu Hb Hr Huniq. destruct (compile_plain_pattern segs Hok) as (pm & Hc & Hp & Hw & Hrev).
  exists pm. split; [exact Hc|]. split; [apply Hrev; exact Hu|].
  apply reverse_match_roundtrip; rewrite ?Hp; assumption.
Qed.

