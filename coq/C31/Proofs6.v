(* C31 — reverse_url finds the rule that the name denotes, and returns the URL read
   off its pattern whenever that pattern's textual template is faithful to its
   structure (which Proofs5 shows for plainly written patterns). *)
From Coq Require Import List NArith Bool Arith Lia.
From TV Require Import Lib.Obs Lib.C21_Utf8 Lib.C21_Pct C31.Model C31.Spec C31.Run
     C31.Proofs1 C31.Proofs2 C31.Proofs3 C31.Proofs4 C31.Proofs5.
Import ListNotations.
Local Open Scope N_scope.

(* all rules below (and including) a rule, depth first *)
Fixpoint all_rules (r : rule) : list rule :=
  r :: match r with
       | RLeaf _ _ _ => []
       | RNode _ _ sub =>
           (fix go (l : list rule) : list rule :=
              match l with [] => [] | x :: l' => all_rules x ++ go l' end) sub
       end.

Lemma all_rules_node m n sub : all_rules (RNode m n sub) = RNode m n sub :: flat_map all_rules sub.
Proof. reflexivity. Qed.

Lemma lookup_node name m n sub :
  lookup_rule name (RNode m n sub) =
  match find_last_named sub name with
  | Some x => Some x
  | None =>
      (fix go (l : list rule) : option rule :=
         match l with
         | [] => None
         | x :: l' => match lookup_rule name x with Some v => Some v | None => go l' end
         end) sub
  end.
Proof. reflexivity. Qed.

Lemma find_last_named_in l name x : find_last_named l name = Some x -> In x l.
Proof.
  induction l as [|r l IH]; [discriminate|]. simpl.
  destruct (find_last_named l name) as [y|].
  - intros H. inversion H; subst. right. apply IH. reflexivity.
  - destruct (has_name name r); [|discriminate]. intros H. inversion H; subst. left. reflexivity.
Qed.

Lemma self_in_all_rules r : In r (all_rules r).
Proof. destruct r; left; reflexivity. Qed.

Lemma lookup_in : forall r name x, lookup_rule name r = Some x -> In x (all_rules r).
Proof.
  induction r as [m n h|m n sub IH] using rule_ind2; intros name x H; [discriminate|].
  rewrite lookup_node in H. rewrite all_rules_node. right.
  destruct (find_last_named sub name) as [y|] eqn:Ef.
  - inversion H; subst. apply find_last_named_in in Ef. apply in_flat_map. exists x. split; [exact Ef|apply self_in_all_rules].
  - clear Ef. induction IH as [|y l Hy _ IHl]; [discriminate|].
    simpl. apply in_or_app. destruct (lookup_rule name y) as [v|] eqn:Ey.
    + inversion H; subst. left. apply (Hy _ _ Ey).
    + right. apply IHl. exact H.
Qed.

(* reverse_url agrees with the rule the name denotes *)
Lemma rule_reverse_lookup : forall r name args,
  match lookup_rule name r with
  | Some x => match rule_m x with
              | MPath p => rule_reverse name args r = Some (pm_reverse p args)
              | _ => True
              end
  | None => rule_reverse name args r = None
  end.
Proof.
  induction r as [m n h|m n sub IH] using rule_ind2; intros name args; [reflexivity|].
  rewrite lookup_node. simpl rule_reverse.
  destruct (find_last_named sub name) as [y|] eqn:Ef.
  - destruct (rule_m y); try exact I. reflexivity.
  - clear Ef. induction IH as [|y l Hy _ IHl]; [reflexivity|].
    specialize (Hy name args). destruct (lookup_rule name y) as [v|] eqn:Ey.
    + destruct (rule_m v); try exact I. rewrite Hy. reflexivity.
    + rewrite Hy. exact IHl.
Qed.

(* a path matcher whose textual reverse template agrees with its structure *)
Definition pm_faithful (p : pathm) : Prop :=
  forall args u, spec_url (rx_pieces (pm_rx p)) args = Some u -> pm_reverse p args = RvOk u.

Definition app_paths (a : app) : list pathm :=
  flat_map (fun r => match rule_m r with MPath p => [p] | _ => [] end)
           (all_rules (RNode MAny None (app_rules a))).

Theorem reverse_agrees_of_faithful a :
  (forall p, In p (app_paths a) -> pm_faithful p) -> reverse_agrees a.
Proof.
  intros Hf name args host u h Hr. unfold roundtrip_expect in Hr.
  destruct (lookup_rule name (RNode MAny None (app_rules a))) as [[m n h0|? ? ?]|] eqn:El; try discriminate.
  destruct m as [| | |p]; try discriminate.
  destruct (forallb is_bytes args); [|discriminate].
  destruct (spec_url (rx_pieces (pm_rx p)) args) as [u0|] eqn:Eu; [|discriminate].
  assert (u0 = u).
  { destruct (negb _); [discriminate|]. destruct (find _ _) as [[[? m'] ?]|]; [|discriminate].
    destruct m'; try discriminate. destruct (all_parses _ _) as [|? [|]]; try discriminate.
    destruct (_ && _); [|discriminate]. inversion Hr. reflexivity. }
  subst u0. unfold app_reverse.
  pose proof (rule_reverse_lookup (RNode MAny None (app_rules a)) name args) as Hl.
  rewrite El in Hl. simpl rule_m in Hl. rewrite Hl. f_equal. apply Hf; [|exact Eu].
  unfold app_paths. apply in_flat_map. exists (RLeaf (MPath p) n h0). split; [|left; reflexivity].
  apply lookup_in with (name := name). exact El.
Qed.

(* plainly written patterns are faithful *)
Theorem plain_pattern_faithful segs pm :
  Forall seg_ok segs -> compile_path (pat_text segs) = Some pm -> pm_faithful pm.
Proof.
  intros Hok Hc. destruct (compile_plain_pattern segs Hok) as (pm' & Hc' & Hp & Hrev).
  rewrite Hc in Hc'. inversion Hc'; subst. intros args u Hu. apply Hrev. rewrite <- Hp. exact Hu.
Qed.

Theorem check_case_reverse_faithful hs hosts dh dflt name args host :
  (forall a, compile_app hs hosts dh dflt = Some a -> forall p, In p (app_paths a) -> pm_faithful p) ->
  let i := (hs, hosts, dh, dflt, OpReverse name args host) in check_case i (run_case i) = true.
Proof.
  intros H. apply check_case_reverse. intros a Ha. apply reverse_agrees_of_faithful. apply H. exact Ha.
Qed.

(* ---------- examples: the hypotheses are satisfiable, old defect witnesses ---------- *)
Definition s100 : list seg :=   (* /100%/([a-z]+) *)
  [SLit 47 false; SLit 49 false; SLit 48 false; SLit 48 false; SLit 37 false; SLit 47 false;
   SGrp [91; 97; 45; 122; 93; 43] [mkItem (CSet false [(97, 122)]) 1 None true]].

Example s100_ok : Forall seg_ok s100.
Proof.
  repeat constructor; simpl; try reflexivity; intros H; repeat (destruct H as [H|H]; try discriminate); exact H.
Qed.

Example s100_roundtrip :
  exists pm, compile_path (pat_text s100) = Some pm /\
             pm_reverse pm [[97; 98; 99]] = RvOk [47; 49; 48; 48; 37; 47; 97; 98; 99] /\
             pm_match pm [47; 49; 48; 48; 37; 47; 97; 98; 99] = MHit [[97; 98; 99]].
Proof. eexists. split; [vm_compute; reflexivity|]. split; vm_compute; reflexivity. Qed.

Example s100_hyps :
  sep_ok (map seg_piece s100) /\ representable (map seg_piece s100) [[97; 98; 99]] /\
  Forall bytes [[97; 98; 99]].
Proof.
  split; [simpl; auto|]. split.
  - unfold representable. simpl. constructor; [|constructor].
    apply acc_items_iff. vm_compute. reflexivity.
  - repeat constructor.
Qed.

(* the former defects, now as the fixed code behaves: r"/a\$" does not match
   "/a$xyz"; r"/b" does not match "/b\n"; the lazy group r"/([^/]*?)" does match
   "/b\n"; reverse of r"/a\$" is "/a$" *)
Example fixed_witnesses :
  (forall pm, compile_path [47; 97; 92; 36] = Some pm ->
     pm_match pm [47; 97; 36; 120; 121; 122] = MMiss /\ pm_match pm [47; 97; 36] = MHit [] /\
     pm_reverse pm [] = RvOk [47; 97; 36]) /\
  (forall pm, compile_path [47; 98] = Some pm ->
     pm_match pm [47; 98; 10] = MMiss /\ pm_match pm [47; 98] = MHit []) /\
  (forall pm, compile_path [47; 40; 91; 94; 47; 93; 42; 63; 41] = Some pm ->
     pm_match pm [47; 98; 10] = MHit [[98; 10]]).
Proof.
  split; [|split]; intros pm H; vm_compute in H; inversion H; subst; repeat split; vm_compute; reflexivity.
Qed.
