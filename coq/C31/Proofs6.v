(* C31 — reverse_url finds the rule that the name denotes, and returns the URL read
   off its pattern whenever that pattern's textual template is faithful to its
   structure (which Proofs5 shows for plainly written patterns). *)
From Coq Require Import List NArith Bool Arith Lia.
From TV Require Import Lib.Obs Lib.C21_Utf8 Lib.C21_Pct C31.Model C31.Spec C31.Run
     C31.Proofs1 C31.Proofs2 C31.Proofs3 C31.Proofs4 C31.Proofs5.
Import ListNotations.
Local Open Scope N_scope.

(* all rules below (and including) a rule, depth first *)
Fixpoint all_rules (r : rule) : list rule :=
  r :: match r with
       | RLeaf _ _ _ => []
       | RNode _ _ sub =>
           (fix go (l : list rule) : list rule :=
              match l with [] => [] | x :: l' => all_rules x ++ go l' end) sub
       end.

Lemma all_rules_node m n sub : all_rules (RNode m n sub) = RNode m n sub :: flat_map all_rules sub.
Proof. reflexivity. Qed.

Lemma lookup_node name m n sub :
  lookup_rule name (RNode m n sub) =
  match find_last_named sub name with
  | Some x => Some x
  | None =>
      (fix go (l : list rule) : option rule :=
         match l with
         | [] => None
         | x :: l' => match lookup_rule name x with Some v => Some v | None => go l' end
         end) sub
  end.
Proof. reflexivity. Qed.

Lemma find_last_named_in l name x : find_last_named l name = Some x -> In x l.
Proof.
  induction l as [|r l IH]; [discriminate|]. simpl.
  destruct (find_last_named l name) as [y|].
  - intros H. inversion H; subst. right. apply IH. reflexivity.
  - destruct (has_name name r); [|discriminate]. intros H. inversion H; subst. left. reflexivity.
Qed.

Lemma self_in_all_rules r : In r (all_rules r).
Proof. destruct r; left; reflexivity. Qed.

Lemma lookup_in : forall r name x, lookup_rule name r = Some x -> In x (all_rules r).
Proof.
  induction r as [m n h|m n sub IH] using rule_ind2; intros name x H; [discriminate|].
  rewrite lookup_node in H. rewrite all_rules_node. right.
  destruct (find_last_named sub name) as [y|] eqn:Ef.
  - inversion H; subst. apply find_last_named_in in Ef. apply in_flat_map. exists x. split; [exact Ef|apply self_in_all_rules].
  - clear Ef. induction IH as [|y l Hy _ IHl]; [discriminate|].
    simpl. apply in_or_app. destruct (lookup_rule name y) as [v|] eqn:Ey.
    + inversion H; subst. left. apply (Hy _ _ Ey).
    + right. apply IHl. exact H.
Qed.

(* reverse_url agrees with the rule the name denotes *)
Lemma rule_reverse_lookup : forall r name args,
  match lookup_rule name r with
  | Some x => match rule_m x with
              | MPath p => rule_reverse name args r = Some (pm_reverse p args)
              | _ => True
              end
  | None => rule_reverse name args r = None
  end.
Proof.
  induction r as [m n h|m n sub IH] using rule_ind2; intros name args; [reflexivity|].
  rewrite lookup_node. simpl rule_reverse.
  destruct (find_last_named sub name) as [y|] eqn:Ef.
  - destruct (rule_m y); try exact I. reflexivity.
  - clear Ef. induction IH as [|y l Hy _ IHl]; [reflexivity|].
    specialize (Hy name args). destruct (lookup_rule name y) as [v|] eqn:Ey.
    + destruct (rule_m v); try exact I. rewrite Hy. reflexivity.
    + rewrite Hy. exact IHl.
Qed.

(* a path matcher whose textual reverse template agrees with its structure *)
Definition pm_faithful (p : pathm) : Prop :=
  forall args u, spec_url (rx_pieces (pm_rx p)) args = Some u -> pm_reverse p args = RvOk u.

Definition app_paths (a : app) : list pathm :=
  flat_map (fun r => match rule_m r with MPath p => [p] | _ => [] end)
           (all_rules (RNode MAny None (app_rules a))).

Theorem reverse_agrees_of_faithful a :
  (forall p, In p (app_paths a) -> pm_faithful p) -> reverse_agrees a.
Proof.
  intros Hf name args host u h Hr. unfold roundtrip_expect in Hr.
  destruct (lookup_rule name (RNode MAny None (app_rules a))) as [[m n h0|? ? ?]|] eqn:El; try discriminate.
  destruct m as [| | |p]; try discriminate.
  destruct (plain_segs (pm_text p)) as [segs0|] eqn:Epl; [|discriminate].
  destruct (pm_whole p); [|discriminate]. cbn [andb] in Hr.
  destruct (forallb is_bytes args); [|discriminate].
  destruct (spec_url (rx_pieces (pm_rx p)) args) as [u0|] eqn:Eu; [|discriminate].
  assert (u0 = u).
  { destruct (negb _); [discriminate|]. destruct (find _ _) as [[[? m'] ?]|]; [|discriminate].
    destruct m'; try discriminate. destruct (all_parses _ _) as [|? [|]]; try discriminate.
    destruct (_ && _); [|discriminate]. inversion Hr. reflexivity. }
  subst u0. unfold app_reverse.
  pose proof (rule_reverse_lookup (RNode MAny None (app_rules a)) name args) as Hl.
  rewrite El in Hl. simpl rule_m in Hl. rewrite Hl. f_equal. apply Hf; [|exact Eu].
  unfold app_paths. apply in_flat_map. exists (RLeaf (MPath p) n h0). split; [|left; reflexivity].
  apply lookup_in with (name := name). exact El.
Qed.

(* plainly written patterns are faithful *)
Theorem plain_pattern_faithful segs pm :
  Forall seg_ok segs -> compile_path (pat_text segs) = Some pm -> pm_faithful pm.
Proof.
  intros Hok Hc. destruct (compile_plain_pattern segs Hok) as (pm' & Hc' & Hp & _ & Hrev).
  rewrite Hc in Hc'. inversion Hc'; subst. intros args u Hu. apply Hrev. rewrite <- Hp. exact Hu.
Qed.

Theorem check_case_reverse_faithful hs hosts dh dflt name args host :
  (forall a, compile_app hs hosts dh dflt = Some a -> forall p, In p (app_paths a) -> pm_faithful p) ->
  let i := (hs, hosts, dh, dflt, OpReverse name args host) in check_case i (run_case i) = true.
Proof.
  intros H. apply check_case_reverse. intros a Ha. apply reverse_agrees_of_faithful. apply H. exact Ha.
Qed.

(* ------------------------------------------------------------------ *)
(* the recogniser of plainly written patterns is sound                   *)
(* ------------------------------------------------------------------ *)
Lemma items_of_map ts its : items_of ts = Some its -> ts = map TItem its.
Proof.
  unfold items_of. revert its. induction ts as [|t ts IH]; intros its H; simpl in H.
  - inversion H. reflexivity.
  - destruct t as [i| | | |n]; try discriminate.
    destruct (map_opt _ ts) as [l|]; [|discriminate]. inversion H; subst. simpl. f_equal. apply IH. reflexivity.
Qed.

Definition pend_text (m : pmode) : str :=
  match m with PTop => [] | PEsc => [92] | PBody b => 40 :: rev b end.
Definition mode_ok (m : pmode) : Prop :=
  match m with PBody b => ~ In 40 b /\ ~ In 41 b | _ => True end.

Lemma pat_text_app a b : pat_text (a ++ b) = pat_text a ++ pat_text b.
Proof. unfold pat_text. apply flat_map_app. Qed.

Lemma plain_scan_sound : forall s mode acc segs,
  plain_scan s mode acc = Some segs -> Forall seg_ok acc -> mode_ok mode ->
  Forall seg_ok segs /\ pat_text segs = pat_text (rev acc) ++ pend_text mode ++ s.
Proof.
  induction s as [|c s IH]; intros mode acc segs H Hacc Hm.
  - destruct mode; try discriminate. simpl in H. inversion H; subst. split.
    + apply Forall_rev. exact Hacc.
    + simpl. rewrite app_nil_r. reflexivity.
  - destruct mode as [| |b]; cbn [plain_scan] in H.
    + destruct (c =? 92) eqn:E92.
      { apply N.eqb_eq in E92. subst. destruct (IH _ _ _ H Hacc I) as [H1 H2]. split; [exact H1|exact H2]. }
      destruct (c =? 40) eqn:E40.
      { apply N.eqb_eq in E40. subst. destruct (IH _ _ _ H Hacc) as [H1 H2]; [split; intros []|].
        split; [exact H1|exact H2]. }
      destruct (is_special c) eqn:Es; [discriminate|].
      destruct (IH _ _ _ H) as [H1 H2]; [constructor; [exact Es|exact Hacc]|exact I|].
      split; [exact H1|]. rewrite H2. simpl. rewrite pat_text_app. simpl. rewrite <- app_assoc. reflexivity.
    + destruct (is_alnum c || (c =? 40) || (c =? 41)) eqn:E; [discriminate|].
      apply orb_false_iff in E as [E E41]. apply orb_false_iff in E as [Ea E40].
      apply N.eqb_neq in E40, E41.
      destruct (IH _ _ _ H) as [H1 H2]; [constructor; [simpl; auto|exact Hacc]|exact I|].
      split; [exact H1|]. rewrite H2. simpl. rewrite pat_text_app. simpl. rewrite <- app_assoc. reflexivity.
    + destruct Hm as [Hb40 Hb41]. destruct (c =? 41) eqn:E41.
      * apply N.eqb_eq in E41. subst.
        destruct (lexf (rev b)) as [ts|] eqn:El; [|discriminate].
        destruct (items_of ts) as [its|] eqn:Ei; [|discriminate].
        apply items_of_map in Ei. subst ts.
        destruct (IH _ _ _ H) as [H1 H2]; [constructor; [|exact Hacc]|exact I|].
        { simpl. rewrite <- !in_rev. auto. }
        split; [exact H1|]. rewrite H2. simpl. rewrite pat_text_app. simpl.
        rewrite app_nil_r. repeat rewrite <- app_assoc. simpl. repeat rewrite <- app_assoc. reflexivity.
      * destruct (c =? 40) eqn:E40; [discriminate|]. apply N.eqb_neq in E40, E41.
        destruct (IH _ _ _ H Hacc) as [H1 H2].
        { split; intros [Hc|Hc]; auto. }
        split; [exact H1|]. rewrite H2. simpl. rewrite <- !app_assoc. reflexivity.
Qed.

Theorem plain_segs_sound t segs :
  plain_segs t = Some segs -> Forall seg_ok segs /\ pat_text segs = t.
Proof.
  intros H. destruct (plain_scan_sound t PTop [] segs H (Forall_nil _) I) as [H1 H2].
  split; [exact H1|exact H2].
Qed.

(* ------------------------------------------------------------------ *)
(* compiled applications remember where their path matchers came from     *)
(* ------------------------------------------------------------------ *)
Definition wf_m (m : matcher) : Prop :=
  match m with MPath p => pm_whole p = true -> compile_path (pm_text p) = Some p | _ => True end.
Definition rules_wf (l : list rule) : Prop :=
  forall x, In x (flat_map all_rules l) -> wf_m (rule_m x).

Lemma rules_wf_nil : rules_wf [].
Proof. intros x []. Qed.
Lemma rules_wf_app a b : rules_wf a -> rules_wf b -> rules_wf (a ++ b).
Proof. intros Ha Hb x Hx. rewrite flat_map_app in Hx. apply in_app_or in Hx as [Hx|Hx]; auto. Qed.
Lemma rules_wf_cons r l : rules_wf [r] -> rules_wf l -> rules_wf (r :: l).
Proof. intros Hr Hl. apply (rules_wf_app [r] l Hr Hl). Qed.
Lemma rules_wf_node m n sub : wf_m m -> rules_wf sub -> rules_wf [RNode m n sub].
Proof.
  intros Hm Hs x Hx. simpl in Hx. rewrite app_nil_r in Hx. change (In x (all_rules (RNode m n sub))) in Hx.
  rewrite all_rules_node in Hx. destruct Hx as [<-|Hx]; [exact Hm|apply Hs; exact Hx].
Qed.
Lemma rules_wf_leaf m n h : wf_m m -> rules_wf [RLeaf m n h].
Proof. intros Hm x [<-|[]]. exact Hm. Qed.

Lemma compile_path_text pat p : compile_path pat = Some p -> pm_text p = pat.
Proof.
  unfold compile_path. destruct (rx_parse _); [|discriminate]. destruct (names_okb _); [|discriminate].
  intros H. inversion H. reflexivity.
Qed.

Lemma compile_matcher_wf k pat m : compile_matcher k pat = Some m -> wf_m m.
Proof.
  destruct k; simpl.
  - destruct (compile_path pat) as [p|] eqn:E; [|discriminate]. intros H. inversion H; subst. simpl.
    intros _. rewrite (compile_path_text _ _ E). exact E.
  - destruct (compile_host pat); [|discriminate]. intros H. inversion H. exact I.
  - intros H. inversion H. exact I.
  - unfold compile_path_re. destruct (rx_parse pat); [|discriminate]. destruct (names_okb _); [|discriminate].
    intros H. inversion H; subst. simpl. discriminate.
Qed.

Section RRuleInd.
  Variable P : rrule -> Prop.
  Hypothesis Hleaf : forall k pat n h, P (RRLeaf k pat n h).
  Hypothesis Hnode : forall k pat n sub, Forall P sub -> P (RRNode k pat n sub).
  Fixpoint rrule_ind2 (r : rrule) : P r :=
    match r with
    | RRLeaf k pat n h => Hleaf k pat n h
    | RRNode k pat n sub =>
        Hnode k pat n sub
          ((fix go (l : list rrule) : Forall P l :=
              match l with
              | [] => Forall_nil _
              | x :: l' => Forall_cons _ (rrule_ind2 x) (go l')
              end) sub)
    end.
End RRuleInd.

Lemma compile_rule_node k pat n sub :
  compile_rule (RRNode k pat n sub) =
  match compile_matcher k pat, map_opt compile_rule sub with
  | Some m, Some rs => Some (RNode m n rs)
  | _, _ => None
  end.
Proof.
  simpl. destruct (compile_matcher k pat); [|reflexivity].
  assert (E : (fix go (l : list rrule) : option (list rule) :=
                 match l with
                 | [] => Some []
                 | x :: l' => match compile_rule x, go l' with
                              | Some y, Some ys => Some (y :: ys)
                              | _, _ => None
                              end
                 end) sub = map_opt compile_rule sub).
  { induction sub as [|x l IH]; [reflexivity|]. simpl. rewrite IH. reflexivity. }
  rewrite E. reflexivity.
Qed.

Lemma map_opt_wf (l : list rrule) : forall rs,
  Forall (fun rr => forall r, compile_rule rr = Some r -> rules_wf [r]) l ->
  map_opt compile_rule l = Some rs -> rules_wf rs.
Proof.
  induction l as [|x l IH]; intros rs Hall H; simpl in H.
  - inversion H. apply rules_wf_nil.
  - inversion Hall as [|? ? Hx Hl]; subst.
    destruct (compile_rule x) as [y|] eqn:Ex; [|discriminate].
    destruct (map_opt compile_rule l) as [ys|] eqn:El; [|discriminate]. inversion H; subst.
    apply rules_wf_cons; [apply Hx; reflexivity|apply IH; [exact Hl|reflexivity]].
Qed.

Lemma compile_rule_wf : forall rr r, compile_rule rr = Some r -> rules_wf [r].
Proof.
  induction rr as [k pat n h|k pat n sub IH] using rrule_ind2; intros r H.
  - simpl in H. destruct (compile_matcher k pat) as [m|] eqn:E; [|discriminate]. inversion H; subst.
    apply rules_wf_leaf. eapply compile_matcher_wf. exact E.
  - rewrite compile_rule_node in H. destruct (compile_matcher k pat) as [m|] eqn:E; [|discriminate].
    destruct (map_opt compile_rule sub) as [rs|] eqn:Es; [|discriminate]. inversion H; subst.
    apply rules_wf_node; [eapply compile_matcher_wf; exact E|]. eapply map_opt_wf; eassumption.
Qed.

Lemma compile_rules_wf l rs : compile_rules l = Some rs -> rules_wf rs.
Proof.
  unfold compile_rules. apply map_opt_wf. apply Forall_forall. intros rr _. apply compile_rule_wf.
Qed.

Lemma compile_hosts_wf l ho : compile_hosts l = Some ho -> Forall (fun hr => rules_wf (snd hr)) ho.
Proof.
  unfold compile_hosts. revert ho. induction l as [|x l IH]; intros ho H; simpl in H.
  - inversion H. constructor.
  - destruct (compile_host (fst x)) as [r|]; [|discriminate].
    destruct (compile_rules (snd x)) as [rs|] eqn:Er; [|discriminate].
    destruct (map_opt _ l) as [ys|] eqn:El; [|discriminate]. inversion H; subst.
    constructor; [simpl; eapply compile_rules_wf; exact Er|apply IH; reflexivity].
Qed.

Lemma host_nodes_wf (f : regex -> matcher) ho :
  (forall r, wf_m (f r)) -> Forall (fun hr : regex * list rule => rules_wf (snd hr)) ho ->
  rules_wf (map (fun hr => RNode (f (fst hr)) None (snd hr)) ho).
Proof.
  intros Hf. induction 1 as [|hr ho Hhr _ IH]; [apply rules_wf_nil|].
  simpl. apply rules_wf_cons; [apply rules_wf_node; [apply Hf|exact Hhr]|exact IH].
Qed.

Definition app_wf (a : app) : Prop :=
  forall p, In p (app_paths a) -> pm_whole p = true -> compile_path (pm_text p) = Some p.

Theorem compile_app_wf hs hosts dh dflt a : compile_app hs hosts dh dflt = Some a -> app_wf a.
Proof.
  unfold compile_app. destruct (compile_rules hs) as [h|] eqn:Eh; [|discriminate].
  destruct (compile_hosts hosts) as [ho|] eqn:Eo; [|discriminate]. intros H. inversion H; subst. clear H.
  apply compile_rules_wf in Eh. apply compile_hosts_wf in Eo.
  assert (Hroot : rules_wf [RNode MAny None (app_rules (mkApp h ho dh dflt))]).
  { apply rules_wf_node; [exact I|]. unfold app_rules. apply rules_wf_app.
    - apply (host_nodes_wf MHost); [intros r; exact I|exact Eo].
    - apply rules_wf_node; [exact I|]. unfold wildcard_rules. simpl. apply rules_wf_app; [exact Eh|].
      destruct dh as [d|]; [|apply rules_wf_nil].
      apply (host_nodes_wf (fun r => MDefHost r d)); [intros r; exact I|exact Eo]. }
  intros p Hp. unfold app_paths in Hp. apply in_flat_map in Hp as (x & Hx & Hp).
  specialize (Hroot x). simpl in Hroot. rewrite app_nil_r in Hroot. specialize (Hroot Hx).
  destruct (rule_m x) as [| | |q]; simpl in Hp; try contradiction. destruct Hp as [<-|[]]. exact Hroot.
Qed.

(* inside the scope the looked-up pattern is plainly written, hence faithful *)
Theorem reverse_agrees_wf a : app_wf a -> reverse_agrees a.
Proof.
  intros Hwf name args host u h Hr. pose proof Hr as Hr0. unfold roundtrip_expect in Hr.
  destruct (lookup_rule name (RNode MAny None (app_rules a))) as [[m n h0|? ? ?]|] eqn:El; try discriminate.
  destruct m as [| | |p]; try discriminate.
  destruct (plain_segs (pm_text p)) as [segs|] eqn:Epl; [|discriminate].
  destruct (pm_whole p) eqn:Ew; [|discriminate]. cbn [andb] in Hr.
  destruct (forallb is_bytes args); [|discriminate].
  destruct (spec_url (rx_pieces (pm_rx p)) args) as [u0|] eqn:Eu; [|discriminate].
  assert (u0 = u).
  { destruct (negb _); [discriminate|]. destruct (find _ _) as [[[? m'] ?]|]; [|discriminate].
    destruct m'; try discriminate. destruct (all_parses _ _) as [|? [|]]; try discriminate.
    destruct (_ && _); [|discriminate]. inversion Hr. reflexivity. }
  subst u0. unfold app_reverse.
  pose proof (rule_reverse_lookup (RNode MAny None (app_rules a)) name args) as Hl.
  rewrite El in Hl. simpl rule_m in Hl. rewrite Hl. f_equal.
  assert (Hin : In p (app_paths a)).
  { unfold app_paths. apply in_flat_map. exists (RLeaf (MPath p) n h0). split; [|left; reflexivity].
    apply lookup_in with (name := name). exact El. }
  apply plain_segs_sound in Epl as [Hok Htext].
  apply (plain_pattern_faithful segs p Hok); [|exact Eu]. rewrite Htext. apply Hwf; [exact Hin|exact Ew].
Qed.

(* the model satisfies the checker on EVERY case *)
Theorem check_case_model : forall i, check_case i (run_case i) = true.
Proof.
  intros [[[[hs hosts] dh] dflt] [host uri xreal|name args host]].
  - apply check_case_route.
  - apply check_case_reverse. intros a Ha. apply reverse_agrees_wf. eapply compile_app_wf. exact Ha.
Qed.

(* ---------- examples: the hypotheses are satisfiable, old defect witnesses ---------- *)
Definition s100 : list seg :=   (* /100%/([a-z]+) *)
  [SLit 47 false; SLit 49 false; SLit 48 false; SLit 48 false; SLit 37 false; SLit 47 false;
   SGrp [91; 97; 45; 122; 93; 43] [mkItem (CSet false [(97, 122)]) 1 None true]].

Example s100_ok : Forall seg_ok s100.
Proof.
  repeat constructor; simpl; try reflexivity; intros H; repeat (destruct H as [H|H]; try discriminate); exact H.
Qed.

Example s100_roundtrip :
  exists pm, compile_path (pat_text s100) = Some pm /\
             pm_reverse pm [[97; 98; 99]] = RvOk [47; 49; 48; 48; 37; 47; 97; 98; 99] /\
             pm_match pm [47; 49; 48; 48; 37; 47; 97; 98; 99] = MHit [[97; 98; 99]].
Proof. eexists. split; [vm_compute; reflexivity|]. split; vm_compute; reflexivity. Qed.

Example s100_hyps :
  sep_ok (map seg_piece s100) /\ representable (map seg_piece s100) [[97; 98; 99]] /\
  Forall bytes [[97; 98; 99]].
Proof.
  split; [simpl; auto|]. split.
  - unfold representable. simpl. constructor; [|constructor].
    apply acc_items_iff. vm_compute. reflexivity.
  - repeat constructor.
Qed.

(* the former defects, now as the fixed code behaves: r"/a\$" does not match
   "/a$xyz"; r"/b" does not match "/b\n"; the lazy group r"/([^/]*?)" does match
   "/b\n"; reverse of r"/a\$" is "/a$" *)
Example fixed_witnesses :
  (forall pm, compile_path [47; 97; 92; 36] = Some pm ->
     pm_match pm [47; 97; 36; 120; 121; 122] = MMiss /\ pm_match pm [47; 97; 36] = MHit [] /\
     pm_reverse pm [] = RvOk [47; 97; 36]) /\
  (forall pm, compile_path [47; 98] = Some pm ->
     pm_match pm [47; 98; 10] = MMiss /\ pm_match pm [47; 98] = MHit []) /\
  (forall pm, compile_path [47; 40; 91; 94; 47; 93; 42; 63; 41] = Some pm ->
     pm_match pm [47; 98; 10] = MHit [[98; 10]]).
Proof.
  split; [|split]; intros pm H; vm_compute in H; inversion H; subst; repeat split; vm_compute; reflexivity.
Qed.
