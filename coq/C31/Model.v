(* C31 — routing: tornado/routing.py RuleRouter.find_handler, HostMatches,
   DefaultHostMatches, PathMatches.{__init__,match,reverse,_find_groups},
   ReversibleRuleRouter.reverse_url, _unquote_or_none, util.re_unescape,
   web.py Application.{__init__ routers,add_handlers,find_handler,reverse_url}.
   Definitions only.  Text = list of code points (N), bytes = list N (< 256). *)
From Coq Require Import List NArith Bool Arith.
From TV Require Import Lib.C21_Utf8 Lib.C21_Pct.
Import ListNotations.
Local Open Scope N_scope.

Definition str := list N.

Fixpoint str_eqb (a b : str) : bool :=
  match a, b with
  | [], [] => true
  | x :: a', y :: b' => (x =? y) && str_eqb a' b'
  | _, _ => false
  end.

(* ------------------------------------------------------------------ *)
(* Regular expressions: the fragment of `re` syntax that is modelled    *)
(* ------------------------------------------------------------------ *)
(* one-character matchers *)
Inductive cset :=
| CChar (c : N)                          (* literal, plain or backslash-escaped *)
| CDot                                   (* `.` without DOTALL: anything but LF *)
| CSet (neg : bool) (rs : list (N * N)). (* [...] / [^...] as inclusive ranges; \d = 0-9 *)

Definition in_ranges (rs : list (N * N)) (c : N) : bool :=
  existsb (fun r => (fst r <=? c) && (c <=? snd r)) rs.

Definition cs_in (cs : cset) (c : N) : bool :=
  match cs with
  | CChar d => c =? d
  | CDot => negb (c =? 10)
  | CSet neg rs => xorb neg (in_ranges rs c)
  end.

(* a quantified one-character matcher: x, x*, x+, x?, x{m}, x{m,n}, x{m,} and the lazy forms *)
Record item := mkItem { it_cs : cset; it_min : nat; it_max : option nat; it_greedy : bool }.

(* top level of a pattern: items and capturing groups whose body is a sequence
   of items (no nesting, no alternation, no quantifier on the group) *)
Inductive piece := PIt (i : item) | PGrp (body : list item).

Record regex := mkRegex { rx_pieces : list piece; rx_anch : bool (* ends with an unescaped `$` *) }.

(* ---------- the backtracking matcher (priority order of `re`) ---------- *)
Definition max_ok (m : option nat) : bool := match m with Some O => false | _ => true end.
Definition max_dec (m : option nat) : option nat :=
  match m with Some n => Some (pred n) | None => None end.

Section Matcher.
  Context {R : Type}.

  (* x{min,max} followed by continuation k.  [acc] = characters consumed so far
     in the enclosing group, reversed.  Greedy: try one more first, then stop;
     lazy: the other way round. *)
  Fixpoint rep (cs : cset) (greedy : bool) (k : str -> str -> option R)
           (min : nat) (max : option nat) (acc : str) (s : str) {struct s} : option R :=
    match s with
    | [] => match min with O => k acc [] | S _ => None end
    | c :: s' =>
        match min with
        | S m =>
            if cs_in cs c && max_ok max then rep cs greedy k m (max_dec max) (c :: acc) s' else None
        | O =>
            if greedy then
              match (if cs_in cs c && max_ok max
                     then rep cs greedy k O (max_dec max) (c :: acc) s' else None) with
              | Some r => Some r
              | None => k acc s
              end
            else
              match k acc s with
              | Some r => Some r
              | None =>
                  if cs_in cs c && max_ok max
                  then rep cs greedy k O (max_dec max) (c :: acc) s' else None
              end
        end
    end.

  Fixpoint m_items (its : list item) (k : str -> str -> option R) (acc s : str) : option R :=
    match its with
    | [] => k acc s
    | it :: its' =>
        rep (it_cs it) (it_greedy it) (fun acc' s' => m_items its' k acc' s')
            (it_min it) (it_max it) acc s
    end.
End Matcher.

(* [fin] decides what may remain after the last piece; the result carries the
   captured groups and the unmatched remainder s[match.end():] *)
Fixpoint m_pieces (ps : list piece) (fin : str -> bool) (done : list str) (s : str)
  : option (list str * str) :=
  match ps with
  | [] => if fin s then Some (rev done, s) else None
  | PIt it :: ps' => m_items [it] (fun _ s' => m_pieces ps' fin done s') [] s
  | PGrp body :: ps' => m_items body (fun acc s' => m_pieces ps' fin (rev acc :: done) s') [] s
  end.

(* Python's `$` (no MULTILINE): at the end, or just before a final LF.
   Without `$`, Pattern.match accepts any remainder (prefix match). *)
Definition fin_of (anch : bool) (s : str) : bool :=
  if anch then match s with [] => true | [c] => c =? 10 | _ => false end else true.

(* regex.match(s): None, or (match.groups(), s[match.end():]) *)
Definition rx_match (r : regex) (s : str) : option (list str * str) :=
  m_pieces (rx_pieces r) (fin_of (rx_anch r)) [] s.

(* regex.fullmatch(s), used by matchers built from a pattern STRING
   (self._whole): the same priority-ordered search, but a candidate match only
   counts when it ends at the end of the subject (`$` is zero-width there) *)
Definition is_nilb (s : str) : bool := match s with [] => true | _ => false end.
Definition whole_match (r : regex) (s : str) : option (list str) :=
  match m_pieces (rx_pieces r) (fun t => fin_of (rx_anch r) t && is_nilb t) [] s with
  | Some (caps, _) => Some caps
  | None => None
  end.

(* ---------- reference: does the pattern match the WHOLE string ---------- *)
Fixpoint acc_rep (cs : cset) (k : str -> bool) (min : nat) (max : option nat) (s : str) {struct s} : bool :=
  match s with
  | [] => match min with O => k [] | S _ => false end
  | c :: s' =>
      (match min with O => k s | S _ => false end)
      || (cs_in cs c && max_ok max && acc_rep cs k (pred min) (max_dec max) s')
  end.

Fixpoint acc_items (its : list item) : str -> bool :=
  match its with
  | [] => fun s => match s with [] => true | _ => false end
  | it :: its' => acc_rep (it_cs it) (acc_items its') (it_min it) (it_max it)
  end.

Definition flat_items (ps : list piece) : list item :=
  flat_map (fun p => match p with PIt i => [i] | PGrp b => b end) ps.

Definition rx_full (r : regex) (s : str) : bool := acc_items (flat_items (rx_pieces r)) s.

(* ------------------------------------------------------------------ *)
(* Pattern text -> regex (sre_parse restricted to the fragment)         *)
(* ------------------------------------------------------------------ *)
Definition is_digit (c : N) : bool := (48 <=? c) && (c <=? 57).
Definition is_alnum (c : N) : bool :=
  is_digit c || ((65 <=? c) && (c <=? 90)) || ((97 <=? c) && (c <=? 122)).

Inductive token := TItem (i : item) | TOpen | TClose | TDollar | TName (n : str) (* ?P<n> right after TOpen *).

(* what is waiting for a possible quantifier at top level *)
Inductive pend := P0 | PA (cs : cset) | PQ (cs : cset) (mn : nat) (mx : option nat) | POpen (* just after an opening parenthesis *).

(* inside [...]: nothing pending / a literal that may start a range / literal and '-' *)
Inductive cpend := CP0 | CPChar (x : N) | CPDash (x : N) | CPCat | CPCatDash.

Inductive lstate :=
| LTop (p : pend)
| LEsc
| LClsStart
| LCls (neg : bool) (acc : list (N * N)) (p : cpend)
| LClsEsc (neg : bool) (acc : list (N * N)) (p : cpend)
| LBrMin (cs : cset) (ds : list N)
| LBrMax (cs : cset) (mn : nat) (ds : list N)
| LGrpQ | LGrpP | LGrpName (acc : str)      (* after "(?", "(?P", "(?P<" *)
| LFail.

Definition flush (p : pend) : list token :=
  match p with
  | P0 | POpen => []
  | PA cs => [TItem (mkItem cs 1 (Some 1%nat) true)]
  | PQ cs mn mx => [TItem (mkItem cs mn mx true)]
  end.

(* decimal digits (most significant first), at most 3 of them *)
Definition digits_nat (ds : list N) : nat :=
  fold_left (fun a d => (10 * a + N.to_nat (d - 48))%nat) ds 0%nat.

Definition commit (acc : list (N * N)) (p : cpend) : option (list (N * N)) :=
  match p with
  | CP0 | CPCat => Some acc
  | CPChar x => Some ((x, x) :: acc)
  | CPDash _ | CPCatDash => None
  end.

Definition cls_step (neg : bool) (acc : list (N * N)) (p : cpend) (c : N) : lstate * list token :=
  if c =? 93 then                                   (* ] *)
    match p with
    | CP0 => match acc with [] => (LFail, []) | _ => (LTop (PA (CSet neg (rev acc))), []) end
    | CPCat => (LTop (PA (CSet neg (rev acc))), [])
    | CPChar x => (LTop (PA (CSet neg (rev ((x, x) :: acc)))), [])
    | CPDash x => (LTop (PA (CSet neg (rev ((45, 45) :: (x, x) :: acc)))), [])
    | CPCatDash => (LTop (PA (CSet neg (rev ((45, 45) :: acc)))), [])
    end
  else if c =? 91 then (LFail, [])                  (* [ inside a set: not modelled *)
  else if c =? 92 then                              (* backslash *)
    match p with
    | CPDash _ | CPCatDash => (LFail, [])           (* escape as range end: not modelled *)
    | _ => (LClsEsc neg acc p, [])
    end
  else
    match p with
    | CP0 => (LCls neg acc (CPChar c), [])
    | CPCat => if c =? 45 then (LCls neg acc CPCatDash, []) else (LCls neg acc (CPChar c), [])
    | CPChar x =>
        if c =? 45 then (LCls neg acc (CPDash x), [])
        else (LCls neg ((x, x) :: acc) (CPChar c), [])
    | CPDash x => if x <=? c then (LCls neg ((x, c) :: acc) CP0, []) else (LFail, [])
    | CPCatDash => (LFail, [])                      (* "bad character range \d-x" *)
    end.

Definition top_step (p : pend) (c : N) : lstate * list token :=
  if c =? 42 then                                   (* * *)
    match p with PA cs => (LTop (PQ cs 0 None), []) | _ => (LFail, []) end
  else if c =? 43 then                              (* + *)
    match p with PA cs => (LTop (PQ cs 1 None), []) | _ => (LFail, []) end
  else if c =? 63 then                              (* ? : optional, or lazy marker *)
    match p with
    | PA cs => (LTop (PQ cs 0 (Some 1%nat)), [])
    | PQ cs mn mx => (LTop P0, [TItem (mkItem cs mn mx false)])
    | POpen => (LGrpQ, [])                       (* "(?": only (?P<name> is modelled *)
    | P0 => (LFail, [])
    end
  else if c =? 123 then                             (* { *)
    match p with PA cs => (LBrMin cs [], []) | _ => (LFail, []) end
  else if c =? 92 then (LEsc, flush p)
  else if c =? 46 then (LTop (PA CDot), flush p)
  else if c =? 91 then (LClsStart, flush p)
  else if c =? 40 then (LTop POpen, flush p ++ [TOpen])
  else if c =? 41 then (LTop P0, flush p ++ [TClose])
  else if c =? 36 then (LTop P0, flush p ++ [TDollar])
  else if (c =? 94) || (c =? 93) || (c =? 125) || (c =? 124) then (LFail, [])
  else (LTop (PA (CChar c)), flush p).

Definition lex_step (st : lstate) (c : N) : lstate * list token :=
  match st with
  | LTop p => top_step p c
  | LEsc =>
      if c =? 100 then (LTop (PA (CSet false [(48, 57)])), [])      (* \d *)
      else if is_alnum c then (LFail, [])                            (* other classes / anchors *)
      else (LTop (PA (CChar c)), [])
  | LClsStart => if c =? 94 then (LCls true [] CP0, []) else cls_step false [] CP0 c
  | LCls neg acc p => cls_step neg acc p c
  | LClsEsc neg acc p =>
      match commit acc p with
      | None => (LFail, [])
      | Some acc' =>
          if c =? 100 then (LCls neg ((48, 57) :: acc') CPCat, [])
          else if is_alnum c then (LFail, [])
          else (LCls neg acc' (CPChar c), [])
      end
  | LBrMin cs ds =>
      if is_digit c then (if (length ds <? 3)%nat then (LBrMin cs (ds ++ [c]), []) else (LFail, []))
      else if c =? 44 then (LBrMax cs (digits_nat ds) [], [])
      else if c =? 125 then
        match ds with
        | [] => (LFail, [])
        | _ => (LTop (PQ cs (digits_nat ds) (Some (digits_nat ds))), [])
        end
      else (LFail, [])
  | LBrMax cs mn ds =>
      if is_digit c then (if (length ds <? 3)%nat then (LBrMax cs mn (ds ++ [c]), []) else (LFail, []))
      else if c =? 125 then
        match ds with
        | [] => (LTop (PQ cs mn None), [])
        | _ => if (mn <=? digits_nat ds)%nat then (LTop (PQ cs mn (Some (digits_nat ds))), [])
               else (LFail, [])
        end
      else (LFail, [])
  | LGrpQ => if c =? 80 then (LGrpP, []) else (LFail, [])
  | LGrpP => if c =? 60 then (LGrpName [], []) else (LFail, [])
  | LGrpName acc =>
      if c =? 62 then match acc with [] => (LFail, []) | _ => (LTop P0, [TName (rev acc)]) end
      else if is_alnum c || (c =? 95) then
        match acc with
        | [] => if is_digit c then (LFail, []) else (LGrpName [c], [])
        | _ => (LGrpName (c :: acc), [])
        end
      else (LFail, [])
  | LFail => (LFail, [])
  end.

Fixpoint lex_run (s : str) (st : lstate) : lstate * list token :=
  match s with
  | [] => (st, [])
  | c :: s' =>
      let '(st1, e1) := lex_step st c in
      let '(st2, e2) := lex_run s' st1 in
      (st2, e1 ++ e2)
  end.

(* tokens of a whole string, pending atom flushed; None = outside the fragment *)
Definition lexf (s : str) : option (list token) :=
  match lex_run s (LTop P0) with
  | (LTop p, e) => Some (e ++ flush p)
  | _ => None
  end.

Fixpoint build (ts : list token) (grp : option (list item)) (done : list piece)
  : option (list piece * bool) :=
  match ts with
  | [] => match grp with None => Some (rev done, false) | Some _ => None end
  | TItem it :: r =>
      match grp with
      | Some g => build r (Some (it :: g)) done
      | None => build r None (PIt it :: done)
      end
  | TOpen :: r => match grp with None => build r (Some []) done | Some _ => None end
  | TClose :: r => match grp with Some g => build r None (PGrp (rev g) :: done) | None => None end
  | TDollar :: r => match r, grp with [], None => Some (rev done, true) | _, _ => None end
  | TName _ :: r => build r grp done
  end.

(* re.compile(pattern) for the fragment; a leading `^` is a no-op for Pattern.match *)
Definition strip_caret (s : str) : str :=
  match s with c :: r => if c =? 94 then r else s | [] => s end.

Definition rx_parse (pat : str) : option regex :=
  match lexf (strip_caret pat) with
  | Some ts =>
      match build ts None [] with
      | Some (ps, a) => Some (mkRegex ps a)
      | None => None
      end
  | None => None
  end.

(* regex.groupindex, by group position: the name of each group, if it has one *)
Fixpoint names_of (ts : list token) : list (option str) :=
  match ts with
  | [] => []
  | TOpen :: r =>
      match r with
      | TName n :: r' => Some n :: names_of r'
      | _ => None :: names_of r
      end
  | _ :: r => names_of r
  end.
Definition pat_names (pat : str) : list (option str) :=
  match lexf (strip_caret pat) with Some ts => names_of ts | None => [] end.

Definition is_none {A} (o : option A) : bool := match o with None => true | Some _ => false end.
Fixpoint all_some {A} (l : list (option A)) : option (list A) :=
  match l with
  | [] => Some []
  | Some x :: r => match all_some r with Some xs => Some (x :: xs) | None => None end
  | None :: _ => None
  end.
Fixpoint nodup_str (l : list str) : bool :=
  match l with [] => true | x :: r => negb (existsb (str_eqb x) r) && nodup_str r end.

(* `assert len(regex.groupindex) in (0, regex.groups)`: all groups named or none;
   a repeated name is an re.error *)
Definition names_okb (names : list (option str)) : bool :=
  forallb is_none names
  || match all_some names with Some ns => nodup_str ns | None => false end.

(* the keyword names under which groups are passed (`if self.regex.groupindex:`) *)
Definition kw_names (names : list (option str)) : option (list str) :=
  if forallb is_none names then None else all_some names.

(* `if not pattern.endswith("$"): pattern += "$"` — a purely textual test *)
Definition ends_dollar (s : str) : bool :=
  match rev s with c :: _ => c =? 36 | [] => false end.
Definition add_dollar (s : str) : str := if ends_dollar s then s else s ++ [36].

(* ------------------------------------------------------------------ *)
(* PathMatches._find_groups / reverse                                    *)
(* ------------------------------------------------------------------ *)
(* util.re_unescape: `\\(.)` (DOTALL) -> group 1, ValueError on [A-Za-z0-9] *)
Fixpoint re_unescape (s : str) : option str :=
  match s with
  | [] => Some []
  | c :: r =>
      if c =? 92 then
        match r with
        | [] => Some [c]
        | a :: r1 =>
            if is_alnum a then None
            else match re_unescape r1 with Some t => Some (a :: t) | None => None end
        end
      else match re_unescape r with Some t => Some (c :: t) | None => None end
  end.

(* str.split(sep) for a one-character separator *)
Fixpoint split_on (d : N) (cur : str) (s : str) : list str :=
  match s with
  | [] => [rev cur]
  | c :: r => if c =? d then rev cur :: split_on d [] r else split_on d (c :: cur) r
  end.

Definition count_char (d : N) (s : str) : nat := length (filter (N.eqb d) s).

(* fragment[fragment.index(")") + 1:], None when there is no ")" *)
Fixpoint after_close (s : str) : option str :=
  match s with
  | [] => None
  | c :: r => if c =? 41 then Some r else after_close r
  end.

Definition esc_pct (s : str) : str := replace_char 37 [37; 37] s.   (* .replace("%", "%%") *)

Definition frag_tpl (f : str) : option str :=
  match after_close f with
  | Some rest =>
      match re_unescape rest with Some u => Some (37 :: 115 :: esc_pct u) | None => None end
  | None =>
      match re_unescape f with Some u => Some (esc_pct u) | None => None end
  end.

Fixpoint map_opt {A B} (f : A -> option B) (l : list A) : option (list B) :=
  match l with
  | [] => Some []
  | x :: l' =>
      match f x, map_opt f l' with
      | Some y, Some ys => Some (y :: ys)
      | _, _ => None
      end
  end.

(* `if pattern.endswith("$") and <even number of backslashes before it>: pattern = pattern[:-1]` *)
Fixpoint count_lead (d : N) (s : str) : nat :=
  match s with c :: r => if c =? d then S (count_lead d r) else O | [] => O end.
Definition strip_last_dollar (s : str) : str :=
  match rev s with
  | c :: r => if (c =? 36) && Nat.even (count_lead 92 r) then rev r else s
  | [] => s
  end.

(* (reverse template, group count); None = (None, None): not reversible *)
Definition find_groups (pat : str) (ngroups : nat) : option (str * nat) :=
  let p := strip_last_dollar (strip_caret pat) in
  if negb (ngroups =? count_char 40 p)%nat then None
  else
    match map_opt frag_tpl (split_on 40 [] p) with
    | Some ps => Some (concat ps, ngroups)
    | None => None
    end.

Definition count_groups (ps : list piece) : nat :=
  length (filter (fun p => match p with PGrp _ => true | _ => false end) ps).

Record pathm := mkPathm {
  pm_rx : regex;
  pm_tpl : option (str * nat);
  pm_text : str;    (* the pattern as written *)
  pm_whole : bool;  (* self._whole: built from a pattern string, not a precompiled re.Pattern *)
  pm_names : list (option str)   (* group names, by position *)
}.

(* PathMatches(pattern_string) *)
Definition compile_path (pat : str) : option pathm :=
  let p := add_dollar pat in
  match rx_parse p with
  | Some rx =>
      if names_okb (pat_names p)
      then Some (mkPathm rx (find_groups p (count_groups (rx_pieces rx))) pat true (pat_names p))
      else None    (* AssertionError / re.error at construction *)
  | None => None
  end.

(* PathMatches(re.compile(pattern)): the pattern is used as it is (no "$" appended),
   match() uses Pattern.match, _find_groups works on regex.pattern *)
Definition compile_path_re (pat : str) : option pathm :=
  match rx_parse pat with
  | Some rx =>
      if names_okb (pat_names pat)
      then Some (mkPathm rx (find_groups pat (count_groups (rx_pieces rx))) pat false (pat_names pat))
      else None
  | None => None
  end.

(* HostMatches(pattern_string) *)
Definition compile_host (pat : str) : option regex := rx_parse (add_dollar pat).

(* `template % tuple(args)` for str arguments: %% and %s only are meaningful *)
Inductive rev_res :=
| RvOk (u : str)
| RvCannot        (* ValueError("Cannot reverse url regex ...") *)
| RvAssert        (* AssertionError: required number of arguments not found *)
| RvNotEnough     (* TypeError: not enough arguments for format string *)
| RvNotAll        (* TypeError: not all arguments converted *)
| RvBadFormat.    (* ValueError: unsupported / incomplete format *)

Definition rv_cons (c : N) (r : rev_res) : rev_res :=
  match r with RvOk u => RvOk (c :: u) | e => e end.
Definition rv_app (a : str) (r : rev_res) : rev_res :=
  match r with RvOk u => RvOk (a ++ u) | e => e end.

Fixpoint pyformat (t : str) (args : list str) : rev_res :=
  match t with
  | [] => match args with [] => RvOk [] | _ => RvNotAll end
  | c :: t1 =>
      if c =? 37 then
        match t1 with
        | [] => RvBadFormat
        | d :: t2 =>
            if d =? 37 then rv_cons 37 (pyformat t2 args)
            else if d =? 115 then
              match args with
              | a :: args' => rv_app a (pyformat t2 args')
              | [] => RvNotEnough
              end
            else RvBadFormat
        end
      else rv_cons c (pyformat t1 args)
  end.

(* url_escape(utf8(a), plus=False) = urllib.parse.quote(bytes) *)
Definition quote_arg (a : list N) : str := quote_from_bytes safe_slash a.

(* PathMatches.reverse( *args ), args given as byte strings *)
Definition pm_reverse (pm : pathm) (args : list (list N)) : rev_res :=
  match pm_tpl pm with
  | None => RvCannot
  | Some (t, n) =>
      if negb (length args =? n)%nat then RvAssert
      else pyformat t (map quote_arg args)
  end.

(* _unquote_or_none(s) = unquote_to_bytes(s): encode to UTF-8, then %XX;
   None = UnicodeEncodeError (lone surrogate in the path) *)
Definition unq (s : str) : option (list N) :=
  match utf8_encode s with Some b => Some (unquote_bytes b) | None => None end.

(* PathMatches.match (string pattern): MMiss = None; MHit = path_args *)
Inductive mres := MMiss | MErr | MHit (args : list (list N)).

(* the groups found by fullmatch (string pattern) or match (precompiled pattern) *)
Definition pm_caps (pm : pathm) (path : str) : option (list str) :=
  if pm_whole pm then whole_match (pm_rx pm) path
  else match rx_match (pm_rx pm) path with Some (caps, _) => Some caps | None => None end.

Definition pm_match (pm : pathm) (path : str) : mres :=
  match pm_caps pm path with
  | None => MMiss
  | Some caps => match map_opt unq caps with Some a => MHit a | None => MErr end
  end.

(* ------------------------------------------------------------------ *)
(* Matchers, rules, routers                                              *)
(* ------------------------------------------------------------------ *)
Inductive matcher :=
| MAny
| MHost (r : regex)
| MDefHost (r : regex) (default_host : str)
| MPath (p : pathm).

Record request := mkReq { rq_host : str (* request.host_name *); rq_path : str; rq_xreal : bool }.

Definition m_match (m : matcher) (rq : request) : mres :=
  match m with
  | MAny => MHit []
  | MHost r => match whole_match r (rq_host rq) with Some _ => MHit [] | None => MMiss end
  | MDefHost r d =>
      if rq_xreal rq then MMiss
      else match rx_match r d with Some _ => MHit [] | None => MMiss end
  | MPath p => pm_match p (rq_path rq)
  end.

(* a Rule whose target is a RequestHandler subclass (leaf, identified by a
   number) or a nested router (list of rules) *)
Inductive rule :=
| RLeaf (m : matcher) (name : option str) (h : N)
| RNode (m : matcher) (name : option str) (sub : list rule).

Definition rule_m (r : rule) : matcher := match r with RLeaf m _ _ | RNode m _ _ => m end.
Definition rule_name (r : rule) : option str := match r with RLeaf _ n _ | RNode _ n _ => n end.

Inductive fres := FMiss | FErr | FHit (h : N) (args : list (list N)).

(* RuleRouter.find_handler: nested routers ignore the outer target_params *)
Fixpoint find_rule (rq : request) (r : rule) : fres :=
  match r with
  | RLeaf m _ h =>
      match m_match m rq with MHit a => FHit h a | MMiss => FMiss | MErr => FErr end
  | RNode m _ sub =>
      match m_match m rq with
      | MHit _ =>
          (fix go (l : list rule) : fres :=
             match l with
             | [] => FMiss
             | x :: l' => match find_rule rq x with FMiss => go l' | o => o end
             end) sub
      | MMiss => FMiss
      | MErr => FErr
      end
  end.

Fixpoint find_rules (rq : request) (l : list rule) : fres :=
  match l with
  | [] => FMiss
  | x :: l' => match find_rule rq x with FMiss => find_rules rq l' | o => o end
  end.

(* ReversibleRuleRouter: named_rules is a dict, a later rule replaces an earlier
   one of the same name; `if rule.name:` skips None and "" *)
Definition has_name (name : str) (r : rule) : bool :=
  match rule_name r with
  | Some n => negb (match n with [] => true | _ => false end) && str_eqb n name
  | None => false
  end.

Fixpoint find_last_named (l : list rule) (name : str) : option rule :=
  match l with
  | [] => None
  | r :: l' =>
      match find_last_named l' name with
      | Some x => Some x
      | None => if has_name name r then Some r else None
      end
  end.

(* Matcher.reverse: None unless PathMatches *)
Definition m_reverse (m : matcher) (args : list (list N)) : option rev_res :=
  match m with MPath p => Some (pm_reverse p args) | _ => None end.

(* reverse_url of the router that is the target of [r]; None = not found *)
Fixpoint rule_reverse (name : str) (args : list (list N)) (r : rule) : option rev_res :=
  match r with
  | RLeaf _ _ _ => None
  | RNode _ _ sub =>
      match find_last_named sub name with
      | Some x => m_reverse (rule_m x) args
      | None =>
          (fix go (l : list rule) : option rev_res :=
             match l with
             | [] => None
             | x :: l' =>
                 match rule_reverse name args x with Some v => Some v | None => go l' end
             end) sub
      end
  end.

(* ------------------------------------------------------------------ *)
(* Application                                                           *)
(* ------------------------------------------------------------------ *)
Record app := mkApp {
  a_handlers : list rule;                     (* Application(handlers) *)
  a_hosts : list (regex * list rule);         (* add_handlers calls, in order *)
  a_default_host : option str;
  a_default_handler : bool                    (* settings["default_handler_class"] *)
}.

Definition wildcard_rules (a : app) : list rule :=
  a_handlers a ++
  match a_default_host a with
  | Some d => map (fun hr => RNode (MDefHost (fst hr) d) None (snd hr)) (a_hosts a)
  | None => []
  end.

(* default_router.rules *)
Definition app_rules (a : app) : list rule :=
  map (fun hr => RNode (MHost (fst hr)) None (snd hr)) (a_hosts a)
  ++ [RNode MAny None (wildcard_rules a)].

Inductive route := RtHandler (h : N) (args : list (list N)) | RtNotFound | RtDefault | RtError.

Definition app_find (a : app) (rq : request) : route :=
  match find_rules rq (app_rules a) with
  | FHit h args => RtHandler h args
  | FErr => RtError
  | FMiss => if a_default_handler a then RtDefault else RtNotFound
  end.

(* Application.reverse_url: None = KeyError *)
Definition app_reverse (a : app) (name : str) (args : list (list N)) : option rev_res :=
  rule_reverse name args (RNode MAny None (app_rules a)).

(* ------------------------------------------------------------------ *)
(* Request attributes                                                    *)
(* ------------------------------------------------------------------ *)
Definition ascii_lower (c : N) : N := if (65 <=? c) && (c <=? 90) then c + 32 else c.
(* uri.partition("?")[0] *)
Fixpoint before_q (s : str) : str :=
  match s with [] => [] | c :: r => if c =? 63 then [] else c :: before_q r end.

(* httputil.split_host_and_port(host)[0]: `^(.+):(\d+)$` — only the last colon can
   work; non-empty host part, non-empty all-digit port (ASCII hosts) *)
Fixpoint span58 (s acc : str) : option (str * str) :=
  match s with
  | [] => None
  | c :: r => if c =? 58 then Some (rev acc, r) else span58 r (c :: acc)
  end.
Definition split_port (h : str) : str :=
  match span58 (rev h) [] with
  | Some (pr, ar) =>                (* reversed port, reversed host part *)
      match pr, ar with
      | _ :: _, _ :: _ => if forallb is_digit pr then rev ar else h
      | _, _ => h
      end
  | None => h
  end.

(* HTTPServerRequest(uri=…, Host: host): host_name = split_host_and_port(host.lower())[0] *)
Definition mk_request (host uri : str) (xreal : bool) : request :=
  mkReq (split_port (map ascii_lower host)) (before_q uri) xreal.

(* ------------------------------------------------------------------ *)
(* Raw configuration (pattern strings), as handed to Application          *)
(* ------------------------------------------------------------------ *)
Inductive mkind := KPath | KHost | KAny | KPathRe (* PathMatches(re.compile(pat)) *).
Inductive rrule :=
| RRLeaf (k : mkind) (pat : str) (name : option str) (h : N)
| RRNode (k : mkind) (pat : str) (name : option str) (sub : list rrule).

Definition compile_matcher (k : mkind) (pat : str) : option matcher :=
  match k with
  | KAny => Some MAny
  | KHost => match compile_host pat with Some r => Some (MHost r) | None => None end
  | KPath => match compile_path pat with Some p => Some (MPath p) | None => None end
  | KPathRe => match compile_path_re pat with Some p => Some (MPath p) | None => None end
  end.

Fixpoint compile_rule (r : rrule) : option rule :=
  match r with
  | RRLeaf k pat name h =>
      match compile_matcher k pat with Some m => Some (RLeaf m name h) | None => None end
  | RRNode k pat name sub =>
      match compile_matcher k pat,
            (fix go (l : list rrule) : option (list rule) :=
               match l with
               | [] => Some []
               | x :: l' =>
                   match compile_rule x, go l' with
                   | Some y, Some ys => Some (y :: ys)
                   | _, _ => None
                   end
               end) sub with
      | Some m, Some rs => Some (RNode m name rs)
      | _, _ => None
      end
  end.

Definition compile_rules (l : list rrule) : option (list rule) := map_opt compile_rule l.

Definition compile_hosts (l : list (str * list rrule)) : option (list (regex * list rule)) :=
  map_opt (fun hr => match compile_host (fst hr), compile_rules (snd hr) with
                     | Some r, Some rs => Some (r, rs)
                     | _, _ => None
                     end) l.

Definition compile_app (hs : list rrule) (hosts : list (str * list rrule))
           (dh : option str) (dflt : bool) : option app :=
  match compile_rules hs, compile_hosts hosts with
  | Some h, Some ho => Some (mkApp h ho dh dflt)
  | _, _ => None
  end.
