(* C31 — the model satisfies the boolean checker used on the implementation's
   observables (check_case). *)
From Coq Require Import List NArith ZArith Bool Arith String Lia.
From TV Require Import Lib.Obs Lib.C21_Utf8 Lib.C21_Pct C31.Model C31.Spec C31.Run
     C31.Proofs1 C31.Proofs2 C31.Proofs3.
Import ListNotations.
Local Open Scope N_scope.

Lemma list_eqb_N_refl (l : list N) : list_eqb N.eqb l l = true.
Proof. induction l as [|a l IH]; [reflexivity|]. simpl. rewrite N.eqb_refl. exact IH. Qed.

Lemma obs_eqb_refl : forall o, obs_eqb o o = true.
Proof.
  fix IH 1. intros [ | b | z | l | s | l]; simpl.
  - reflexivity.
  - destruct b; reflexivity.
  - apply Z.eqb_refl.
  - apply list_eqb_N_refl.
  - apply String.eqb_refl.
  - revert l. fix IHl 1. intros [|a l]; [reflexivity|]. rewrite (IH a). simpl. apply IHl.
Qed.

Lemma valid_textb_iff s : valid_textb s = true <-> valid_text s.
Proof. unfold valid_textb, valid_text. rewrite forallb_forall, Forall_forall. tauto. Qed.

Lemma is_bytes_iff l : is_bytes l = true <-> bytes l.
Proof.
  unfold is_bytes, bytes. rewrite forallb_forall, Forall_forall.
  split; intros H x Hx; specialize (H x Hx); [apply N.ltb_lt|apply N.ltb_lt]; exact H.
Qed.

Lemma caps_eqb_eq a b : caps_eqb a b = true -> a = b.
Proof.
  apply list_eqb_sound. intros x y. apply list_eqb_sound. intros p q. apply N.eqb_eq.
Qed.

(* inside the round-trip scope the URL routes back to the handler with the arguments *)
Lemma roundtrip_routes a name args host u h :
  roundtrip_expect a name args host = Some (u, h) ->
  app_find a (mk_request host u false) = RtHandler h args.
Proof.
  unfold roundtrip_expect.
  destruct (lookup_rule name _) as [[m n h0|? ? ?]|]; try discriminate.
  destruct m as [| | |p]; try discriminate.
  destruct (plain_segs (pm_text p)) as [segs|]; [|discriminate].
  destruct (pm_whole p); [|discriminate]. cbn [andb].
  destruct (forallb is_bytes args) eqn:Eb; [|discriminate].
  destruct (spec_url _ args) as [u0|]; [|discriminate].
  set (rq := mk_request host u0 false).
  destruct (negb (forallb is_scalar (rq_path rq))) eqn:Ev; [discriminate|].
  destruct (find (leaf_strict rq) (leaves (app_rules a))) as [[[anc m'] h']|] eqn:Ef; [|discriminate].
  destruct m' as [| | |p']; try discriminate.
  destruct (all_parses (pm_rx p') (rq_path rq)) as [|caps [|]] eqn:Ep; try discriminate.
  destruct (pm_whole p' && (h' =? h0) && caps_eqb caps (map quote_arg args)) eqn:Ec; [|discriminate].
  intros H. inversion H; subst. apply andb_true_iff in Ec as [Ec Ecaps]. apply andb_true_iff in Ec as [Ew' Eh].
  apply N.eqb_eq in Eh. subst h'. apply caps_eqb_eq in Ecaps. subst caps.
  apply negb_false_iff in Ev. fold (valid_textb (rq_path rq)) in Ev. apply valid_textb_iff in Ev.
  fold rq. rewrite (app_find_spec a rq Ev). unfold spec_route. rewrite Ef.
  change (m_match (MPath p') rq) with (pm_match p' (rq_path rq)).
  unfold pm_match, pm_caps. rewrite Ew', (all_parses_single _ _ _ Ep).
  rewrite map_opt_unq_quote; [reflexivity|].
  apply Forall_forall. intros x Hx. apply is_bytes_iff. rewrite forallb_forall in Eb. apply Eb. exact Hx.
Qed.

(* "reverse_url yields the URL read off the pattern" — the link between the
   textual _find_groups and the parsed pattern; see Proofs5 for when it holds *)
Definition reverse_agrees (a : app) : Prop :=
  forall name args host u h,
    roundtrip_expect a name args host = Some (u, h) -> app_reverse a name args = Some (RvOk u).

Lemma check_route a host uri xreal :
  check_op a (OpRoute host uri xreal) (run_op a (OpRoute host uri xreal)) = true.
Proof.
  unfold check_op, run_op. cbv zeta.
  destruct (valid_textb (rq_path (mk_request host uri xreal))) eqn:Ev; [|reflexivity].
  apply valid_textb_iff in Ev. rewrite (app_find_spec a _ Ev). apply obs_eqb_refl.
Qed.

Lemma check_reverse a name args host :
  reverse_agrees a ->
  check_op a (OpReverse name args host) (run_op a (OpReverse name args host)) = true.
Proof.
  intros Hag. unfold check_op, run_op. destruct (roundtrip_expect a name args host) as [[u h]|] eqn:Er.
  - rewrite (Hag _ _ _ _ _ Er). unfold reverse_obs. rewrite (roundtrip_routes _ _ _ _ _ _ Er). apply obs_eqb_refl.
  - destruct (app_reverse a name args) as [[u| | | | |]|]; unfold reverse_obs; try reflexivity. cbv zeta.
    destruct (valid_textb (rq_path (mk_request host u false))) eqn:Ev; [|reflexivity].
    apply valid_textb_iff in Ev. rewrite (app_find_spec a _ Ev). apply obs_eqb_refl.
Qed.

(* every routing case: unconditional *)
Theorem check_case_route hs hosts dh dflt host uri xreal :
  let i := (hs, hosts, dh, dflt, OpRoute host uri xreal) in check_case i (run_case i) = true.
Proof.
  unfold check_case, run_case. destruct (compile_app hs hosts dh dflt) as [a|]; [|reflexivity]. apply check_route.
Qed.

(* reverse cases: given the textual/structural agreement of reverse *)
Theorem check_case_reverse hs hosts dh dflt name args host :
  (forall a, compile_app hs hosts dh dflt = Some a -> reverse_agrees a) ->
  let i := (hs, hosts, dh, dflt, OpReverse name args host) in check_case i (run_case i) = true.
Proof.
  intros H. unfold check_case, run_case. destruct (compile_app hs hosts dh dflt) as [a|] eqn:E; [|reflexivity].
  apply check_reverse. apply H. reflexivity.
Qed.
