(* C31 — executable entry points used by the correspondence check. *)
From Coq Require Import List NArith ZArith String Bool.
Import ListNotations.
From TV Require Import Lib.Obs Lib.C21_Utf8 Lib.C21_Pct C31.Model C31.Spec.
Local Open Scope N_scope.

(* one case = one Application configuration and one operation on it *)
Inductive op :=
| OpRoute (host uri : str) (xreal : bool)
    (* app.find_handler(HTTPServerRequest(uri, Host: host [, X-Real-Ip])) *)
| OpReverse (name : str) (args : list (list N)) (host : str).
    (* u = app.reverse_url(name, *args); then app.find_handler(request for u on host) *)

Definition input : Type :=
  (list rrule * list (str * list rrule) * option str * bool * op)%type.

(* handler.path_args / handler.path_kwargs: all groups go by keyword when the
   pattern names them, else by position *)
Definition route_obs (kw : option (list str)) (r : route) : obs :=
  match r with
  | RtHandler h args =>
      match kw with
      | None => OList [OTag "Handler"; OInt (Z.of_N h); OList (map OBytes args); OList []]
      | Some ns =>
          OList [OTag "Handler"; OInt (Z.of_N h); OList [];
                 OList (map (fun nv => OList [OBytes (fst nv); OBytes (snd nv)]) (combine ns args))]
      end
  | RtNotFound => OTag "NotFound"
  | RtDefault => OTag "Default"
  | RtError => OTag "UnicodeEncodeError"
  end.
Definition route_obs_at (a : app) (rq : request) (r : route) : obs := route_obs (hit_kw a rq) r.

Definition reverse_obs (a : app) (host : str) (r : option rev_res) : obs :=
  match r with
  | None => OTag "KeyError"
  | Some (RvOk u) => OList [OTag "Url"; OBytes u; route_obs_at a (mk_request host u false) (app_find a (mk_request host u false))]
  | Some RvCannot => OTag "CannotReverse"
  | Some RvAssert => OTag "AssertionError"
  | Some RvNotEnough => OTag "NotEnoughArguments"
  | Some RvNotAll => OTag "NotAllConverted"
  | Some RvBadFormat => OTag "BadFormat"
  end.

Definition run_op (a : app) (o : op) : obs :=
  match o with
  | OpRoute host uri xreal => route_obs_at a (mk_request host uri xreal) (app_find a (mk_request host uri xreal))
  | OpReverse name args host => reverse_obs a host (app_reverse a name args)
  end.

Definition run_case (i : input) : obs :=
  let '(hs, hosts, dh, dflt, o) := i in
  match compile_app hs hosts dh dflt with
  | Some a => run_op a o
  | None => OTag "ConstructionFailed"   (* mixed named/unnamed groups (AssertionError), or outside the fragment *)
  end.

(* ---------- the property on observables ---------- *)
Definition valid_textb (s : str) : bool := forallb is_scalar s.

Definition check_op (a : app) (o : op) (ob : obs) : bool :=
  match o with
  | OpRoute host uri xreal =>
      let rq := mk_request host uri xreal in
      if valid_textb (rq_path rq) then obs_eqb ob (route_obs_at a rq (spec_route a rq)) else true
  | OpReverse name args host =>
      match roundtrip_expect a name args host with
      | Some (u, h) => obs_eqb ob (OList [OTag "Url"; OBytes u; route_obs_at a (mk_request host u false) (RtHandler h args)])
      | None =>
          (* outside the round-trip scope: whatever URL came back must still be routed first-match *)
          match ob with
          | OList [OTag t; OBytes u; routed] =>
              let rq := mk_request host u false in
              if valid_textb (rq_path rq) then obs_eqb routed (route_obs_at a rq (spec_route a rq)) else true
          | _ => true
          end
      end
  end.

Definition check_case (i : input) (ob : obs) : bool :=
  let '(hs, hosts, dh, dflt, o) := i in
  match compile_app hs hosts dh dflt with
  | Some a => check_op a o ob
  | None => true
  end.
