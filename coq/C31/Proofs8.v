(* C31 — applications built by a sequence of add_handlers calls: the host groups
   are tried in call order (repeated and overlapping host patterns included),
   before the constructor's handlers. *)
From Coq Require Import List NArith Bool Arith Lia.
From TV Require Import Lib.Obs Lib.C21_Utf8 Lib.C21_Pct C31.Model C31.Spec C31.Run
     C31.Proofs1 C31.Proofs2.
Import ListNotations.
Local Open Scope N_scope.

Definition pre (anc : list matcher) (lf : list matcher * matcher * N) : list matcher * matcher * N :=
  (anc ++ fst (fst lf), snd (fst lf), snd lf).

Lemma map_flat_map {A B C} (f : B -> C) (g : A -> list B) l :
  map f (flat_map g l) = flat_map (fun x => map f (g x)) l.
Proof. induction l as [|x l IH]; [reflexivity|]. simpl. rewrite map_app, IH. reflexivity. Qed.

Lemma flat_map_ext_in {A B} (f g : A -> list B) l :
  Forall (fun x => f x = g x) l -> flat_map f l = flat_map g l.
Proof. induction 1 as [|x l Hx _ IH]; [reflexivity|]. simpl. rewrite Hx, IH. reflexivity. Qed.

Lemma pre_pre a b lf : pre a (pre b lf) = pre (a ++ b) lf.
Proof. destruct lf as [[x m] h]. unfold pre. simpl. rewrite app_assoc. reflexivity. Qed.

Lemma leaves_of_prefix : forall r anc, leaves_of anc r = map (pre anc) (leaves_of [] r).
Proof.
  induction r as [m n h|m n sub IH] using rule_ind2; intros anc.
  - simpl. unfold pre. simpl. rewrite app_nil_r. reflexivity.
  - rewrite !leaves_of_node, map_flat_map. apply flat_map_ext_in.
    eapply Forall_impl; [|exact IH]. intros x Hx. simpl.
    rewrite (Hx (anc ++ [m])), (Hx [m]), map_map. apply map_ext. intros lf. rewrite pre_pre. reflexivity.
Qed.

Lemma leaves_node_top m n rs : leaves_of [] (RNode m n rs) = map (pre [m]) (leaves rs).
Proof.
  rewrite leaves_of_node. unfold leaves. rewrite map_flat_map. apply flat_map_ext_in.
  apply Forall_forall. intros x _. apply leaves_of_prefix.
Qed.

(* the leaf table of an application, group by group in add_handlers call order *)
Definition group_leaves (hr : regex * list rule) := map (pre [MHost (fst hr)]) (leaves (snd hr)).

Lemma app_leaves a :
  leaves (app_rules a) =
  flat_map group_leaves (a_hosts a) ++ map (pre [MAny]) (leaves (wildcard_rules a)).
Proof.
  unfold app_rules, leaves at 1. rewrite flat_map_app. simpl. rewrite app_nil_r. f_equal.
  - induction (a_hosts a) as [|hr l IH]; [reflexivity|]. simpl. rewrite IH. f_equal. apply (leaves_node_top (MHost (fst hr)) None).
  - apply (leaves_node_top MAny None).
Qed.

Lemma leaf_accepts_pre rq anc lf :
  leaf_accepts rq (pre anc lf) <-> Forall (m_accepts rq) anc /\ leaf_accepts rq lf.
Proof.
  destruct lf as [[a m] h]. unfold leaf_accepts, pre. simpl. rewrite Forall_app. tauto.
Qed.

(* A request is served by the first add_handlers group, in call order, whose host
   pattern matches the host name and which contains a matching rule — and inside
   that group by its first matching rule.  Repeated host patterns are separate
   groups at their own positions. *)
Theorem host_groups_in_call_order a rq g1 r rs g2 l1 anc m h l2 :
  valid_text (rq_path rq) ->
  a_hosts a = g1 ++ (r, rs) :: g2 ->
  leaves rs = l1 ++ (anc, m, h) :: l2 ->
  (forall hr lf, In hr g1 -> m_accepts rq (MHost (fst hr)) -> In lf (leaves (snd hr)) -> ~ leaf_accepts rq lf) ->
  m_accepts rq (MHost r) ->
  (forall lf, In lf l1 -> ~ leaf_accepts rq lf) ->
  leaf_accepts rq (anc, m, h) ->
  exists args, app_find a rq = RtHandler h args /\ leaf_args rq m args.
Proof.
  intros Hv Hh Hl Hg1 Hr Hl1 Hlf.
  apply (first_match_dispatch a rq (flat_map group_leaves g1 ++ map (pre [MHost r]) l1) ([MHost r] ++ anc) m h
           (map (pre [MHost r]) l2 ++ flat_map group_leaves g2 ++ map (pre [MAny]) (leaves (wildcard_rules a)))).
  - exact Hv.
  - rewrite app_leaves, Hh, flat_map_app. simpl. unfold group_leaves at 2. simpl. rewrite Hl, map_app. simpl.
    repeat rewrite <- app_assoc. reflexivity.
  - intros lf Hin. apply in_app_or in Hin as [Hin|Hin].
    + apply in_flat_map in Hin as (hr & Hhr & Hin). unfold group_leaves in Hin.
      apply in_map_iff in Hin as (lf0 & <- & Hin0). rewrite leaf_accepts_pre. intros [Hm Hacc].
      inversion Hm; subst. exact (Hg1 hr lf0 Hhr H1 Hin0 Hacc).
    + apply in_map_iff in Hin as (lf0 & <- & Hin0). rewrite leaf_accepts_pre. intros [_ Hacc].
      exact (Hl1 lf0 Hin0 Hacc).
  - change ([MHost r] ++ anc, m, h) with (pre [MHost r] (anc, m, h)). apply leaf_accepts_pre. split; [|exact Hlf].
    constructor; [exact Hr|constructor].
Qed.

(* when no group serves the request, the constructor's handlers (then the
   default-host groups) are tried, in order *)
Theorem constructor_handlers_after_host_groups a rq l1 anc m h l2 :
  valid_text (rq_path rq) ->
  (forall hr lf, In hr (a_hosts a) -> m_accepts rq (MHost (fst hr)) -> In lf (leaves (snd hr)) -> ~ leaf_accepts rq lf) ->
  leaves (wildcard_rules a) = l1 ++ (anc, m, h) :: l2 ->
  (forall lf, In lf l1 -> ~ leaf_accepts rq lf) ->
  leaf_accepts rq (anc, m, h) ->
  exists args, app_find a rq = RtHandler h args /\ leaf_args rq m args.
Proof.
  intros Hv Hg Hl Hl1 Hlf.
  apply (first_match_dispatch a rq (flat_map group_leaves (a_hosts a) ++ map (pre [MAny]) l1) ([MAny] ++ anc) m h
           (map (pre [MAny]) l2)).
  - exact Hv.
  - rewrite app_leaves, Hl, map_app. simpl. rewrite <- app_assoc. reflexivity.
  - intros lf Hin. apply in_app_or in Hin as [Hin|Hin].
    + apply in_flat_map in Hin as (hr & Hhr & Hin). unfold group_leaves in Hin.
      apply in_map_iff in Hin as (lf0 & <- & Hin0). rewrite leaf_accepts_pre. intros [Hm Hacc].
      inversion Hm; subst. exact (Hg hr lf0 Hhr H1 Hin0 Hacc).
    + apply in_map_iff in Hin as (lf0 & <- & Hin0). rewrite leaf_accepts_pre. intros [_ Hacc].
      exact (Hl1 lf0 Hin0 Hacc).
  - change ([MAny] ++ anc, m, h) with (pre [MAny] (anc, m, h)). apply leaf_accepts_pre. split; [|exact Hlf].
    constructor; [exact I|constructor].
Qed.
