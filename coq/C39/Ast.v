(* C39 — a small abstract syntax for the body of PeriodicCallback._update_next,
   its two interpreters (exact rationals; binary64 with Python's int/float
   distinction and exceptions), and the proof that the syntax tree the model was
   written from means update_next_Q / upd_float.  The tree actually present in
   /repo is regenerated into Gen/C39_src.v by translators/c39_src.py and proved
   equal to [expected_update_next] in Gen/C39_equiv.v. *)
From Coq Require Import List ZArith Bool QArith Qround.
From Coq Require Import Uint63 PrimFloat SpecFloat FloatOps.
Import ListNotations.
From TV Require Import C39.Model.

Inductive var :=
| VCt        (* self.callback_time *)
| VJitter    (* self.jitter *)
| VRandom    (* random.random() *)
| VNow       (* current_time *)
| VNext      (* self._next_timeout *)
| VCts.      (* callback_time_sec *)

Inductive expr :=
| EVar (v : var)
| EFloat (num : Z) (den : positive)   (* float literal num/den (exactly representable) *)
| EInt (z : Z)                        (* int literal *)
| EAdd (a b : expr) | ESub (a b : expr) | EMul (a b : expr) | EDiv (a b : expr)
| EFloor (a : expr).                  (* math.floor(a) *)

Inductive cond :=
| CTruthy (v : var)                   (* if <v>: *)
| CLe (a b : expr).                   (* if a <= b: *)

Inductive stmt :=
| SAssign (v : var) (e : expr)
| SAugAdd (v : var) (e : expr)
| SAugMul (v : var) (e : expr)
| SIf (c : cond) (th el : list stmt).

Definition expected_update_next : list stmt :=
  [ SAssign VCts (EDiv (EVar VCt) (EFloat 1000 1));
    SIf (CTruthy VJitter)
        [SAugMul VCts (EAdd (EInt 1) (EMul (EVar VJitter) (ESub (EVar VRandom) (EFloat 1 2))))]
        [];
    SIf (CLe (EVar VNext) (EVar VNow))
        [SAugAdd VNext
           (EMul (EAdd (EFloor (EDiv (ESub (EVar VNow) (EVar VNext)) (EVar VCts))) (EInt 1))
                 (EVar VCts))]
        [SAugAdd VNext (EVar VCts)] ].

(* ------------------------------------------------------------------ *)
(* exact rationals: Python ints stay ints until mixed with a float      *)
(* ------------------------------------------------------------------ *)
Inductive qval := QI (z : Z) | QF (q : Q).
Definition q_of (v : qval) : Q := match v with QI z => inject_Z z | QF q => q end.

Record qenv := mkQ { q_ct : Q; q_jit : Q; q_rnd : Q; q_now : Q; q_next : Q; q_cts : Q }.

Definition qget (e : qenv) (v : var) : Q :=
  match v with
  | VCt => q_ct e | VJitter => q_jit e | VRandom => q_rnd e
  | VNow => q_now e | VNext => q_next e | VCts => q_cts e
  end.
Definition qset (e : qenv) (v : var) (x : Q) : qenv :=
  match v with
  | VCt => mkQ x (q_jit e) (q_rnd e) (q_now e) (q_next e) (q_cts e)
  | VJitter => mkQ (q_ct e) x (q_rnd e) (q_now e) (q_next e) (q_cts e)
  | VRandom => mkQ (q_ct e) (q_jit e) x (q_now e) (q_next e) (q_cts e)
  | VNow => mkQ (q_ct e) (q_jit e) (q_rnd e) x (q_next e) (q_cts e)
  | VNext => mkQ (q_ct e) (q_jit e) (q_rnd e) (q_now e) x (q_cts e)
  | VCts => mkQ (q_ct e) (q_jit e) (q_rnd e) (q_now e) (q_next e) x
  end.

Fixpoint qeval (e : qenv) (x : expr) : qval :=
  match x with
  | EVar v => QF (qget e v)
  | EFloat n d => QF (Qmake n d)
  | EInt z => QI z
  | EAdd a b =>
      match qeval e a, qeval e b with
      | QI x, QI y => QI (x + y)
      | u, v => QF (q_of u + q_of v)
      end
  | ESub a b =>
      match qeval e a, qeval e b with
      | QI x, QI y => QI (x - y)
      | u, v => QF (q_of u - q_of v)
      end
  | EMul a b =>
      match qeval e a, qeval e b with
      | QI x, QI y => QI (x * y)
      | u, v => QF (q_of u * q_of v)
      end
  | EDiv a b => QF (q_of (qeval e a) / q_of (qeval e b))
  | EFloor a => QI (Qfloor (q_of (qeval e a)))
  end.

Definition qcond (e : qenv) (c : cond) : bool :=
  match c with
  | CTruthy v => negb (Qeq_bool (qget e v) 0)
  | CLe a b => Qle_bool (q_of (qeval e a)) (q_of (qeval e b))
  end.

Fixpoint qexec_stmt (s : stmt) (e : qenv) {struct s} : qenv :=
  match s with
  | SAssign v x => qset e v (q_of (qeval e x))
  | SAugAdd v x => qset e v (qget e v + q_of (qeval e x))
  | SAugMul v x => qset e v (qget e v * q_of (qeval e x))
  | SIf c th el =>
      (fix go (l : list stmt) (e : qenv) : qenv :=
         match l with [] => e | s' :: l' => go l' (qexec_stmt s' e) end)
        (if qcond e c then th else el) e
  end.
Fixpoint qexec (l : list stmt) (e : qenv) : qenv :=
  match l with [] => e | s :: l' => qexec l' (qexec_stmt s e) end.

(* ------------------------------------------------------------------ *)
(* binary64, with Python ints and exceptions                            *)
(* ------------------------------------------------------------------ *)
Inductive fval := FI (z : Z) | FF (f : float).

Record fenv := mkF { f_ct : float; f_jit : float; f_rnd : float; f_now : float; f_next : float; f_cts : float }.

Definition fget (e : fenv) (v : var) : float :=
  match v with
  | VCt => f_ct e | VJitter => f_jit e | VRandom => f_rnd e
  | VNow => f_now e | VNext => f_next e | VCts => f_cts e
  end.
Definition fset (e : fenv) (v : var) (x : float) : fenv :=
  match v with
  | VCt => mkF x (f_jit e) (f_rnd e) (f_now e) (f_next e) (f_cts e)
  | VJitter => mkF (f_ct e) x (f_rnd e) (f_now e) (f_next e) (f_cts e)
  | VRandom => mkF (f_ct e) (f_jit e) x (f_now e) (f_next e) (f_cts e)
  | VNow => mkF (f_ct e) (f_jit e) (f_rnd e) x (f_next e) (f_cts e)
  | VNext => mkF (f_ct e) (f_jit e) (f_rnd e) (f_now e) x (f_cts e)
  | VCts => mkF (f_ct e) (f_jit e) (f_rnd e) (f_now e) (f_next e) x
  end.

(* int operand of a float operation: PyLong_AsDouble *)
Definition to_float (v : fval) : ures float :=
  match v with FF f => UOk f | FI z => float_of_int z end.

Definition fbin (op : float -> float -> float) (iop : Z -> Z -> Z) (u v : ures fval) : ures fval :=
  match u, v with
  | UErr e, _ => UErr e
  | _, UErr e => UErr e
  | UOk (FI x), UOk (FI y) => UOk (FI (iop x y))
  | UOk a, UOk b =>
      match to_float a, to_float b with
      | UOk x, UOk y => UOk (FF (op x y))
      | UErr e, _ => UErr e
      | _, UErr e => UErr e
      end
  end.

(* a float literal num/den with small exactly representable num and den *)
Definition float_lit (n : Z) (d : positive) : float :=
  PrimFloat.div (of_uint63 (of_Z n)) (of_uint63 (of_Z (Zpos d))).

Fixpoint feval (e : fenv) (x : expr) : ures fval :=
  match x with
  | EVar v => UOk (FF (fget e v))
  | EFloat n d => UOk (FF (float_lit n d))
  | EInt z => UOk (FI z)
  | EAdd a b => fbin PrimFloat.add Z.add (feval e a) (feval e b)
  | ESub a b => fbin PrimFloat.sub Z.sub (feval e a) (feval e b)
  | EMul a b => fbin PrimFloat.mul Z.mul (feval e a) (feval e b)
  | EDiv a b =>
      match feval e a, feval e b with
      | UErr er, _ => UErr er
      | _, UErr er => UErr er
      | UOk u, UOk v =>
          match to_float u, to_float v with
          | UOk x, UOk y => if PrimFloat.eqb y zero then UErr EZeroDiv else UOk (FF (PrimFloat.div x y))
          | UErr er, _ => UErr er
          | _, UErr er => UErr er
          end
      end
  | EFloor a =>
      match feval e a with
      | UErr er => UErr er
      | UOk (FI z) => UOk (FI z)
      | UOk (FF f) => match float_floor f with UOk z => UOk (FI z) | UErr er => UErr er end
      end
  end.

Definition fcond (e : fenv) (c : cond) : ures bool :=
  match c with
  | CTruthy v => UOk (negb (PrimFloat.eqb (fget e v) zero))
  | CLe a b =>
      match feval e a, feval e b with
      | UOk u, UOk v =>
          match to_float u, to_float v with
          | UOk x, UOk y => UOk (PrimFloat.leb x y)
          | UErr er, _ => UErr er
          | _, UErr er => UErr er
          end
      | UErr er, _ => UErr er
      | _, UErr er => UErr er
      end
  end.

Definition fassign (e : fenv) (v : var) (r : ures fval) : ures fenv :=
  match r with
  | UErr er => UErr er
  | UOk x => match to_float x with UOk f => UOk (fset e v f) | UErr er => UErr er end
  end.

Fixpoint fexec_stmt (s : stmt) (e : fenv) {struct s} : ures fenv :=
  match s with
  | SAssign v x => fassign e v (feval e x)
  | SAugAdd v x => fassign e v (fbin PrimFloat.add Z.add (UOk (FF (fget e v))) (feval e x))
  | SAugMul v x => fassign e v (fbin PrimFloat.mul Z.mul (UOk (FF (fget e v))) (feval e x))
  | SIf c th el =>
      match fcond e c with
      | UErr er => UErr er
      | UOk b =>
          (fix go (l : list stmt) (e : fenv) : ures fenv :=
             match l with
             | [] => UOk e
             | s' :: l' => match fexec_stmt s' e with UOk e' => go l' e' | UErr er => UErr er end
             end) (if b then th else el) e
      end
  end.
Fixpoint fexec (l : list stmt) (e : fenv) : ures fenv :=
  match l with
  | [] => UOk e
  | s :: l' => match fexec_stmt s e with UOk e' => fexec l' e' | UErr er => UErr er end
  end.

Definition fnext (r : ures fenv) : ures float :=
  match r with UOk e => UOk (f_next e) | UErr er => UErr er end.

(* ------------------------------------------------------------------ *)
(* the expected tree means the model's functions                        *)
(* ------------------------------------------------------------------ *)
Lemma expected_means_update_next_Q (ct jit r now next cts0 : Q) :
  q_next (qexec expected_update_next (mkQ ct jit r now next cts0))
  = update_next_Q (period_Q ct jit r) now next.
Proof.
  unfold expected_update_next, update_next_Q, period_Q. cbn [qexec qexec_stmt qcond qeval qget qset q_of
    q_ct q_jit q_rnd q_now q_next q_cts].
  destruct (Qeq_bool jit 0); cbn [negb qexec qexec_stmt qcond qeval qget qset q_of
    q_ct q_jit q_rnd q_now q_next q_cts];
  destruct (Qle_bool next now); reflexivity.
Qed.

Lemma expected_means_upd_float (ct jit r now next cts0 : float) :
  fnext (fexec expected_update_next (mkF ct jit r now next cts0)) = upd_float ct jit r now next.
Proof.
  assert (E1000 : float_lit 1000 1 = f1000) by reflexivity.
  assert (Ehalf : float_lit 1 2 = fhalf) by reflexivity.
  assert (Eone : float_of_int 1 = UOk one) by reflexivity.
  assert (Enz : PrimFloat.eqb f1000 zero = false) by reflexivity.
  unfold upd_float, update_next_float, period_float, expected_update_next.
  repeat first
    [ reflexivity
    | progress (cbn [negb fexec fexec_stmt fcond feval fget fset fbin to_float fassign
                     f_ct f_jit f_rnd f_now f_next f_cts fnext])
    | progress (rewrite ?E1000, ?Ehalf, ?Eone, ?Enz)
    | progress (repeat match goal with
                       | H : @eq bool _ _ |- _ => rewrite H
                       | H : @eq (ures _) _ _ |- _ => rewrite H
                       end)
    | match goal with
      | |- context [PrimFloat.eqb ?x zero] => destruct (PrimFloat.eqb x zero) eqn:?
      | |- context [PrimFloat.leb ?x ?y] => destruct (PrimFloat.leb x y) eqn:?
      | |- context [match float_floor ?x with _ => _ end] => destruct (float_floor x) eqn:?
      | |- context [match float_of_int ?x with _ => _ end] => destruct (float_of_int x) eqn:?
      end ].
Qed.
