(* C39 — proofs, part 2: the start/stop/_run/_schedule_next machine, for an
   arbitrary number type and an arbitrary _update_next. *)
From Coq Require Import List ZArith Bool Arith Lia.
Import ListNotations.
From TV Require Import C39.Model.

Ltac fin := repeat split; auto; try lia; intros; try contradiction; try discriminate.

Section Generic.
  Variable T : Type.
  Variable upd : T -> T -> T -> ures T.

  Notation step := (step upd).
  Notation run := (run upd).
  Notation schedule_next := (schedule_next upd).

  (* number of live links of the timer chain: pending timer, created _run
     coroutine, callback in flight *)
  Definition chain (s : st T) : nat := length (s_pending s) + s_armed s + s_inflight s.

  Definition idle (s : st T) : bool :=
    negb (s_running s) && Nat.eqb (s_armed s) 0 && Nat.eqb (s_inflight s) 0.

  (* start() is only called while idle: the scope of the no-overlap statement *)
  Fixpoint starts_idle (s : st T) (evs : list (event T)) : bool :=
    match evs with
    | [] => true
    | e :: evs' =>
        (match e with EStart _ => idle s | _ => true end) && starts_idle (fst (step s e)) evs'
    end.

  Definition Inv (s : st T) : Prop :=
    chain s <= 1
    /\ (forall h d, In (h, d) (s_pending s) -> s_timeout s = Some h)
    /\ (s_running s = false -> s_pending s = []).

  Lemma Inv_init t0 r0 : Inv (init t0 r0).
  Proof. unfold Inv, chain; simpl. repeat split; auto; intros; contradiction. Qed.

  Lemma remove_id_all (h : nat) (l : list (nat * T)) :
    (forall h' d, In (h', d) l -> h' = h) -> remove_id T h l = [].
  Proof.
    induction l as [|[h' d] l IH]; intro H; [reflexivity|].
    simpl. assert (h' = h) by (eapply H; left; reflexivity). subst h'.
    rewrite Nat.eqb_refl. simpl. apply IH. intros h2 d2 Hin. eapply H. right. exact Hin.
  Qed.

  (* _schedule_next from a state with no live link yields at most one *)
  Lemma Inv_schedule_next (s : st T) :
    chain s = 0 -> Inv (fst (schedule_next s)).
  Proof.
    intro H0. unfold chain in H0.
    assert (Hp : s_pending s = []) by (destruct (s_pending s); [reflexivity|simpl in H0; lia]).
    assert (Hsame : Inv s).
    { unfold Inv, chain. rewrite Hp. simpl. split; [lia|]. split; [intros; contradiction|auto]. }
    unfold Model.schedule_next.
    destruct (s_running s) eqn:Er; [|exact Hsame].
    destruct (s_next s) as [nx|]; [|exact Hsame].
    destruct (upd (s_rnd s) (s_now s) nx) as [nx'|e]; [|exact Hsame].
    unfold Inv, chain; simpl. rewrite Hp. simpl. split; [lia|]. split.
    - intros h d [E|[]]. inversion E. reflexivity.
    - intro; discriminate.
  Qed.

  Lemma Inv_do_stop (s : st T) :
    Inv s -> Inv (fst (do_stop s)) /\ s_pending (fst (do_stop s)) = []
             /\ s_armed (fst (do_stop s)) = s_armed s /\ s_inflight (fst (do_stop s)) = s_inflight s
             /\ s_running (fst (do_stop s)) = false.
  Proof.
    intros (Hc & Ht & Hr). unfold do_stop.
    destruct (s_timeout s) as [h|] eqn:Et; simpl.
    - assert (Hrm : remove_id T h (s_pending s) = []).
      { apply remove_id_all. intros h' d Hin. specialize (Ht _ _ Hin). congruence. }
      rewrite Hrm. unfold Inv, chain in *; simpl. fin.
    - assert (Hp : s_pending s = []).
      { destruct (s_pending s) as [|[h d] l]; [reflexivity|].
        specialize (Ht h d (or_introl eq_refl)). discriminate. }
      unfold Inv, chain in *; simpl. rewrite Hp in *. simpl in *. fin.
  Qed.

  Lemma schedule_next_counts (s : st T) :
    s_armed (fst (schedule_next s)) = s_armed s /\ s_inflight (fst (schedule_next s)) = s_inflight s
    /\ s_running (fst (schedule_next s)) = s_running s.
  Proof.
    unfold Model.schedule_next.
    destruct (s_running s) eqn:Er; [|simpl; auto].
    destruct (s_next s) as [nx|]; [|simpl; auto].
    destruct (upd (s_rnd s) (s_now s) nx); simpl; auto.
  Qed.

  Lemma Inv_step (s : st T) (e : event T) :
    Inv s -> (match e with EStart _ => idle s = true | _ => True end) -> Inv (fst (step s e)).
  Proof.
    intros HI Hs. pose proof HI as (Hc & Ht & Hr).
    destruct e as [t|r|sk| | |k| ]; simpl.
    - exact HI.
    - exact HI.
    - (* start while idle *)
      apply Inv_schedule_next. unfold idle in Hs.
      apply andb_prop in Hs as [Hs H3]. apply andb_prop in Hs as [H1 H2].
      apply Nat.eqb_eq in H2, H3. apply negb_true_iff in H1.
      unfold chain; simpl. rewrite (Hr H1), H2, H3. reflexivity.
    - apply Inv_do_stop. exact HI.
    - (* fire *)
      destruct (s_pending s) as [|[h d] rest] eqn:Ep; simpl; [exact HI|].
      unfold Inv, chain in *; simpl in *. rewrite Ep in *. simpl in *. repeat split.
      + lia.
      + intros h' d' Hin. apply (Ht h' d'). right. exact Hin.
      + intro Hf. specialize (Hr Hf). discriminate.
    - (* first step of a created _run *)
      destruct (s_armed s) as [|a] eqn:Ea; simpl; [exact HI|].
      assert (Hp : s_pending s = [] /\ s_inflight s = 0 /\ a = 0).
      { unfold chain in Hc. rewrite Ea in Hc. destruct (s_pending s); simpl in Hc; [split; [reflexivity|lia] | exfalso; lia]. }
      destruct Hp as (Hp & Hi & Ha).
      destruct (s_running s) eqn:Er; simpl.
      + destruct k.
        * match goal with |- context [schedule_next ?x] => destruct (schedule_next x) as [s2 o] eqn:Es end.
          simpl. change s2 with (fst (s2, o)). rewrite <- Es. apply Inv_schedule_next.
          unfold chain; simpl. rewrite Hp, Hi, Ha. reflexivity.
        * match goal with |- context [do_stop ?x] => destruct (do_stop x) as [s2 o1] eqn:Ed end.
          match goal with |- context [schedule_next ?x] => destruct (schedule_next x) as [s3 o2] eqn:Es end.
          simpl.
          match type of Ed with do_stop ?x = _ => assert (HIx : Inv x) end.
          { unfold Inv, chain; simpl. rewrite Hp, Hi, Ha. simpl. fin. }
          destruct (Inv_do_stop _ HIx) as (HI2 & Hp2 & Ha2 & Hi2 & Hr2).
          rewrite Ed in *. simpl in *.
          change s3 with (fst (s3, o2)). rewrite <- Es. apply Inv_schedule_next.
          unfold chain. rewrite Hp2, Ha2, Hi2, Hi, Ha. reflexivity.
        * unfold Inv, chain; simpl. rewrite Hp, Hi, Ha. simpl. fin.
        * match goal with |- context [schedule_next ?x] => destruct (schedule_next x) as [s2 o] eqn:Es end.
          simpl. change s2 with (fst (s2, o)). rewrite <- Es. apply Inv_schedule_next.
          unfold chain; simpl. rewrite Hp, Hi, Ha. reflexivity.
      + unfold Inv, chain; simpl. rewrite Hp, Hi, Ha. simpl. fin.
    - (* completion of the awaited callback *)
      destruct (s_inflight s) as [|n] eqn:Ei; simpl; [exact HI|].
      assert (Hp : s_pending s = [] /\ s_armed s = 0 /\ n = 0).
      { unfold chain in Hc. rewrite Ei in Hc. destruct (s_pending s); simpl in Hc; [split; [reflexivity|lia] | exfalso; lia]. }
      destruct Hp as (Hp & Ha & Hn).
      match goal with |- context [schedule_next ?x] => destruct (schedule_next x) as [s2 o] eqn:Es end.
      simpl. change s2 with (fst (s2, o)). rewrite <- Es. apply Inv_schedule_next.
      unfold chain; simpl. rewrite Hp, Ha, Hn. reflexivity.
  Qed.

  Lemma run_cons (s : st T) (e : event T) (evs : list (event T)) :
    run s (e :: evs) =
    (fst (run (fst (step s e)) evs), snd (step s e) :: snd (run (fst (step s e)) evs)).
  Proof.
    simpl. destruct (step s e) as [s1 o]. simpl. destruct (run s1 evs) as [s2 os]. reflexivity.
  Qed.

  Lemma Inv_run (evs : list (event T)) : forall s,
    Inv s -> starts_idle s evs = true -> Inv (fst (run s evs)).
  Proof.
    induction evs as [|e evs IH]; intros s HI Hs; [exact HI|].
    rewrite run_cons. simpl. simpl in Hs. apply andb_prop in Hs as [H1 H2].
    apply IH; [|exact H2]. apply Inv_step; [exact HI|]. destruct e; auto.
  Qed.

  (* ---------------- never started while the previous invocation runs ---------------- *)

  (* walk a flat output list with the number of open callback invocations;
     None: a callback was started while another was still open (or an end
     without a start) *)
  Fixpoint depth_walk (d : nat) (os : list (out T)) : option nat :=
    match os with
    | [] => Some d
    | OCbStart :: os' => match d with O => depth_walk 1 os' | S _ => None end
    | OCbEnd :: os' => match d with S d' => depth_walk d' os' | O => None end
    | _ :: os' => depth_walk d os'
    end.

  Lemma depth_walk_app d os1 os2 :
    depth_walk d (os1 ++ os2) =
    match depth_walk d os1 with Some d' => depth_walk d' os2 | None => None end.
  Proof.
    revert d. induction os1 as [|o os1 IH]; intro d; [reflexivity|].
    destruct o; simpl; try apply IH; destruct d; auto.
  Qed.

  Lemma depth_schedule_next s d :
    depth_walk d (snd (schedule_next s)) = Some d.
  Proof.
    unfold Model.schedule_next. destruct (s_running s); [|reflexivity].
    destruct (s_next s); [|reflexivity]. destruct (upd _ _ _); reflexivity.
  Qed.

  Lemma depth_do_stop (s : st T) d : depth_walk d (snd (do_stop s)) = Some d.
  Proof. unfold do_stop. destruct (s_timeout s); reflexivity. Qed.

  Lemma depth_step (s : st T) (e : event T) :
    Inv s -> depth_walk (s_inflight s) (snd (step s e)) = Some (s_inflight (fst (step s e))).
  Proof.
    intros (Hc & Ht & Hr).
    destruct e as [t|r|sk| | |k| ]; simpl; try reflexivity.
    - rewrite depth_schedule_next. destruct (schedule_next_counts
        (mkSt match sk with Some t => t | None => s_now s end (s_rnd s) true (Some (s_now s))
              (s_timeout s) (s_pending s) (s_armed s) (s_inflight s) (s_nextid s))) as (_ & H & _).
      simpl in H. rewrite H. reflexivity.
    - rewrite depth_do_stop. unfold do_stop. destruct (s_timeout s); reflexivity.
    - destruct (s_pending s) as [|[h d] rest]; reflexivity.
    - destruct (s_armed s) as [|a] eqn:Ea; [reflexivity|].
      assert (Hi : s_inflight s = 0) by (unfold chain in Hc; lia).
      destruct (s_running s) eqn:Er; simpl; [|rewrite Hi; reflexivity].
      destruct k.
      + match goal with |- context [schedule_next ?x] =>
          pose proof (depth_schedule_next x 0) as Hd; pose proof (schedule_next_counts x) as (_ & Hn & _);
          destruct (schedule_next x) as [s2 o] end.
        simpl in *. rewrite Hi. simpl. rewrite Hd. rewrite Hn. rewrite Hi. reflexivity.
      + match goal with |- context [do_stop ?x] =>
          pose proof (depth_do_stop x 1) as Hd1;
          assert (Hi1 : s_inflight (fst (do_stop x)) = 0) by (unfold do_stop; simpl; destruct (s_timeout s); simpl; exact Hi);
          destruct (do_stop x) as [s2 o1] end.
        match goal with |- context [schedule_next ?x] =>
          pose proof (depth_schedule_next x 0) as Hd2; pose proof (schedule_next_counts x) as (_ & Hn & _);
          destruct (schedule_next x) as [s3 o2] end.
        simpl in *. rewrite Hi. simpl. rewrite depth_walk_app, Hd1. simpl. rewrite Hd2, Hn, Hi1. reflexivity.
      + simpl. rewrite Hi. reflexivity.
      + match goal with |- context [schedule_next ?x] =>
          pose proof (depth_schedule_next x 0) as Hd; pose proof (schedule_next_counts x) as (_ & Hn & _);
          destruct (schedule_next x) as [s2 o] end.
        simpl in *. rewrite Hi. simpl. rewrite Hd. rewrite Hn. rewrite Hi. reflexivity.
    - destruct (s_inflight s) as [|n] eqn:Ei; [simpl; rewrite Ei; reflexivity|].
      match goal with |- context [schedule_next ?x] =>
        pose proof (depth_schedule_next x n) as Hd; pose proof (schedule_next_counts x) as (_ & Hn & _);
        destruct (schedule_next x) as [s2 o] end.
      simpl in *. rewrite Hd, Hn. reflexivity.
  Qed.

  Lemma no_overlap_from (evs : list (event T)) : forall s,
    Inv s -> starts_idle s evs = true ->
    depth_walk (s_inflight s) (concat (snd (run s evs))) = Some (s_inflight (fst (run s evs))).
  Proof.
    induction evs as [|e evs IH]; intros s HI Hs; [reflexivity|].
    rewrite run_cons. simpl. rewrite depth_walk_app, (depth_step s e HI).
    simpl in Hs. apply andb_prop in Hs as [H1 H2].
    apply IH; [|exact H2]. apply Inv_step; [exact HI|]. destruct e; auto.
  Qed.

  Theorem no_overlap (t0 r0 : T) (evs : list (event T)) :
    starts_idle (init t0 r0) evs = true ->
    exists d, depth_walk 0 (concat (snd (run (init t0 r0) evs))) = Some d /\ d <= 1.
  Proof.
    intro Hs. pose proof (no_overlap_from evs (init t0 r0) (Inv_init t0 r0) Hs) as H.
    simpl in H. eexists. split; [exact H|].
    pose proof (Inv_run evs _ (Inv_init t0 r0) Hs) as (Hc & _). unfold chain in Hc. lia.
  Qed.

  (* ---------------- stop prevents further runs ---------------- *)

  Definition quiet (o : out T) : bool :=
    match o with OCbStart | OSched _ _ => false | _ => true end.

  Definition is_start (e : event T) : bool := match e with EStart _ => true | _ => false end.

  Lemma stopped_step (s : st T) (e : event T) :
    s_running s = false -> is_start e = false ->
    s_running (fst (step s e)) = false /\ forallb quiet (snd (step s e)) = true.
  Proof.
    intros Hr He. destruct e as [t|r|sk| | |k| ]; simpl in *; try discriminate; auto.
    - unfold do_stop. destruct (s_timeout s); simpl; auto.
    - destruct (s_pending s) as [|[h d] rest]; simpl; auto.
    - destruct (s_armed s); simpl; auto. rewrite Hr. simpl. auto.
    - destruct (s_inflight s); simpl; auto.
      unfold Model.schedule_next. simpl. rewrite Hr. simpl. auto.
  Qed.

  Lemma stopped_run (evs : list (event T)) : forall s,
    s_running s = false ->
    forallb (fun e => negb (is_start e)) evs = true ->
    forallb quiet (concat (snd (run s evs))) = true.
  Proof.
    induction evs as [|e evs IH]; intros s Hr Hn; [reflexivity|].
    rewrite run_cons. simpl. simpl in Hn. apply andb_prop in Hn as [H1 H2].
    apply negb_true_iff in H1.
    destruct (stopped_step s e Hr H1) as [Hr' Hq].
    rewrite forallb_app, Hq. simpl. apply IH; auto.
  Qed.

  Lemma do_stop_running (s : st T) : s_running (fst (do_stop s)) = false.
  Proof. unfold do_stop. destruct (s_timeout s); reflexivity. Qed.

  (* after stop() — at any point, in any state, also from inside the callback —
     no callback is started and no timeout is scheduled until the next start() *)
  Theorem stop_prevents_runs (s : st T) (evs : list (event T)) :
    forallb (fun e => negb (is_start e)) evs = true ->
    forallb quiet (concat (snd (run (fst (step s EStop)) evs))) = true.
  Proof.
    intro Hn. apply stopped_run; auto. simpl. apply do_stop_running.
  Qed.

  (* the same when stop() is called by the callback itself *)
  Theorem stop_inside_callback_prevents_runs (s : st T) (evs : list (event T)) :
    In OCbStart (snd (step s (ERun KSyncStop))) ->
    forallb (fun e => negb (is_start e)) evs = true ->
    forallb quiet (concat (snd (run (fst (step s (ERun KSyncStop))) evs))) = true.
  Proof.
    intros Hin Hn. apply stopped_run; auto.
    simpl in *. destruct (s_armed s) as [|a]; [contradiction|].
    destruct (s_running s) eqn:Er; simpl in *.
    - match goal with |- context [do_stop ?x] =>
        pose proof (do_stop_running x) as Hd; destruct (do_stop x) as [s2 o1] end.
      match goal with |- context [schedule_next ?x] =>
        pose proof (schedule_next_counts x) as (_ & _ & Hk); destruct (schedule_next x) as [s3 o2] end.
      simpl in *. congruence.
    - destruct Hin as [E|[]]. discriminate.
  Qed.

  (* stop() also leaves no live timer when start() was only called while idle *)
  Theorem stop_cancels_timer (t0 r0 : T) (evs : list (event T)) :
    starts_idle (init t0 r0) evs = true ->
    s_pending (fst (step (fst (run (init t0 r0) evs)) EStop)) = [].
  Proof.
    intro Hs. pose proof (Inv_run evs _ (Inv_init t0 r0) Hs) as HI.
    simpl. apply Inv_do_stop. exact HI.
  Qed.
End Generic.
