(* C39 — proofs, part 3: the machine over exact rationals: every deadline it
   schedules, for every event order and clock sequence. *)
From Coq Require Import List ZArith Bool Arith QArith Qround Lia Lqa.
Import ListNotations.
From TV Require Import C39.Model C39.Proofs C39.ProofsMachine.

Section QMachine.
  Variables ct jitter : Q.
  Notation updq := (upd_Q ct jitter).
  Notation per := (period_Q ct jitter).

  (* _next_timeout as read by the _schedule_next that an event triggers *)
  Definition prev_of (s : st Q) (e : event Q) : option Q :=
    match e with EStart _ => Some (s_now s) | _ => s_next s end.

  Lemma schedule_next_Q (s : st Q) h d :
    In (OSched h d) (snd (schedule_next updq s)) ->
    exists nx, s_next s = Some nx /\ d = update_next_Q (per (s_rnd s)) (s_now s) nx
               /\ s_next (fst (schedule_next updq s)) = Some d
               /\ s_now (fst (schedule_next updq s)) = s_now s
               /\ s_rnd (fst (schedule_next updq s)) = s_rnd s
               /\ s_pending (fst (schedule_next updq s)) = s_pending s ++ [(h, d)]
               /\ s_running s = true.
  Proof.
    unfold schedule_next. destruct (s_running s) eqn:Er; [|intros []].
    destruct (s_next s) as [nx|]; [|intros [E|[]]; discriminate].
    unfold upd_Q. simpl. intros [E|[]]. inversion E; subst. exists nx. repeat split; reflexivity.
  Qed.

  Lemma schedule_next_Q_same (s : st Q) :
    (forall h d, ~ In (OSched h d) (snd (schedule_next updq s))) ->
    fst (schedule_next updq s) = s.
  Proof.
    unfold schedule_next. destruct (s_running s); [|reflexivity].
    destruct (s_next s) as [nx|]; [|reflexivity].
    unfold upd_Q. simpl. intro H. exfalso. eapply H. left. reflexivity.
  Qed.

  Lemma do_stop_no_sched (s : st Q) h d : ~ In (OSched h d) (snd (do_stop s)).
  Proof. unfold do_stop. destruct (s_timeout s); simpl; intuition discriminate. Qed.

  (* the deadline scheduled by one event, in any state *)
  Lemma step_sched (s : st Q) (e : event Q) h d :
    In (OSched h d) (snd (step updq s e)) ->
    let s' := fst (step updq s e) in
    exists pv, prev_of s e = Some pv
      /\ d = update_next_Q (per (s_rnd s')) (s_now s') pv
      /\ s_next s' = Some d /\ s_rnd s' = s_rnd s.
  Proof.
    destruct e as [t|r|sk| | |k| ]; simpl; try (intros []; fail).
    - intros [E|[]]. inversion E; subst. exists (s_now s).
      repeat split; auto.
    - intro Hin. exfalso. eapply do_stop_no_sched. exact Hin.
    - destruct (s_pending s) as [|[h' d'] rest]; simpl; [intros []|intros [E|[]]; discriminate].
    - destruct (s_armed s) as [|a]; simpl; [intros []|].
      destruct (s_running s) eqn:Er; simpl; [|intros [E|[]]; discriminate].
      destruct k.
      + match goal with |- context [schedule_next _ ?x] =>
          pose proof (schedule_next_Q x h d) as Hs; destruct (schedule_next updq x) as [s2 o] end.
        simpl in *. intros [E|[E|Hin]]; try discriminate.
        destruct (Hs Hin) as (nx & E1 & E2 & E3 & E4 & E5 & _).
        exists nx. rewrite E4, E5. repeat split; auto.
      + match goal with |- context [do_stop ?x] =>
          pose proof (do_stop_no_sched x h d) as Hd; pose proof (do_stop_running Q x) as Hr;
          destruct (do_stop x) as [s2 o1] end.
        match goal with |- context [schedule_next _ ?x] =>
          pose proof (schedule_next_Q x h d) as Hs; destruct (schedule_next updq x) as [s3 o2] end.
        simpl in *. intros [E|Hin]; [discriminate|].
        apply in_app_or in Hin as [Hin|[E|Hin]]; [contradiction|discriminate|].
        destruct (Hs Hin) as (_ & _ & _ & _ & _ & _ & _ & Hr2). congruence.
      + intros [E|[]]; discriminate.
      + match goal with |- context [schedule_next _ ?x] =>
          pose proof (schedule_next_Q x h d) as Hs; destruct (schedule_next updq x) as [s2 o] end.
        simpl in *. intros [E|[E|Hin]]; try discriminate.
        destruct (Hs Hin) as (nx & E1 & E2 & E3 & E4 & E5 & _).
        exists nx. rewrite E4, E5. repeat split; auto.
    - destruct (s_inflight s) as [|n]; simpl; [intros []|].
      match goal with |- context [schedule_next _ ?x] =>
        pose proof (schedule_next_Q x h d) as Hs; destruct (schedule_next updq x) as [s2 o] end.
      simpl in *. intros [E|Hin]; [discriminate|].
      destruct (Hs Hin) as (nx & E1 & E2 & E3 & E4 & E5 & _).
      exists nx. rewrite E4, E5. repeat split; auto.
  Qed.

  (* Per-event statement, for every state (reachable or not), event and random
     value with a positive effective period. *)
  Theorem step_deadline (s : st Q) (e : event Q) h d :
    In (OSched h d) (snd (step updq s e)) ->
    let s' := fst (step updq s e) in
    let p := per (s_rnd s') in
    let now := s_now s' in
    0 < p ->
    exists pv, prev_of s e = Some pv
      /\ pv < d                                    (* later than the previous deadline *)
      /\ now < d                                   (* after the current time *)
      /\ (pv <= now -> d <= now + p)               (* at most one period ahead: skipped, not bunched *)
      /\ (exists k : Z, (1 <= k)%Z /\ d == pv + inject_Z k * p)   (* whole periods from the previous one *)
      /\ s_next s' = Some d.
  Proof.
    intros Hin s' p now Hp.
    destruct (step_sched s e h d Hin) as (pv & E1 & E2 & E3 & _).
    fold s' in E2, E3. fold p in E2. fold now in E2.
    exists pv. split; [exact E1|]. subst d.
    split; [apply update_later; exact Hp|].
    split; [apply update_after_now; exact Hp|].
    split; [intro; apply update_within_period; assumption|].
    split; [apply update_whole_periods; exact Hp|exact E3].
  Qed.
End QMachine.

(* the jitter factor keeps the period positive for the documented parameter range *)
Lemma period_Q_pos (ct jitter r : Q) :
  0 < ct -> -2 < jitter -> jitter < 2 -> 0 <= r -> r < 1 -> 0 < period_Q ct jitter r.
Proof.
  intros Hc Hj1 Hj2 Hr1 Hr2. unfold period_Q.
  assert (H1 : 0 < ct / 1000).
  { apply Qlt_shift_div_l; [reflexivity|]. lra. }
  destruct (Qeq_bool jitter 0); [exact H1|].
  apply Qmult_lt_0_compat; [exact H1|].
  assert (H2 : -1 < jitter * (r - (1 # 2))); [|lra].
  destruct (Qle_or_lt 0 jitter) as [Hj|Hj].
  - (* jitter >= 0: jitter * (r - 1/2) >= jitter * (-1/2) > -1 *)
    assert (jitter * (- (1 # 2)) <= jitter * (r - (1 # 2))).
    { rewrite (Qmult_comm jitter (- (1#2))), (Qmult_comm jitter (r - (1#2))).
      apply Qmult_le_compat_r; lra. }
    lra.
  - assert ((- jitter) * (- (1 # 2)) <= (- jitter) * ((1 # 2) - r)).
    { rewrite (Qmult_comm (- jitter) (- (1#2))), (Qmult_comm (- jitter) ((1#2) - r)).
      apply Qmult_le_compat_r; lra. }
    assert (E : jitter * (r - (1#2)) == (- jitter) * ((1#2) - r)) by ring.
    rewrite E. lra.
Qed.

Lemma period_Q_nojitter (ct r : Q) : period_Q ct 0 r = ct / 1000.
Proof. reflexivity. Qed.

(* ------------------------------------------------------------------ *)
(* Whole runs: induction over event lists                               *)
(* ------------------------------------------------------------------ *)
Definition deadlines {T} (os : list (out T)) : list T :=
  flat_map (fun o => match o with OSched _ d => [d] | _ => [] end) os.

Lemma deadlines_app {T} (a b : list (out T)) : deadlines (a ++ b) = deadlines a ++ deadlines b.
Proof. unfold deadlines. apply flat_map_app. Qed.

Lemma deadlines_In {T} (os : list (out T)) d : In d (deadlines os) <-> exists h, In (OSched h d) os.
Proof.
  unfold deadlines. rewrite in_flat_map. split.
  - intros (o & Ho & Hd). destruct o; simpl in Hd; try contradiction.
    destruct Hd as [E|[]]. subst. eexists; eauto.
  - intros (h & Hh). exists (OSched h d). split; [exact Hh|left; reflexivity].
Qed.

Fixpoint rands {T} (evs : list (event T)) : list T :=
  match evs with
  | [] => []
  | ERand r :: evs' => r :: rands evs'
  | _ :: evs' => rands evs'
  end.

Definition no_start {T} (evs : list (event T)) : bool := forallb (fun e => negb (is_start T e)) evs.

Section QRuns.
  Variables ct jitter : Q.
  Notation updq := (upd_Q ct jitter).
  Notation per := (period_Q ct jitter).

  (* what _schedule_next does over Q: nothing, or exactly one new deadline *)
  Lemma sn_cases (s : st Q) :
    (deadlines (snd (schedule_next updq s)) = [] /\ fst (schedule_next updq s) = s)
    \/ (exists nx h, s_running s = true /\ s_next s = Some nx /\
          let d := update_next_Q (per (s_rnd s)) (s_now s) nx in
          deadlines (snd (schedule_next updq s)) = [d] /\
          fst (schedule_next updq s) =
            mkSt (s_now s) (s_rnd s) (s_running s) (Some d) (Some h) (s_pending s ++ [(h, d)])
                 (s_armed s) (s_inflight s) (S h)).
  Proof.
    unfold schedule_next. destruct (s_running s) eqn:Er; [|left; auto].
    destruct (s_next s) as [nx|] eqn:En; [|left; auto].
    right. exists nx, (s_nextid s). unfold upd_Q. simpl. auto.
  Qed.

  Lemma stop_cases (s : st Q) :
    deadlines (snd (do_stop s)) = [] /\ s_next (fst (do_stop s)) = s_next s
    /\ s_now (fst (do_stop s)) = s_now s /\ s_rnd (fst (do_stop s)) = s_rnd s
    /\ s_running (fst (do_stop s)) = false.
  Proof. unfold do_stop. destruct (s_timeout s); simpl; auto. Qed.

  (* one event other than start(): no deadline and _next_timeout unchanged, or
     exactly one deadline computed from _next_timeout, the clock and the random value *)
  Lemma step_cases (s : st Q) (e : event Q) :
    is_start Q e = false ->
    let s' := fst (step updq s e) in
    let ds := deadlines (snd (step updq s e)) in
    (ds = [] /\ s_next s' = s_next s)
    \/ (exists nx, s_next s = Some nx /\ s_running s = true /\
          ds = [update_next_Q (per (s_rnd s)) (s_now s') nx] /\
          s_next s' = Some (update_next_Q (per (s_rnd s)) (s_now s') nx) /\
          s_rnd s' = s_rnd s).
  Proof.
    intro He. destruct e as [t|r|sk| | |k| ]; try discriminate; cbn zeta.
    - left. simpl. auto.
    - left. simpl. auto.
    - left. simpl. destruct (stop_cases s) as (H1 & H2 & _). auto.
    - left. simpl. destruct (s_pending s) as [|[h d] rest]; simpl; auto.
    - simpl. destruct (s_armed s) as [|a]; [left; simpl; auto|].
      destruct (s_running s) eqn:Er; [|left; simpl; auto]. simpl.
      destruct k.
      + match goal with |- context [schedule_next _ ?x] =>
          destruct (sn_cases x) as [(H1 & H2)|(nx & h & H1 & H2 & H3 & H4)];
          destruct (schedule_next updq x) as [s2 o] end; simpl in *.
        * left. subst s2. simpl. auto.
        * right. exists nx. subst s2. simpl. repeat split; auto.
      + match goal with |- context [do_stop ?x] =>
          destruct (stop_cases x) as (D1 & D2 & D3 & D4 & D5);
          destruct (do_stop x) as [s2 o1] end.
        match goal with |- context [schedule_next _ ?x] =>
          destruct (sn_cases x) as [(H1 & H2)|(nx & h & H1 & H2 & H3 & H4)];
          destruct (schedule_next updq x) as [s3 o2] end; simpl in *.
        * left. subst s3. rewrite deadlines_app. simpl. rewrite D1, H1. auto.
        * congruence.
      + left. simpl. auto.
      + match goal with |- context [schedule_next _ ?x] =>
          destruct (sn_cases x) as [(H1 & H2)|(nx & h & H1 & H2 & H3 & H4)];
          destruct (schedule_next updq x) as [s2 o] end; simpl in *.
        * left. subst s2. simpl. auto.
        * right. exists nx. subst s2. simpl. repeat split; auto.
    - simpl. destruct (s_inflight s) as [|n]; [left; simpl; auto|].
      match goal with |- context [schedule_next _ ?x] =>
        destruct (sn_cases x) as [(H1 & H2)|(nx & h & H1 & H2 & H3 & H4)];
        destruct (schedule_next updq x) as [s2 o] end; simpl in *.
      + left. subst s2. simpl. auto.
      + right. exists nx. subst s2. simpl. repeat split; auto.
  Qed.

  Lemma step_rnd (s : st Q) (e : event Q) :
    s_rnd (fst (step updq s e)) = match e with ERand r => r | _ => s_rnd s end.
  Proof.
    destruct e as [t|r|sk| | |k| ]; simpl; auto.
    - unfold do_stop. destruct (s_timeout s); reflexivity.
    - destruct (s_pending s) as [|[h d] rest]; reflexivity.
    - destruct (s_armed s) as [|a]; [reflexivity|].
      destruct (s_running s) eqn:Er; [|reflexivity]. simpl. destruct k; [| |reflexivity|].
      + match goal with |- context [schedule_next _ ?x] =>
          destruct (sn_cases x) as [(H1 & H2)|(nx & h & H1 & H2 & H3 & H4)];
          destruct (schedule_next updq x) as [s2 o] end; simpl in *; subst s2; reflexivity.
      + match goal with |- context [do_stop ?x] =>
          destruct (stop_cases x) as (D1 & D2 & D3 & D4 & D5);
          destruct (do_stop x) as [s2 o1] end.
        match goal with |- context [schedule_next _ ?x] =>
          destruct (sn_cases x) as [(H1 & H2)|(nx & h & H1 & H2 & H3 & H4)];
          destruct (schedule_next updq x) as [s3 o2] end; simpl in *; [subst s3; exact D4|congruence].
      + match goal with |- context [schedule_next _ ?x] =>
          destruct (sn_cases x) as [(H1 & H2)|(nx & h & H1 & H2 & H3 & H4)];
          destruct (schedule_next updq x) as [s2 o] end; simpl in *; subst s2; reflexivity.
    - destruct (s_inflight s) as [|n]; [reflexivity|].
      match goal with |- context [schedule_next _ ?x] =>
        destruct (sn_cases x) as [(H1 & H2)|(nx & h & H1 & H2 & H3 & H4)];
        destruct (schedule_next updq x) as [s2 o] end; simpl in *; subst s2; reflexivity.
  Qed.

  (* every random value in force during the run gives a positive period *)
  Definition periods_positive (s : st Q) (evs : list (event Q)) : Prop :=
    forall r, In r (s_rnd s :: rands evs) -> 0 < per r.

  Lemma periods_positive_step s e evs :
    periods_positive s (e :: evs) -> periods_positive (fst (step updq s e)) evs.
  Proof.
    intros H r Hin. apply H. rewrite step_rnd in Hin.
    destruct e; simpl in *; tauto.
  Qed.

  (* strictly increasing, starting above [lo] *)
  Fixpoint increasing_from (lo : option Q) (ds : list Q) : Prop :=
    match ds with
    | [] => True
    | d :: ds' => match lo with Some l => l < d | None => True end /\ increasing_from (Some d) ds'
    end.

  (* between two start() calls the scheduled deadlines are strictly increasing,
     for every order of events and every clock sequence *)
  Theorem deadlines_increasing (evs : list (event Q)) : forall s,
    no_start evs = true -> periods_positive s evs ->
    increasing_from (s_next s) (deadlines (concat (snd (run updq s evs)))).
  Proof.
    induction evs as [|e evs IH]; intros s Hn Hp; [exact I|].
    rewrite run_cons. simpl. rewrite deadlines_app.
    simpl in Hn. apply andb_prop in Hn as [H1 H2]. apply negb_true_iff in H1.
    pose proof (IH _ H2 (periods_positive_step _ _ _ Hp)) as IH'.
    destruct (step_cases s e H1) as [(E1 & E2)|(nx & E1 & _ & E2 & E3 & _)]; cbn zeta in *.
    - rewrite E1. simpl. rewrite <- E2. exact IH'.
    - rewrite E2. simpl. rewrite E1. split.
      + apply update_later. apply Hp. left. reflexivity.
      + rewrite <- E3. exact IH'.
  Qed.

  (* without jitter every deadline lies on the grid origin + k * period *)
  Definition grid_inv (o p : Q) (s : st Q) : Prop :=
    match s_next s with Some nx => on_grid o p nx | None => True end.

  Lemma grid_run (o : Q) (evs : list (event Q)) : forall s,
    Qeq_bool jitter 0 = true -> 0 < ct ->
    no_start evs = true -> grid_inv o (ct / 1000) s ->
    forall d, In d (deadlines (concat (snd (run updq s evs)))) -> on_grid o (ct / 1000) d.
  Proof.
    intros s Hj Hc. revert s.
    assert (Hper : forall r, per r = ct / 1000) by (intro r; unfold period_Q; rewrite Hj; reflexivity).
    assert (Hp : 0 < ct / 1000) by (apply Qlt_shift_div_l; [reflexivity|lra]).
    induction evs as [|e evs IH]; intros s Hn Hg d Hin; [contradiction|].
    rewrite run_cons in Hin. simpl in Hin. rewrite deadlines_app in Hin.
    simpl in Hn. apply andb_prop in Hn as [H1 H2]. apply negb_true_iff in H1.
    destruct (step_cases s e H1) as [(E1 & E2)|(nx & E1 & _ & E2 & E3 & _)]; cbn zeta in *.
    - rewrite E1 in Hin. simpl in Hin. eapply IH; [exact H2| |exact Hin].
      unfold grid_inv. rewrite E2. exact Hg.
    - assert (Hd : on_grid o (ct / 1000) (update_next_Q (per (s_rnd s)) (s_now (fst (step updq s e))) nx)).
      { rewrite Hper. apply update_on_grid; [exact Hp|]. unfold grid_inv in Hg. rewrite E1 in Hg. exact Hg. }
      rewrite E2 in Hin. simpl in Hin. destruct Hin as [E|Hin].
      + subst d. exact Hd.
      + eapply IH; [exact H2| |exact Hin]. unfold grid_inv. rewrite E3. exact Hd.
  Qed.

  (* start() at clock reading [s_now s], then any events other than start() *)
  Theorem deadlines_on_grid (s : st Q) (sk : option Q) (evs : list (event Q)) :
    Qeq_bool jitter 0 = true -> 0 < ct -> no_start evs = true ->
    forall d, In d (deadlines (concat (snd (run updq s (EStart sk :: evs))))) ->
    on_grid (s_now s) (ct / 1000) d.
  Proof.
    intros Hj Hc Hn d Hin.
    assert (Hper : forall r, per r = ct / 1000) by (intro r; unfold period_Q; rewrite Hj; reflexivity).
    assert (Hp : 0 < ct / 1000) by (apply Qlt_shift_div_l; [reflexivity|lra]).
    rewrite run_cons in Hin. cbn [snd concat] in Hin. rewrite deadlines_app in Hin.
    assert (H0 : on_grid (s_now s) (ct / 1000) (s_now s)) by (exists 0%Z; ring).
    apply in_app_or in Hin as [Hin|Hin].
    - apply deadlines_In in Hin as (h & Hin).
      destruct (step_sched ct jitter s (EStart sk) h d Hin) as (pv & E1 & E2 & _).
      simpl in E1. inversion E1; subst pv. rewrite E2, Hper. apply update_on_grid; assumption.
    - eapply grid_run; [exact Hj|exact Hc|exact Hn| |exact Hin].
      unfold grid_inv. simpl. unfold schedule_next. simpl. unfold upd_Q. simpl.
      rewrite Hper. apply update_on_grid; assumption.
  Qed.
End QRuns.
