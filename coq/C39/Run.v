(* C39 — executable entry points for the correspondence check, and the property
   as a boolean checker on traces (generic in the number type). *)
From Coq Require Import List ZArith NArith Bool String QArith Qround Qabs Qminmax.
From Coq Require Import Uint63 PrimFloat SpecFloat FloatOps.
Import ListNotations.
From TV Require Import Lib.Obs C39.Model.
Local Open Scope string_scope.

(* ------------------------------------------------------------------ *)
(* The trace checker (the property on observables)                      *)
(* ------------------------------------------------------------------ *)

Record cst (T : Type) := mkC {
  c_now : T;
  c_rnd : T;
  c_running : bool;        (* start() more recent than stop() *)
  c_busy : nat;            (* fired _run invocations not yet finished *)
  c_depth : nat;           (* callback invocations started and not finished *)
  c_clean : bool;          (* every start() so far happened while idle: the property's scope *)
  c_start : option T;      (* clock reading taken by the latest start(): grid origin *)
  c_prev : option T;       (* _next_timeout: latest scheduled deadline, or the origin *)
  c_n : nat                (* deadlines scheduled since the latest start() *)
}.
Arguments mkC {T}.
Arguments c_now {T}. Arguments c_rnd {T}. Arguments c_running {T}. Arguments c_busy {T}.
Arguments c_depth {T}. Arguments c_clean {T}. Arguments c_start {T}. Arguments c_prev {T}.
Arguments c_n {T}.

Section Checker.
  Variable T : Type.
  (* [aok start prev now rnd n d]: the arithmetic obligations on the (n+1)-th
     deadline d scheduled since start, when _next_timeout was prev, the clock
     read now and random.random() returned rnd *)
  Variable aok : T -> T -> T -> T -> nat -> T -> bool.

  Definition cinit (t0 r0 : T) : cst T := mkC t0 r0 false 0 0 true None None 0.

  (* one output; [k]: the kind of the ERun event being processed, if any *)
  Definition cout (k : option (kind T)) (c : cst T) (o : out T) : option (cst T) :=
    match o with
    | OCbStart =>
        (* never started while stopped; never started while a previous invocation runs *)
        if negb (c_running c) then None
        else if c_clean c && negb (Nat.eqb (c_depth c) 0) then None
        else
          let r := match k with Some KSyncStop => false | _ => true end in
          (* a callback that takes time: the clock has moved when it returns *)
          let now' := match k with Some (KSyncClock t) => t | _ => c_now c end in
          Some (mkC now' (c_rnd c) r (c_busy c) (S (c_depth c)) (c_clean c)
                    (c_start c) (c_prev c) (c_n c))
    | OCbEnd =>
        match c_depth c, c_busy c with
        | S d, S b =>
            Some (mkC (c_now c) (c_rnd c) (c_running c) b d (c_clean c)
                      (c_start c) (c_prev c) (c_n c))
        | _, _ => None
        end
    | OFire _ =>
        Some (mkC (c_now c) (c_rnd c) (c_running c) (S (c_busy c)) (c_depth c) (c_clean c)
                  (c_start c) (c_prev c) (c_n c))
    | OSkip =>
        match c_busy c with
        | S b =>
            Some (mkC (c_now c) (c_rnd c) (c_running c) b (c_depth c) (c_clean c)
                      (c_start c) (c_prev c) (c_n c))
        | O => None
        end
    | OSched _ d =>
        (* nothing is scheduled after stop() *)
        if negb (c_running c) then None
        else
          match c_start c, c_prev c with
          | Some st, Some pv =>
              if aok st pv (c_now c) (c_rnd c) (c_n c) d then
                Some (mkC (c_now c) (c_rnd c) (c_running c) (c_busy c) (c_depth c) (c_clean c)
                          (c_start c) (Some d) (S (c_n c)))
              else None
          | _, _ => None
          end
    | ORemove _ => Some c
    | OErr _ => Some c
    end.

  Fixpoint couts (k : option (kind T)) (c : cst T) (os : list (out T)) : option (cst T) :=
    match os with
    | [] => Some c
    | o :: os' => match cout k c o with Some c' => couts k c' os' | None => None end
    end.

  (* the event's own effect on what the checker tracks, before its outputs *)
  Definition cevent (c : cst T) (e : event T) : cst T :=
    match e with
    | EClock t =>
        mkC t (c_rnd c) (c_running c) (c_busy c) (c_depth c) (c_clean c)
            (c_start c) (c_prev c) (c_n c)
    | ERand r =>
        mkC (c_now c) r (c_running c) (c_busy c) (c_depth c) (c_clean c)
            (c_start c) (c_prev c) (c_n c)
    | EStart skew =>
        let idle := negb (c_running c) && Nat.eqb (c_busy c) 0 in
        mkC (match skew with Some t => t | None => c_now c end) (c_rnd c) true (c_busy c)
            (c_depth c) (c_clean c && idle) (Some (c_now c)) (Some (c_now c)) 0
    | EStop =>
        mkC (c_now c) (c_rnd c) false (c_busy c) (c_depth c) (c_clean c)
            (c_start c) (c_prev c) (c_n c)
    | EFire | ERun _ | EDone => c
    end.

  Definition cstep (c : cst T) (e : event T) (os : list (out T)) : option (cst T) :=
    couts (match e with ERun k => Some k | _ => None end) (cevent c e) os.

  Fixpoint ccheck (c : cst T) (evs : list (event T)) (oss : list (list (out T))) : bool :=
    match evs, oss with
    | [], [] => true
    | e :: evs', os :: oss' =>
        match cstep c e os with Some c' => ccheck c' evs' oss' | None => false end
    | _, _ => false
    end.
End Checker.
Arguments cinit {T}.
Arguments cout {T}.
Arguments couts {T}.
Arguments cevent {T}.
Arguments cstep {T}.
Arguments ccheck {T}.

(* ------------------------------------------------------------------ *)
(* The arithmetic obligations over exact rationals                      *)
(* ------------------------------------------------------------------ *)

(* [scale]: rounding unit relative to the magnitude of the values involved
   (0 for exact arithmetic, 2^-50 for binary64).
   ct, jitter: callback_time (ms) and jitter as exact rationals. *)
Definition big52 : Q := 4503599627370496.
Definition in_scope_Q (ct jitter st pv now rnd : Q) : bool :=
  let p := period_Q ct jitter rnd in
  Qle_bool (1 # 1000000) p && Qle_bool p big52
  && Qle_bool (Qmax (Qmax (Qabs st) (Qabs pv)) (Qabs now)) big52.

Definition aok_Q (scale : Q) (ct jitter : Q) (st pv now rnd : Q) (n : nat) (d : Q) : bool :=
  let p := period_Q ct jitter rnd in
  let m0 := Qmax (Qmax (Qabs st) (Qabs pv)) (Qabs now) in
  (* scope: period of at least a microsecond; period and readings below 2^52 s *)
  if negb (in_scope_Q ct jitter st pv now rnd) then true
  else
    let m := Qmax m0 (Qabs d) + p in
    let u := m * scale in
    (* later than the previously scheduled one (strictly; for binary64 only below 2^31 s,
       where a microsecond is more than an ulp) *)
    (if Qeq_bool scale 0 || Qle_bool m 2147483648 then negb (Qle_bool d pv) else true)
    (* not before the current time, up to rounding *)
    && Qle_bool (now - u) d && (if Qeq_bool u 0 then negb (Qle_bool d now) else true)
    (* if the deadline had been reached, at most one period after the current time *)
    && (if Qle_bool pv now then Qle_bool d (now + p + u) else true)
    (* a whole number (>= 1) of (jittered) periods after the previous deadline, up to rounding *)
    && (if negb (Qle_bool (Qabs jitter) 1) then true else   (* beyond 100% jitter the float factor 1 + jitter*(r-0.5) cancels badly *)
        let k := Qfloor ((d - pv) / p + (1 # 2)) in
        (* k >= 1 where a period exceeds the rounding unit (as for strict monotonicity above) *)
        (if Qeq_bool scale 0 || Qle_bool m 2147483648 then (1 <=? k)%Z else (0 <=? k)%Z) && Qle_bool (Qabs (d - (pv + inject_Z k * p))) (4 * u))
    (* without jitter: on the grid start + k * period, up to accumulated rounding *)
    && (if Qeq_bool jitter 0 then
          let k := Qfloor ((d - st) / p + (1 # 2)) in
          Qle_bool (Qabs (d - (st + inject_Z k * p))) (inject_Z (Z.of_nat (S n)) * u)
        else true).

(* ------------------------------------------------------------------ *)
(* binary64 values as exact rationals (pure Gallina, no primitive floats) *)
(* ------------------------------------------------------------------ *)
Definition Q_of_sf (x : spec_float) : option Q :=
  match x with
  | S754_zero _ => Some 0
  | S754_finite s m e =>
      let v := if s then Zneg m else Zpos m in
      Some (if (0 <=? e)%Z then inject_Z (Z.shiftl v e)
            else Qmake v (Z.to_pos (Z.shiftl 1 (- e))))
  | _ => None
  end.
Definition Q_of_bits (b : Z) : option Q := Q_of_sf (sf_of_bits b).

Definition scale64 : Q := 1 # 1125899906842624.   (* 2^-50 *)

(* numbers in checked traces are bit patterns; None = NaN *)
Definition aok_bits (ct jitter : Z) (st pv now rnd : option Z) (n : nat) (d : option Z) : bool :=
  let q (x : option Z) := match x with Some b => Q_of_bits b | None => None end in
  match Q_of_bits ct, Q_of_bits jitter, q st, q pv, q now, q rnd, q d with
  | Some ct', Some j', Some st', Some pv', Some now', Some rnd', Some d' =>
      aok_Q scale64 ct' j' st' pv' now' rnd' n d'
  | Some ct', Some j', Some st', Some pv', Some now', Some rnd', None =>
      (* in scope but the deadline is not a finite number *)
      negb (in_scope_Q ct' j' st' pv' now' rnd')
  | _, _, _, _, _, _, _ => true     (* non-finite inputs: out of scope *)
  end.

(* ------------------------------------------------------------------ *)
(* Observables                                                          *)
(* ------------------------------------------------------------------ *)
Definition obs_of_bits (b : option Z) : obs :=
  match b with Some z => OInt z | None => OTag "nan" end.

Definition err_name (e : uerr) : string :=
  match e with
  | EZeroDiv => "ZeroDivisionError"
  | EFloorNan => "ValueError"
  | EFloorInf => "OverflowError"
  | EIntTooLarge => "OverflowError"
  | ENoNext => "AttributeError"
  end.

Definition obs_of_out (o : out (option Z)) : obs :=
  match o with
  | OSched h d => OList [OTag "sched"; OInt (Z.of_nat h); obs_of_bits d]
  | ORemove h => OList [OTag "remove"; OInt (Z.of_nat h)]
  | OFire h => OList [OTag "fire"; OInt (Z.of_nat h)]
  | OSkip => OTag "skip"
  | OCbStart => OTag "cb+"
  | OCbEnd => OTag "cb-"
  | OErr e => OList [OTag "err"; OTag (err_name e)]
  end.

Definition obs_of_trace (tr : list (list (out (option Z)))) : obs :=
  OList (map (fun os => OList (map obs_of_out os)) tr).

(* decoding the implementation's observable back into a trace; errors are only
   compared by class name, so the decoded [uerr] is a representative *)
Definition err_of_name (s : string) : option uerr :=
  if String.eqb s "ZeroDivisionError" then Some EZeroDiv
  else if String.eqb s "ValueError" then Some EFloorNan
  else if String.eqb s "OverflowError" then Some EFloorInf
  else if String.eqb s "AttributeError" then Some ENoNext
  else None.

Definition out_of_obs (o : obs) : option (out (option Z)) :=
  match o with
  | OTag t =>
      if String.eqb t "skip" then Some OSkip
      else if String.eqb t "cb+" then Some OCbStart
      else if String.eqb t "cb-" then Some OCbEnd
      else None
  | OList [OTag t; OInt h] =>
      if (h <? 0)%Z then None
      else if String.eqb t "remove" then Some (ORemove (Z.to_nat h))
      else if String.eqb t "fire" then Some (OFire (Z.to_nat h))
      else None
  | OList [OTag t; OInt h; OInt d] =>
      if (h <? 0)%Z then None
      else if String.eqb t "sched" then Some (OSched (Z.to_nat h) (Some d)) else None
  | OList [OTag t; OInt h; OTag nan] =>
      if (h <? 0)%Z then None
      else if String.eqb t "sched" && String.eqb nan "nan" then Some (OSched (Z.to_nat h) None) else None
  | OList [OTag t; OTag e] =>
      if String.eqb t "err" then
        match err_of_name e with Some e' => Some (OErr e') | None => None end
      else None
  | _ => None
  end.

Fixpoint all_some {A B} (f : A -> option B) (l : list A) : option (list B) :=
  match l with
  | [] => Some []
  | a :: l' =>
      match f a, all_some f l' with
      | Some b, Some bs => Some (b :: bs)
      | _, _ => None
      end
  end.

Definition trace_of_obs (o : obs) : option (list (list (out (option Z)))) :=
  match o with
  | OList evs =>
      all_some (fun e => match e with OList os => all_some out_of_obs os | _ => None end) evs
  | _ => None
  end.

(* ------------------------------------------------------------------ *)
(* Entry points                                                         *)
(* ------------------------------------------------------------------ *)

(* callback_time (ms), jitter, initial clock, initial random value (all as
   binary64 bit patterns), events *)
Definition c39_input : Type := (Z * Z * Z * Z * list (event Z))%type.

Definition map_kind {A B} (f : A -> B) (k : kind A) : kind B :=
  match k with
  | KSync => KSync | KSyncStop => KSyncStop | KAsync => KAsync
  | KSyncClock t => KSyncClock (f t)
  end.

Definition map_event {A B} (f : A -> B) (e : event A) : event B :=
  match e with
  | EClock t => EClock (f t)
  | ERand r => ERand (f r)
  | EStart sk => EStart (match sk with Some t => Some (f t) | None => None end)
  | EStop => EStop | EFire => EFire | ERun k => ERun (map_kind f k) | EDone => EDone
  end.

Definition map_out {A B} (f : A -> B) (o : out A) : out B :=
  match o with
  | OSched h d => OSched h (f d)
  | ORemove h => ORemove h | OFire h => OFire h | OSkip => OSkip
  | OCbStart => OCbStart | OCbEnd => OCbEnd | OErr e => OErr e
  end.

Definition run_trace (i : c39_input) : list (list (out (option Z))) :=
  let '(ct, jit, t0, r0, evs) := i in
  let upd := upd_float (float_of_bits ct) (float_of_bits jit) in
  let '(_, tr) := run upd (init (float_of_bits t0) (float_of_bits r0))
                      (map (map_event float_of_bits) evs) in
  map (map (map_out bits_of_float)) tr.

Definition run_case (i : c39_input) : obs := obs_of_trace (run_trace i).

Definition check_trace (i : c39_input) (tr : list (list (out (option Z)))) : bool :=
  let '(ct, jit, t0, r0, evs) := i in
  ccheck (aok_bits ct jit) (cinit (Some t0) (Some r0)) (map (map_event (@Some Z)) evs) tr.

Definition check_case (i : c39_input) (o : obs) : bool :=
  match trace_of_obs o with
  | Some tr => check_trace i tr
  | None => false
  end.
