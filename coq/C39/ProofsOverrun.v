(* C39 — proofs, part 9 (phase 3): callbacks that take time (the clock advances
   between the timer firing and _schedule_next), and the jitter window. *)
From Coq Require Import List ZArith Bool Arith QArith Qround Qabs Lia Lqa.
Import ListNotations.
From TV Require Import C39.Model C39.Proofs C39.ProofsMachine C39.ProofsQ.

Section Overrun.
  Variables ct jitter : Q.
  Notation updq := (upd_Q ct jitter).
  Notation per := (period_Q ct jitter).

  (* the clock reading that the _schedule_next triggered by an event uses *)
  Lemma step_now (s : st Q) (e : event Q) h d :
    In (OSched h d) (snd (step updq s e)) ->
    s_now (fst (step updq s e)) =
    match e with
    | EStart (Some t) => t
    | ERun (KSyncClock t) => t          (* read AFTER the callback returned *)
    | _ => s_now s
    end.
  Proof.
    destruct e as [t|r|sk| | |k| ]; simpl; try (intros []; fail).
    - intros _. destruct sk; reflexivity.
    - intro Hin. exfalso. eapply do_stop_no_sched. exact Hin.
    - destruct (s_pending s) as [|[h' d'] rest]; simpl; [intros []|intros [E|[]]; discriminate].
    - destruct (s_armed s) as [|a]; simpl; [intros []|].
      destruct (s_running s) eqn:Er; simpl; [|intros [E|[]]; discriminate].
      destruct k.
      + match goal with |- context [schedule_next _ ?x] =>
          destruct (sn_cases ct jitter x) as [(G1 & G2)|(nx & h0 & G1 & G2 & G3 & G4)];
          destruct (schedule_next updq x) as [s2 o] end; simpl in *; intros _; subst s2; reflexivity.
      + match goal with |- context [do_stop ?x] =>
          destruct (stop_cases x) as (D1 & D2 & D3 & D4 & D5);
          destruct (do_stop x) as [s2 o1] end.
        match goal with |- context [schedule_next _ ?x] =>
          destruct (sn_cases ct jitter x) as [(G1 & G2)|(nx & h0 & G1 & G2 & G3 & G4)];
          destruct (schedule_next updq x) as [s3 o2] end; simpl in *; intros _; [subst s3; exact D3|congruence].
      + intros [E|[]]; discriminate.
      + match goal with |- context [schedule_next _ ?x] =>
          destruct (sn_cases ct jitter x) as [(G1 & G2)|(nx & h0 & G1 & G2 & G3 & G4)];
          destruct (schedule_next updq x) as [s2 o] end; simpl in *; intros _; subst s2; reflexivity.
    - destruct (s_inflight s) as [|n]; simpl; [intros []|].
      match goal with |- context [schedule_next _ ?x] =>
        destruct (sn_cases ct jitter x) as [(G1 & G2)|(nx & h0 & G1 & G2 & G3 & G4)];
        destruct (schedule_next updq x) as [s2 o] end; simpl in *; intros _; subst s2; reflexivity.
  Qed.

  (* A plain-function callback that runs until the clock reads t (any state, any t):
     the next deadline is computed from the reading AFTER the callback, so it is
     after t; if the callback overran (old deadline <= t) it is the first point
     old + j*p after t — missed periods are skipped, never run back-to-back. *)
  Theorem sync_callback_overrun (s : st Q) (t : Q) h d :
    In (OSched h d) (snd (step updq s (ERun (KSyncClock t)))) ->
    let p := per (s_rnd s) in
    0 < p ->
    exists nx, s_next s = Some nx
      /\ nx < d /\ t < d
      /\ (nx <= t -> d <= t + p /\ forall j : Z, t < nx + inject_Z j * p -> d <= nx + inject_Z j * p)
      /\ (exists k : Z, (1 <= k)%Z /\ d == nx + inject_Z k * p).
  Proof.
    intros Hin p Hp.
    pose proof (step_now s (ERun (KSyncClock t)) h d Hin) as Hnow. cbv beta iota in Hnow.
    destruct (step_sched ct jitter s (ERun (KSyncClock t)) h d Hin) as (pv & E1 & E2 & E3 & E4).
    simpl prev_of in E1. rewrite Hnow, E4 in E2. fold p in E2.
    exists pv. split; [exact E1|]. subst d.
    split; [apply update_later; exact Hp|].
    split; [apply update_after_now; exact Hp|].
    split; [|apply update_whole_periods; exact Hp].
    intro Hle. split; [apply update_within_period; assumption|].
    intros j Hj. apply update_first_after_now; assumption.
  Qed.

  (* The same for a coroutine callback: the clock moves (EClock) while it is
     suspended; when it completes (EDone) the reading at completion is used. *)
  Theorem coroutine_callback_overrun (s : st Q) h d :
    In (OSched h d) (snd (step updq s EDone)) ->
    let p := per (s_rnd s) in
    let t := s_now s in
    0 < p ->
    exists nx, s_next s = Some nx
      /\ nx < d /\ t < d
      /\ (nx <= t -> d <= t + p /\ forall j : Z, t < nx + inject_Z j * p -> d <= nx + inject_Z j * p)
      /\ (exists k : Z, (1 <= k)%Z /\ d == nx + inject_Z k * p).
  Proof.
    intros Hin p t Hp.
    pose proof (step_now s EDone h d Hin) as Hnow. cbv beta iota in Hnow.
    destruct (step_sched ct jitter s EDone h d Hin) as (pv & E1 & E2 & E3 & E4).
    simpl prev_of in E1. rewrite Hnow, E4 in E2. fold p in E2. fold t in E2.
    exists pv. split; [exact E1|]. subst d.
    split; [apply update_later; exact Hp|].
    split; [apply update_after_now; exact Hp|].
    split; [|apply update_whole_periods; exact Hp].
    intro Hle. split; [apply update_within_period; assumption|].
    intros j Hj. apply update_first_after_now; assumption.
  Qed.
End Overrun.

(* ---------------- jitter window ---------------- *)
Lemma jitter_term_bounds (j r : Q) :
  0 <= r -> r <= 1 -> - (Qabs j * (1 # 2)) <= j * (r - (1 # 2)) /\ j * (r - (1 # 2)) <= Qabs j * (1 # 2).
Proof.
  intros H0 H1.
  destruct (Qle_or_lt 0 j) as [Hj|Hj].
  - rewrite (Qabs_pos j Hj).
    assert (A : j * (- (1 # 2)) <= j * (r - (1 # 2))).
    { rewrite (Qmult_comm j (- (1#2))), (Qmult_comm j (r - (1#2))). apply Qmult_le_compat_r; lra. }
    assert (B : j * (r - (1 # 2)) <= j * (1 # 2)).
    { rewrite (Qmult_comm j (1#2)), (Qmult_comm j (r - (1#2))). apply Qmult_le_compat_r; lra. }
    split; lra.
  - rewrite (Qabs_neg j) by lra.
    assert (E : j * (r - (1#2)) == (- j) * ((1#2) - r)) by ring.
    assert (A : (- j) * (- (1 # 2)) <= (- j) * ((1 # 2) - r)).
    { rewrite (Qmult_comm (- j) (- (1#2))), (Qmult_comm (- j) ((1#2) - r)). apply Qmult_le_compat_r; lra. }
    assert (B : (- j) * ((1 # 2) - r) <= (- j) * (1 # 2)).
    { rewrite (Qmult_comm (- j) (1#2)), (Qmult_comm (- j) ((1#2) - r)). apply Qmult_le_compat_r; lra. }
    rewrite E. split; lra.
Qed.

(* "each callback time will be randomly selected within a window of jitter *
   callback_time, centered on callback_time": for every random value in [0,1] *)
Theorem period_Q_window (ct jitter r : Q) :
  0 < ct -> 0 <= r -> r <= 1 ->
  let p0 := ct / 1000 in
  p0 * (1 - Qabs jitter * (1 # 2)) <= period_Q ct jitter r /\ period_Q ct jitter r <= p0 * (1 + Qabs jitter * (1 # 2)).
Proof.
  intros Hc H0 H1 p0.
  assert (Hp0 : 0 < p0) by (apply Qlt_shift_div_l; [reflexivity|lra]).
  pose proof (Qabs_nonneg jitter) as Ha.
  unfold period_Q. fold p0. destruct (Qeq_bool jitter 0) eqn:Ej.
  - split.
    + assert (p0 * (1 - Qabs jitter * (1 # 2)) == p0 - p0 * (Qabs jitter * (1 # 2))) as -> by ring.
      assert (0 <= p0 * (Qabs jitter * (1 # 2))); [|lra].
      apply Qmult_le_0_compat; lra.
    + assert (p0 * (1 + Qabs jitter * (1 # 2)) == p0 + p0 * (Qabs jitter * (1 # 2))) as -> by ring.
      assert (0 <= p0 * (Qabs jitter * (1 # 2))); [|lra].
      apply Qmult_le_0_compat; lra.
  - destruct (jitter_term_bounds jitter r H0 H1) as [A B].
    split.
    + rewrite (Qmult_comm p0 (1 - Qabs jitter * (1 # 2))), (Qmult_comm p0 (1 + jitter * (r - (1#2)))).
      apply Qmult_le_compat_r; lra.
    + rewrite (Qmult_comm p0 (1 + Qabs jitter * (1 # 2))), (Qmult_comm p0 (1 + jitter * (r - (1#2)))).
      apply Qmult_le_compat_r; lra.
Qed.

(* consequently consecutive deadlines are at least the short end of the window
   apart, and a reached deadline is replaced by one at most the long end ahead *)
Theorem jittered_deadline_window (ct jitter : Q) (s : st Q) (e : event Q) h d :
  In (OSched h d) (snd (step (upd_Q ct jitter) s e)) ->
  let s' := fst (step (upd_Q ct jitter) s e) in
  let p0 := ct / 1000 in
  0 < ct -> Qabs jitter < 2 -> 0 <= s_rnd s' -> s_rnd s' <= 1 ->
  exists pv, prev_of s e = Some pv
    /\ pv + p0 * (1 - Qabs jitter * (1 # 2)) <= d
    /\ (pv <= s_now s' -> d <= s_now s' + p0 * (1 + Qabs jitter * (1 # 2))).
Proof.
  intros Hin s' p0 Hc Hj H0 H1.
  destruct (period_Q_window ct jitter (s_rnd s') Hc H0 H1) as [W1 W2]. fold p0 in W1, W2.
  assert (Hp0 : 0 < p0) by (apply Qlt_shift_div_l; [reflexivity|lra]).
  assert (Hpos : 0 < period_Q ct jitter (s_rnd s')).
  { eapply Qlt_le_trans; [|exact W1]. apply Qmult_lt_0_compat; [exact Hp0|]. lra. }
  destruct (step_deadline ct jitter s e h d Hin Hpos) as (pv & E1 & _ & _ & E4 & (k & Hk1 & Hk) & _).
  fold s' in E4, Hk.
  exists pv. split; [exact E1|]. split.
  - rewrite Hk.
    assert (period_Q ct jitter (s_rnd s') <= inject_Z k * period_Q ct jitter (s_rnd s')); [|lra].
    assert (H1k : 1 <= inject_Z k) by (change 1 with (inject_Z 1); rewrite <- Zle_Qle; exact Hk1).
    rewrite <- (Qmult_1_l (period_Q ct jitter (s_rnd s'))) at 1.
    apply Qmult_le_compat_r; [exact H1k|lra].
  - intro Hle. specialize (E4 Hle). lra.
Qed.
