(* C39 phase 4: the binary64 _update_next against the exact value, via Flocq. *)
From Coq Require Import ZArith Reals Lra Lia Floats Uint63.
From Flocq Require Import Core BinarySingleNaN Relative.
Require Import Flocq.IEEE754.PrimFloat.
From TV Require Import C39.Model.
Local Open Scope R_scope.
Notation pfloat := Coq.Floats.PrimFloat.float.

Definition FR (x : pfloat) : R := B2R (Prim2B x).
Definition ffin (x : pfloat) : Prop := is_finite (Prim2B x) = true.
Notation rnd := (round radix2 (SpecFloat.fexp prec emax) ZnearestE).

Lemma rnd_abs_le (z : R) (e : Z) :
  (e <= emax)%Z -> (SpecFloat.emin prec emax <= e)%Z -> Rabs z <= bpow radix2 e -> Rabs (rnd z) <= bpow radix2 e.
Proof.
  intros He He' Hz.
  apply abs_round_le_generic; auto with typeclass_instances.
  - apply (fexp_correct prec emax). reflexivity.
  - apply generic_format_bpow. unfold SpecFloat.fexp. unfold prec in *. lia.
Qed.

Lemma rnd_lt_emax (z : R) : Rabs z <= bpow radix2 1023 -> Rabs (rnd z) < bpow radix2 emax.
Proof.
  intro Hb. eapply Rle_lt_trans; [apply (rnd_abs_le z 1023); [| |exact Hb]|]; unfold emax, prec, SpecFloat.emin; try lia.
  apply bpow_lt. lia.
Qed.

(* standard model with the underflow term *)
Lemma rnd_err (x : R) : Rabs (rnd x - x) <= bpow radix2 (-53) * Rabs x + bpow radix2 (-1075).
Proof.
  destruct (error_N_FLT radix2 (-1074) 53 (eq_refl _) (fun z => negb (Z.even z)) x) as (eps & eta & He & Ht & _ & Hr).
  change (FLT_exp (-1074) 53) with (SpecFloat.fexp prec emax) in Hr.
  rewrite Hr.
  replace (x * (1 + eps) + eta - x) with (x * eps + eta) by ring.
  eapply Rle_trans; [apply Rabs_triang|]. rewrite Rabs_mult.
  assert (E1 : / 2 * bpow radix2 (-53 + 1) = bpow radix2 (-53)).
  { change (/ 2) with (bpow radix2 (-1)). rewrite <- bpow_plus. reflexivity. }
  assert (E2 : / 2 * bpow radix2 (-1074) = bpow radix2 (-1075)).
  { change (/ 2) with (bpow radix2 (-1)). rewrite <- bpow_plus. reflexivity. }
  assert (He' : Rabs eps <= bpow radix2 (-53)) by (rewrite <- E1; exact He).
  assert (Ht' : Rabs eta <= bpow radix2 (-1075)) by (rewrite <- E2; exact Ht).
  apply Rplus_le_compat; [|exact Ht'].
  rewrite Rmult_comm. apply Rmult_le_compat_r; [apply Rabs_pos|exact He'].
Qed.

Lemma add_ok (x y : pfloat) :
  ffin x -> ffin y -> Rabs (FR x + FR y) <= bpow radix2 1023 ->
  FR (x + y) = rnd (FR x + FR y) /\ ffin (x + y).
Proof.
  intros Fx Fy Hb. unfold FR, ffin. rewrite add_equiv.
  pose proof (Bplus_correct prec emax (eq_refl _) (eq_refl _) mode_NE (Prim2B x) (Prim2B y) Fx Fy) as H.
  rewrite Rlt_bool_true in H by (apply rnd_lt_emax; exact Hb).
  destruct H as (H1 & H2 & _). split; assumption.
Qed.

Lemma sub_ok (x y : pfloat) :
  ffin x -> ffin y -> Rabs (FR x - FR y) <= bpow radix2 1023 ->
  FR (x - y) = rnd (FR x - FR y) /\ ffin (x - y).
Proof.
  intros Fx Fy Hb. unfold FR, ffin. rewrite sub_equiv.
  pose proof (Bminus_correct prec emax (eq_refl _) (eq_refl _) mode_NE (Prim2B x) (Prim2B y) Fx Fy) as H.
  rewrite Rlt_bool_true in H by (apply rnd_lt_emax; exact Hb).
  destruct H as (H1 & H2 & _). split; assumption.
Qed.

Lemma mul_ok (x y : pfloat) :
  ffin x -> ffin y -> Rabs (FR x * FR y) <= bpow radix2 1023 ->
  FR (x * y) = rnd (FR x * FR y) /\ ffin (x * y).
Proof.
  intros Fx Fy Hb. unfold FR, ffin. rewrite mul_equiv.
  pose proof (Bmult_correct prec emax (eq_refl _) (eq_refl _) mode_NE (Prim2B x) (Prim2B y)) as H.
  rewrite Rlt_bool_true in H by (apply rnd_lt_emax; exact Hb).
  destruct H as (H1 & H2 & _). split; [exact H1|]. rewrite Fx, Fy in H2. exact H2.
Qed.

Lemma div_ok (x y : pfloat) :
  ffin x -> FR y <> 0 -> Rabs (FR x / FR y) <= bpow radix2 1023 ->
  FR (x / y) = rnd (FR x / FR y) /\ ffin (x / y).
Proof.
  intros Fx Hy Hb. unfold FR, ffin. rewrite div_equiv.
  pose proof (Bdiv_correct prec emax (eq_refl _) (eq_refl _) mode_NE (Prim2B x) (Prim2B y) Hy) as H.
  rewrite Rlt_bool_true in H by (apply rnd_lt_emax; exact Hb).
  destruct H as (H1 & H2 & _). split; [exact H1|]. rewrite Fx in H2. exact H2.
Qed.
