(* C39 — proofs, part 8: the hypotheses of the theorems are satisfiable
   (concrete runs), the restart witness, and the float-instance corollary. *)
From Coq Require Import List ZArith Bool Arith QArith Qround Lia Lqa.
Import ListNotations.
From TV Require Import Lib.Obs C39.Model C39.Run C39.Proofs C39.ProofsMachine C39.ProofsQ
  C39.ProofsChecker C39.ProofsCheckerQ C39.ProofsTimely C39.ProofsShape.

(* a number-free instance of the machine *)
Definition upd_unit (_ _ _ : unit) : ures unit := UOk tt.

Definition ex_events : list (event unit) :=
  [EStart None; EFire; ERun KAsync; EStop; EDone; EStart None; EFire; ERun KSync; EFire; ERun KSyncStop; EFire].

Example starts_idle_example : starts_idle unit upd_unit (init tt tt) ex_events = true.
Proof. vm_compute. reflexivity. Qed.

(* the callback-calls-stop() step does invoke the callback when a created _run takes
   its first step while running *)
Example stop_inside_callback_example :
  In OCbStart (snd (step upd_unit (fst (run upd_unit (init tt tt) [EStart None; EFire])) (ERun KSyncStop))).
Proof. vm_compute. left. reflexivity. Qed.

Example no_start_example : no_start [EFire; ERun KAsync; EClock tt; EDone; @EStop unit] = true.
Proof. reflexivity. Qed.

(* Outside the scope of the no-overlap theorem: start() again while a coroutine
   callback is still in flight.  The in-flight invocation reschedules when it
   completes although start() already scheduled: two timer chains, and a second
   invocation starts while the first is running. *)
Definition restart_events : list (event unit) :=
  [EStart None; EFire; ERun KAsync; EStop; EStart None; EDone; EFire; EFire; ERun KAsync; ERun KAsync].

Lemma restart_in_flight_overlaps_witness :
  starts_idle unit upd_unit (init tt tt) restart_events = false
  /\ depth_walk unit 0%nat (concat (snd (run upd_unit (init tt tt) restart_events))) = None
  /\ length (s_pending (fst (run upd_unit (init tt tt) [EStart None; EFire; ERun KAsync; EStop; EStart None; EDone]))) = 2%nat.
Proof. vm_compute. repeat split; reflexivity. Qed.

(* a concrete exact run: 10 s period started at t = 1000; the second callback is a
   coroutine that overruns to t = 1051, so the deadlines are 1010, 1020 and (skipping 1030..1050) 1060 *)
Definition exq_events : list (event Q) :=
  [EStart None; EClock 1010; EFire; ERun KSync; EClock 1024; EClock 1031; EFire; ERun KAsync; EClock 1051; EDone].

Example exq_deadlines :
  map Qred (deadlines (concat (snd (run (upd_Q 10000 0) (init 1000 (1 # 2)) exq_events))))
  = [1010; 1020; 1060].
Proof. vm_compute. reflexivity. Qed.

Example exq_periods_positive : periods_positive 10000 0 (init 1000 (1 # 2)) exq_events.
Proof. intros r _. vm_compute. reflexivity. Qed.

Example exq_timely : timely 10000 0 (init 1000 (1 # 2)) exq_events.
Proof.
  unfold exq_events. cbn [timely]. repeat split; try exact I; vm_compute; try reflexivity; intro; discriminate.
Qed.

Example period_Q_pos_example : 0 < period_Q 10000 (1 # 2) (3 # 4).
Proof. apply period_Q_pos; vm_compute; first [reflexivity | intro; discriminate]. Qed.

(* the bit-exact float instance, as run by run_case, satisfies the structural
   clauses of check_case on every input (mentions primitive floats, hence not in
   Property.v; the general statement there is structural_checker_passes_encoded) *)
Definition check_struct_trace (i : c39_input) (tr : list (list (out (option Z)))) : bool :=
  let '(ct, jit, t0, r0, evs) := i in
  ccheck aok_none (cinit (Some t0) (Some r0)) (map (map_event (@Some Z)) evs) tr.

Lemma run_trace_passes_structural_checker (i : c39_input) :
  check_struct_trace i (run_trace i) = true.
Proof.
  destruct i as [[[[ct jit] t0] r0] evs]. unfold check_struct_trace, run_trace.
  match goal with |- context [run ?u ?s ?e] =>
    pose proof (structural_checker_passes_encoded (upd_float (float_of_bits ct) (float_of_bits jit))
                  float_of_bits bits_of_float (@Some Z) t0 r0 evs) as H;
    destruct (run u s e) as [s' tr] end.
  exact H.
Qed.
