From Coq Require Import ZArith Reals Lra Lia Floats Uint63.
From Flocq Require Import Core BinarySingleNaN Relative.
Require Import Flocq.IEEE754.PrimFloat.
From TV Require Import C39.Model.
From TV Require Import C39.ProofsP4a C39.ProofsP4b.
Local Open Scope R_scope.

Lemma bp31 : bpow radix2 31 = 2147483648. Proof. rewrite <- (IZR_Zpower radix2 31) by lia. reflexivity. Qed.
Lemma bp20 : bpow radix2 20 = 1048576. Proof. rewrite <- (IZR_Zpower radix2 20) by lia. reflexivity. Qed.
Lemma bp60 : bpow radix2 60 = 1152921504606846976. Proof. rewrite <- (IZR_Zpower radix2 60) by lia. reflexivity. Qed.
Lemma bp53 : bpow radix2 53 = 9007199254740992. Proof. rewrite <- (IZR_Zpower radix2 53) by lia. reflexivity. Qed.
Lemma bpm53 : bpow radix2 (-53) = / 9007199254740992. Proof. rewrite <- bp53. exact (bpow_opp radix2 53). Qed.
Lemma bpm20 : bpow radix2 (-20) = / 1048576. Proof. rewrite <- bp20. exact (bpow_opp radix2 20). Qed.
Lemma bp19 : bpow radix2 19 = 524288. Proof. rewrite <- (IZR_Zpower radix2 19) by lia. reflexivity. Qed.
Lemma bp18 : bpow radix2 18 = 262144. Proof. rewrite <- (IZR_Zpower radix2 18) by lia. reflexivity. Qed.
Lemma bpm19 : bpow radix2 (-19) = / 524288. Proof. rewrite <- bp19. exact (bpow_opp radix2 19). Qed.
Lemma bpm18 : bpow radix2 (-18) = / 262144. Proof. rewrite <- bp18. exact (bpow_opp radix2 18). Qed.
Lemma eta_small : 0 < bpow radix2 (-1075) <= / 1152921504606846976.
Proof.
  split; [apply bpow_gt_0|]. rewrite <- bp60. rewrite <- (bpow_opp radix2 60). apply bpow_le. lia.
Qed.

Lemma small_ok (x : R) : Rabs x <= 1152921504606846976 -> Rabs x <= bpow radix2 1023.
Proof. intro H. eapply Rle_trans; [exact H|]. rewrite <- bp60. apply bpow_le. lia. Qed.

Lemma rnd_nonneg (x : R) : 0 <= x -> 0 <= rnd x.
Proof.
  intro H. apply round_ge_generic; auto with typeclass_instances.
  - apply (fexp_correct prec emax). reflexivity.
  - apply generic_format_0.
Qed.

Lemma abs_le_intro (x b : R) : - b <= x <= b -> Rabs x <= b.
Proof. intro H. apply Rabs_le. exact H. Qed.

(* Main branch of _update_next in binary64: the deadline was reached (next <= now).
   Times in [0, 2^31] s, period in [2^-20, 2^20] s (about 1 us .. 12 days). *)
Theorem update_next_float_main_accuracy (next now p : pfloat) :
  ffin next -> ffin now -> ffin p ->
  0 <= FR next -> FR next <= FR now -> FR now <= bpow radix2 31 ->
  bpow radix2 (-20) <= FR p -> FR p <= bpow radix2 20 ->
  exists (d : pfloat) (K : Z),
    update_next_float p now next = UOk d /\ ffin d /\ (1 <= K)%Z
    /\ Rabs (FR d - (FR next + IZR K * FR p)) <= bpow radix2 (-19)
    /\ FR now - bpow radix2 (-18) < FR d
    /\ FR d <= FR now + FR p + bpow radix2 (-18).
Proof.
  intros Fn Fw Fp HN0 HNW HW HP1 HP2.
  rewrite bp31 in HW. rewrite bpm20 in HP1. rewrite bp20 in HP2.
  set (N := FR next) in *. set (W := FR now) in *. set (P := FR p) in *.
  destruct eta_small as [Het0 Het1]. set (eta := bpow radix2 (-1075)) in *.
  assert (HP0 : 0 < P) by lra.
  (* s = now - next *)
  destruct (sub_ok now next Fw Fn) as [Es Fs].
  { apply small_ok. apply abs_le_intro. fold W N. lra. }
  fold W N in Es. set (a := W - N) in *.
  pose proof (rnd_err a) as Hs. rewrite <- Es in Hs. fold eta in Hs. rewrite bpm53 in Hs.
  assert (Ha : 0 <= a <= 2147483648) by (unfold a; lra).
  rewrite (Rabs_pos_eq a) in Hs by lra.
  apply Rabs_le_inv in Hs.
  assert (Hs0 : 0 <= FR (now - next)) by (rewrite Es; apply rnd_nonneg; lra).
  set (s := FR (now - next)) in *.
  (* q = s / p *)
  assert (Hr0 : 0 <= s / P) by (apply Rmult_le_pos; [exact Hs0|left; apply Rinv_0_lt_compat; exact HP0]).
  assert (HrP : s / P * P = s) by (field; lra).
  assert (Hrb : s / P <= 4503599627370496).
  { apply Rmult_le_reg_r with P; [exact HP0|]. rewrite HrP.
    apply Rle_trans with (4503599627370496 * / 1048576); [lra|].
    apply Rmult_le_compat_l; lra. }
  destruct (div_ok (now - next) p Fs) as [Eq Fq].
  { fold P. lra. }
  { apply small_ok. apply abs_le_intro. fold s P. lra. }
  fold s P in Eq.
  pose proof (rnd_err (s / P)) as Hq. rewrite <- Eq in Hq. fold eta in Hq. rewrite bpm53 in Hq.
  rewrite (Rabs_pos_eq (s / P)) in Hq by exact Hr0.
  assert (Hq0 : 0 <= FR ((now - next) / p)) by (rewrite Eq; apply rnd_nonneg; exact Hr0).
  set (q := FR ((now - next) / p)) in *.
  (* |q P - s| <= eps s + eta P *)
  assert (HqP : Rabs (q * P - s) <= / 9007199254740992 * s + eta * P).
  { replace (q * P - s) with ((q - s / P) * P) by (field; lra).
    rewrite Rabs_mult, (Rabs_pos_eq P) by lra.
    replace (/ 9007199254740992 * s + eta * P) with ((/ 9007199254740992 * (s / P) + eta) * P) by (field; lra).
    apply Rmult_le_compat_r; [lra|exact Hq]. }
  apply Rabs_le_inv in HqP. apply Rabs_le_inv in Hq.
  assert (HetaP : eta * P <= eta * 1048576) by (apply Rmult_le_compat_l; lra).
  assert (HetaP0 : 0 <= eta * P) by (apply Rmult_le_pos; lra).
  (* K = floor q + 1 *)
  set (K := (Zfloor q + 1)%Z).
  pose proof (Zfloor_lb q) as Hfl. pose proof (Zfloor_ub q) as Hfu.
  assert (HK : IZR K = IZR (Zfloor q) + 1) by (unfold K; rewrite plus_IZR; reflexivity).
  assert (HK1 : (1 <= K)%Z).
  { unfold K. assert (0 <= Zfloor q)%Z; [|lia]. apply Zfloor_lub. exact Hq0. }
  assert (HK2 : (K < 2 ^ 53)%Z).
  { apply lt_IZR. rewrite HK. change (2 ^ 53)%Z with 9007199254740992%Z. lra. }
  destruct (float_of_int_ok K (conj HK1 HK2)) as (kf & Ek & Fk & Rk).
  (* products as atoms *)
  assert (HKP1 : q * P < IZR K * P) by (apply Rmult_lt_compat_r; [exact HP0|lra]).
  assert (HKP2 : IZR K * P <= q * P + P).
  { replace (q * P + P) with ((q + 1) * P) by ring. apply Rmult_le_compat_r; lra. }
  assert (HqP0 : 0 <= q * P) by (apply Rmult_le_pos; lra).
  set (KP := IZR K * P) in *. set (qP := q * P) in *.
  (* m = kf * p *)
  destruct (mul_ok kf p Fk Fp) as [Em Fm].
  { apply small_ok. apply abs_le_intro. rewrite Rk. fold P KP. lra. }
  rewrite Rk in Em. fold P KP in Em.
  pose proof (rnd_err KP) as Hm. rewrite <- Em in Hm. fold eta in Hm. rewrite bpm53 in Hm.
  rewrite (Rabs_pos_eq KP) in Hm by lra. apply Rabs_le_inv in Hm.
  assert (Hm0 : 0 <= FR (kf * p)) by (rewrite Em; apply rnd_nonneg; lra).
  set (m := FR (kf * p)) in *.
  (* d = next + m *)
  destruct (add_ok next (kf * p) Fn Fm) as [Ed Fd].
  { apply small_ok. apply abs_le_intro. fold N m. lra. }
  fold N m in Ed.
  pose proof (rnd_err (N + m)) as Hd. rewrite <- Ed in Hd. fold eta in Hd. rewrite bpm53 in Hd.
  rewrite (Rabs_pos_eq (N + m)) in Hd by lra. apply Rabs_le_inv in Hd.
  set (d := FR (next + kf * p)) in *.
  (* the model computes exactly this *)
  exists (next + kf * p)%float, K.
  split.
  { unfold update_next_float.
    rewrite (leb_ok next now Fn Fw HNW).
    rewrite (eqb_zero_ok p Fp) by (fold P; lra).
    rewrite (float_floor_ok _ Fq). fold q. fold K. rewrite Ek. reflexivity. }
  split; [exact Fd|]. split; [exact HK1|].
  fold d. fold KP. rewrite bpm19, bpm18. unfold a in *.
  split; [apply abs_le_intro; lra|]. split; lra.
Qed.
