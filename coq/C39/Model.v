(* C39 — tornado.ioloop.PeriodicCallback: the next-deadline arithmetic
   (_update_next) over exact rationals and, bit-exact, over binary64 floats, and
   the start/stop/_run/_schedule_next run loop as an event machine that is
   generic in the number type.  Definitions only. *)
From Coq Require Import List ZArith Bool QArith Qround.
From Coq Require Import Uint63 PrimFloat SpecFloat FloatOps.
Import ListNotations.

(* ------------------------------------------------------------------ *)
(* 1. _update_next                                                      *)
(* ------------------------------------------------------------------ *)

(* exceptions that can escape _update_next *)
Inductive uerr :=
| EZeroDiv      (* (current_time - next) / callback_time_sec with callback_time_sec == 0.0 *)
| EFloorNan     (* math.floor(nan): ValueError *)
| EFloorInf     (* math.floor(+-inf): OverflowError *)
| EIntTooLarge  (* int * float with an int that does not fit a float: OverflowError *)
| ENoNext.      (* _next_timeout read before start() assigned it: AttributeError *)

Inductive ures (T : Type) := UOk (x : T) | UErr (e : uerr).
Arguments UOk {T} x.
Arguments UErr {T} e.

(* ---- exact rationals ----
     if next <= now: next += (floor((now - next) / p) + 1) * p
     else:           next += p                                         *)
Definition update_next_Q (p now next : Q) : Q :=
  if Qle_bool next now
  then next + inject_Z (Qfloor ((now - next) / p) + 1) * p
  else next + p.

(* callback_time_sec, with the jitter factor when jitter is non-zero *)
Definition period_Q (ct_ms jitter r : Q) : Q :=
  let p := ct_ms / 1000 in
  if Qeq_bool jitter 0 then p else p * (1 + jitter * (r - (1 # 2))).

(* ---- binary64, bit-exact ---- *)
Local Open Scope Z_scope.

Definition two52 : Z := 4503599627370496.
Definition two63 : Z := 9223372036854775808.

(* IEEE-754 binary64 bit pattern (0 <= b < 2^64) -> float *)
Definition sf_of_bits (b : Z) : spec_float :=
  let s := Z.odd (Z.shiftr b 63) in
  let e := Z.land (Z.shiftr b 52) 2047 in
  let m := Z.land b (two52 - 1) in
  if e =? 2047 then (if m =? 0 then S754_infinity s else S754_nan)
  else if e =? 0 then
    match m with Zpos pm => S754_finite s pm (-1074) | _ => S754_zero s end
  else
    match m + two52 with Zpos pm => S754_finite s pm (e - 1075) | _ => S754_zero s end.

Definition float_of_bits (b : Z) : float := SF2Prim (sf_of_bits b).

(* float -> bit pattern; None for NaN (payloads are not observable) *)
Definition bits_of_sf (x : spec_float) : option Z :=
  let sb (s : bool) := if s then two63 else 0 in
  match x with
  | S754_nan => None
  | S754_zero s => Some (sb s)
  | S754_infinity s => Some (sb s + 2047 * two52)
  | S754_finite s m e =>
      if Zpos m <? two52 then Some (sb s + Zpos m)                         (* subnormal, e = -1074 *)
      else Some (sb s + (e + 1075) * two52 + (Zpos m - two52))
  end.
Definition bits_of_float (f : float) : option Z := bits_of_sf (Prim2SF f).

(* math.floor(x) for a float x: a Python int, or an exception *)
Definition float_floor (x : float) : ures Z :=
  match Prim2SF x with
  | S754_nan => UErr EFloorNan
  | S754_infinity _ => UErr EFloorInf
  | S754_zero _ => UOk 0
  | S754_finite s m e =>
      let v := if s then Zneg m else Zpos m in
      UOk (if 0 <=? e then Z.shiftl v e else Z.shiftr v (- e))   (* shiftr on Z is floor division *)
  end.

(* Python int -> float (PyLong_AsDouble): round to nearest, ties to even *)
Definition float_of_nonneg (n : Z) : float :=
  if n <? two63 then of_uint63 (of_Z n)
  else
    let sh := Z.log2 n + 1 - 62 in
    let q := Z.shiftr n sh in
    let sticky := if Z.land n (Z.shiftl 1 sh - 1) =? 0 then 0 else 1 in
    Z.ldexp (of_uint63 (of_Z (Z.lor q sticky))) sh.

Definition float_of_int (k : Z) : ures float :=
  let f := float_of_nonneg (Z.abs k) in
  if is_infinity f then UErr EIntTooLarge
  else UOk (if k <? 0 then (- f)%float else f).

Definition f1000 : float := 1000%float.
Definition fhalf : float := 0.5%float.

(* callback_time_sec = self.callback_time / 1000.0
   if self.jitter: callback_time_sec *= 1 + (self.jitter * (random.random() - 0.5)) *)
Definition period_float (ct_ms jitter r : float) : float :=
  let p := (ct_ms / f1000)%float in
  if (jitter =? zero)%float then p          (* `if self.jitter:` is False exactly for +-0.0 *)
  else (p * (one + jitter * (r - fhalf)))%float.

Definition update_next_float (p now next : float) : ures float :=
  if (next <=? now)%float then
    if (p =? zero)%float then UErr EZeroDiv
    else
      match float_floor ((now - next) / p)%float with
      | UErr e => UErr e
      | UOk k =>
          match float_of_int (k + 1) with
          | UErr e => UErr e
          | UOk kf => UOk (next + kf * p)%float
          end
      end
  else UOk (next + p)%float.

(* ------------------------------------------------------------------ *)
(* 2. The run loop: start / stop / _run / _schedule_next                *)
(* ------------------------------------------------------------------ *)
Local Close Scope Z_scope.

(* what the user callback does when it is invoked *)
Inductive kind (T : Type) :=
| KSync              (* plain function (returns None or a non-awaitable), or raises *)
| KSyncStop          (* plain function that calls self.stop() *)
| KAsync             (* returns an awaitable; completed later by EDone *)
| KSyncClock (t : T). (* plain function that takes time: the clock reads t when it returns *)
Arguments KSync {T}.
Arguments KSyncStop {T}.
Arguments KAsync {T}.
Arguments KSyncClock {T} t.

Inductive event (T : Type) :=
| EClock (t : T)            (* IOLoop.time() returns t from now on *)
| ERand (r : T)             (* random.random() returns r from now on *)
| EStart (skew : option T)  (* start(); Some t: the clock moves to t between the two reads in start() *)
| EStop                     (* stop() *)
| EFire                     (* the oldest pending timeout expires: the loop calls self._run(), creating a coroutine *)
| ERun (k : kind T)         (* the oldest created _run coroutine takes its first step *)
| EDone.                    (* the awaitable of the oldest suspended _run completes (normally or not) *)
Arguments EClock {T} t.
Arguments ERand {T} r.
Arguments EStart {T} skew.
Arguments EStop {T}.
Arguments EFire {T}.
Arguments ERun {T} k.
Arguments EDone {T}.

Inductive out (T : Type) :=
| OSched (id : nat) (d : T)   (* io_loop.add_timeout(d, self._run) returned handle id *)
| ORemove (id : nat)          (* io_loop.remove_timeout(handle id) *)
| OFire (id : nat)            (* handle id expired *)
| OSkip                       (* _run returned at `if not self._running` *)
| OCbStart                    (* self.callback() invoked *)
| OCbEnd                      (* callback finished (returned, raised, or its awaitable completed) *)
| OErr (e : uerr).            (* exception escaping _schedule_next *)
Arguments OSched {T} id d.
Arguments ORemove {T} id.
Arguments OFire {T} id.
Arguments OSkip {T}.
Arguments OCbStart {T}.
Arguments OCbEnd {T}.
Arguments OErr {T} e.

Record st (T : Type) := mkSt {
  s_now : T;                      (* current IOLoop.time() *)
  s_rnd : T;                      (* current random.random() *)
  s_running : bool;               (* self._running *)
  s_next : option T;              (* self._next_timeout (None: attribute not yet set) *)
  s_timeout : option nat;         (* self._timeout (possibly a stale handle) *)
  s_pending : list (nat * T);     (* the loop's live timeouts for self._run, oldest first *)
  s_armed : nat;                  (* _run coroutines created but not yet started *)
  s_inflight : nat;               (* _run coroutines suspended in `await val` *)
  s_nextid : nat                  (* next handle id *)
}.
Arguments mkSt {T}.
Arguments s_now {T}. Arguments s_rnd {T}. Arguments s_running {T}. Arguments s_next {T}.
Arguments s_timeout {T}. Arguments s_pending {T}. Arguments s_armed {T}.
Arguments s_inflight {T}. Arguments s_nextid {T}.

Section Machine.
  Variable T : Type.
  (* [upd rnd now next]: _update_next, with callback_time and jitter fixed *)
  Variable upd : T -> T -> T -> ures T.

  Definition init (t0 r0 : T) : st T :=
    mkSt t0 r0 false None None [] 0 0 0.

  Definition remove_id (h : nat) (l : list (nat * T)) : list (nat * T) :=
    filter (fun x => negb (Nat.eqb (fst x) h)) l.

  (* _schedule_next *)
  Definition schedule_next (s : st T) : st T * list (out T) :=
    if s_running s then
      match s_next s with
      | None => (s, [OErr ENoNext])
      | Some nx =>
          match upd (s_rnd s) (s_now s) nx with
          | UErr e => (s, [OErr e])
          | UOk nx' =>
              let h := s_nextid s in
              (mkSt (s_now s) (s_rnd s) (s_running s) (Some nx') (Some h)
                    (s_pending s ++ [(h, nx')]) (s_armed s) (s_inflight s) (S h),
               [OSched h nx'])
          end
      end
    else (s, []).

  (* stop *)
  Definition do_stop (s : st T) : st T * list (out T) :=
    match s_timeout s with
    | Some h =>
        (mkSt (s_now s) (s_rnd s) false (s_next s) None (remove_id h (s_pending s))
              (s_armed s) (s_inflight s) (s_nextid s), [ORemove h])
    | None =>
        (mkSt (s_now s) (s_rnd s) false (s_next s) None (s_pending s)
              (s_armed s) (s_inflight s) (s_nextid s), [])
    end.

  Definition step (s : st T) (e : event T) : st T * list (out T) :=
    match e with
    | EClock t =>
        (mkSt t (s_rnd s) (s_running s) (s_next s) (s_timeout s) (s_pending s)
              (s_armed s) (s_inflight s) (s_nextid s), [])
    | ERand r =>
        (mkSt (s_now s) r (s_running s) (s_next s) (s_timeout s) (s_pending s)
              (s_armed s) (s_inflight s) (s_nextid s), [])
    | EStart skew =>
        (* self._running = True; self._next_timeout = self.io_loop.time(); self._schedule_next() *)
        let now2 := match skew with Some t => t | None => s_now s end in
        schedule_next (mkSt now2 (s_rnd s) true (Some (s_now s)) (s_timeout s) (s_pending s)
                            (s_armed s) (s_inflight s) (s_nextid s))
    | EStop => do_stop s
    | EFire =>
        match s_pending s with
        | [] => (s, [])
        | (h, _) :: rest =>
            (mkSt (s_now s) (s_rnd s) (s_running s) (s_next s) (s_timeout s) rest
                  (S (s_armed s)) (s_inflight s) (s_nextid s), [OFire h])
        end
    | ERun k =>
        match s_armed s with
        | O => (s, [])
        | S a =>
            let s1 := mkSt (s_now s) (s_rnd s) (s_running s) (s_next s) (s_timeout s) (s_pending s)
                           a (s_inflight s) (s_nextid s) in
            if negb (s_running s) then (s1, [OSkip])
            else
              match k with
              | KSync =>
                  let '(s2, o) := schedule_next s1 in (s2, OCbStart :: OCbEnd :: o)
              | KSyncStop =>
                  let '(s2, o1) := do_stop s1 in
                  let '(s3, o2) := schedule_next s2 in
                  (s3, OCbStart :: o1 ++ OCbEnd :: o2)
              | KAsync =>
                  (mkSt (s_now s) (s_rnd s) (s_running s) (s_next s) (s_timeout s) (s_pending s)
                        a (S (s_inflight s)) (s_nextid s), [OCbStart])
              | KSyncClock t =>
                  (* the clock has moved on when the finally clause calls _schedule_next *)
                  let '(s2, o) :=
                    schedule_next (mkSt t (s_rnd s) (s_running s) (s_next s) (s_timeout s) (s_pending s)
                                        a (s_inflight s) (s_nextid s)) in
                  (s2, OCbStart :: OCbEnd :: o)
              end
        end
    | EDone =>
        match s_inflight s with
        | O => (s, [])
        | S n =>
            let '(s2, o) :=
              schedule_next (mkSt (s_now s) (s_rnd s) (s_running s) (s_next s) (s_timeout s)
                                  (s_pending s) (s_armed s) n (s_nextid s)) in
            (s2, OCbEnd :: o)
        end
    end.

  (* one output list per event *)
  Fixpoint run (s : st T) (evs : list (event T)) : st T * list (list (out T)) :=
    match evs with
    | [] => (s, [])
    | e :: evs' =>
        let '(s1, o) := step s e in
        let '(s2, os) := run s1 evs' in
        (s2, o :: os)
    end.
End Machine.

Arguments init {T}.
Arguments schedule_next {T}.
Arguments do_stop {T}.
Arguments step {T}.
Arguments run {T}.

(* the two instances *)
Definition upd_float (ct_ms jitter : float) (r now next : float) : ures float :=
  update_next_float (period_float ct_ms jitter r) now next.

Definition upd_Q (ct_ms jitter : Q) (r now next : Q) : ures Q :=
  UOk (update_next_Q (period_Q ct_ms jitter r) now next).
