(* C39 — the text (as normalised by Python's ast.unparse, docstrings and comments
   dropped) of the four run-loop methods of tornado.ioloop.PeriodicCallback that the
   machine of Model.v (step / schedule_next / do_stop) was written from.
   translators/c39_src.py regenerates the current text into Gen/C39_src.v on every
   run and Gen/C39_equiv.v proves it equal to these constants: any edit of the
   methods breaks that obligation (the machine itself is tied to the behaviour by
   the correspondence check).

   start            = step _ (EStart skew)   : _running := True; _next_timeout := time(); _schedule_next()
   stop             = do_stop                : _running := False; remove_timeout(_timeout) if not None; _timeout := None
   _run             = EFire (coroutine created) ; ERun k (first step: return if not _running; call the
                      callback; await it if awaitable [KAsync ... EDone]); finally _schedule_next()
   _schedule_next   = schedule_next          : if _running: _update_next(time()); _timeout := add_timeout(_next_timeout, _run) *)
From Coq Require Import String.
Local Open Scope string_scope.

Definition expected_start : string :=
"def start(self) -> None:
    self.io_loop = IOLoop.current()
    self._running = True
    self._next_timeout = self.io_loop.time()
    self._schedule_next()".

Definition expected_stop : string :=
"def stop(self) -> None:
    self._running = False
    if self._timeout is not None:
        self.io_loop.remove_timeout(self._timeout)
        self._timeout = None".

Definition expected_run : string :=
"async def _run(self) -> None:
    if not self._running:
        return
    try:
        val = self.callback()
        if val is not None and isawaitable(val):
            await val
    except Exception:
        app_log.error('Exception in callback %r', self.callback, exc_info=True)
    finally:
        self._schedule_next()".

Definition expected_schedule_next : string :=
"def _schedule_next(self) -> None:
    if self._running:
        self._update_next(self.io_loop.time())
        self._timeout = self.io_loop.add_timeout(self._next_timeout, self._run)".
