(* C39 — proofs, part 1: the deadline arithmetic over exact rationals. *)
From Coq Require Import List ZArith Bool QArith Qround Qabs Lia Lqa.
Import ListNotations.
From TV Require Import C39.Model.

Lemma Qfloor_bounds (x : Q) : inject_Z (Qfloor x) <= x /\ x < inject_Z (Qfloor x + 1).
Proof. split; [apply Qfloor_le | apply Qlt_floor]. Qed.

(* k := floor((now - next)/p) + 1 satisfies  now < next + k p <= now + p *)
Lemma main_branch_bounds (p now next : Q) :
  0 < p ->
  let k := inject_Z (Qfloor ((now - next) / p) + 1) in
  now < next + k * p /\ next + k * p <= now + p.
Proof.
  intros Hp k.
  destruct (Qfloor_bounds ((now - next) / p)) as [Hlo Hhi].
  assert (Hk : k == inject_Z (Qfloor ((now - next) / p)) + 1).
  { unfold k. rewrite inject_Z_plus. reflexivity. }
  assert (Hne : ~ p == 0) by (intro E; rewrite E in Hp; discriminate).
  assert (Hx : (now - next) / p * p == now - next) by (field; exact Hne).
  split.
  - assert (H1 : (now - next) / p * p < k * p).
    { apply Qmult_lt_compat_r; [exact Hp|]. unfold k. exact Hhi. }
    rewrite Hx in H1. lra.
  - assert (H1 : inject_Z (Qfloor ((now - next) / p)) * p <= (now - next) / p * p).
    { apply Qmult_le_compat_r; [exact Hlo | apply Qlt_le_weak; exact Hp]. }
    rewrite Hx in H1. rewrite Hk. lra.
Qed.

Lemma update_main (p now next : Q) :
  next <= now ->
  update_next_Q p now next = next + inject_Z (Qfloor ((now - next) / p) + 1) * p.
Proof.
  intro H. unfold update_next_Q.
  destruct (Qle_bool next now) eqn:E; [reflexivity|].
  apply Qle_bool_iff in H. congruence.
Qed.

Lemma update_else (p now next : Q) :
  now < next -> update_next_Q p now next = next + p.
Proof.
  intro H. unfold update_next_Q.
  destruct (Qle_bool next now) eqn:E; [|reflexivity].
  apply Qle_bool_iff in E. lra.
Qed.

Lemma Qle_or_lt (a b : Q) : a <= b \/ b < a.
Proof. destruct (Qlt_le_dec b a); auto. Qed.

(* each new deadline is later than the previous one *)
Lemma update_later (p now next : Q) : 0 < p -> next < update_next_Q p now next.
Proof.
  intro Hp. destruct (Qle_or_lt next now) as [H|H].
  - rewrite (update_main _ _ _ H).
    destruct (main_branch_bounds p now next Hp) as [H1 _]. cbv zeta in H1. lra.
  - rewrite (update_else _ _ _ H). lra.
Qed.

(* ... and later than the current time *)
Lemma update_after_now (p now next : Q) : 0 < p -> now < update_next_Q p now next.
Proof.
  intro Hp. destruct (Qle_or_lt next now) as [H|H].
  - rewrite (update_main _ _ _ H).
    destruct (main_branch_bounds p now next Hp) as [H1 _]. exact H1.
  - rewrite (update_else _ _ _ H). lra.
Qed.

(* if the deadline had been reached, the new one is at most a period ahead:
   missed periods are skipped, not bunched *)
Lemma update_within_period (p now next : Q) :
  0 < p -> next <= now -> update_next_Q p now next <= now + p.
Proof.
  intros Hp H. rewrite (update_main _ _ _ H).
  destruct (main_branch_bounds p now next Hp) as [_ H2]. exact H2.
Qed.

(* the deadline moves by a positive whole number of periods *)
Lemma update_whole_periods (p now next : Q) :
  0 < p -> exists k : Z, (1 <= k)%Z /\ update_next_Q p now next == next + inject_Z k * p.
Proof.
  intro Hp. destruct (Qle_or_lt next now) as [H|H].
  - rewrite (update_main _ _ _ H).
    exists (Qfloor ((now - next) / p) + 1)%Z. split; [|reflexivity].
    assert (Hq : 0 <= (now - next) / p).
    { apply Qle_shift_div_l; [exact Hp|]. lra. }
    assert (H0 : (0 <= Qfloor ((now - next) / p))%Z).
    { change 0%Z with (Qfloor 0). apply Qfloor_resp_le. exact Hq. }
    lia.
  - rewrite (update_else _ _ _ H). exists 1%Z. split; [lia|]. ring.
Qed.

Definition on_grid (st p x : Q) : Prop := exists k : Z, x == st + inject_Z k * p.

Lemma update_on_grid (st p now next : Q) :
  0 < p -> on_grid st p next -> on_grid st p (update_next_Q p now next).
Proof.
  intros Hp [k Hk]. destruct (update_whole_periods p now next Hp) as [j [_ Hj]].
  exists (k + j)%Z. rewrite Hj, Hk, inject_Z_plus. ring.
Qed.

(* exactly the missed periods are skipped: the new deadline is the first grid
   point (counted from the old deadline) strictly after the current time *)
Lemma update_first_after_now (p now next : Q) (j : Z) :
  0 < p -> next <= now -> now < next + inject_Z j * p ->
  update_next_Q p now next <= next + inject_Z j * p.
Proof.
  intros Hp H Hj. rewrite (update_main _ _ _ H).
  assert (Hne : ~ p == 0) by (intro E; rewrite E in Hp; discriminate).
  assert (Hlt : (now - next) / p < inject_Z j).
  { apply Qlt_shift_div_r; [exact Hp|]. lra. }
  assert (Hfl : (Qfloor ((now - next) / p) < j)%Z).
  { destruct (Z_lt_le_dec (Qfloor ((now - next) / p)) j) as [L|L]; [exact L|exfalso].
    assert (inject_Z j <= (now - next) / p).
    { eapply Qle_trans; [|apply Qfloor_le]. rewrite <- Zle_Qle. exact L. }
    lra. }
  assert (Hk : inject_Z (Qfloor ((now - next) / p) + 1) <= inject_Z j).
  { rewrite <- Zle_Qle. lia. }
  assert (inject_Z (Qfloor ((now - next) / p) + 1) * p <= inject_Z j * p).
  { apply Qmult_le_compat_r; [exact Hk | lra]. }
  lra.
Qed.
