(* C39 — proofs, part 10 (phase 3): decoding the observable that run_case emits gives
   back the trace (up to the representative of an exception class, which the checker
   ignores), so check_case on an encoded trace IS check_trace on the trace. *)
From Coq Require Import List ZArith NArith Bool String Lia.
Import ListNotations.
From TV Require Import Lib.Obs C39.Model C39.Run.

Definition canon_err (e : uerr) : uerr :=
  match e with EIntTooLarge => EFloorInf | e => e end.
Definition canon_out (o : out (option Z)) : out (option Z) :=
  match o with OErr e => OErr (canon_err e) | o => o end.

Lemma out_codec (o : out (option Z)) : out_of_obs (obs_of_out o) = Some (canon_out o).
Proof.
  destruct o as [h d|h|h| | | |e]; simpl; try reflexivity.
  - destruct d as [z|]; simpl.
    + destruct (Z.of_nat h <? 0)%Z eqn:E; [apply Z.ltb_lt in E; lia|]. rewrite Nat2Z.id. reflexivity.
    + destruct (Z.of_nat h <? 0)%Z eqn:E; [apply Z.ltb_lt in E; lia|]. rewrite Nat2Z.id. reflexivity.
  - destruct (Z.of_nat h <? 0)%Z eqn:E; [apply Z.ltb_lt in E; lia|]. rewrite Nat2Z.id. reflexivity.
  - destruct (Z.of_nat h <? 0)%Z eqn:E; [apply Z.ltb_lt in E; lia|]. rewrite Nat2Z.id. reflexivity.
  - destruct e; reflexivity.
Qed.

Lemma all_some_map {A B C} (f : B -> option C) (g : A -> B) (h : A -> C) (l : list A) :
  (forall a, f (g a) = Some (h a)) -> all_some f (map g l) = Some (map h l).
Proof.
  intro H. induction l as [|a l IH]; [reflexivity|]. simpl. rewrite H, IH. reflexivity.
Qed.

Lemma trace_codec (tr : list (list (out (option Z)))) :
  trace_of_obs (obs_of_trace tr) = Some (map (map canon_out) tr).
Proof.
  unfold trace_of_obs, obs_of_trace.
  apply (all_some_map _ (fun os => OList (map obs_of_out os)) (map canon_out)).
  intro os. apply all_some_map. exact out_codec.
Qed.

Section Canon.
  Variable aok : option Z -> option Z -> option Z -> option Z -> nat -> option Z -> bool.

  Lemma cout_canon k c o : cout aok k c (canon_out o) = cout aok k c o.
  Proof. destruct o; reflexivity. Qed.

  Lemma couts_canon k os : forall c, couts aok k c (map canon_out os) = couts aok k c os.
  Proof.
    induction os as [|o os IH]; intro c; [reflexivity|].
    simpl. rewrite cout_canon. destruct (cout aok k c o); [apply IH|reflexivity].
  Qed.

  Lemma ccheck_canon evs : forall c tr,
    ccheck aok c evs (map (map canon_out) tr) = ccheck aok c evs tr.
  Proof.
    induction evs as [|e evs IH]; intros c [|os tr]; try reflexivity.
    simpl. unfold cstep. rewrite couts_canon.
    destruct (couts aok _ (cevent c e) os); [apply IH|reflexivity].
  Qed.
End Canon.

(* check_case applied to the encoding of ANY trace is check_trace of that trace; in
   particular check_case i (run_case i) = check_trace i (run_trace i) *)
Theorem check_case_of_encoded_trace (i : c39_input) (tr : list (list (out (option Z)))) :
  check_case i (obs_of_trace tr) = check_trace i tr.
Proof.
  unfold check_case. rewrite trace_codec.
  destruct i as [[[[ct jit] t0] r0] evs]. unfold check_trace. apply ccheck_canon.
Qed.
