(* C39 — proofs, part 5: instances of the simulation theorem: the structural
   checker for any number type, and the full checker (zero tolerance) for the
   machine over exact rationals. *)
From Coq Require Import List ZArith Bool Arith QArith Qround Qabs Qminmax Lia Lqa.
Import ListNotations.
From TV Require Import Lib.Obs C39.Model C39.Run C39.Proofs C39.ProofsMachine C39.ProofsChecker.

Definition aok_none {T} (st pv now rnd : T) (n : nat) (d : T) : bool := true.

Theorem structural_checker_passes (T : Type) (upd : T -> T -> T -> ures T) (t0 r0 : T) evs :
  ccheck aok_none (cinit t0 r0) evs (snd (run upd (init t0 r0) evs)) = true.
Proof.
  apply (model_passes_checker T upd aok_none (fun _ _ _ => True)); auto.
Qed.

Lemma update_shift (p now next : Q) :
  exists k : Z, update_next_Q p now next == next + inject_Z k * p.
Proof.
  unfold update_next_Q. destruct (Qle_bool next now).
  - eexists. reflexivity.
  - exists 1%Z. ring.
Qed.

Lemma Qfloor_half (j : Z) : Qfloor (inject_Z j + (1 # 2)) = j.
Proof.
  pose proof (Qfloor_le (inject_Z j + (1 # 2))) as H1.
  pose proof (Qlt_floor (inject_Z j + (1 # 2))) as H2.
  set (f := Qfloor (inject_Z j + (1 # 2))) in *.
  assert (E1 : forall z, inject_Z (z + 1) == inject_Z z + 1) by (intro z; rewrite inject_Z_plus; reflexivity).
  rewrite E1 in H2.
  assert (A : inject_Z f < inject_Z (j + 1)) by (rewrite E1; lra).
  assert (B : inject_Z j < inject_Z (f + 1)) by (rewrite E1; lra).
  rewrite <- Zlt_Qlt in A, B. lia.
Qed.

Lemma Qle_bool_false (a b : Q) : Qle_bool a b = false <-> b < a.
Proof.
  split; intro H.
  - destruct (Qlt_le_dec b a) as [L|L]; [exact L|]. apply Qle_bool_iff in L. congruence.
  - destruct (Qle_bool a b) eqn:E; [|reflexivity]. apply Qle_bool_iff in E. lra.
Qed.

Section QInstance.
  Variables ct jitter : Q.

  Definition JQ (st pv : Q) (n : nat) : Prop :=
    Qeq_bool jitter 0 = true -> on_grid st (ct / 1000) pv.

  Lemma JQ_step st pv n r now d :
    JQ st pv n -> upd_Q ct jitter r now pv = UOk d ->
    aok_Q 0 ct jitter st pv now r n d = true /\ JQ st d (S n).
  Proof.
    intros HJ Hu. unfold upd_Q in Hu. inversion Hu as [Hd]. clear Hu.
    set (p := period_Q ct jitter r) in *.
    assert (HJ' : JQ st (update_next_Q p now pv) (S n)).
    { intro Hj. destruct (HJ Hj) as [k Hk]. destruct (update_shift p now pv) as [i Hi].
      assert (Hp : p = ct / 1000) by (unfold p, period_Q; rewrite Hj; reflexivity).
      exists (k + i)%Z. rewrite Hi, Hk, Hp, inject_Z_plus. ring. }
    split; [|exact HJ'].
    unfold aok_Q. fold p.
    destruct (in_scope_Q ct jitter st pv now r) eqn:Esc; [|reflexivity]. cbn [negb].
    unfold in_scope_Q in Esc. fold p in Esc.
    apply andb_prop in Esc as [Esc _]. apply andb_prop in Esc as [Esc _].
    apply Qle_bool_iff in Esc.
    assert (Hp : 0 < p) by (eapply Qlt_le_trans; [|exact Esc]; reflexivity).
    pose proof (update_later p now pv Hp) as L1.
    pose proof (update_after_now p now pv Hp) as L2.
    set (d' := update_next_Q p now pv) in *.
    set (m := Qmax (Qmax (Qmax (Qabs st) (Qabs pv)) (Qabs now)) (Qabs d') + p).
    assert (Hu0 : m * 0 == 0) by ring.
    repeat (apply andb_true_intro; split).
    - simpl. apply negb_true_iff. apply Qle_bool_false. exact L1.
    - apply Qle_bool_iff. rewrite Hu0. lra.
    - destruct (Qeq_bool (m * 0) 0); [|reflexivity].
      apply negb_true_iff. apply Qle_bool_false. exact L2.
    - destruct (Qle_bool pv now) eqn:E; [|reflexivity].
      apply Qle_bool_iff in E. apply Qle_bool_iff. rewrite Hu0.
      pose proof (update_within_period p now pv Hp E). fold d' in H. lra.
    - destruct (Qle_bool (Qabs jitter) 1); [|reflexivity]. cbn [negb].
      destruct (update_whole_periods p now pv Hp) as [k [Hk1 Hk]]. fold d' in Hk.
      assert (Hne : ~ p == 0) by (intro E0; rewrite E0 in Hp; discriminate).
      assert (Hq : (d' - pv) / p + (1 # 2) == inject_Z k + (1 # 2)).
      { rewrite Hk. field. exact Hne. }
      cbv zeta. rewrite Hq, Qfloor_half.
      apply andb_true_intro; split; [simpl; apply Z.leb_le; exact Hk1|].
      apply Qle_bool_iff.
      assert (Hz : d' - (pv + inject_Z k * p) == 0) by (rewrite Hk; ring).
      rewrite Hz. simpl Qabs. rewrite Hu0. ring_simplify. apply Qle_refl.
    - destruct (Qeq_bool jitter 0) eqn:Ej; [|reflexivity].
      destruct (HJ' Ej) as [k Hk]. fold d' in Hk.
      assert (Hpe : p = ct / 1000) by (unfold p, period_Q; rewrite Ej; reflexivity).
      rewrite <- Hpe in Hk.
      assert (Hne : ~ p == 0) by (intro E0; rewrite E0 in Hp; discriminate).
      assert (Hq : (d' - st) / p + (1 # 2) == inject_Z k + (1 # 2)).
      { rewrite Hk. field. exact Hne. }
      rewrite Hq, Qfloor_half.
      apply Qle_bool_iff.
      assert (Hz : d' - (st + inject_Z k * p) == 0) by (rewrite Hk; ring).
      rewrite Hz. simpl Qabs. rewrite Hu0. ring_simplify. apply Qle_refl.
  Qed.

  (* The exact-arithmetic machine satisfies the complete trace checker with zero
     tolerance, for every configuration, event order and clock sequence. *)
  Theorem exact_model_passes_checker (t0 r0 : Q) (evs : list (event Q)) :
    ccheck (aok_Q 0 ct jitter) (cinit t0 r0) evs (snd (run (upd_Q ct jitter) (init t0 r0) evs)) = true.
  Proof.
    apply (model_passes_checker Q (upd_Q ct jitter) (aok_Q 0 ct jitter) JQ).
    - intros st _. exists 0%Z. ring.
    - intros st pv n r now d. apply JQ_step.
  Qed.
End QInstance.
