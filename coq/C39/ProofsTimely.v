(* C39 — proofs, part 6: while the clock does not go backwards and timers do
   not fire early, every deadline is at most one period after the current time. *)
From Coq Require Import List ZArith Bool Arith QArith Qround Lia Lqa.
Import ListNotations.
From TV Require Import C39.Model C39.Proofs C39.ProofsMachine C39.ProofsQ.

Section Timely.
  Variables ct jitter : Q.
  Notation updq := (upd_Q ct jitter).
  Notation per := (period_Q ct jitter).

  (* the environment's side of the bargain for one event *)
  Definition tcond (s : st Q) (e : event Q) : Prop :=
    match e with
    | EClock t => s_now s <= t                              (* the clock does not go backwards *)
    | EStart sk => idle Q s = true /\ match sk with Some t => s_now s <= t | None => True end
    | EFire => match s_pending s with (_, d) :: _ => d <= s_now s | [] => True end   (* not fired early *)
    | ERun (KSyncClock t) => s_now s <= t                   (* time passes while the callback runs *)
    | _ => True
    end.

  Fixpoint timely (s : st Q) (evs : list (event Q)) : Prop :=
    match evs with
    | [] => True
    | e :: evs' => tcond s e /\ timely (fst (step updq s e)) evs'
    end.

  (* the conclusion, for every deadline scheduled during the run *)
  Fixpoint within_period (s : st Q) (evs : list (event Q)) : Prop :=
    match evs with
    | [] => True
    | e :: evs' =>
        let s' := fst (step updq s e) in
        (forall d, In d (deadlines (snd (step updq s e))) ->
                   s_now s' < d /\ d <= s_now s' + per (s_rnd s'))
        /\ within_period s' evs'
    end.

  Definition K (s : st Q) : Prop :=
    match s_next s with
    | None => True
    | Some nx => s_running s = false \/ (exists h, s_pending s = [(h, nx)]) \/ nx <= s_now s
    end.

  Lemma K_init t0 r0 : K (init t0 r0).
  Proof. exact I. Qed.

  Lemma timely_step (s : st Q) (e : event Q) :
    Inv Q s -> K s -> tcond s e ->
    let s' := fst (step updq s e) in
    0 < per (s_rnd s') ->
    K s' /\ (forall d, In d (deadlines (snd (step updq s e))) ->
                       s_now s' < d /\ d <= s_now s' + per (s_rnd s')).
  Proof.
    intros (Hc & Ht & Hr) HK Hcond.
    destruct e as [t|r|sk| | |k| ]; cbn zeta.
    - (* clock *)
      simpl. intros _. split; [|intros d []].
      unfold K in *; simpl in *. destruct (s_next s) as [nx|]; [|exact I].
      destruct HK as [H|[H|H]]; [left; exact H|right; left; exact H|right; right].
      eapply Qle_trans; [exact H|exact Hcond].
    - simpl. intros _. split; [exact HK|intros d []].
    - (* start while idle *)
      destruct Hcond as [Hid Hsk]. unfold idle in Hid.
      apply andb_prop in Hid as [Hid H3]. apply andb_prop in Hid as [H1 H2].
      apply negb_true_iff in H1. rewrite (step_rnd ct jitter s (EStart sk)).
      simpl. unfold schedule_next. simpl. unfold upd_Q. simpl. rewrite (Hr H1). simpl.
      intro Hp.
      set (now2 := match sk with Some t => t | None => s_now s end).
      assert (Hle : s_now s <= now2) by (unfold now2; destruct sk; [exact Hsk|apply Qle_refl]).
      split.
      + unfold K; simpl. right. left. eexists. reflexivity.
      + intros d [E|[]]. subst d. split.
        * apply update_after_now. exact Hp.
        * apply update_within_period; assumption.
    - (* stop *)
      intros _. simpl. destruct (stop_cases s) as (D1 & D2 & _ & _ & D5).
      split; [|rewrite D1; intros d []].
      unfold K. rewrite D2. destruct (s_next s); [left; exact D5|exact I].
    - (* fire *)
      unfold tcond in Hcond.
      simpl. destruct (s_pending s) as [|[h d] rest] eqn:Ep; simpl; intros _; (split; [|intros x []]).
      + exact HK.
      + unfold K in *; simpl. destruct (s_next s) as [nx|]; [|exact I].
        destruct HK as [H|[[h' H]|H]].
        * specialize (Hr H). discriminate.
        * rewrite Ep in H. inversion H; subst. right. right. exact Hcond.
        * right. right. exact H.
    - (* first step of _run *)
      rewrite (step_rnd ct jitter s (ERun k)). simpl.
      destruct (s_armed s) as [|a] eqn:Ea; [intros _; split; [exact HK|intros d []]|].
      assert (Hp0 : s_pending s = [] /\ s_inflight s = 0%nat /\ a = 0%nat).
      { unfold chain in Hc. rewrite Ea in Hc. destruct (s_pending s); simpl in Hc; [split; [reflexivity|lia]|exfalso; lia]. }
      destruct Hp0 as (Hp0 & Hi & Ha).
      destruct (s_running s) eqn:Er; simpl.
      + assert (HK' : match s_next s with Some nx => nx <= s_now s | None => True end).
        { unfold K in HK. destruct (s_next s) as [nx|]; [|exact I].
          destruct HK as [H|[[h H]|H]]; [congruence|rewrite Hp0 in H; discriminate|exact H]. }
        destruct k.
        * match goal with |- context [schedule_next _ ?x] =>
            destruct (sn_cases ct jitter x) as [(G1 & G2)|(nx & h & G1 & G2 & G3 & G4)];
            destruct (schedule_next updq x) as [s2 o] end; simpl in *; intro Hp.
          -- subst s2. rewrite G1. split; [|intros d []].
             unfold K in *; simpl. destruct (s_next s) as [nx|]; [|exact I]. right. right. exact HK'.
          -- subst s2. rewrite G3. simpl. rewrite G2 in HK'. split.
             ++ unfold K; simpl. right. left. rewrite Hp0. eexists. reflexivity.
             ++ intros d [E|[]]. subst d. split; [apply update_after_now; exact Hp|].
                apply update_within_period; assumption.
        * match goal with |- context [do_stop ?x] =>
            destruct (stop_cases x) as (D1 & D2 & D3 & D4 & D5);
            destruct (do_stop x) as [s2 o1] end.
          match goal with |- context [schedule_next _ ?x] =>
            destruct (sn_cases ct jitter x) as [(G1 & G2)|(nx & h & G1 & G2 & G3 & G4)];
            destruct (schedule_next updq x) as [s3 o2] end; simpl in *; intros _; [|congruence].
          subst s3. split.
          -- unfold K. destruct (s_next s2); [left; exact D5|exact I].
          -- rewrite deadlines_app. simpl. rewrite D1, G1. intros d [].
        * intros _. split; [|intros d []].
          unfold K in *; simpl. destruct (s_next s) as [nx|]; [|exact I]. right. right. exact HK'.
        * unfold tcond in Hcond.
          match goal with |- context [schedule_next _ ?x] =>
            destruct (sn_cases ct jitter x) as [(G1 & G2)|(nx & h & G1 & G2 & G3 & G4)];
            destruct (schedule_next updq x) as [s2 o] end; simpl in *; intro Hp.
          -- subst s2. rewrite G1. split; [|intros d []].
             unfold K in *; simpl. destruct (s_next s) as [nx|]; [|exact I]. right. right.
             eapply Qle_trans; [exact HK'|exact Hcond].
          -- subst s2. rewrite G3. simpl. rewrite G2 in HK'. split.
             ++ unfold K; simpl. right. left. rewrite Hp0. eexists. reflexivity.
             ++ intros d [E|[]]. subst d. split; [apply update_after_now; exact Hp|].
                apply update_within_period; [assumption|]. eapply Qle_trans; [exact HK'|exact Hcond].
      + intros _. split; [|intros d []].
        unfold K in *; simpl. destruct (s_next s); [left; reflexivity|exact I].
    - (* completion of the awaited callback *)
      rewrite (step_rnd ct jitter s EDone). simpl.
      destruct (s_inflight s) as [|n] eqn:Ei; [intros _; split; [exact HK|intros d []]|].
      assert (Hp0 : s_pending s = [] /\ s_armed s = 0%nat /\ n = 0%nat).
      { unfold chain in Hc. rewrite Ei in Hc. destruct (s_pending s); simpl in Hc; [split; [reflexivity|lia]|exfalso; lia]. }
      destruct Hp0 as (Hp0 & Ha & Hn).
      match goal with |- context [schedule_next _ ?x] =>
        destruct (sn_cases ct jitter x) as [(G1 & G2)|(nx & h & G1 & G2 & G3 & G4)];
        destruct (schedule_next updq x) as [s2 o] end; simpl in *; intro Hp.
      + subst s2. rewrite G1. split; [|intros d []].
        unfold K in *; simpl. destruct (s_next s) as [nx|]; [|exact I].
        destruct HK as [H|[[h H]|H]]; [left; exact H|rewrite Hp0 in H; discriminate|right; right; exact H].
      + subst s2. rewrite G3. simpl.
        assert (HK' : nx <= s_now s).
        { unfold K in HK. rewrite G2 in HK.
          destruct HK as [H|[[h' H]|H]]; [congruence|rewrite Hp0 in H; discriminate|exact H]. }
        split.
        * unfold K; simpl. right. left. rewrite Hp0. eexists. reflexivity.
        * intros d [E|[]]. subst d. split; [apply update_after_now; exact Hp|].
          apply update_within_period; assumption.
  Qed.

  Theorem timely_within_period (evs : list (event Q)) : forall s,
    Inv Q s -> K s -> timely s evs -> periods_positive ct jitter s evs -> within_period s evs.
  Proof.
    induction evs as [|e evs IH]; intros s HI HK Ht Hp; [exact I|].
    destruct Ht as [Hc Ht]. cbn [within_period].
    pose proof (periods_positive_step ct jitter s e evs Hp) as Hp'.
    assert (Hpos : 0 < per (s_rnd (fst (step updq s e)))) by (apply Hp'; left; reflexivity).
    destruct (timely_step s e HI HK Hc Hpos) as [HK' Hd].
    split; [exact Hd|].
    apply IH; auto.
    apply Inv_step; [exact HI|]. destruct e; auto. destruct Hc as [Hc _]. exact Hc.
  Qed.

  Corollary timely_from_init (t0 r0 : Q) (evs : list (event Q)) :
    timely (init t0 r0) evs -> periods_positive ct jitter (init t0 r0) evs ->
    within_period (init t0 r0) evs.
  Proof. apply timely_within_period; [apply Inv_init|apply K_init]. Qed.
End Timely.
