(* C39 — proofs, part 4: the model satisfies the trace checker of Run.v
   (a simulation between the machine and the checker's own bookkeeping). *)
From Coq Require Import List ZArith Bool Arith Lia.
Import ListNotations.
From TV Require Import Lib.Obs C39.Model C39.Run C39.ProofsMachine.

Ltac rs := repeat split; auto; try congruence; try lia.

Section Sim.
  Variable T : Type.
  Variable upd : T -> T -> T -> ures T.
  Variable aok : T -> T -> T -> T -> nat -> T -> bool.
  (* an invariant linking the grid origin, _next_timeout and the number of deadlines
     scheduled since start(), strong enough to imply the arithmetic obligations *)
  Variable J : T -> T -> nat -> Prop.
  Hypothesis J_start : forall st, J st st 0.
  Hypothesis J_step : forall st pv n r now d,
    J st pv n -> upd r now pv = UOk d -> aok st pv now r n d = true /\ J st d (S n).

  Notation step := (step upd).
  Notation run := (run upd).
  Notation schedule_next := (schedule_next upd).

  Definition Jc (c : cst T) : Prop :=
    match c_start c, c_prev c with
    | Some st, Some pv => J st pv (c_n c)
    | None, None => True
    | _, _ => False
    end.

  Definition R0 (s : st T) (c : cst T) : Prop :=
    c_now c = s_now s /\ c_rnd c = s_rnd s /\ c_running c = s_running s
    /\ c_busy c = s_armed s + s_inflight s /\ c_depth c = s_inflight s
    /\ c_prev c = s_next s /\ Jc c.

  Definition R (s : st T) (c : cst T) : Prop :=
    R0 s c /\ (c_clean c = true -> Inv T s).

  Lemma sim_schedule_next k (s : st T) (c : cst T) :
    R0 s c ->
    exists c', couts aok k c (snd (schedule_next s)) = Some c'
               /\ R0 (fst (schedule_next s)) c' /\ c_clean c' = c_clean c.
  Proof.
    intros (H1 & H2 & H3 & H4 & H5 & H6 & H7).
    unfold Model.schedule_next.
    destruct (s_running s) eqn:Er; [|exists c; simpl; rs].
    destruct (s_next s) as [nx|] eqn:En; [|exists c; simpl; rs].
    destruct (upd (s_rnd s) (s_now s) nx) as [nx'|e] eqn:Eu;
      [|exists c; simpl; rs].
    unfold Jc in H7. rewrite H6 in H7.
    destruct (c_start c) as [st|] eqn:Es; [|contradiction].
    destruct (J_step st nx (c_n c) (s_rnd s) (s_now s) nx' H7 Eu) as [Ha HJ].
    simpl. unfold cout. rewrite H3. simpl. rewrite ?Es, H6, ?En, H1, H2, Ha.
    eexists. split; [reflexivity|]. split; [|reflexivity].
    unfold R0, Jc; simpl. rewrite ?Es. rs.
  Qed.

  Lemma sim_do_stop k (s : st T) (c : cst T) :
    R0 s c -> c_running c = false \/ True ->
    couts aok k c (snd (do_stop s)) = Some c.
  Proof.
    intros _ _. unfold do_stop. destruct (s_timeout s); reflexivity.
  Qed.

  Definition stopped (c : cst T) : cst T :=
    mkC (c_now c) (c_rnd c) false (c_busy c) (c_depth c) (c_clean c) (c_start c) (c_prev c) (c_n c).

  Lemma R0_do_stop (s : st T) (c : cst T) : R0 s c -> R0 (fst (do_stop s)) (stopped c).
  Proof.
    intros (H1 & H2 & H3 & H4 & H5 & H6 & H7). unfold do_stop, R0, Jc, stopped.
    destruct (s_timeout s); simpl; rs.
  Qed.

  Lemma couts_app k c os1 os2 :
    couts aok k c (os1 ++ os2) =
    match couts aok k c os1 with Some c' => couts aok k c' os2 | None => None end.
  Proof.
    revert c. induction os1 as [|o os1 IH]; intro c; [reflexivity|].
    simpl. destruct (cout aok k c o); [apply IH|reflexivity].
  Qed.

  Lemma idle_agree (s : st T) (c : cst T) :
    R0 s c -> negb (c_running c) && Nat.eqb (c_busy c) 0 = idle T s.
  Proof.
    intros (_ & _ & H3 & H4 & _). unfold idle. rewrite H3, H4.
    destruct (s_running s); simpl; [reflexivity|].
    destruct (s_armed s), (s_inflight s); reflexivity.
  Qed.

  Lemma sim_step (s : st T) (c : cst T) (e : event T) :
    R s c ->
    exists c', cstep aok c e (snd (step s e)) = Some c' /\ R (fst (step s e)) c'.
  Proof.
    intros [HR HI]. pose proof HR as (H1 & H2 & H3 & H4 & H5 & H6 & H7).
    unfold cstep.
    destruct e as [t|r|sk| | |k| ].
    - (* clock *)
      simpl. eexists. split; [reflexivity|]. split; [|exact HI].
      unfold R0, Jc in *; simpl. rs.
    - simpl. eexists. split; [reflexivity|]. split; [|exact HI].
      unfold R0, Jc in *; simpl. rs.
    - (* start *)
      cbn [Model.step cevent].
      match goal with |- context [schedule_next ?x] => set (s1 := x) end.
      match goal with |- context [couts aok None ?x] => set (c1 := x) end.
      assert (HR1 : R0 s1 c1).
      { unfold R0, Jc, s1, c1; simpl. rewrite H1. rs. }
      destruct (sim_schedule_next None s1 c1 HR1) as (c' & E1 & E2 & E3).
      exists c'. split; [exact E1|]. split; [exact E2|].
      rewrite E3. unfold c1; simpl. intro Hcl. apply andb_prop in Hcl as [Hcl Hid].
      rewrite (idle_agree s c HR) in Hid.
      change (fst (schedule_next s1)) with (fst (step s (EStart sk))).
      apply Inv_step; [apply HI; exact Hcl|exact Hid].
    - (* stop *)
      cbn [Model.step cevent].
      change (mkC (c_now c) (c_rnd c) false (c_busy c) (c_depth c) (c_clean c) (c_start c) (c_prev c) (c_n c))
        with (stopped c).
      exists (stopped c). split.
      + unfold do_stop. destruct (s_timeout s); reflexivity.
      + split; [apply R0_do_stop; exact HR|].
        intro Hcl. change (fst (do_stop s)) with (fst (step s EStop)). apply Inv_step; [apply HI; exact Hcl|exact I].
    - (* fire *)
      cbn [Model.step cevent].
      destruct (s_pending s) as [|[h d] rest] eqn:Ep.
      + exists c. split; [reflexivity|]. split; [exact HR|exact HI].
      + simpl. eexists. split; [reflexivity|]. split.
        * unfold R0, Jc in *; simpl. rs.
        * simpl. intro Hcl. pose proof (Inv_step T upd s EFire (HI Hcl) I) as Hs.
          simpl in Hs. rewrite Ep in Hs. exact Hs.
    - (* first step of _run *)
      assert (HInv' : c_clean c = true -> Inv T (fst (step s (ERun k)))).
      { intro Hcl. apply Inv_step; [apply HI; exact Hcl|exact I]. }
      cbn [Model.step cevent] in *.
      destruct (s_armed s) as [|a] eqn:Ea.
      { exists c. split; [reflexivity|]. split; [exact HR|exact HI]. }
      destruct (s_running s) eqn:Er; cbn [negb].
      + (* the callback is invoked *)
        assert (Hd0 : c_clean c = true -> c_depth c = 0).
        { intro Hcl. destruct (HI Hcl) as (Hc & _). unfold chain in Hc. lia. }
        assert (Hgate : (c_clean c && negb (Nat.eqb (c_depth c) 0)) = false).
        { destruct (c_clean c); [|reflexivity]. rewrite (Hd0 eq_refl). reflexivity. }
        destruct k.
        * (* KSync *)
          match goal with |- context [schedule_next ?x] => set (s1 := x) in * end.
          set (c1 := mkC (c_now c) (c_rnd c) true (c_busy c) (S (c_depth c)) (c_clean c) (c_start c) (c_prev c) (c_n c)).
          set (c2 := mkC (c_now c) (c_rnd c) true (a + s_inflight s) (c_depth c) (c_clean c) (c_start c) (c_prev c) (c_n c)).
          assert (HR2 : R0 s1 c2).
          { unfold R0, Jc, s1, c2 in *; simpl. rs. }
          destruct (sim_schedule_next (Some KSync) s1 c2 HR2) as (c' & E1 & E2 & E3).
          destruct (schedule_next s1) as [s2 o] eqn:Es. simpl in *.
          exists c'. split.
          -- rewrite H3. simpl. rewrite Hgate. simpl. rewrite H4. simpl. exact E1.
          -- split; [exact E2|]. rewrite E3. exact HInv'.
        * (* KSyncStop *)
          match goal with |- context [do_stop ?x] => set (s1 := x) in * end.
          set (c2 := mkC (c_now c) (c_rnd c) false (c_busy c) (S (c_depth c)) (c_clean c) (c_start c) (c_prev c) (c_n c)).
          set (c3 := mkC (c_now c) (c_rnd c) false (a + s_inflight s) (c_depth c) (c_clean c) (c_start c) (c_prev c) (c_n c)).
          assert (HR1 : R0 s1 (mkC (c_now c) (c_rnd c) true (a + s_inflight s) (c_depth c) (c_clean c) (c_start c) (c_prev c) (c_n c))).
          { unfold R0, Jc, s1 in *; simpl. rs. }
          pose proof (R0_do_stop _ _ HR1) as HR3. unfold stopped in HR3; simpl in HR3. fold c3 in HR3.
          assert (Hst : couts aok (Some KSyncStop) c2 (snd (do_stop s1)) = Some c2).
          { unfold do_stop. destruct (s_timeout s1); reflexivity. }
          destruct (do_stop s1) as [s2 o1] eqn:Ed. simpl in *.
          destruct (sim_schedule_next (Some KSyncStop) s2 c3 HR3) as (c' & E1 & E2 & E3).
          destruct (schedule_next s2) as [s3 o2] eqn:Es. simpl in *.
          exists c'. split.
          -- rewrite H3. simpl. rewrite Hgate.
             fold c2. rewrite couts_app, Hst. simpl. rewrite H4. simpl. exact E1.
          -- split; [exact E2|]. rewrite E3. exact HInv'.
        * (* KAsync *)
          simpl. rewrite H3. simpl. rewrite Hgate. eexists. split; [reflexivity|]. split.
          -- unfold R0, Jc in *; simpl. rs.
          -- exact HInv'.
        * (* KSyncClock: the clock moves while the callback runs *)
          match goal with |- context [schedule_next ?x] => set (s1 := x) in * end.
          set (c2 := mkC t (c_rnd c) true (a + s_inflight s) (c_depth c) (c_clean c) (c_start c) (c_prev c) (c_n c)).
          assert (HR2 : R0 s1 c2).
          { unfold R0, Jc, s1, c2 in *; simpl. rs. }
          destruct (sim_schedule_next (Some (KSyncClock t)) s1 c2 HR2) as (c' & E1 & E2 & E3).
          destruct (schedule_next s1) as [s2 o] eqn:Es. simpl in *.
          exists c'. split.
          -- rewrite H3. simpl. rewrite Hgate. simpl. rewrite H4. simpl. exact E1.
          -- split; [exact E2|]. rewrite E3. exact HInv'.
      + (* stopped: _run returns at once *)
        simpl. rewrite H4. simpl. eexists. split; [reflexivity|]. split.
        * unfold R0, Jc in *; simpl. rs.
        * exact HInv'.
    - (* completion of the awaited callback *)
      assert (HInv' : c_clean c = true -> Inv T (fst (step s EDone))).
      { intro Hcl. apply Inv_step; [apply HI; exact Hcl|exact I]. }
      cbn [Model.step cevent] in *.
      destruct (s_inflight s) as [|n] eqn:Ei.
      { exists c. split; [reflexivity|]. split; [exact HR|exact HI]. }
      match goal with |- context [schedule_next ?x] => set (s1 := x) in * end.
      set (c2 := mkC (c_now c) (c_rnd c) (c_running c) (s_armed s + n) n (c_clean c) (c_start c) (c_prev c) (c_n c)).
      assert (HR2 : R0 s1 c2).
      { unfold R0, Jc, s1, c2 in *; simpl. rs. }
      destruct (sim_schedule_next None s1 c2 HR2) as (c' & E1 & E2 & E3).
      destruct (schedule_next s1) as [s2 o] eqn:Es. simpl in *.
      exists c'. split.
      + rewrite H5, H4. replace (s_armed s + S n) with (S (s_armed s + n)) by lia. exact E1.
      + split; [exact E2|]. rewrite E3. exact HInv'.
  Qed.

  Lemma sim_run (evs : list (event T)) : forall s c,
    R s c -> ccheck aok c evs (snd (run s evs)) = true.
  Proof.
    induction evs as [|e evs IH]; intros s c HR; [reflexivity|].
    rewrite run_cons. simpl.
    destruct (sim_step s c e HR) as (c' & E1 & E2). rewrite E1. apply IH. exact E2.
  Qed.

  Theorem model_passes_checker (t0 r0 : T) (evs : list (event T)) :
    ccheck aok (cinit t0 r0) evs (snd (run (init t0 r0) evs)) = true.
  Proof.
    apply sim_run. split.
    - unfold R0, Jc; simpl. rs.
    - intros _. apply Inv_init.
  Qed.
End Sim.
