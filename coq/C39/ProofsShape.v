(* C39 — proofs, part 7: the structural clauses of the checker (overlap, runs and
   timers after stop) do not look at numbers, so the structural theorem transfers
   to the bit-pattern traces that run_case produces and check_case reads. *)
From Coq Require Import List ZArith Bool Arith Lia.
Import ListNotations.
From TV Require Import Lib.Obs C39.Model C39.Run C39.ProofsMachine C39.ProofsChecker C39.ProofsCheckerQ.

Definition er {A} (_ : A) : unit := tt.

Definition cmap {A B} (f : A -> B) (c : cst A) : cst B :=
  mkC (f (c_now c)) (f (c_rnd c)) (c_running c) (c_busy c) (c_depth c) (c_clean c)
      (option_map f (c_start c)) (option_map f (c_prev c)) (c_n c).

Lemma cout_erase {A} (k : option (kind A)) (c : cst A) (o : out A) :
  cout aok_none (option_map (map_kind er) k) (cmap er c) (map_out er o) = option_map (cmap er) (cout aok_none k c o).
Proof.
  destruct o; simpl; try reflexivity.
  - destruct (c_running c); simpl; [|reflexivity].
    destruct (c_start c), (c_prev c); reflexivity.
  - destruct (c_busy c); reflexivity.
  - destruct (c_running c); simpl; [|reflexivity].
    destruct (c_clean c && negb (c_depth c =? 0)); [reflexivity|].
    destruct k as [[| | |t]|]; reflexivity.
  - destruct (c_depth c), (c_busy c); reflexivity.
Qed.

Lemma couts_erase {A} (k : option (kind A)) (os : list (out A)) : forall c,
  couts aok_none (option_map (map_kind er) k) (cmap er c) (map (map_out er) os) = option_map (cmap er) (couts aok_none k c os).
Proof.
  induction os as [|o os IH]; intro c; [reflexivity|].
  simpl. rewrite cout_erase. destruct (cout aok_none k c o); simpl; [apply IH|reflexivity].
Qed.

Lemma cevent_erase {A} (c : cst A) (e : event A) :
  cevent (cmap er c) (map_event er e) = cmap er (cevent c e).
Proof. destruct e as [t|r|sk| | |k| ]; try reflexivity. destruct sk; reflexivity. Qed.

Lemma ccheck_erase {A} (evs : list (event A)) : forall (c : cst A) (tr : list (list (out A))),
  ccheck aok_none (cmap er c) (map (map_event er) evs) (map (map (map_out er)) tr)
  = ccheck aok_none c evs tr.
Proof.
  induction evs as [|e evs IH]; intros c [|os tr]; try reflexivity.
  simpl. unfold cstep. rewrite cevent_erase.
  replace (match map_event er e with ERun k => Some k | _ => None end)
    with (option_map (map_kind er) (match e with ERun k => Some k | _ => None end)) by (destruct e; reflexivity).
  rewrite couts_erase.
  destruct (couts aok_none _ (cevent c e) os); simpl; [apply IH|reflexivity].
Qed.

Lemma map_event_er {A B} (f : A -> B) (e : event A) : map_event er (map_event f e) = map_event er e.
Proof. destruct e as [t|r|sk| | |k| ]; try reflexivity; [destruct sk|destruct k]; reflexivity. Qed.

Lemma map_out_er {A B} (f : A -> B) (o : out A) : map_out er (map_out f o) = map_out er o.
Proof. destruct o; reflexivity. Qed.

(* Structural clauses hold for the model's trace however inputs are decoded (h),
   outputs encoded (f) and the checker's copy of the inputs presented (g). *)
Theorem structural_checker_passes_encoded
  {A B Z0 : Type} (upd : A -> A -> A -> ures A) (h : Z0 -> A) (f : A -> B) (g : Z0 -> B)
  (t0 r0 : Z0) (evs : list (event Z0)) :
  ccheck aok_none (cinit (g t0) (g r0)) (map (map_event g) evs)
         (map (map (map_out f)) (snd (run upd (init (h t0) (h r0)) (map (map_event h) evs)))) = true.
Proof.
  rewrite <- ccheck_erase.
  pose proof (structural_checker_passes A upd (h t0) (h r0) (map (map_event h) evs)) as H.
  rewrite <- ccheck_erase in H.
  rewrite !map_map in *.
  erewrite (map_ext _ _ (fun e => map_event_er g e)).
  erewrite (map_ext _ _ (fun e => map_event_er h e)) in H.
  erewrite (map_ext (fun x => map (map_out er) (map (map_out f) x))).
  - exact H.
  - intro os. rewrite map_map. apply map_ext. intro o. apply map_out_er.
Qed.
