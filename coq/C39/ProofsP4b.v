From Coq Require Import ZArith Reals Lra Lia Floats Uint63.
From Flocq Require Import Core BinarySingleNaN Relative.
Require Import Flocq.IEEE754.PrimFloat.
From TV Require Import C39.Model.
From TV Require Import C39.ProofsP4a.
Local Open Scope R_scope.

Lemma leb_ok (x y : pfloat) : ffin x -> ffin y -> FR x <= FR y -> PrimFloat.leb x y = true.
Proof.
  intros Fx Fy H. rewrite leb_equiv. rewrite (Bleb_correct _ _ _ _ Fx Fy).
  apply Rle_bool_true. exact H.
Qed.

Lemma eqb_zero_ok (x : pfloat) : ffin x -> FR x <> 0 -> PrimFloat.eqb x zero = false.
Proof.
  intros Fx H. rewrite eqb_equiv.
  assert (Ez : Prim2B zero = B754_zero false) by (rewrite zero_equiv; apply Prim2B_B2Prim).
  rewrite Ez. rewrite (Beqb_correct _ _ (Prim2B x) (B754_zero false) Fx (eq_refl _)).
  apply Req_bool_false. exact H.
Qed.

Lemma float_floor_ok (x : pfloat) : ffin x -> float_floor x = UOk (Zfloor (FR x)).
Proof.
  unfold ffin, FR, float_floor. rewrite <- B2SF_Prim2B.
  destruct (Prim2B x) as [s|s| |s m e Hb]; simpl; try discriminate; intros _.
  - rewrite Zfloor_IZR. reflexivity.
  - f_equal. set (v := if s then Z.neg m else Z.pos m).
    assert (Ev : cond_Zopp s (Z.pos m) = v) by (destruct s; reflexivity).
    unfold F2R; simpl Fnum; simpl Fexp. rewrite Ev.
    destruct (Z.leb_spec 0 e) as [He|He].
    + rewrite Z.shiftl_mul_pow2 by exact He.
      rewrite <- (IZR_Zpower radix2 e He), <- mult_IZR, Zfloor_IZR. reflexivity.
    + rewrite Z.shiftr_div_pow2 by lia.
      replace e with (- (- e))%Z at 2 by lia. rewrite bpow_opp.
      rewrite <- (IZR_Zpower radix2 (- e)) by lia.
      change (IZR v * / IZR (radix2 ^ (- e))) with (IZR v / IZR (radix2 ^ (- e))).
      rewrite Zfloor_div; [reflexivity|].
      change (radix_val radix2) with 2%Z. apply Z.pow_nonzero; lia.
Qed.

Lemma generic_int (K : Z) : (Z.abs K < 2 ^ 53)%Z -> generic_format radix2 (SpecFloat.fexp prec emax) (IZR K).
Proof.
  intro H. change (SpecFloat.fexp prec emax) with (FLT_exp (-1074) 53).
  apply generic_format_FLT. apply (FLT_spec radix2 (-1074) 53 (IZR K) (Float radix2 K 0)).
  - unfold F2R; simpl. lra.
  - simpl. exact H.
  - simpl. lia.
Qed.

Lemma float_of_int_ok (K : Z) : (1 <= K < 2 ^ 53)%Z ->
  exists f, float_of_int K = UOk f /\ ffin f /\ FR f = IZR K.
Proof.
  intros [H1 H2]. unfold float_of_int, float_of_nonneg.
  rewrite Z.abs_eq by lia.
  assert (E63 : (K <? two63)%Z = true) by (apply Z.ltb_lt; unfold two63; lia).
  rewrite E63.
  assert (En : (K <? 0)%Z = false) by (apply Z.ltb_ge; lia). rewrite En.
  set (f := of_uint63 (of_Z K)).
  assert (EB : Prim2B f = binary_normalize prec emax (eq_refl _) (eq_refl _) mode_NE K 0 false).
  { unfold f. rewrite of_int63_equiv. f_equal.
    rewrite of_Z_spec. apply Z.mod_small. unfold wB, size. simpl. lia. }
  pose proof (binary_normalize_correct prec emax (eq_refl _) (eq_refl _) mode_NE K 0 false) as Hc.
  cbv zeta in Hc.
  assert (EF : F2R (Float radix2 K 0) = IZR K) by (unfold F2R; simpl; lra).
  rewrite EF in Hc.
  assert (Eg : rnd (IZR K) = IZR K).
  { apply round_generic; auto with typeclass_instances. apply generic_int. rewrite Z.abs_eq by lia. exact H2. }
  change (round radix2 (SpecFloat.fexp prec emax) (round_mode mode_NE)) with rnd in Hc.
  rewrite Eg in Hc.
  rewrite Rlt_bool_true in Hc.
  2:{ rewrite Rabs_pos_eq by (apply IZR_le; lia). eapply Rlt_le_trans; [apply IZR_lt; exact H2|].
      change (2 ^ 53)%Z with (radix2 ^ 53)%Z. rewrite IZR_Zpower by lia. apply bpow_le. unfold emax. lia. }
  destruct Hc as (Hr & Hf & _). rewrite <- EB in Hr, Hf.
  assert (Ei : is_infinity f = false).
  { rewrite is_infinity_equiv. destruct (Prim2B f); try reflexivity. discriminate. }
  rewrite Ei. exists f. repeat split; assumption.
Qed.
