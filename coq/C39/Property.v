(* C39 — PeriodicCallback stays on its grid, skips missed periods, never overlaps.
   Property theorems only; proofs are in Proofs*.v.

   Model.v:  update_next_Q / update_next_float  = PeriodicCallback._update_next
             step / run                          = start, stop, _run, _schedule_next
             as a machine over events  Clock t | Rand r | Start | Stop | Fire | Run kind | Done,
             generic in the number type T and in _update_next (upd).
   upd_Q ct jitter is the exact-rational instance; the binary64 instance is only
   evaluated (correspondence check), see NOTES.md. *)
From Coq Require Import List ZArith Bool QArith Qround.
Import ListNotations.
From TV Require Import Lib.Obs C39.Model C39.Run C39.Proofs C39.ProofsMachine C39.ProofsQ
  C39.ProofsChecker C39.ProofsCheckerQ C39.ProofsTimely C39.ProofsShape C39.ProofsExamples C39.ProofsOverrun C39.ProofsCodec
  C39.Ast C39.RunLoopSrc Gen.C39_src Gen.C39_equiv.

(* ---------------------------------------------------------------------- *)
(* 0. Tie to the source: the body of _update_next as read from tornado/ioloop.py by
      translators/c39_src.py (Gen/C39_src.v), interpreted over exact rationals with
      Python's int/float promotion, is update_next_Q at the (jittered) period.  (The
      same for the binary64 interpreter and upd_float is Gen.C39_equiv.src_means_upd_float;
      it mentions primitive floats and is therefore not restated here.) *)
Theorem C39_source_body_is_update_next_Q :
  forall ct jit r now next cts0 : Q,
    q_next (qexec src_update_next (mkQ ct jit r now next cts0))
    = update_next_Q (period_Q ct jit r) now next.
Proof. exact src_means_update_next_Q. Qed.
Print Assumptions C39_source_body_is_update_next_Q.

(* start / stop / _run / _schedule_next, as read from the working tree (normalised
   text), are the methods the machine of Model.v was written from (RunLoopSrc.v);
   their behaviour is tied to the machine by the correspondence check *)
Theorem C39_source_runloop_is_expected :
  src_start = expected_start /\ src_stop = expected_stop /\ src_run = expected_run
  /\ src_schedule_next = expected_schedule_next.
Proof. exact src_runloop_is_expected. Qed.
Print Assumptions C39_source_runloop_is_expected.

(* ---------------------------------------------------------------------- *)
(* A. The deadline arithmetic over exact rationals, for every positive period,
      previous deadline and clock reading *)

Theorem C39_next_deadline_is_later :
  forall p now next : Q, 0 < p -> next < update_next_Q p now next.
Proof. exact update_later. Qed.
Print Assumptions C39_next_deadline_is_later.

Theorem C39_next_deadline_is_after_now :
  forall p now next : Q, 0 < p -> now < update_next_Q p now next.
Proof. exact update_after_now. Qed.
Print Assumptions C39_next_deadline_is_after_now.

(* missed periods are skipped, not bunched: once the deadline has been reached the
   new one is at most one period ahead of the clock ... *)
Theorem C39_missed_periods_are_skipped :
  forall p now next : Q, 0 < p -> next <= now -> update_next_Q p now next <= now + p.
Proof. exact update_within_period. Qed.
Print Assumptions C39_missed_periods_are_skipped.

(* ... and it is the first point next + j*p strictly after the clock *)
Theorem C39_first_grid_point_after_now :
  forall (p now next : Q) (j : Z), 0 < p -> next <= now -> now < next + inject_Z j * p ->
    update_next_Q p now next <= next + inject_Z j * p.
Proof. exact update_first_after_now. Qed.
Print Assumptions C39_first_grid_point_after_now.

Theorem C39_moves_by_whole_periods :
  forall p now next : Q, 0 < p ->
    exists k : Z, (1 <= k)%Z /\ update_next_Q p now next == next + inject_Z k * p.
Proof. exact update_whole_periods. Qed.
Print Assumptions C39_moves_by_whole_periods.

(* the jitter factor keeps the effective period positive *)
Theorem C39_jittered_period_positive :
  forall ct jitter r : Q, 0 < ct -> -2 < jitter -> jitter < 2 -> 0 <= r -> r < 1 ->
    0 < period_Q ct jitter r.
Proof. exact period_Q_pos. Qed.
Print Assumptions C39_jittered_period_positive.

(* ---------------------------------------------------------------------- *)
(* B. Every deadline the run loop schedules (exact rationals), in ANY machine state
      and for ANY event: later than _next_timeout, after the clock reading used, at
      most a period ahead if the old deadline had been reached, a whole number of
      periods from the old one. *)
Theorem C39_every_scheduled_deadline :
  forall (ct jitter : Q) (s : st Q) (e : event Q) (h : nat) (d : Q),
    In (OSched h d) (snd (step (upd_Q ct jitter) s e)) ->
    let s' := fst (step (upd_Q ct jitter) s e) in
    let p := period_Q ct jitter (s_rnd s') in
    let now := s_now s' in
    0 < p ->
    exists pv, prev_of s e = Some pv
      /\ pv < d /\ now < d /\ (pv <= now -> d <= now + p)
      /\ (exists k : Z, (1 <= k)%Z /\ d == pv + inject_Z k * p)
      /\ s_next s' = Some d.
Proof. exact step_deadline. Qed.
Print Assumptions C39_every_scheduled_deadline.

(* Induction over event lists (all orders, all clock sequences): between two
   start() calls the deadlines are strictly increasing ... *)
Theorem C39_deadlines_strictly_increasing :
  forall (ct jitter : Q) (evs : list (event Q)) (s : st Q),
    no_start evs = true -> periods_positive ct jitter s evs ->
    increasing_from (s_next s) (deadlines (concat (snd (run (upd_Q ct jitter) s evs)))).
Proof. exact deadlines_increasing. Qed.
Print Assumptions C39_deadlines_strictly_increasing.

(* ... and without jitter every one of them is on the grid start + k * period,
   where start is the clock reading taken by start() *)
Theorem C39_deadlines_on_grid :
  forall (ct jitter : Q) (s : st Q) (sk : option Q) (evs : list (event Q)),
    Qeq_bool jitter 0 = true -> 0 < ct -> no_start evs = true ->
    forall d, In d (deadlines (concat (snd (run (upd_Q ct jitter) s (EStart sk :: evs))))) ->
      exists k : Z, d == s_now s + inject_Z k * (ct / 1000).
Proof. exact deadlines_on_grid. Qed.
Print Assumptions C39_deadlines_on_grid.

(* While the clock does not go backwards, timers are not fired before their
   deadline and start() is called while idle, every deadline is after the clock
   reading and at most one period ahead of it. *)
Theorem C39_monotone_clock_at_most_one_period_ahead :
  forall (ct jitter t0 r0 : Q) (evs : list (event Q)),
    timely ct jitter (init t0 r0) evs -> periods_positive ct jitter (init t0 r0) evs ->
    within_period ct jitter (init t0 r0) evs.
Proof. exact timely_from_init. Qed.
Print Assumptions C39_monotone_clock_at_most_one_period_ahead.

(* Callbacks that take time.  A plain-function callback that returns when the clock
   reads t (ERun (KSyncClock t)), in ANY state: _schedule_next uses the reading taken
   AFTER the callback, so the new deadline is after t, and if the callback overran
   (old deadline <= t) it is at most one period after t and is the FIRST point
   old + j*p after t: the missed runs are skipped, not executed back-to-back. *)
Theorem C39_sync_callback_overrun_skips_missed_periods :
  forall (ct jitter : Q) (s : st Q) (t : Q) (h : nat) (d : Q),
    In (OSched h d) (snd (step (upd_Q ct jitter) s (ERun (KSyncClock t)))) ->
    let p := period_Q ct jitter (s_rnd s) in
    0 < p ->
    exists nx, s_next s = Some nx
      /\ nx < d /\ t < d
      /\ (nx <= t -> d <= t + p /\ forall j : Z, t < nx + inject_Z j * p -> d <= nx + inject_Z j * p)
      /\ (exists k : Z, (1 <= k)%Z /\ d == nx + inject_Z k * p).
Proof. exact sync_callback_overrun. Qed.
Print Assumptions C39_sync_callback_overrun_skips_missed_periods.

(* the same for a coroutine callback: the clock moves while it is suspended and the
   reading at its completion (EDone) is the one used *)
Theorem C39_coroutine_callback_overrun_skips_missed_periods :
  forall (ct jitter : Q) (s : st Q) (h : nat) (d : Q),
    In (OSched h d) (snd (step (upd_Q ct jitter) s EDone)) ->
    let p := period_Q ct jitter (s_rnd s) in
    let t := s_now s in
    0 < p ->
    exists nx, s_next s = Some nx
      /\ nx < d /\ t < d
      /\ (nx <= t -> d <= t + p /\ forall j : Z, t < nx + inject_Z j * p -> d <= nx + inject_Z j * p)
      /\ (exists k : Z, (1 <= k)%Z /\ d == nx + inject_Z k * p).
Proof. exact coroutine_callback_overrun. Qed.
Print Assumptions C39_coroutine_callback_overrun_skips_missed_periods.

(* Jitter: the effective period lies in the window of width |jitter| * period centred on
   the period, for every random value in [0,1] ... *)
Theorem C39_jitter_window :
  forall ct jitter r : Q, 0 < ct -> 0 <= r -> r <= 1 ->
    let p0 := ct / 1000 in
    p0 * (1 - Qabs.Qabs jitter * (1 # 2)) <= period_Q ct jitter r
    /\ period_Q ct jitter r <= p0 * (1 + Qabs.Qabs jitter * (1 # 2)).
Proof. exact period_Q_window. Qed.
Print Assumptions C39_jitter_window.

(* ... so every deadline the run loop schedules (any state, any event) is at least the
   short end of the window after the previous one, and at most the long end after
   the clock reading when the previous one had been reached *)
Theorem C39_jittered_deadline_window :
  forall (ct jitter : Q) (s : st Q) (e : event Q) (h : nat) (d : Q),
    In (OSched h d) (snd (step (upd_Q ct jitter) s e)) ->
    let s' := fst (step (upd_Q ct jitter) s e) in
    let p0 := ct / 1000 in
    0 < ct -> Qabs.Qabs jitter < 2 -> 0 <= s_rnd s' -> s_rnd s' <= 1 ->
    exists pv, prev_of s e = Some pv
      /\ pv + p0 * (1 - Qabs.Qabs jitter * (1 # 2)) <= d
      /\ (pv <= s_now s' -> d <= s_now s' + p0 * (1 + Qabs.Qabs jitter * (1 # 2))).
Proof. exact jittered_deadline_window. Qed.
Print Assumptions C39_jittered_deadline_window.

(* ---------------------------------------------------------------------- *)
(* C. The run loop, for ANY number type and ANY _update_next, all event orders *)

(* a callback is never started while the previous invocation is still running
   (scope: start() is only called while the object is idle; see
   restart_in_flight_overlaps_witness for what happens otherwise) *)
Theorem C39_no_overlapping_invocations :
  forall (T : Type) (upd : T -> T -> T -> ures T) (t0 r0 : T) (evs : list (event T)),
    starts_idle T upd (init t0 r0) evs = true ->
    exists d, depth_walk T 0 (concat (snd (run upd (init t0 r0) evs))) = Some d /\ (d <= 1)%nat.
Proof. exact no_overlap. Qed.
Print Assumptions C39_no_overlapping_invocations.

(* stop() — in any state, reachable or not — prevents every further callback start
   and every further add_timeout until the next start() *)
Theorem C39_stop_prevents_further_runs :
  forall (T : Type) (upd : T -> T -> T -> ures T) (s : st T) (evs : list (event T)),
    forallb (fun e => negb (is_start T e)) evs = true ->
    forallb (quiet T) (concat (snd (run upd (fst (step upd s EStop)) evs))) = true.
Proof. exact stop_prevents_runs. Qed.
Print Assumptions C39_stop_prevents_further_runs.

Theorem C39_stop_inside_callback_prevents_further_runs :
  forall (T : Type) (upd : T -> T -> T -> ures T) (s : st T) (evs : list (event T)),
    In OCbStart (snd (step upd s (ERun KSyncStop))) ->
    forallb (fun e => negb (is_start T e)) evs = true ->
    forallb (quiet T) (concat (snd (run upd (fst (step upd s (ERun KSyncStop))) evs))) = true.
Proof. exact stop_inside_callback_prevents_runs. Qed.
Print Assumptions C39_stop_inside_callback_prevents_further_runs.

Theorem C39_stop_leaves_no_live_timer :
  forall (T : Type) (upd : T -> T -> T -> ures T) (t0 r0 : T) (evs : list (event T)),
    starts_idle T upd (init t0 r0) evs = true ->
    s_pending (fst (step upd (fst (run upd (init t0 r0) evs)) EStop)) = [].
Proof. exact stop_cancels_timer. Qed.
Print Assumptions C39_stop_leaves_no_live_timer.

(* ---------------------------------------------------------------------- *)
(* D. The model satisfies the checker that ./check applies to the implementation *)

(* structural clauses (no overlap, nothing started or scheduled while stopped,
   well-bracketed trace) for any number type and any decoding/encoding of the
   numbers — in particular for run_case's binary64 instance *)
Theorem C39_model_passes_structural_checker :
  forall (A B Z0 : Type) (upd : A -> A -> A -> ures A) (h : Z0 -> A) (f : A -> B) (g : Z0 -> B)
         (t0 r0 : Z0) (evs : list (event Z0)),
    ccheck aok_none (cinit (g t0) (g r0)) (map (map_event g) evs)
           (map (map (map_out f)) (snd (run upd (init (h t0) (h r0)) (map (map_event h) evs)))) = true.
Proof. exact @structural_checker_passes_encoded. Qed.
Print Assumptions C39_model_passes_structural_checker.

(* the complete checker (structural + arithmetic clauses) with ZERO tolerance, for
   the exact-rational machine: every configuration, event order, clock sequence *)
Theorem C39_exact_model_passes_full_checker :
  forall (ct jitter t0 r0 : Q) (evs : list (event Q)),
    ccheck (aok_Q 0 ct jitter) (cinit t0 r0) evs
           (snd (run (upd_Q ct jitter) (init t0 r0) evs)) = true.
Proof. exact exact_model_passes_checker. Qed.
Print Assumptions C39_exact_model_passes_full_checker.

(* check_case decodes the observable; applied to the encoding of ANY trace it is the
   trace checker on that trace — so check_case i (run_case i) = check_trace i (run_trace i),
   and the two theorems above are statements about check_case on the model's output *)
Theorem C39_check_case_reads_back_the_trace :
  forall (i : c39_input) (tr : list (list (out (option Z)))),
    check_case i (obs_of_trace tr) = check_trace i tr.
Proof. exact check_case_of_encoded_trace. Qed.
Print Assumptions C39_check_case_reads_back_the_trace.

(* PARTIAL (named so): for the binary64 machine only the structural clauses are
   proved (C39_model_passes_structural_checker); its arithmetic clauses, with the
   2^-50-relative tolerance of aok_bits, are evaluated on the implementation's
   floats by ./check and have no error-bound proof.  Full statement wanted:
     forall i, check_case i (run_case i) = true.                              *)

(* ---------------------------------------------------------------------- *)
(* E. Out of scope, recorded: restarting while a coroutine callback is in flight *)
Theorem C39_restart_in_flight_overlaps_witness :
  starts_idle unit upd_unit (init tt tt) restart_events = false
  /\ depth_walk unit 0 (concat (snd (run upd_unit (init tt tt) restart_events))) = None
  /\ length (s_pending (fst (run upd_unit (init tt tt)
        [EStart None; EFire; ERun KAsync; EStop; EStart None; EDone]))) = 2%nat.
Proof. exact restart_in_flight_overlaps_witness. Qed.
Print Assumptions C39_restart_in_flight_overlaps_witness.

(* ---------------------------------------------------------------------- *)
(* F. (phase 4) The binary64 _update_next against exact arithmetic, via Flocq.
      FR x is the real value of the float x (Flocq's B2R of Prim2B), ffin x says x is
      finite.  For times in [0, 2^31] s and a period in [2^-20, 2^20] s, when the
      deadline has been reached (next <= now) the float computation raises no
      exception, returns a finite d, and there is an integer K >= 1 with
        |d - (next + K*p)| <= 2^-19   (8 ulp at 2^31: d is on the float-period grid),
        now - 2^-18 < d <= now + p + 2^-18   (after the clock, at most one period ahead).
      This theorem (and only this one) depends on the axioms of Coq's Reals and of
      Floats.FloatAxioms / Uint63 (the specification of the primitive operations);
      they are listed in ALLOWED_AXIOMS of harness/props/c39.py and in NOTES.md. *)
From Coq Require Import Reals.
From Flocq Require Import Core.
From TV Require Import C39.ProofsP4a C39.ProofsP4b C39.ProofsP4c.
Theorem C39_float_update_next_within_8ulp_of_exact :
  forall next now p : Coq.Floats.PrimFloat.float,
    ffin next -> ffin now -> ffin p ->
    (0 <= FR next)%R -> (FR next <= FR now)%R -> (FR now <= bpow radix2 31)%R ->
    (bpow radix2 (-20) <= FR p)%R -> (FR p <= bpow radix2 20)%R ->
    exists (d : Coq.Floats.PrimFloat.float) (K : Z),
      update_next_float p now next = UOk d /\ ffin d /\ (1 <= K)%Z
      /\ (Rabs (FR d - (FR next + IZR K * FR p)) <= bpow radix2 (-19))%R
      /\ (FR now - bpow radix2 (-18) < FR d)%R
      /\ (FR d <= FR now + FR p + bpow radix2 (-18))%R.
Proof. exact update_next_float_main_accuracy. Qed.
Print Assumptions C39_float_update_next_within_8ulp_of_exact.
