(* C27 proofs, part 1: decimal printing/reading and the string primitives
   (strip, partition) used by the Range parser. *)
From Coq Require Import List NArith ZArith Bool Lia.
Import ListNotations.
From TV Require Import C27.Model C27.Spec.

Local Open Scope N_scope.

(* ---------- text_eqb ---------- *)
Lemma text_eqb_eq x y : text_eqb x y = true <-> x = y.
Proof.
  revert y; induction x as [|a x IH]; intros [|b y]; simpl; split; intro H; try discriminate; auto.
  - apply andb_true_iff in H as [H1 H2]. apply N.eqb_eq in H1. apply IH in H2. congruence.
  - inversion H; subst. rewrite N.eqb_refl. simpl. apply IH. reflexivity.
Qed.

Lemma text_eqb_refl x : text_eqb x x = true.
Proof. apply text_eqb_eq. reflexivity. Qed.

Lemma text_eqb_neq x y : text_eqb x y = false <-> x <> y.
Proof.
  split; intro H.
  - intro E. apply text_eqb_eq in E. congruence.
  - destruct (text_eqb x y) eqn:E; auto. apply text_eqb_eq in E. contradiction.
Qed.

(* ---------- decimal ---------- *)
Definition dstep (acc c : N) : N := 10 * acc + (c - 48).

Lemma dec_value_fold s : dec_value s = fold_left dstep s 0.
Proof. reflexivity. Qed.

Lemma dec_aux_spec fuel : forall n acc,
  n < 2 ^ N.of_nat fuel -> fuel <> O ->
  exists ds, dec_aux fuel n acc = ds ++ acc /\ ds <> [] /\ forallb is_digit ds = true
    /\ (forall init, fold_left dstep ds init = init * 10 ^ N.of_nat (length ds) + n)
    /\ (n = 0 -> ds = [48])
    /\ (0 < n -> forall c r, ds = c :: r -> c <> 48).
Proof.
  induction fuel as [|f IH]; intros n acc Hn Hf.
  - congruence.
  - clear Hf. cbn [dec_aux].
    assert (Hmod : n mod 10 < 10) by (apply N.mod_lt; lia).
    assert (Hdm : n = 10 * (n / 10) + n mod 10) by (apply N.div_mod'; lia).
    remember (n / 10) as q eqn:Hq. remember (n mod 10) as m eqn:Hm. clear Hq Hm.
    destruct (q =? 0) eqn:E.
    + apply N.eqb_eq in E.
      exists [48 + m]. repeat split.
      * discriminate.
      * cbn [forallb]. unfold is_digit. rewrite andb_true_r.
        apply andb_true_iff; split; apply N.leb_le; lia.
      * intro init. cbn [fold_left length]. unfold dstep. change (N.of_nat 1) with 1. rewrite N.pow_1_r. lia.
      * intro H0. assert (m = 0) by lia. subst m. reflexivity.
      * intros Hpos c r Hc. assert (c = 48 + m) by congruence. lia.
    + apply N.eqb_neq in E.
      assert (Hlt : q < 2 ^ N.of_nat f).
      { rewrite Nat2N.inj_succ, N.pow_succ_r' in Hn. set (p := 2 ^ N.of_nat f) in *.
        clearbody p. clear -Hn Hdm Hmod. lia. }
      assert (Hf : f <> O).
      { intro F. subst f. simpl in Hlt. lia. }
      destruct (IH (q) ((48 + m) :: acc) Hlt Hf) as (ds & Eq & Hne & Hdig & Hval & Hz & Hnz).
      exists (ds ++ [48 + m]). repeat split.
      * rewrite Eq, <- app_assoc. reflexivity.
      * destruct ds; discriminate.
      * rewrite forallb_app, Hdig. cbn [forallb]. unfold is_digit. rewrite andb_true_r. cbn [andb].
        apply andb_true_iff; split; apply N.leb_le; lia.
      * intro init. rewrite fold_left_app, Hval. cbn [fold_left]. unfold dstep.
        rewrite app_length. cbn [length]. rewrite Nat.add_1_r, Nat2N.inj_succ, N.pow_succ_r'.
        set (p := 10 ^ N.of_nat (length ds)). lia.
      * intro H0. lia.
      * intros Hpos c r Hc. destruct ds as [|d ds']; [congruence|].
        cbn [app] in Hc. assert (Hcd : c = d) by congruence. subst d.
        apply (Hnz ltac:(lia) c ds' eq_refl).
Qed.

Lemma dec_spec n :
  dec n <> [] /\ forallb is_digit (dec n) = true /\ dec_value (dec n) = n
  /\ (n = 0 -> dec n = [48]) /\ (0 < n -> forall c r, dec n = c :: r -> c <> 48).
Proof.
  unfold dec.
  assert (Hn : n < 2 ^ N.of_nat (S (N.to_nat (N.size n)))).
  { rewrite Nat2N.inj_succ, N2Nat.id, N.pow_succ_r'. pose proof (N.size_gt n). lia. }
  destruct (dec_aux_spec _ n [] Hn ltac:(discriminate)) as (ds & Eq & Hne & Hdig & Hval & Hz & Hnz).
  rewrite Eq, app_nil_r. repeat split; auto.
  rewrite dec_value_fold, Hval. lia.
Qed.

Lemma dec_value_dec n : dec_value (dec n) = n.
Proof. apply dec_spec. Qed.

Lemma fmt_int_of_N n : fmt_int (Z.of_N n) = dec n.
Proof.
  unfold fmt_int. destruct (Z.of_N n <? 0)%Z eqn:E.
  - apply Z.ltb_lt in E. lia.
  - rewrite N2Z.id. reflexivity.
Qed.

(* ---------- dropwhile / strip ---------- *)
Lemma dropwhile_app p l m : forallb p l = true -> dropwhile p (l ++ m) = dropwhile p m.
Proof.
  induction l as [|c l IH]; simpl; intro H; auto.
  apply andb_true_iff in H as [H1 H2]. rewrite H1. auto.
Qed.

Lemma dropwhile_decomp p s : exists l, s = l ++ dropwhile p s /\ forallb p l = true.
Proof.
  induction s as [|c s IH]; simpl.
  - exists []. auto.
  - destruct (p c) eqn:E.
    + destruct IH as (l & H1 & H2). exists (c :: l). cbn [app forallb]. rewrite E, H2. split; [rewrite <- H1; reflexivity | reflexivity].
    + exists []. auto.
Qed.

Lemma forallb_rev {A} (p : A -> bool) l : forallb p (rev l) = forallb p l.
Proof.
  induction l as [|c l IH]; simpl; auto.
  rewrite forallb_app, IH. simpl. rewrite andb_true_r. apply andb_comm.
Qed.

Lemma lstrip_app l m : all_space l -> lstrip (l ++ m) = lstrip m.
Proof. intro H. apply dropwhile_app. exact H. Qed.

Lemma lstrip_nonspace c m : is_space c = false -> lstrip (c :: m) = c :: m.
Proof. intro H. unfold lstrip. simpl. rewrite H. reflexivity. Qed.

Lemma rstrip_app m r : all_space r -> rstrip (m ++ r) = rstrip m.
Proof.
  intro H. unfold rstrip. rewrite rev_app_distr, dropwhile_app; auto.
  rewrite forallb_rev. exact H.
Qed.

Lemma rstrip_snoc m c : is_space c = false -> rstrip (m ++ [c]) = m ++ [c].
Proof.
  intro H. unfold rstrip. rewrite rev_app_distr. simpl. rewrite H.
  simpl. rewrite rev_involutive. reflexivity.
Qed.

(* a core that starts and ends with a non-blank survives strip unchanged *)
Lemma strip_sandwich l r c1 mid c2 :
  all_space l -> all_space r -> is_space c1 = false -> is_space c2 = false ->
  strip (l ++ (c1 :: mid ++ [c2]) ++ r) = c1 :: mid ++ [c2].
Proof.
  intros Hl Hr H1 H2. unfold strip. rewrite lstrip_app by exact Hl.
  simpl app. rewrite lstrip_nonspace by exact H1.
  change (c1 :: (mid ++ [c2]) ++ r) with ((c1 :: mid ++ [c2]) ++ r).
  rewrite rstrip_app by exact Hr.
  change (c1 :: mid ++ [c2]) with ((c1 :: mid) ++ [c2]).
  apply rstrip_snoc. exact H2.
Qed.

Lemma strip_decomp s : exists l r, s = l ++ strip s ++ r /\ all_space l /\ all_space r.
Proof.
  unfold strip, all_space.
  destruct (dropwhile_decomp is_space s) as (l & H1 & H2).
  destruct (dropwhile_decomp is_space (rev (lstrip s))) as (r & H3 & H4).
  exists l, (rev r). repeat split; auto.
  - unfold rstrip. rewrite <- rev_app_distr, <- H3, rev_involutive. exact H1.
  - rewrite forallb_rev. exact H4.
Qed.

(* ---------- partition ---------- *)
Lemma partition_spec c s : forall a f b, partition c s = (a, f, b) ->
  ~ In c a /\ ((f = true /\ s = a ++ c :: b) \/ (f = false /\ s = a /\ b = [])).
Proof.
  induction s as [|x s IH]; intros a f b H; simpl in H.
  - inversion H; subst. split; auto.
  - destruct (x =? c) eqn:E.
    + apply N.eqb_eq in E. inversion H; subst. split; auto.
    + apply N.eqb_neq in E. destruct (partition c s) as [[a' f'] b'] eqn:P.
      inversion H; subst. destruct (IH a' f b eq_refl) as (Hn & Hc). split.
      * intros [Hx|Hx]; [congruence|contradiction].
      * destruct Hc as [[-> ->]|[-> [-> ->]]]; [left|right]; auto.
Qed.

Lemma partition_found c a b : ~ In c a -> partition c (a ++ c :: b) = (a, true, b).
Proof.
  induction a as [|x a IH]; simpl; intro H.
  - rewrite N.eqb_refl. reflexivity.
  - destruct (x =? c) eqn:E.
    + apply N.eqb_eq in E. exfalso. apply H. auto.
    + rewrite IH; auto.
Qed.

Lemma partition_absent c a : ~ In c a -> partition c a = (a, false, []).
Proof.
  induction a as [|x a IH]; simpl; intro H; auto.
  destruct (x =? c) eqn:E.
  - apply N.eqb_eq in E. exfalso. apply H. auto.
  - rewrite IH; auto.
Qed.

(* ---------- character classes are disjoint ---------- *)
Lemma space_not c : is_space c = true -> c <> 61 /\ c <> 45 /\ is_digit c = false.
Proof.
  unfold is_space, is_digit. intro H.
  repeat (apply orb_true_iff in H as [H|H]); repeat (apply andb_true_iff in H as [? H]);
    repeat match goal with
           | h : (_ <=? _) = true |- _ => apply N.leb_le in h
           | h : (_ =? _) = true |- _ => apply N.eqb_eq in h
           end;
    (repeat split; [lia | lia | apply andb_false_iff; rewrite !N.leb_gt; lia]).
Qed.

Lemma digit_not c : is_digit c = true -> c <> 61 /\ c <> 45 /\ is_space c = false.
Proof.
  intro H. split; [|split].
  - intro E; subst; discriminate.
  - intro E; subst; discriminate.
  - destruct (is_space c) eqn:S; auto. apply space_not in S. destruct S as (_ & _ & S). congruence.
Qed.

Lemma forallb_not_in p (x : N) l : forallb p l = true -> p x = false -> ~ In x l.
Proof.
  intros H Hx Hin. rewrite forallb_forall in H. apply H in Hin. congruence.
Qed.

(* ---------- _int_or_none ---------- *)
Lemma int_or_none_digits v : digits v -> int_or_none v = IonInt (dec_value v).
Proof.
  intros (Hne & Hd & Hl). unfold int_or_none. destruct v; [congruence|].
  rewrite Hd. apply N.leb_le in Hl. rewrite Hl. reflexivity.
Qed.

Lemma int_or_none_int v n : int_or_none v = IonInt n -> digits v /\ n = dec_value v.
Proof.
  unfold int_or_none. destruct v as [|c v]; [discriminate|].
  destruct (forallb is_digit (c :: v)) eqn:Hd; [|discriminate].
  destruct (N.of_nat (length (c :: v)) <=? int_max_str_digits) eqn:Hl; [|discriminate].
  intro H. inversion H. apply N.leb_le in Hl. repeat split; auto. discriminate.
Qed.

Lemma int_or_none_none v : int_or_none v = IonNone -> v = [].
Proof.
  unfold int_or_none. destruct v as [|c v]; auto.
  destruct (forallb is_digit (c :: v)); [|discriminate].
  destruct (N.of_nat (length (c :: v)) <=? int_max_str_digits); discriminate.
Qed.
