(* C27 -- Static range and conditional responses match the file exactly.
   Property theorems only; proofs are in Proofs1..5.v, satisfiability examples
   of the hypotheses in Examples.v.  Vocabulary:
     Model.static_get q      the model of StaticFileHandler.get/head (+ finish) for request q
     Spec.denotes h sp       h is  OWS "bytes" OWS "=" OWS (a "-" b | a "-" | "-" n) OWS
     Spec.expected_response  RFC 7233 semantics: 200 whole / 206 slice / 416
     Spec.response_shape     the four shapes of the statement
     Proofs2.enc sp          the (start, end) pair _parse_request_range returns for sp *)
From Coq Require Import List NArith ZArith.
Import ListNotations.
From TV Require Import Lib.Obs C27.Model C27.Spec C27.Run C27.PyPrims
  C27.Proofs1 C27.Proofs2 C27.Proofs3 C27.Proofs4 C27.Proofs5 C27.Proofs6 C27.Proofs7
  Gen.C27_src Gen.C27_equiv.

(* 1. For every file, method, Range / If-None-Match / If-Modified-Since: the
   handler answers (never fails), and the answer is 200 with the whole file, or
   206 with Content-Range "bytes a-b/size", 0 <= a <= b < size, a proper part,
   body = bytes a..b, or 416 with "bytes */size" and no body, or 304 with no
   body; a HEAD has the same status/headers and an empty body. *)
Theorem C27_response_is_one_of_four_shapes :
  forall q, exists r, static_get q = Resp r /\ response_shape (q_head q) (q_content q) r.
Proof. exact static_get_shape. Qed.
Print Assumptions C27_response_is_one_of_four_shapes.

(* 2. Content-Length equals the body length of a GET (a 304 has neither). *)
Theorem C27_content_length_is_body_length :
  forall q r, q_head q = false -> static_get q = Resp r ->
    (r_status r = 304%Z /\ r_content_length r = None /\ r_body r = [])
    \/ (r_status r <> 304%Z /\ r_content_length r = Some (Z.of_nat (length (r_body r)))).
Proof. exact static_get_content_length. Qed.
Print Assumptions C27_content_length_is_body_length.

(* 3. HEAD = the GET response with the body removed. *)
Theorem C27_head_is_get_without_body :
  forall q, exists r, static_get (with_head q false) = Resp r
                      /\ static_get (with_head q true) = Resp (without_body r).
Proof. exact head_is_get_without_body. Qed.
Print Assumptions C27_head_is_get_without_body.

(* 4. A header of the grammar gets exactly the RFC 7233 treatment. *)
Theorem C27_valid_range_has_rfc7233_semantics :
  forall q h sp, not_modified q = false -> q_range q = Some h -> denotes h sp ->
    static_get q = Resp (expected_response (q_head q) (q_content q) (Some sp)).
Proof. exact static_get_valid. Qed.
Print Assumptions C27_valid_range_has_rfc7233_semantics.

(* 5. A Range header that is not a valid single byte-range specification is
   ignored.  Full statement (FALSE for the code as it is, see 6):
       forall q h, ~ valid_range_header h ->
         static_get (with_range q (Some h)) = static_get (with_range q None).
   Proved with the exclusion of the dash-less class (known finding 'dashless-range'). *)
Theorem C27_invalid_range_is_ignored_partial :
  forall q h, ~ valid_range_header h -> ~ (exists a, dashless h a) ->
    static_get (with_range q (Some h)) = static_get (with_range q None).
Proof. exact invalid_range_ignored. Qed.
Print Assumptions C27_invalid_range_is_ignored_partial.

(* 6. The full statement is refuted: "bytes=5" is not in the grammar, yet on a
   10-byte file it is answered with 206 "bytes 5-9/10". *)
Theorem C27_invalid_range_is_ignored_refuted :
  exists q h, ~ valid_range_header h
    /\ static_get (with_range q (Some h)) <> static_get (with_range q None)
    /\ static_get (with_range q (Some h)) = Resp (partial_response false (q_content q) 5 9).
Proof. exists q_witness, h_dashless. exact invalid_range_not_ignored_witness. Qed.
Print Assumptions C27_invalid_range_is_ignored_refuted.

(* 7. ... and that is the only deviation: a dash-less digit string N is served as "N-". *)
Theorem C27_dashless_range_is_served_as_open_range :
  forall q h a, not_modified q = false -> q_range q = Some h -> dashless h a ->
    static_get q = Resp (expected_response (q_head q) (q_content q) (Some (SFrom a))).
Proof. exact static_get_dashless. Qed.
Print Assumptions C27_dashless_range_is_served_as_open_range.

(* 8. The language accepted by _parse_request_range is exactly the grammar
   (plus the value-less forms giving (None, None), and the dash-less form). *)
Theorem C27_parser_accepts_exactly_the_grammar :
  (forall h sp, denotes h sp -> parse_request_range h = Some (enc sp))
  /\ (forall h r, parse_request_range h = Some r ->
        r = (None, None)
        \/ exists sp, r = enc sp /\ (denotes h sp \/ exists a, sp = SFrom a /\ dashless h a)).
Proof. split; [exact parse_complete | exact parse_sound]. Qed.
Print Assumptions C27_parser_accepts_exactly_the_grammar.

(* 9. The 304 decision. *)
Theorem C27_status_304_iff_not_modified :
  forall q r, static_get q = Resp r -> (r_status r = 304%Z <-> not_modified q = true).
Proof. exact status_304_iff. Qed.
Print Assumptions C27_status_304_iff_not_modified.

Theorem C27_no_conditional_headers_never_304 :
  forall q, (q_inm q = None \/ q_inm q = Some []) -> q_ims q = None -> not_modified q = false.
Proof. exact no_conditional_never_304. Qed.
Print Assumptions C27_no_conditional_headers_never_304.

Theorem C27_if_none_match_same_etag_gives_304 :
  forall q b, ~ In 34%N b -> q_etag q = 34%N :: b ++ [34%N] -> q_inm q = Some (q_etag q) ->
    not_modified q = true.
Proof. exact inm_same_etag_matches. Qed.
Print Assumptions C27_if_none_match_same_etag_gives_304.

(* 10. The boolean checker applied to the implementation's observables on every
   correspondence case accepts the model on every input. *)
Theorem C27_checker_accepts_model : forall c, check_case c (run_case c) = true.
Proof. exact check_case_run_case. Qed.
Print Assumptions C27_checker_accepts_model.

(* 11. Decimal printing (Content-Range, fuel-based) is read back exactly by the
   strict reader used in the checker: the fuel always suffices. *)
Theorem C27_decimal_print_read_roundtrip : forall n, read_dec (dec n) = Some n.
Proof. exact read_dec_dec. Qed.
Print Assumptions C27_decimal_print_read_roundtrip.

(* 12. If-None-Match holding a list of entity tags (OWS "," OWS separated, strong or
   W/ weak): 304 exactly when one of them equals the file's tag under weak comparison. *)
Theorem C27_if_none_match_list_uses_weak_comparison :
  forall q sep0 items,
    q_etag q <> [] -> items <> [] ->
    list_sep sep0 -> Forall (fun it => entity_tag (fst it) /\ list_sep (snd it)) items ->
    q_inm q = Some (inm_header sep0 items) ->
    not_modified q = existsb (fun it => weak_equal (fst it) (q_etag q)) items.
Proof. exact not_modified_inm_list. Qed.
Print Assumptions C27_if_none_match_list_uses_weak_comparison.

Theorem C27_if_none_match_star_gives_304 :
  forall q rest, q_etag q <> [] -> q_inm q = Some (42%N :: rest) -> not_modified q = true.
Proof. exact inm_star_matches. Qed.
Print Assumptions C27_if_none_match_star_gives_304.

(* 13. If-Modified-Since decides only when If-None-Match is absent or empty (then 304 iff
   the parsed date is >= the modification time); otherwise it is not consulted at all. *)
Theorem C27_if_modified_since_only_without_if_none_match :
  (forall q, (q_inm q = None \/ q_inm q = Some []) ->
     not_modified q = match q_ims q with Some (Some t) => (q_mtime q <=? t)%Z | _ => false end)
  /\ (forall q c v ims, q_inm q = Some (c :: v) ->
       not_modified q = should_return_304 (q_etag q) (q_inm q) ims (q_mtime q)).
Proof. split; [exact not_modified_by_date | exact not_modified_ignores_date]. Qed.
Print Assumptions C27_if_modified_since_only_without_if_none_match.

(* 14. The 304 decision precedes the Range header: a not-modified file is answered 304
   whatever Range says (valid, unsatisfiable or malformed). *)
Theorem C27_not_modified_precedes_range :
  forall q h, not_modified q = true -> static_get (with_range q h) = Resp not_modified_response.
Proof. exact not_modified_precedes_range. Qed.
Print Assumptions C27_not_modified_precedes_range.

(* 15. The read loop of get_content (for every chunk size > 0, tornado uses 64 KiB): for
   every request it terminates within its fuel without failing, and the chunks written are
   non-empty, at most chunk-size long, and concatenate to exactly the body of theorem 1. *)
Theorem C27_chunked_read_loop_yields_the_body :
  forall cmax q, (0 < cmax)%Z ->
    exists r cs, static_get q = Resp r /\ static_get_chunks cmax q = LoopDone cs
                 /\ concat cs = r_body r /\ Forall (chunk_ok cmax) cs.
Proof. exact static_get_chunks_total. Qed.
Print Assumptions C27_chunked_read_loop_yields_the_body.

(* 16. The definitions regenerated from tornado/httputil.py on every run
   (translators/c27_src.py -> Gen/C27_src.v) equal the model the theorems are about ... *)
Theorem C27_source_functions_equal_model :
  (forall v, src_int_or_none v = int_or_none v)
  /\ (forall h, src_parse_request_range h = parse_request_range h)
  /\ (forall s e t, src_get_content_range s e t = get_content_range s e t).
Proof. exact (conj src_int_or_none_eq (conj src_parse_request_range_eq src_get_content_range_eq)). Qed.
Print Assumptions C27_source_functions_equal_model.

(* ... so theorem 8 holds of the translated source itself. *)
Theorem C27_source_parser_accepts_exactly_the_grammar :
  (forall h sp, denotes h sp -> src_parse_request_range h = Some (enc sp))
  /\ (forall h r, src_parse_request_range h = Some r ->
        r = (None, None)
        \/ exists sp, r = enc sp /\ (denotes h sp \/ exists a, sp = SFrom a /\ dashless h a)).
Proof.
  split; intros h; rewrite src_parse_request_range_eq; [apply parse_complete | apply parse_sound].
Qed.
Print Assumptions C27_source_parser_accepts_exactly_the_grammar.
