(* C27 -- the few Python primitives the generated code of Gen/C27_src.v is written
   over, besides those of Model.v (partition, strip, text_eqb, py_or, fmt_int).
   Definitions only. *)
From Coq Require Import List NArith ZArith Bool.
Import ListNotations.
From TV Require Import C27.Model.

(* re.fullmatch(r"[0-9]+", v) is not None   (str pattern: ASCII digits only) *)
Definition py_fullmatch_digits (v : text) : bool :=
  match v with
  | [] => false
  | _ => forallb is_digit v
  end.

(* int(v) for a v that fullmatches [0-9]+ : the value, or ValueError beyond
   sys.get_int_max_str_digits() characters *)
Definition py_int_of_digits (v : text) : ion :=
  if (N.of_nat (length v) <=? int_max_str_digits)%N then IonInt (dec_value v) else IonValueError.

(* x = _int_or_none(e) inside `try: ... except ValueError: <on_err>` *)
Definition ion_bind {T} (r : ion) (k : option Z -> T) (on_err : T) : T :=
  match r with
  | IonValueError => on_err
  | IonNone => k None
  | IonInt n => k (Some (Z.of_N n))
  end.
