(* Executable entry points used by the correspondence check. *)
From Coq Require Import List NArith ZArith String Bool.
Import ListNotations.
From TV Require Import Lib.Obs C27.Model.

(* One correspondence case: either the parser alone (httputil._parse_request_range
   called directly) or a whole request through StaticFileHandler. *)
Inductive case :=
| CParse (h : text)
| CReq (q : request).

Definition mkreq (head : bool) (content etag : list N) (inm : option (list N))
           (ims : option (option Z)) (mtime : Z) (range : option text) : case :=
  CReq {| q_head := head; q_content := content; q_etag := etag; q_inm := inm;
          q_ims := ims; q_mtime := mtime; q_range := range |}.

Definition oz (x : option Z) : obs := match x with Some z => OInt z | None => ONone end.
Definition ot (x : option text) : obs := match x with Some t => OBytes t | None => ONone end.

Definition obs_of_outcome (o : outcome) : obs :=
  match o with
  | Resp r => OList [OInt (r_status r); ot (r_content_range r); oz (r_content_length r); OBytes (r_body r)]
  | InternalError => OTag "InternalError"
  end.

Definition run_case (c : case) : obs :=
  match c with
  | CParse h =>
      match parse_request_range h with
      | None => ONone
      | Some (s, e) => OList [oz s; oz e]
      end
  | CReq q => obs_of_outcome (static_get q)
  end.

(* ------------------------------------------------------------------ *)
(* The property on observables, formulated without the model: the response
   must be one of the four shapes of the statement, *for this file*.      *)

(* strict decimal reader: digits only, no leading zero except "0" itself *)
Definition read_dec (s : text) : option N :=
  match s with
  | [] => None
  | c :: r =>
      if forallb is_digit s && negb ((c =? 48)%N && negb (match r with [] => true | _ => false end))
      then Some (dec_value s) else None
  end.

Definition strip_prefix (p s : text) : option text :=
  if text_eqb (firstn (List.length p) s) p then Some (skipn (List.length p) s) else None.

(* "bytes a-b/n" -> (a, b, n) *)
Definition read_content_range (s : text) : option (N * N * N) :=
  match strip_prefix s_bytes_sp s with
  | None => None
  | Some s1 =>
      let '(a, f1, s2) := partition 45 s1 in
      let '(b, f2, n) := partition 47 s2 in
      if f1 && f2 then
        match read_dec a, read_dec b, read_dec n with
        | Some a', Some b', Some n' => Some (a', b', n')
        | _, _, _ => None
        end
      else None
  end.

(* "bytes */n" -> n *)
Definition read_unsat_range (s : text) : option N :=
  match strip_prefix s_bytes_star s with
  | None => None
  | Some n => read_dec n
  end.

Definition slice (content : list N) (a b : N) : list N :=
  firstn (N.to_nat (b - a + 1)) (skipn (N.to_nat a) content).

Definition check_response (head : bool) (content : list N)
           (status : Z) (cr : option text) (cl : option Z) (body : list N) : bool :=
  let size := N.of_nat (List.length content) in
  if (status =? 200)%Z then
    match cr, cl with
    | None, Some l => (l =? Z.of_N size)%Z && text_eqb body (if head then [] else content)
    | _, _ => false
    end
  else if (status =? 206)%Z then
    match cr, cl with
    | Some r, Some l =>
        match read_content_range r with
        | Some (a, b, n) =>
            (* `if` (lazy under vm_compute): never build a slice from out-of-range numbers *)
            if (n =? size)%N && (a <=? b)%N && (b <? size)%N
               && (b - a + 1 <? size)%N                   (* a 206 is a proper part *)
               && (l =? Z.of_N (b - a + 1))%Z
            then text_eqb body (if head then [] else slice content a b)
            else false
        | None => false
        end
    | _, _ => false
    end
  else if (status =? 416)%Z then
    match cr, cl with
    | Some r, Some l =>
        match read_unsat_range r with
        | Some n => (n =? size)%N && (l =? 0)%Z && text_eqb body []
        | None => false
        end
    | _, _ => false
    end
  else if (status =? 304)%Z then
    match cr, cl with
    | None, None => text_eqb body []
    | None, Some l => (l =? 0)%Z && text_eqb body []
    | _, _ => false
    end
  else false.

Definition check_case (c : case) (o : obs) : bool :=
  match c with
  | CParse _ => true            (* parser cases only tie the model; no property of their own *)
  | CReq q =>
      match o with
      | OList [OInt status; cr; cl; OBytes body] =>
          match (match cr with OBytes t => Some (Some t) | ONone => Some None | _ => None end),
                (match cl with OInt z => Some (Some z) | ONone => Some None | _ => None end) with
          | Some cr', Some cl' => check_response (q_head q) (q_content q) status cr' cl' body
          | _, _ => false
          end
      | _ => false
      end
  end.
