(* C27 proofs, part 2: the range arithmetic of StaticFileHandler.get,
   get_content and _get_content_range against the RFC 7233 semantics of Spec.v *)
From Coq Require Import List NArith ZArith Bool Lia.
Import ListNotations.
From TV Require Import C27.Model C27.Spec C27.Proofs1.

(* what the parser returns for a range that denotes [sp] *)
Definition enc (sp : range_spec) : option Z * option Z :=
  match sp with
  | SFromTo a b => (Some (Z.of_N a), Some (Z.of_N b + 1)%Z)
  | SFrom a => (Some (Z.of_N a), None)
  | SSuffix n => if (n =? 0)%N then (None, Some 0%Z) else (Some (- Z.of_N n)%Z, None)
  end.

(* the tail of get() once a range has been accepted *)
Definition finish_serve (head : bool) (content : list N) (cr : option text) (start end_ : option Z) : outcome :=
  let size := Z.of_nat (length content) in
  let status := match cr with Some _ => 206%Z | None => 200%Z end in
  let cl := content_length_of start end_ size in
  if head then
    Resp {| r_status := status; r_content_range := cr; r_content_length := Some cl; r_body := [] |}
  else
    match get_content content start end_ with
    | Some body =>
        Resp {| r_status := status; r_content_range := cr; r_content_length := Some cl; r_body := body |}
    | None => InternalError
    end.

Definition after_304 (head : bool) (content : list N) (rr : option (option Z * option Z)) : outcome :=
  let size := Z.of_nat (length content) in
  match range_block rr size with
  | Unsatisfiable =>
      Resp {| r_status := 416; r_content_range := Some (s_bytes_star ++ fmt_int size);
              r_content_length := Some 0%Z; r_body := [] |}
  | Serve cr start end_ => finish_serve head content cr start end_
  end.

Definition request_range_of (r : option text) : option (option Z * option Z) :=
  match r with
  | Some (c :: h) => parse_request_range (c :: h)
  | _ => None
  end.

Lemma static_get_unfold q :
  static_get q =
  if not_modified q then Resp not_modified_response
  else after_304 (q_head q) (q_content q) (request_range_of (q_range q)).
Proof. reflexivity. Qed.

Ltac b2p :=
  repeat match goal with
  | H : (_ && _)%bool = true |- _ => apply andb_true_iff in H; destruct H
  | H : (_ || _)%bool = false |- _ => apply orb_false_iff in H; destruct H
  | H : (_ && _)%bool = false |- _ => apply andb_false_iff in H; destruct H
  | H : (_ || _)%bool = true |- _ => apply orb_true_iff in H; destruct H
  | H : negb _ = true |- _ => apply negb_true_iff in H
  | H : negb _ = false |- _ => apply negb_false_iff in H
  | H : (_ <? _)%Z = true |- _ => apply Z.ltb_lt in H
  | H : (_ <? _)%Z = false |- _ => apply Z.ltb_ge in H
  | H : (_ <=? _)%Z = true |- _ => apply Z.leb_le in H
  | H : (_ <=? _)%Z = false |- _ => apply Z.leb_gt in H
  | H : (_ =? _)%Z = true |- _ => apply Z.eqb_eq in H
  | H : (_ =? _)%Z = false |- _ => apply Z.eqb_neq in H
  | H : (_ <? _)%N = true |- _ => apply N.ltb_lt in H
  | H : (_ <? _)%N = false |- _ => apply N.ltb_ge in H
  | H : (_ <=? _)%N = true |- _ => apply N.leb_le in H
  | H : (_ <=? _)%N = false |- _ => apply N.leb_gt in H
  | H : (_ =? _)%N = true |- _ => apply N.eqb_eq in H
  | H : (_ =? _)%N = false |- _ => apply N.eqb_neq in H
  end.

(* ---------- no Range / (None, None) ---------- *)
Lemma after_304_none head content :
  after_304 head content None = Resp (expected_response head content None).
Proof.
  unfold after_304, range_block, finish_serve, get_content, content_length_of, expected_response, whole_response.
  destruct head; reflexivity.
Qed.

Lemma after_304_none_none head content :
  after_304 head content (Some (None, None)) = Resp (expected_response head content None).
Proof.
  unfold after_304, range_block. cbn [py_or orb].
  rewrite Z.sub_0_r, Z.eqb_refl. cbn [negb].
  unfold finish_serve, get_content, content_length_of, expected_response, whole_response.
  destruct head; reflexivity.
Qed.

(* ---------- slices ---------- *)
Lemma finish_serve_interval head content (a b : N) cr start end_ :
  (a <= b)%N -> (b < N.of_nat (length content))%N ->
  start = Some (Z.of_N a) ->
  (end_ = Some (Z.of_N b + 1)%Z \/ (end_ = None /\ b = (N.of_nat (length content) - 1)%N)) ->
  finish_serve head content cr start end_ =
  Resp {| r_status := match cr with Some _ => 206%Z | None => 200%Z end;
          r_content_range := cr;
          r_content_length := Some (Z.of_N (b - a + 1));
          r_body := if head then [] else file_slice content a b |}.
Proof.
  intros Hab Hb -> He. unfold finish_serve.
  assert (Hcl : content_length_of (Some (Z.of_N a)) end_ (Z.of_nat (length content)) = Z.of_N (b - a + 1)).
  { destruct He as [->|[-> ->]]; cbn [content_length_of]; lia. }
  rewrite Hcl. destruct head; [reflexivity|].
  assert (Hg : get_content content (Some (Z.of_N a)) end_ = Some (file_slice content a b)).
  { unfold get_content, file_slice.
    destruct (Z.of_N a <? 0)%Z eqn:E1; b2p; [lia|].
    replace (Z.to_nat (Z.of_N a)) with (N.to_nat a) by lia.
    destruct He as [->|[-> ->]].
    - assert (Hpo : py_or (Some (Z.of_N a)) 0 = Z.of_N a).
      { unfold py_or. destruct (Z.of_N a =? 0)%Z eqn:E; b2p; lia. }
      rewrite Hpo, skipn_length.
      destruct (Z.of_N b + 1 - Z.of_N a <? 0)%Z eqn:E2; b2p; [lia|].
      destruct (Z.of_nat (length content - N.to_nat a) <? Z.of_N b + 1 - Z.of_N a)%Z eqn:E3; b2p; [lia|].
      do 2 f_equal. lia.
    - f_equal. symmetry. apply firstn_all2. rewrite skipn_length. lia. }
  rewrite Hg. reflexivity.
Qed.

Lemma fmt_int_of_nat n : fmt_int (Z.of_nat n) = dec (N.of_nat n).
Proof. rewrite <- nat_N_Z. apply fmt_int_of_N. Qed.

Lemma file_slice_all content :
  content <> [] -> file_slice content 0 (N.of_nat (length content) - 1) = content.
Proof.
  intro H. unfold file_slice. cbn [N.to_nat skipn]. apply firstn_all2.
  destruct content; [congruence|]. cbn [length]. lia.
Qed.

(* the Serve branch, for an interval a..b of the file *)
Lemma serve_ok head content (a b : N) start end_ :
  let S := Z.of_nat (length content) in
  (a <= b)%N -> (b < N.of_nat (length content))%N ->
  start = Some (Z.of_N a) ->
  (end_ = Some (Z.of_N b + 1)%Z \/ (end_ = None /\ b = (N.of_nat (length content) - 1)%N)) ->
  finish_serve head content
    (if negb (S =? py_or end_ S - py_or start 0)%Z then Some (get_content_range start end_ S) else None)
    start end_
  = Resp (if ((a =? 0) && (b + 1 =? N.of_nat (length content)))%N
          then whole_response head content else partial_response head content a b).
Proof.
  intros S Hab Hb Hs He.
  rewrite (finish_serve_interval head content a b _ start end_ Hab Hb Hs He).
  assert (Hps : py_or start 0 = Z.of_N a).
  { subst start. unfold py_or. destruct (Z.of_N a =? 0)%Z eqn:E; b2p; lia. }
  assert (Hpe : py_or end_ S = (Z.of_N b + 1)%Z).
  { destruct He as [->|[-> ->]]; unfold py_or.
    - destruct (Z.of_N b + 1 =? 0)%Z eqn:E; b2p; lia.
    - subst S. lia. }
  rewrite Hps, Hpe.
  destruct ((a =? 0) && (b + 1 =? N.of_nat (length content)))%N eqn:Ew.
  - b2p. subst a. assert (Eq : (S =? Z.of_N b + 1 - Z.of_N 0)%Z = true) by (apply Z.eqb_eq; subst S; lia).
    rewrite Eq. cbn [negb]. unfold whole_response. f_equal. f_equal.
    + f_equal. lia.
    + destruct head; [reflexivity|].
      replace b with (N.of_nat (length content) - 1)%N by lia.
      apply file_slice_all. intro F. subst content. cbn [length] in *. lia.
  - assert (Hw : ~ (a = 0 /\ b + 1 = N.of_nat (length content))%N).
    { intros [Ha Hb1]. rewrite Ha, Hb1, !N.eqb_refl in Ew. discriminate. }
    assert (Eq : (S =? Z.of_N b + 1 - Z.of_N a)%Z = false) by (apply Z.eqb_neq; subst S; lia).
    rewrite Eq. cbn [negb]. unfold partial_response. f_equal. f_equal. f_equal.
    unfold get_content_range, content_range_text. rewrite Hps, Hpe.
    replace (Z.of_N b + 1 - 1)%Z with (Z.of_N b) by lia.
    subst S. rewrite !fmt_int_of_N, fmt_int_of_nat. reflexivity.
Qed.

Lemma serve_if (c : bool) x s e :
  (if c then Serve (Some x) s e else Serve None s e) = Serve (if c then Some x else None) s e.
Proof. destruct c; reflexivity. Qed.

Lemma resp_416 content :
  Resp {| r_status := 416;
          r_content_range := Some (s_bytes_star ++ fmt_int (Z.of_nat (length content)));
          r_content_length := Some 0%Z; r_body := [] |} = Resp (unsatisfiable_response content).
Proof. unfold unsatisfiable_response. rewrite fmt_int_of_nat. reflexivity. Qed.

(* ---------- the three kinds of range ---------- *)
Lemma after_304_enc head content sp :
  after_304 head content (Some (enc sp)) = Resp (expected_response head content (Some sp)).
Proof.
  unfold after_304, expected_response.
  set (size := N.of_nat (length content)).
  assert (HS : Z.of_nat (length content) = Z.of_N size) by (subst size; lia).
  destruct sp as [a b|a|n]; cbn [enc satisfiable].
  - (* a-b *)
    unfold range_block.
    assert (E0 : (Z.of_N a <? 0)%Z = false) by (apply Z.ltb_ge; lia). rewrite E0.
    destruct ((a <? size) && (a <=? b))%N eqn:Esat.
    + b2p. assert (Eu : ((Z.of_nat (length content) <=? Z.of_N a)%Z || (Z.of_N b + 1 <=? Z.of_N a)%Z
                   || (Z.of_N b + 1 =? 0)%Z) = false).
      { rewrite !orb_false_iff, !Z.leb_gt, Z.eqb_neq. lia. }
      rewrite Eu. rewrite serve_if.
      destruct (Z.of_nat (length content) <? Z.of_N b + 1)%Z eqn:Ecap; b2p.
      * replace (N.min b (size - 1)) with (size - 1)%N by lia.
        replace (Some (Z.of_nat (length content))) with (Some (Z.of_N (size - 1) + 1)%Z) by (f_equal; lia).
        apply serve_ok; auto; fold size; lia.
      * replace (N.min b (size - 1)) with b by lia.
        apply serve_ok; auto; fold size; lia.
    + assert (Eu : ((Z.of_nat (length content) <=? Z.of_N a)%Z || (Z.of_N b + 1 <=? Z.of_N a)%Z
                   || (Z.of_N b + 1 =? 0)%Z) = true).
      { b2p; rewrite !orb_true_iff, !Z.leb_le; lia. }
      rewrite Eu. apply resp_416.
  - (* a- *)
    unfold range_block.
    assert (E0 : (Z.of_N a <? 0)%Z = false) by (apply Z.ltb_ge; lia). rewrite E0.
    destruct (a <? size)%N eqn:Esat; b2p.
    + assert (Eu : ((Z.of_nat (length content) <=? Z.of_N a)%Z || false || false) = false).
      { rewrite !orb_false_r, Z.leb_gt. lia. }
      rewrite Eu, serve_if. apply serve_ok; auto; fold size; lia.
    + assert (Eu : ((Z.of_nat (length content) <=? Z.of_N a)%Z || false || false) = true).
      { rewrite !orb_false_r, Z.leb_le. lia. }
      rewrite Eu. apply resp_416.
  - (* -n *)
    destruct (n =? 0)%N eqn:En; b2p.
    + subst n. cbn [orb N.eqb]. unfold range_block. cbn [orb Z.eqb]. apply resp_416.
    + cbn [orb]. unfold range_block.
      assert (E0 : (- Z.of_N n <? 0)%Z = true) by (apply Z.ltb_lt; lia). rewrite E0.
      destruct (size =? 0)%N eqn:Ez; b2p.
      * (* empty file *)
        destruct (- Z.of_N n + Z.of_nat (length content) <? 0)%Z eqn:E1; b2p; [|lia].
        assert (Eu : ((Z.of_nat (length content) <=? 0)%Z || false || false) = true).
        { rewrite !orb_false_r, Z.leb_le. lia. }
        rewrite Eu. apply resp_416.
      * destruct (- Z.of_N n + Z.of_nat (length content) <? 0)%Z eqn:E1; b2p.
        -- assert (Eu : ((Z.of_nat (length content) <=? 0)%Z || false || false) = false).
           { rewrite !orb_false_r, Z.leb_gt. lia. }
           rewrite Eu, serve_if. replace (size - N.min n size)%N with 0%N by lia.
           apply serve_ok; auto; fold size; lia.
        -- assert (Eu : ((Z.of_nat (length content) <=? - Z.of_N n + Z.of_nat (length content))%Z || false || false) = false).
           { rewrite !orb_false_r, Z.leb_gt. lia. }
           rewrite Eu, serve_if.
           replace (- Z.of_N n + Z.of_nat (length content))%Z with (Z.of_N (size - N.min n size)) by lia.
           apply serve_ok; auto; fold size; lia.
Qed.
