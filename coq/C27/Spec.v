(* C27 -- the specification side: the accepted Range grammar, RFC 7233 range
   semantics and the response they prescribe.  Written without reference to
   the parsing / arithmetic code of Model.v (it shares only the elementary
   vocabulary: is_space, is_digit, dec_value, dec, the record types and the
   string constants).  Definitions only. *)
From Coq Require Import List NArith ZArith Bool.
Import ListNotations.
From TV Require Import C27.Model.

Inductive range_spec :=
| SFromTo (a b : N)      (* first-byte-pos "-" last-byte-pos *)
| SFrom (a : N)          (* first-byte-pos "-" *)
| SSuffix (n : N).       (* "-" suffix-length *)

Definition all_space (w : text) : Prop := forallb is_space w = true.

(* 1*DIGIT, ASCII digits only, at most 4300 of them (longer runs make int()
   raise, so the code ignores the header: permitted, RFC 7233 3.1 "MAY ignore") *)
Definition digits (d : text) : Prop :=
  d <> [] /\ forallb is_digit d = true /\ (N.of_nat (length d) <= int_max_str_digits)%N.

(* The accepted language:  OWS "bytes" OWS "=" OWS byte-range-spec OWS  with a
   single byte-range-spec or suffix-byte-range-spec; OWS = Python whitespace.
   No signs, no underscores, no inner blanks, no non-ASCII digits, no lists. *)
Inductive denotes : text -> range_spec -> Prop :=
| DFromTo w1 w2 w3 w4 da db :
    all_space w1 -> all_space w2 -> all_space w3 -> all_space w4 -> digits da -> digits db ->
    denotes (w1 ++ s_bytes ++ w2 ++ [61%N] ++ w3 ++ (da ++ [45%N] ++ db) ++ w4)
            (SFromTo (dec_value da) (dec_value db))
| DFrom w1 w2 w3 w4 da :
    all_space w1 -> all_space w2 -> all_space w3 -> all_space w4 -> digits da ->
    denotes (w1 ++ s_bytes ++ w2 ++ [61%N] ++ w3 ++ (da ++ [45%N]) ++ w4)
            (SFrom (dec_value da))
| DSuffix w1 w2 w3 w4 db :
    all_space w1 -> all_space w2 -> all_space w3 -> all_space w4 -> digits db ->
    denotes (w1 ++ s_bytes ++ w2 ++ [61%N] ++ w3 ++ ([45%N] ++ db) ++ w4)
            (SSuffix (dec_value db)).

Definition valid_range_header (h : text) : Prop := exists spec, denotes h spec.

(* The known finding: a value that is a bare digit string, no "-" at all. *)
Definition dashless (h : text) (a : N) : Prop :=
  exists w1 w2 w3 w4 da,
    all_space w1 /\ all_space w2 /\ all_space w3 /\ all_space w4 /\ digits da /\
    h = w1 ++ s_bytes ++ w2 ++ [61%N] ++ w3 ++ da ++ w4 /\ a = dec_value da.

(* RFC 7233 2.1 / 4.4: the byte interval (first, last) selected on a
   representation of [size] bytes, or None when the range is unsatisfiable
   (a from-to range with last < first is treated like an unsatisfiable one,
   as web.py documents). *)
Definition satisfiable (sp : range_spec) (size : N) : option (N * N) :=
  match sp with
  | SFromTo a b => if ((a <? size) && (a <=? b))%N then Some (a, N.min b (size - 1)) else None
  | SFrom a => if (a <? size)%N then Some (a, size - 1)%N else None
  | SSuffix n => if ((n =? 0) || (size =? 0))%N then None else Some (size - N.min n size, size - 1)%N
  end.

(* bytes a..b (inclusive) of the file *)
Definition file_slice (content : list N) (a b : N) : list N :=
  firstn (N.to_nat (b - a + 1)) (skipn (N.to_nat a) content).

Definition content_range_text (a b size : N) : text :=
  s_bytes_sp ++ dec a ++ [45%N] ++ dec b ++ [47%N] ++ dec size.

Definition whole_response (head : bool) (content : list N) : response :=
  {| r_status := 200; r_content_range := None;
     r_content_length := Some (Z.of_nat (length content));
     r_body := if head then [] else content |}.

Definition unsatisfiable_response (content : list N) : response :=
  {| r_status := 416; r_content_range := Some (s_bytes_star ++ dec (N.of_nat (length content)));
     r_content_length := Some 0%Z; r_body := [] |}.

Definition partial_response (head : bool) (content : list N) (a b : N) : response :=
  {| r_status := 206;
     r_content_range := Some (content_range_text a b (N.of_nat (length content)));
     r_content_length := Some (Z.of_N (b - a + 1));
     r_body := if head then [] else file_slice content a b |}.

Definition not_modified_response : response :=
  {| r_status := 304; r_content_range := None; r_content_length := None; r_body := [] |}.

(* the response prescribed for an (effective) range; None = no usable Range header *)
Definition expected_response (head : bool) (content : list N) (sp : option range_spec) : response :=
  let size := N.of_nat (length content) in
  match sp with
  | None => whole_response head content
  | Some s =>
      match satisfiable s size with
      | None => unsatisfiable_response content
      | Some (a, b) =>
          if ((a =? 0) && (b + 1 =? size))%N then whole_response head content
          else partial_response head content a b
      end
  end.

(* The four shapes of the property statement. *)
Definition response_shape (head : bool) (content : list N) (r : response) : Prop :=
  let size := N.of_nat (length content) in
  r = whole_response head content
  \/ (exists a b : N, (a <= b)%N /\ (b < size)%N /\ (b - a + 1 < size)%N /\ r = partial_response head content a b)
  \/ r = unsatisfiable_response content
  \/ r = not_modified_response.

Definition with_range (q : request) (h : option text) : request :=
  {| q_head := q_head q; q_content := q_content q; q_etag := q_etag q; q_inm := q_inm q;
     q_ims := q_ims q; q_mtime := q_mtime q; q_range := h |}.
Definition with_head (q : request) (b : bool) : request :=
  {| q_head := b; q_content := q_content q; q_etag := q_etag q; q_inm := q_inm q;
     q_ims := q_ims q; q_mtime := q_mtime q; q_range := q_range q |}.
Definition without_body (r : response) : response :=
  {| r_status := r_status r; r_content_range := r_content_range r;
     r_content_length := r_content_length r; r_body := [] |}.
Definition not_modified (q : request) : bool :=
  should_return_304 (q_etag q) (q_inm q) (q_ims q) (q_mtime q).

(* ---------- If-None-Match as a list of entity tags (RFC 7232 3.2) ---------- *)
Inductive entity_tag : list N -> Prop :=
| ETStrong b : ~ In 34%N b -> entity_tag (34%N :: b ++ [34%N])                       (* DQUOTE *etagc DQUOTE *)
| ETWeak b : ~ In 34%N b -> entity_tag (87%N :: 47%N :: 34%N :: b ++ [34%N]).        (* W/ DQUOTE ... DQUOTE *)

(* OWS "," OWS between the elements *)
Definition list_sep (s : list N) : Prop := Forall (fun c => c = 32%N \/ c = 9%N \/ c = 44%N) s.

(* sep0 tag1 sep1 tag2 sep2 ... *)
Fixpoint inm_header (sep0 : list N) (items : list (list N * list N)) : list N :=
  match items with
  | [] => sep0
  | (tag, sep) :: rest => sep0 ++ tag ++ inm_header sep rest
  end.

(* weak comparison (RFC 7232 2.3.2): equal after removing a W/ prefix *)
Definition weak_equal (x y : list N) : bool := text_eqb (etag_val x) (etag_val y).
