(* C27 -- Static range and conditional responses.  Executable model of
     tornado/httputil.py  _parse_request_range, _int_or_none, _get_content_range
     tornado/web.py       StaticFileHandler.get (304 decision, range block,
                          Content-Length), get_content, should_return_304,
                          RequestHandler.check_etag_header, and the part of
                          RequestHandler.finish/flush that decides Content-Length
                          and drops the body of a HEAD response.
   Definitions only.  Text = list of code points, bytes = list of byte values. *)
From Coq Require Import List NArith ZArith Bool.
Import ListNotations.

Definition text := list N.

(* ---------- small string helpers ---------- *)
Fixpoint text_eqb (x y : text) : bool :=
  match x, y with
  | [], [] => true
  | a :: x', b :: y' => N.eqb a b && text_eqb x' y'
  | _, _ => false
  end.

Fixpoint dropwhile (p : N -> bool) (s : text) : text :=
  match s with
  | [] => []
  | c :: r => if p c then dropwhile p r else s
  end.

(* str.isspace() / the set removed by str.strip() (CPython 3.12 Unicode db) *)
Definition is_space (c : N) : bool :=
  ((9 <=? c) && (c <=? 13) || (28 <=? c) && (c <=? 32) || (c =? 133) || (c =? 160)
   || (c =? 5760) || (8192 <=? c) && (c <=? 8202) || (c =? 8232) || (c =? 8233)
   || (c =? 8239) || (c =? 8287) || (c =? 12288))%N.

Definition lstrip (s : text) : text := dropwhile is_space s.
Definition rstrip (s : text) : text := rev (dropwhile is_space (rev s)).
Definition strip (s : text) : text := rstrip (lstrip s).

(* str.partition(c): (before, separator found?, after) *)
Fixpoint partition (c : N) (s : text) : text * bool * text :=
  match s with
  | [] => ([], false, [])
  | x :: r =>
      if (x =? c)%N then ([], true, r)
      else let '(a, f, b) := partition c r in (x :: a, f, b)
  end.

(* ---------- decimal numbers ---------- *)
Definition is_digit (c : N) : bool := ((48 <=? c) && (c <=? 57))%N.   (* re [0-9] on str *)

Definition dec_value (s : text) : N :=
  fold_left (fun acc c => (10 * acc + (c - 48))%N) s 0%N.

(* str(int) for a natural number.  The fuel (number of bits + 1) always
   suffices: Proofs.dec_value_dec shows dec_value (dec n) = n for every n. *)
Fixpoint dec_aux (fuel : nat) (n : N) (acc : text) : text :=
  match fuel with
  | O => acc
  | S f =>
      let acc' := (48 + n mod 10)%N :: acc in
      if (n / 10 =? 0)%N then acc' else dec_aux f (n / 10)%N acc'
  end.
Definition dec (n : N) : text := dec_aux (S (N.to_nat (N.size n))) n [].
Definition fmt_int (z : Z) : text :=
  if (z <? 0)%Z then 45%N :: dec (Z.to_N (- z)) else dec (Z.to_N z).

(* ---------- httputil._int_or_none ---------- *)
Inductive ion := IonNone | IonInt (n : N) | IonValueError.

(* sys.get_int_max_str_digits(): int() raises ValueError on longer digit strings *)
Definition int_max_str_digits : N := 4300%N.

Definition int_or_none (v : text) : ion :=
  match v with
  | [] => IonNone
  | _ =>
      if forallb is_digit v then
        if (N.of_nat (length v) <=? int_max_str_digits)%N then IonInt (dec_value v)
        else IonValueError
      else IonValueError
  end.

(* ---------- httputil._parse_request_range ---------- *)
Definition s_bytes : text := [98; 121; 116; 101; 115]%N.          (* "bytes" *)

Definition parse_request_range (h : text) : option (option Z * option Z) :=
  let '(unit0, _, value0) := partition 61 h in                      (* "=" *)
  let unit := strip unit0 in
  let value := strip value0 in
  if negb (text_eqb unit s_bytes) then None
  else
    let '(start_b, _, end_b) := partition 45 value in               (* "-" *)
    match int_or_none start_b with
    | IonValueError => None
    | st =>
        match int_or_none end_b with
        | IonValueError => None
        | IonNone =>
            Some (match st with IonInt a => Some (Z.of_N a) | _ => None end, None)
        | IonInt e =>
            match st with
            | IonInt a => Some (Some (Z.of_N a), Some (Z.of_N e + 1)%Z)
            | _ => if (e =? 0)%N then Some (None, Some 0%Z)
                   else Some (Some (- Z.of_N e)%Z, None)
            end
        end
    end.

(* ---------- httputil._get_content_range ---------- *)
(* Python `x or d` for x : int | None *)
Definition py_or (x : option Z) (d : Z) : Z :=
  match x with
  | Some v => if (v =? 0)%Z then d else v
  | None => d
  end.

Definition s_bytes_sp : text := [98; 121; 116; 101; 115; 32]%N.    (* "bytes " *)
Definition s_bytes_star : text := [98; 121; 116; 101; 115; 32; 42; 47]%N.  (* "bytes */" *)

Definition get_content_range (start end_ : option Z) (total : Z) : text :=
  let s := py_or start 0 in
  let e := (py_or end_ total - 1)%Z in
  s_bytes_sp ++ fmt_int s ++ [45%N] ++ fmt_int e ++ [47%N] ++ fmt_int total.

(* ---------- StaticFileHandler.get_content ---------- *)
(* None = the generator would fail (seek to a negative offset, or the
   `assert remaining == 0` at end of file). *)
Definition get_content (content : list N) (start end_ : option Z) : option (list N) :=
  match (match start with
         | Some s => if (s <? 0)%Z then None else Some (skipn (Z.to_nat s) content)
         | None => Some content
         end) with
  | None => None
  | Some rest =>
      match end_ with
      | None => Some rest
      | Some e =>
          let remaining := (e - py_or start 0)%Z in
          if (remaining <? 0)%Z then None
          else if (Z.of_nat (length rest) <? remaining)%Z then None
          else Some (firstn (Z.to_nat remaining) rest)
      end
  end.

(* ---------- RequestHandler.check_etag_header ---------- *)
(* re.findall over the pattern  STAR | (W/)? DQUOTE [^DQUOTE]* DQUOTE  (DQUOTE = 34,
   STAR = 42): leftmost, non-overlapping matches *)
Fixpoint find_quote (s : list N) : option (list N) :=
  match s with
  | [] => None
  | c :: r => if (c =? 34)%N then Some []
              else match find_quote r with Some b => Some (c :: b) | None => None end
  end.

(* a match of the pattern starting exactly at the head of s: (token, its length) *)
Definition match_at (s : list N) : option (list N * nat) :=
  match s with
  | [] => None
  | c :: r =>
      if (c =? 42)%N then Some ([42%N], 1%nat)
      else if (c =? 34)%N then
        match find_quote r with
        | Some b => Some (34%N :: b ++ [34%N], (2 + length b)%nat)
        | None => None
        end
      else if (c =? 87)%N then
        match r with
        | c1 :: c2 :: r' =>
            if ((c1 =? 47) && (c2 =? 34))%N then
              match find_quote r' with
              | Some b => Some (87%N :: 47%N :: 34%N :: b ++ [34%N], (4 + length b)%nat)
              | None => None
              end
            else None
        | _ => None
        end
      else None
  end.

(* skip = characters of the previous match still to be stepped over *)
Fixpoint findall_from (s : list N) (skip : nat) : list (list N) :=
  match s with
  | [] => []
  | c :: r =>
      match skip with
      | S k => findall_from r k
      | O =>
          match match_at s with
          | Some (tok, len) => tok :: findall_from r (pred len)
          | None => findall_from r O
          end
      end
  end.
Definition findall_etags (s : list N) : list (list N) := findall_from s 0.

Definition etag_val (x : list N) : list N :=
  match x with
  | 87%N :: 47%N :: r => r
  | _ => x
  end.

Definition check_etag_header (computed_etag if_none_match : list N) : bool :=
  let etags := findall_etags if_none_match in
  match computed_etag, etags with
  | [], _ => false
  | _, [] => false
  | _, first :: _ =>
      if text_eqb first [42%N] then true
      else existsb (fun t => text_eqb (etag_val t) (etag_val computed_etag)) etags
  end.

(* ---------- StaticFileHandler.should_return_304 ---------- *)
(* If-Modified-Since is abstracted by the result of
   email.utils.parsedate_to_datetime (external): None = header absent,
   Some None = it raised, Some (Some t) = seconds since the epoch (naive
   values taken as UTC, as the handler does). *)
Definition should_return_304 (etag : list N) (inm : option (list N))
           (ims : option (option Z)) (mtime : Z) : bool :=
  let by_ims := match ims with
                | Some (Some t) => (mtime <=? t)%Z
                | _ => false
                end in
  match inm with
  | Some (c :: v) => check_etag_header etag (c :: v)
  | _ => by_ims
  end.

(* ---------- StaticFileHandler.get + RequestHandler.finish ---------- *)
Record response := {
  r_status : Z;
  r_content_range : option text;
  r_content_length : option Z;
  r_body : list N
}.
Inductive outcome := Resp (r : response) | InternalError.

Record request := {
  q_head : bool;                       (* HEAD instead of GET *)
  q_content : list N;                  (* the file *)
  q_etag : list N;                     (* value of the Etag header set by set_headers (sha512, external) *)
  q_inm : option (list N);             (* utf8(If-None-Match) *)
  q_ims : option (option Z);           (* abstract If-Modified-Since, see above *)
  q_mtime : Z;                         (* int(st_mtime) *)
  q_range : option text                (* Range header *)
}.

Inductive range_step :=
| Unsatisfiable
| Serve (content_range : option text) (start end_ : option Z).

(* the `if request_range:` block of get(); size = get_content_size() *)
Definition range_block (request_range : option (option Z * option Z)) (size : Z) : range_step :=
  match request_range with
  | None => Serve None None None
  | Some (start0, end0) =>
      let start :=
        match start0 with
        | Some s => if (s <? 0)%Z
                    then (let s' := (s + size)%Z in if (s' <? 0)%Z then Some 0%Z else Some s')
                    else Some s
        | None => None
        end in
      let unsat :=
        (match start with
         | Some s => (size <=? s)%Z
                     || (match end0 with Some e => (e <=? s)%Z | None => false end)
         | None => false
         end)
        || (match end0 with Some e => (e =? 0)%Z | None => false end) in
      if unsat then Unsatisfiable
      else
        let end_ := match end0 with
                    | Some e => if (size <? e)%Z then Some size else Some e
                    | None => None
                    end in
        if negb (size =? py_or end_ size - py_or start 0)%Z
        then Serve (Some (get_content_range start end_ size)) start end_
        else Serve None start end_
  end.

Definition content_length_of (start end_ : option Z) (size : Z) : Z :=
  match start, end_ with
  | Some s, Some e => (e - s)%Z
  | None, Some e => e
  | Some s, None => (size - s)%Z
  | None, None => size
  end.

Definition static_get (q : request) : outcome :=
  if should_return_304 (q_etag q) (q_inm q) (q_ims q) (q_mtime q) then
    (* set_status(304); finish(): representation headers cleared, no Content-Length *)
    Resp {| r_status := 304; r_content_range := None; r_content_length := None; r_body := [] |}
  else
    let request_range :=
      match q_range q with
      | Some (c :: h) => parse_request_range (c :: h)      (* `if range_header:` *)
      | _ => None
      end in
    let size := Z.of_nat (length (q_content q)) in
    match range_block request_range size with
    | Unsatisfiable =>
        (* Content-Length: 0 is added by finish() (empty write buffer) *)
        Resp {| r_status := 416; r_content_range := Some (s_bytes_star ++ fmt_int size);
                r_content_length := Some 0%Z; r_body := [] |}
    | Serve cr start end_ =>
        let status := match cr with Some _ => 206%Z | None => 200%Z end in
        let cl := content_length_of start end_ size in
        if q_head q then
          Resp {| r_status := status; r_content_range := cr; r_content_length := Some cl; r_body := [] |}
        else
          match get_content (q_content q) start end_ with
          | Some body =>
              Resp {| r_status := status; r_content_range := cr; r_content_length := Some cl; r_body := body |}
          | None => InternalError
          end
    end.

(* ---------- StaticFileHandler.get_content, chunk by chunk ---------- *)
(* The generator of get_content as a loop: `file.read(chunk_size)` with
   chunk_size = min(remaining, 64 KiB); every non-empty chunk is yielded
   (and written + flushed by get()); an empty read ends the loop through
   `assert remaining == 0`.  LoopFailed = OSError on seek / AssertionError. *)
Definition chunk_max : Z := 65536%Z.

Inductive loop_result := LoopDone (cs : list (list N)) | LoopFailed | LoopOutOfFuel.
Definition lr_cons (c : list N) (r : loop_result) : loop_result :=
  match r with LoopDone cs => LoopDone (c :: cs) | x => x end.

Fixpoint content_loop (fuel : nat) (cmax : Z) (rest : list N) (remaining : option Z) : loop_result :=
  match fuel with
  | O => LoopOutOfFuel
  | S f =>
      let chunk_size := match remaining with
                        | Some r => if (r <? cmax)%Z then r else cmax
                        | None => cmax
                        end in
      (* file.read(k): everything when k < 0 *)
      let chunk := if (chunk_size <? 0)%Z then rest else firstn (Z.to_nat chunk_size) rest in
      let rest' := if (chunk_size <? 0)%Z then [] else skipn (Z.to_nat chunk_size) rest in
      match chunk with
      | [] => match remaining with
              | Some r => if (r =? 0)%Z then LoopDone [] else LoopFailed
              | None => LoopDone []
              end
      | _ :: _ =>
          lr_cons chunk
            (content_loop f cmax rest'
               (match remaining with
                | Some r => Some (r - Z.of_nat (length chunk))%Z
                | None => None
                end))
      end
  end.

Definition get_content_chunks (cmax : Z) (content : list N) (start end_ : option Z) : loop_result :=
  match (match start with
         | Some s => if (s <? 0)%Z then None else Some (skipn (Z.to_nat s) content)
         | None => Some content
         end) with
  | None => LoopFailed
  | Some rest =>
      content_loop (S (S (length content))) cmax rest
        (match end_ with Some e => Some (e - py_or start 0)%Z | None => None end)
  end.

(* the sequence of chunks get() hands to write()+flush() for request q *)
Definition static_get_chunks (cmax : Z) (q : request) : loop_result :=
  if should_return_304 (q_etag q) (q_inm q) (q_ims q) (q_mtime q) then LoopDone []
  else
    let request_range :=
      match q_range q with
      | Some (c :: h) => parse_request_range (c :: h)
      | _ => None
      end in
    match range_block request_range (Z.of_nat (length (q_content q))) with
    | Unsatisfiable => LoopDone []
    | Serve _ start end_ =>
        if q_head q then LoopDone []
        else get_content_chunks cmax (q_content q) start end_
    end.
