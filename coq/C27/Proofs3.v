(* C27 proofs, part 3: _parse_request_range accepts exactly the grammar of
   Spec.v (plus the empty forms and the dash-less form), with the right value. *)
From Coq Require Import List NArith ZArith Bool Lia.
Import ListNotations.
From TV Require Import C27.Model C27.Spec C27.Proofs1 C27.Proofs2.

Local Open Scope N_scope.

Lemma all_space_no (x : N) w : all_space w -> is_space x = false -> ~ In x w.
Proof. intros H Hx. eapply forallb_not_in; eauto. Qed.

Lemma digits_no (x : N) d : digits d -> is_digit x = false -> ~ In x d.
Proof. intros (_ & H & _) Hx. eapply forallb_not_in; eauto. Qed.

Lemma s_bytes_no (x : N) : x = 61 \/ x = 45 -> ~ In x s_bytes.
Proof. intros [-> | ->]; simpl; intuition discriminate. Qed.

Lemma strip_unit w1 w2 : all_space w1 -> all_space w2 -> strip (w1 ++ s_bytes ++ w2) = s_bytes.
Proof.
  intros H1 H2. change s_bytes with (98 :: [121; 116; 101] ++ [115]).
  apply strip_sandwich; auto.
Qed.

Lemma partition_unit w1 w2 rest : all_space w1 -> all_space w2 ->
  partition 61 (w1 ++ s_bytes ++ w2 ++ [61] ++ rest) = (w1 ++ s_bytes ++ w2, true, rest).
Proof.
  intros H1 H2.
  replace (w1 ++ s_bytes ++ w2 ++ [61] ++ rest) with ((w1 ++ s_bytes ++ w2) ++ 61 :: rest)
    by (rewrite <- !app_assoc; reflexivity).
  apply partition_found. intro Hin.
  apply in_app_or in Hin as [Hin|Hin]; [revert Hin; apply all_space_no; auto|].
  apply in_app_or in Hin as [Hin|Hin]; [revert Hin; apply s_bytes_no; auto|].
  revert Hin; apply all_space_no; auto.
Qed.

Lemma digits_head d : digits d -> exists c r, d = c :: r /\ is_space c = false.
Proof.
  intros (Hne & Hd & _). destruct d as [|c r]; [congruence|]. exists c, r. split; auto.
  cbn [forallb] in Hd. apply andb_true_iff in Hd as [Hc _]. apply digit_not in Hc. tauto.
Qed.

Lemma digits_last d : digits d -> exists r c, d = r ++ [c] /\ is_space c = false.
Proof.
  intros (Hne & Hd & _). destruct (exists_last Hne) as (r & c & ->). exists r, c. split; auto.
  rewrite forallb_app in Hd. apply andb_true_iff in Hd as [_ Hc]. cbn [forallb] in Hc.
  apply andb_true_iff in Hc as [Hc _]. apply digit_not in Hc. tauto.
Qed.

Lemma strip_value w3 w4 x : all_space w3 -> all_space w4 ->
  (exists c1 mid c2, x = c1 :: mid ++ [c2] /\ is_space c1 = false /\ is_space c2 = false) ->
  strip (w3 ++ x ++ w4) = x.
Proof. intros H3 H4 (c1 & mid & c2 & -> & Hc1 & Hc2). apply strip_sandwich; auto. Qed.

(* ---------- completeness: every header of the grammar is parsed to its value ---------- *)
Lemma parse_complete h sp : denotes h sp -> parse_request_range h = Some (enc sp).
Proof.
  intros D. destruct D as [w1 w2 w3 w4 da db H1 H2 H3 H4 Ha Hb
                          |w1 w2 w3 w4 da H1 H2 H3 H4 Ha
                          |w1 w2 w3 w4 db H1 H2 H3 H4 Hb];
    unfold parse_request_range; rewrite partition_unit by auto;
    rewrite strip_unit by auto; rewrite text_eqb_refl; cbn [negb].
  - destruct (digits_head _ Ha) as (c1 & ra & Ea & Hc1).
    destruct (digits_last _ Hb) as (rb & c2 & Eb & Hc2).
    rewrite strip_value; auto.
    + change (da ++ [45] ++ db) with (da ++ 45 :: db).
      rewrite partition_found by (apply digits_no; auto).
      rewrite (int_or_none_digits _ Ha), (int_or_none_digits _ Hb). reflexivity.
    + exists c1, (ra ++ [45] ++ rb), c2. subst da db. rewrite <- !app_assoc. auto.
  - destruct (digits_head _ Ha) as (c1 & ra & Ea & Hc1).
    rewrite strip_value; auto.
    + rewrite partition_found by (apply digits_no; auto).
      rewrite (int_or_none_digits _ Ha). reflexivity.
    + exists c1, ra, 45. subst da. auto.
  - destruct (digits_last _ Hb) as (rb & c2 & Eb & Hc2).
    rewrite strip_value; auto.
    + change ([45] ++ db) with ([] ++ 45 :: db).
      rewrite (partition_found 45 [] db) by (intros []).
      rewrite (int_or_none_digits _ Hb). cbn [int_or_none enc].
      destruct (dec_value db =? 0); reflexivity.
    + exists 45, rb, c2. subst db. auto.
Qed.

Lemma denotes_nonempty h sp : denotes h sp -> exists c r, h = c :: r.
Proof.
  assert (G : forall w x : text, exists c r, w ++ s_bytes ++ x = c :: r).
  { intros [|c w] x; cbn [app s_bytes]; eauto. }
  intros D; destruct D; apply G.
Qed.

Lemma denotes_has_dash h sp : denotes h sp -> In 45 h.
Proof.
  intros D; destruct D; rewrite !in_app_iff; cbn [In]; intuition auto.
Qed.

(* ---------- soundness: whatever the parser accepts is in the grammar ---------- *)
Lemma parse_sound h r : parse_request_range h = Some r ->
  r = (None, None)
  \/ exists sp, r = enc sp /\ (denotes h sp \/ exists a, sp = SFrom a /\ dashless h a).
Proof.
  unfold parse_request_range.
  destruct (partition 61 h) as [[unit0 f1] value0] eqn:P1.
  destruct (negb (text_eqb (strip unit0) s_bytes)) eqn:Eu; [discriminate|].
  apply negb_false_iff, text_eqb_eq in Eu.
  destruct (partition 45 (strip value0)) as [[sb f2] eb] eqn:P2.
  apply partition_spec in P1 as (_ & P1). apply partition_spec in P2 as (Hnd & P2).
  destruct (strip_decomp unit0) as (l1 & r1 & Hu & Hl1 & Hr1). rewrite Eu in Hu.
  destruct (strip_decomp value0) as (l2 & r2 & Hv & Hl2 & Hr2).
  (* without "=" the value is empty *)
  assert (Hf1 : f1 = false -> sb = [] /\ eb = []).
  { intro F. destruct P1 as [[F1 _]|[_ [_ Hv0]]]; [congruence|].
    subst value0. change (strip []) with (@nil N) in P2.
    destruct P2 as [[_ P2]|[_ [P2 P2']]]; [destruct sb; discriminate|auto]. }
  assert (Hh : f1 = true -> forall x, strip value0 = x ->
               h = l1 ++ s_bytes ++ r1 ++ [61] ++ l2 ++ x ++ r2).
  { intros F x Hx. destruct P1 as [[_ P1]|[F1 _]]; [|congruence].
    rewrite P1, Hu, Hv, Hx. rewrite <- !app_assoc. reflexivity. }
  destruct (int_or_none sb) as [|a|] eqn:Ia; [|
    |discriminate].
  - (* no first position *)
    apply int_or_none_none in Ia. subst sb.
    destruct (int_or_none eb) as [|e|] eqn:Ie; [| |discriminate].
    + intro H; inversion H. left; reflexivity.
    + apply int_or_none_int in Ie as (Hd & ->).
      assert (F1 : f1 = true).
      { destruct f1; auto. destruct (Hf1 eq_refl) as [_ ->]. destruct Hd as [Hd _]. congruence. }
      assert (F2 : strip value0 = [45] ++ eb).
      { destruct P2 as [[_ P2]|[_ [_ P2]]]; [exact P2|]. subst eb. destruct Hd as [Hd _]. congruence. }
      intro H. right. exists (SSuffix (dec_value eb)). split.
      * cbn [enc]. destruct (dec_value eb =? 0); inversion H; reflexivity.
      * left. rewrite (Hh F1 _ F2). constructor; auto.
  - (* first position a *)
    apply int_or_none_int in Ia as (Hda & ->).
    assert (F1 : f1 = true).
    { destruct f1; auto. destruct (Hf1 eq_refl) as [-> _]. destruct Hda as [Hd _]. congruence. }
    destruct (int_or_none eb) as [|e|] eqn:Ie; [| |discriminate].
    + apply int_or_none_none in Ie. subst eb.
      intro H; inversion H. right. exists (SFrom (dec_value sb)). split; [reflexivity|].
      destruct P2 as [[_ P2]|[_ [P2 _]]].
      * left. rewrite (Hh F1 _ P2). change (sb ++ [45]) with (sb ++ [45]). constructor; auto.
      * right. exists (dec_value sb). split; [reflexivity|].
        exists l1, r1, l2, r2, sb.
        refine (conj Hl1 (conj Hr1 (conj Hl2 (conj Hr2 (conj Hda (conj _ eq_refl)))))).
        apply (Hh F1 _ P2).
    + apply int_or_none_int in Ie as (Hdb & ->).
      assert (F2 : strip value0 = sb ++ [45] ++ eb).
      { destruct P2 as [[_ P2]|[_ [_ P2]]]; [exact P2|]. subst eb. destruct Hdb as [Hd _]. congruence. }
      intro H; inversion H. right. exists (SFromTo (dec_value sb) (dec_value eb)). split; [reflexivity|].
      left. rewrite (Hh F1 _ F2). constructor; auto.
Qed.

Lemma parse_cases h :
  parse_request_range h = None \/ parse_request_range h = Some (None, None)
  \/ exists sp, parse_request_range h = Some (enc sp).
Proof.
  destruct (parse_request_range h) as [r|] eqn:E; [|auto].
  right. apply parse_sound in E as [->|(sp & -> & _)]; eauto.
Qed.
