(* C27 proofs, part 7: the chunked read loop of get_content refines the slice. *)
From Coq Require Import List NArith ZArith Bool Lia.
Import ListNotations.
From TV Require Import C27.Model C27.Spec C27.Proofs1 C27.Proofs2 C27.Proofs3 C27.Proofs4.

Definition chunk_ok (cmax : Z) (c : list N) : Prop := c <> [] /\ (Z.of_nat (length c) <= cmax)%Z.

Lemma firstn_plus {A} (a b : nat) (l : list A) :
  firstn (a + b) l = firstn a l ++ firstn b (skipn a l).
Proof.
  revert l; induction a as [|a IH]; intro l; [reflexivity|].
  destruct l as [|x l]; cbn [Nat.add firstn skipn app].
  - rewrite firstn_nil. reflexivity.
  - rewrite IH. reflexivity.
Qed.

(* reading to the end of the file *)
Lemma content_loop_none cmax : (0 < cmax)%Z -> forall fuel rest,
  (length rest < fuel)%nat ->
  exists cs, content_loop fuel cmax rest None = LoopDone cs /\ concat cs = rest /\ Forall (chunk_ok cmax) cs.
Proof.
  intros Hc. induction fuel as [|f IH]; intros rest Hf; [lia|].
  cbn [content_loop].
  destruct (cmax <? 0)%Z eqn:E; [apply Z.ltb_lt in E; lia|].
  destruct (firstn (Z.to_nat cmax) rest) as [|x ch] eqn:Ech.
  - exists []. assert (rest = []).
    { destruct rest as [|y r]; auto. assert (Z.to_nat cmax = S (Z.to_nat cmax - 1)) as Hk by lia.
      rewrite Hk in Ech. discriminate. }
    subst. repeat split; auto.
  - assert (Hlen : length (x :: ch) = Nat.min (Z.to_nat cmax) (length rest)) by (rewrite <- Ech; apply firstn_length).
    destruct (IH (skipn (Z.to_nat cmax) rest)) as (cs & E1 & E2 & E3).
    { rewrite skipn_length. cbn [length] in Hlen. lia. }
    rewrite E1. cbn [lr_cons]. exists ((x :: ch) :: cs). repeat split.
    + cbn [concat]. rewrite E2, <- Ech. apply firstn_skipn.
    + constructor; auto. split; [discriminate|]. lia.
Qed.

(* reading exactly r more bytes, r <= what is left *)
Lemma content_loop_some cmax : (0 < cmax)%Z -> forall fuel rest r,
  (length rest < fuel)%nat -> (0 <= r <= Z.of_nat (length rest))%Z ->
  exists cs, content_loop fuel cmax rest (Some r) = LoopDone cs
             /\ concat cs = firstn (Z.to_nat r) rest /\ Forall (chunk_ok cmax) cs.
Proof.
  intros Hc. induction fuel as [|f IH]; intros rest r Hf Hr; [lia|].
  cbn [content_loop].
  set (k := if (r <? cmax)%Z then r else cmax).
  assert (Hk : (0 <= k <= r)%Z /\ (k <= cmax)%Z /\ (k = 0 -> r = 0)%Z).
  { subst k. destruct (r <? cmax)%Z eqn:E; [apply Z.ltb_lt in E|apply Z.ltb_ge in E]; lia. }
  destruct (k <? 0)%Z eqn:E; [apply Z.ltb_lt in E; lia|].
  destruct (firstn (Z.to_nat k) rest) as [|x ch] eqn:Ech.
  - assert (r = 0%Z).
    { destruct (Z.eq_dec k 0) as [K|K]; [tauto|].
      destruct rest as [|y rr]; [cbn [length] in Hr; lia|].
      assert (Z.to_nat k = S (Z.to_nat k - 1)) as Hk' by lia. rewrite Hk' in Ech. discriminate. }
    subst r. cbn [Z.eqb]. exists []. repeat split; auto.
  - assert (Hlen : length (x :: ch) = Z.to_nat k).
    { rewrite <- Ech, firstn_length. lia. }
    destruct (IH (skipn (Z.to_nat k) rest) (r - Z.of_nat (length (x :: ch)))%Z) as (cs & E1 & E2 & E3).
    { rewrite skipn_length. cbn [length] in Hlen. lia. }
    { rewrite skipn_length, Hlen. lia. }
    rewrite E1. cbn [lr_cons]. exists ((x :: ch) :: cs). repeat split.
    + cbn [concat]. rewrite E2, Hlen, <- Ech.
      replace (Z.to_nat r) with (Z.to_nat k + Z.to_nat (r - Z.of_nat (Z.to_nat k)))%nat by lia.
      symmetry. apply firstn_plus.
    + constructor; auto. split; [discriminate|]. rewrite Hlen. lia.
Qed.

(* the chunked loop yields exactly the slice computed by get_content, in pieces of 1..cmax bytes *)
Lemma get_content_chunks_refines cmax content start end_ body :
  (0 < cmax)%Z -> get_content content start end_ = Some body ->
  exists cs, get_content_chunks cmax content start end_ = LoopDone cs
             /\ concat cs = body /\ Forall (chunk_ok cmax) cs.
Proof.
  intros Hc. unfold get_content, get_content_chunks.
  destruct (match start with
            | Some s => if (s <? 0)%Z then None else Some (skipn (Z.to_nat s) content)
            | None => Some content
            end) as [rest|] eqn:Es; [|discriminate].
  assert (Hrest : (length rest <= length content)%nat).
  { destruct start as [s|]; [destruct (s <? 0)%Z; [discriminate|]|]; inversion Es; subst; [rewrite skipn_length|]; lia. }
  destruct end_ as [e|].
  - destruct (e - py_or start 0 <? 0)%Z eqn:E1; [discriminate|].
    destruct (Z.of_nat (length rest) <? e - py_or start 0)%Z eqn:E2; [discriminate|].
    intro H; inversion H; subst body. apply Z.ltb_ge in E1, E2.
    apply content_loop_some; auto; lia.
  - intro H; inversion H; subst body. apply content_loop_none; auto; lia.
Qed.

Lemma static_get_chunks_refines cmax q r :
  (0 < cmax)%Z -> static_get q = Resp r ->
  exists cs, static_get_chunks cmax q = LoopDone cs
             /\ concat cs = r_body r /\ Forall (chunk_ok cmax) cs.
Proof.
  intros Hc. unfold static_get, static_get_chunks.
  destruct (should_return_304 _ _ _ _).
  - intro H; inversion H. exists []. repeat split; auto.
  - destruct (range_block _ _) as [|cr s e].
    + intro H; inversion H. exists []. repeat split; auto.
    + destruct (q_head q).
      * intro H; inversion H. exists []. repeat split; auto.
      * destruct (get_content (q_content q) s e) as [body|] eqn:G; [|discriminate].
        intro H; inversion H. cbn [r_body]. apply get_content_chunks_refines; auto.
Qed.

(* and since static_get never fails, the loop never fails or runs out of fuel *)
Lemma static_get_chunks_total cmax q :
  (0 < cmax)%Z ->
  exists r cs, static_get q = Resp r /\ static_get_chunks cmax q = LoopDone cs
               /\ concat cs = r_body r /\ Forall (chunk_ok cmax) cs.
Proof.
  intro Hc. destruct (static_get_shape q) as (r & E & _).
  destruct (static_get_chunks_refines cmax q r Hc E) as (cs & H). exists r, cs. tauto.
Qed.
