(* C27 proofs, part 6: the 304 decision -- If-None-Match lists with weak
   comparison, If-Modified-Since, and its precedence over Range. *)
From Coq Require Import List NArith ZArith Bool Lia.
Import ListNotations.
From TV Require Import C27.Model C27.Spec C27.Proofs1 C27.Proofs2 C27.Proofs3 C27.Proofs4 C27.Proofs5.

Local Open Scope N_scope.

Lemma findall_skip a rest : findall_from (a ++ rest) (length a) = findall_from rest 0.
Proof.
  induction a as [|c a IH]; cbn [app length].
  - destruct rest; reflexivity.
  - cbn [findall_from]. exact IH.
Qed.

Lemma match_at_tag tok rest : entity_tag tok -> match_at (tok ++ rest) = Some (tok, length tok).
Proof.
  intros [b Hb|b Hb].
  - cbn [app match_at]. change (34 =? 42) with false. change (34 =? 34) with true. cbn iota.
    rewrite <- app_assoc. cbn [app]. rewrite find_quote_app by exact Hb.
    f_equal. f_equal. cbn [length]. rewrite app_length. cbn [length]. lia.
  - cbn [app match_at]. change (87 =? 42) with false. change (87 =? 34) with false.
    change (87 =? 87) with true. change ((47 =? 47) && (34 =? 34)) with true. cbn iota.
    rewrite <- app_assoc. cbn [app]. rewrite find_quote_app by exact Hb.
    f_equal. f_equal. cbn [length]. rewrite app_length. cbn [length]. lia.
Qed.

Lemma findall_tag tok rest : entity_tag tok -> findall_from (tok ++ rest) 0 = tok :: findall_from rest 0.
Proof.
  intro T. pose proof (match_at_tag tok rest T) as M.
  destruct tok as [|c r]; [inversion T|].
  cbn [app findall_from]. cbn [app] in M. rewrite M. f_equal.
  cbn [length pred]. apply findall_skip.
Qed.

Lemma findall_sep s rest : list_sep s -> findall_from (s ++ rest) 0 = findall_from rest 0.
Proof.
  induction 1 as [|c s Hc _ IH]; [reflexivity|].
  cbn [app findall_from].
  assert (M : forall t, match_at (c :: t) = None).
  { intro t. destruct Hc as [-> | [-> | ->]]; reflexivity. }
  rewrite M. exact IH.
Qed.

Lemma findall_inm_header sep0 items :
  list_sep sep0 -> Forall (fun it => entity_tag (fst it) /\ list_sep (snd it)) items ->
  findall_etags (inm_header sep0 items) = map fst items.
Proof.
  unfold findall_etags. revert sep0. induction items as [|[tag sep] items IH]; intros sep0 H0 H.
  - cbn [inm_header map]. rewrite <- (app_nil_r sep0), findall_sep by exact H0. reflexivity.
  - inversion H as [|x l [Ht Hs] Hrest]; subst. cbn [fst snd] in *.
    cbn [inm_header map fst]. rewrite findall_sep by exact H0.
    rewrite findall_tag by exact Ht. f_equal. apply IH; auto.
Qed.

Lemma tag_not_star tok : entity_tag tok -> text_eqb tok [42] = false.
Proof. intros [b _|b _]; reflexivity. Qed.

(* If-None-Match = a list of entity tags: 304 iff one of them weakly equals the file's tag *)
Lemma inm_list_weak_comparison etag sep0 items :
  etag <> [] -> items <> [] ->
  list_sep sep0 -> Forall (fun it => entity_tag (fst it) /\ list_sep (snd it)) items ->
  check_etag_header etag (inm_header sep0 items)
  = existsb (fun it => weak_equal (fst it) etag) items.
Proof.
  intros He Hi H0 H. unfold check_etag_header. rewrite findall_inm_header by auto.
  destruct etag as [|e etag]; [congruence|].
  assert (G : forall l : list (list N * list N),
            existsb (fun t => text_eqb (etag_val t) (etag_val (e :: etag))) (map fst l)
            = existsb (fun it => weak_equal (fst it) (e :: etag)) l).
  { induction l as [|[t s] l IH]; [reflexivity|]. cbn [map existsb fst]. rewrite IH. reflexivity. }
  rewrite <- G.
  destruct items as [|[tag sep] items]; [congruence|].
  inversion H as [|x l [Ht _] _]; subst. cbn [fst] in Ht.
  cbn [map fst]. rewrite (tag_not_star _ Ht). reflexivity.
Qed.

Lemma inm_header_nonempty sep0 items : items <> [] ->
  Forall (fun it => entity_tag (fst it) /\ list_sep (snd it)) items ->
  exists c v, inm_header sep0 items = c :: v.
Proof.
  intros Hi H. destruct items as [|[tag sep] items]; [congruence|].
  inversion H as [|x l [Ht _] _]; subst. cbn [fst] in Ht. cbn [inm_header].
  destruct sep0 as [|c s]; [|cbn [app]; eauto].
  destruct Ht; cbn [app]; eauto.
Qed.

Lemma not_modified_inm_list q sep0 items :
  q_etag q <> [] -> items <> [] ->
  list_sep sep0 -> Forall (fun it => entity_tag (fst it) /\ list_sep (snd it)) items ->
  q_inm q = Some (inm_header sep0 items) ->
  not_modified q = existsb (fun it => weak_equal (fst it) (q_etag q)) items.
Proof.
  intros He Hi H0 H Hq. unfold not_modified, should_return_304. rewrite Hq.
  destruct (inm_header_nonempty sep0 items Hi H) as (c & v & E). rewrite E, <- E.
  apply inm_list_weak_comparison; auto.
Qed.

(* If-Modified-Since is consulted only when If-None-Match is absent or empty *)
Lemma not_modified_by_date q :
  (q_inm q = None \/ q_inm q = Some []) ->
  not_modified q = match q_ims q with Some (Some t) => (q_mtime q <=? t)%Z | _ => false end.
Proof. unfold not_modified, should_return_304. intros [-> | ->]; reflexivity. Qed.

Lemma not_modified_ignores_date q c v ims :
  q_inm q = Some (c :: v) ->
  not_modified q = should_return_304 (q_etag q) (q_inm q) ims (q_mtime q).
Proof. unfold not_modified, should_return_304. intros ->. reflexivity. Qed.

(* the 304 decision comes first: a not-modified file answers 304 whatever the Range header is
   (also an unsatisfiable or malformed one), and Range never changes the decision *)
Lemma not_modified_precedes_range q h :
  not_modified q = true -> static_get (with_range q h) = Resp not_modified_response.
Proof. intro H. apply static_get_not_modified. exact H. Qed.
