(* C27 proofs, part 4: the statements of Property.v *)
From Coq Require Import List NArith ZArith Bool Lia.
Import ListNotations.
From TV Require Import Lib.Obs C27.Model C27.Spec C27.Run C27.Proofs1 C27.Proofs2 C27.Proofs3.

Local Open Scope N_scope.

(* ---------- the response in every case ---------- *)
Lemma static_get_not_modified q : not_modified q = true -> static_get q = Resp not_modified_response.
Proof. intro H. rewrite static_get_unfold, H. reflexivity. Qed.

Lemma static_get_valid q h sp :
  not_modified q = false -> q_range q = Some h -> denotes h sp ->
  static_get q = Resp (expected_response (q_head q) (q_content q) (Some sp)).
Proof.
  intros H3 Hr D. rewrite static_get_unfold, H3, Hr.
  destruct (denotes_nonempty _ _ D) as (c & r & ->). cbn [request_range_of].
  rewrite (parse_complete _ _ D). apply after_304_enc.
Qed.

Lemma parse_dashless h a : dashless h a -> (exists c r, h = c :: r) /\ parse_request_range h = Some (enc (SFrom a)).
Proof.
  intros (w1 & w2 & w3 & w4 & da & H1 & H2 & H3 & H4 & Hd & -> & ->). split.
  - destruct w1; cbn [app s_bytes]; eauto.
  - unfold parse_request_range. rewrite partition_unit by auto. rewrite strip_unit by auto.
    rewrite text_eqb_refl. cbn [negb].
    assert (Hs : strip (w3 ++ da ++ w4) = da).
    { destruct (digits_head _ Hd) as (c1 & ra & Ea & Hc1). destruct (digits_last _ Hd) as (rb & c2 & Eb & Hc2).
      destruct ra as [|c ra].
      - (* one digit *)
        subst da. unfold strip. rewrite lstrip_app by auto. cbn [app]. rewrite lstrip_nonspace by auto.
        change (c1 :: w4) with ([] ++ [c1] ++ w4). rewrite app_assoc, rstrip_app by auto. cbn [app].
        apply (rstrip_snoc [] c1 Hc1).
      - apply strip_value; auto. rewrite Ea in Eb.
        destruct (exists_last (l := c :: ra) ltac:(discriminate)) as (m & x & Em).
        exists c1, m, x. rewrite Ea, Em. split; [reflexivity|]. split; auto.
        assert (x = c2).
        { rewrite Em in Eb. change (c1 :: m ++ [x]) with ((c1 :: m) ++ [x]) in Eb.
          apply app_inj_tail in Eb. tauto. }
        subst x. exact Hc2. }
    rewrite Hs. rewrite partition_absent by (apply digits_no; auto).
    rewrite (int_or_none_digits _ Hd). reflexivity.
Qed.

Lemma static_get_dashless q h a :
  not_modified q = false -> q_range q = Some h -> dashless h a ->
  static_get q = Resp (expected_response (q_head q) (q_content q) (Some (SFrom a))).
Proof.
  intros H3 Hr D. rewrite static_get_unfold, H3, Hr.
  destruct (parse_dashless _ _ D) as ((c & r & ->) & P). cbn [request_range_of].
  rewrite P. apply after_304_enc.
Qed.

Lemma static_get_invalid q :
  not_modified q = false ->
  (q_range q = None \/ exists h, q_range q = Some h /\ ~ valid_range_header h /\ ~ (exists a, dashless h a)) ->
  static_get q = Resp (expected_response (q_head q) (q_content q) None).
Proof.
  intros H3 Hr. rewrite static_get_unfold, H3.
  destruct Hr as [->|(h & -> & Hnv & Hnd)]; [apply after_304_none|].
  destruct h as [|c h]; [apply after_304_none|]. cbn [request_range_of].
  destruct (parse_request_range (c :: h)) as [r|] eqn:P; [|apply after_304_none].
  apply parse_sound in P as [->|(sp & -> & [D|(a & -> & D)])].
  - apply after_304_none_none.
  - exfalso. apply Hnv. exists sp. exact D.
  - exfalso. apply Hnd. exists a. exact D.
Qed.

(* every request: an effective range (or none) exists that explains the response *)
Lemma static_get_explained q :
  exists osp, static_get q =
    Resp (if not_modified q then not_modified_response
          else expected_response (q_head q) (q_content q) osp).
Proof.
  rewrite static_get_unfold. destruct (not_modified q); [exists None; reflexivity|].
  destruct (request_range_of (q_range q)) as [r|] eqn:P.
  - assert (C : r = (None, None) \/ exists sp, r = enc sp).
    { unfold request_range_of in P. destruct (q_range q) as [[|c h]|]; try discriminate.
      apply parse_sound in P as [->|(sp & -> & _)]; eauto. }
    destruct C as [->|(sp & ->)].
    + exists None. apply after_304_none_none.
    + exists (Some sp). apply after_304_enc.
  - exists None. apply after_304_none.
Qed.

(* ---------- the four shapes ---------- *)
Lemma satisfiable_bounds sp size a b :
  satisfiable sp size = Some (a, b) -> a <= b /\ b < size.
Proof.
  destruct sp as [x y|x|n]; cbn [satisfiable].
  - destruct ((x <? size) && (x <=? y)) eqn:E; [|discriminate]. b2p. intro Hx; inversion Hx; subst. lia.
  - destruct (x <? size) eqn:E; [|discriminate]. b2p. intro Hx; inversion Hx; subst. lia.
  - destruct ((n =? 0) || (size =? 0)) eqn:E; [discriminate|]. b2p. intro Hx; inversion Hx; subst. lia.
Qed.

Lemma expected_shape head content osp :
  response_shape head content (expected_response head content osp).
Proof.
  unfold response_shape, expected_response. destruct osp as [sp|]; [|auto].
  destruct (satisfiable sp (N.of_nat (length content))) as [[a b]|] eqn:E; [|auto].
  apply satisfiable_bounds in E as [Hab Hb].
  destruct ((a =? 0) && (b + 1 =? N.of_nat (length content))) eqn:Ew; [auto|].
  right; left. exists a, b. repeat split; auto.
  assert (Hw : ~ (a = 0 /\ b + 1 = N.of_nat (length content))).
  { intros [Ha Hb1]. rewrite Ha, Hb1, !N.eqb_refl in Ew. discriminate. }
  lia.
Qed.

Lemma static_get_shape q :
  exists r, static_get q = Resp r /\ response_shape (q_head q) (q_content q) r.
Proof.
  destruct (static_get_explained q) as (osp & E). rewrite E. eexists; split; [reflexivity|].
  destruct (not_modified q).
  - unfold response_shape. auto.
  - apply expected_shape.
Qed.

Lemma file_slice_length content a b :
  a <= b -> b < N.of_nat (length content) -> length (file_slice content a b) = N.to_nat (b - a + 1).
Proof.
  intros Hab Hb. unfold file_slice. rewrite firstn_length, skipn_length. lia.
Qed.

Lemma shape_content_length content r :
  response_shape false content r ->
  (r_status r = 304%Z /\ r_content_length r = None /\ r_body r = [])
  \/ (r_status r <> 304%Z /\ r_content_length r = Some (Z.of_nat (length (r_body r)))).
Proof.
  intros [-> | [(a & b & Hab & Hb & _ & ->) | [-> | ->]]]; cbn [r_status r_content_length r_body whole_response partial_response unsatisfiable_response not_modified_response].
  - right. split; [discriminate|reflexivity].
  - right. split; [discriminate|]. rewrite file_slice_length by auto. f_equal. lia.
  - right. split; [discriminate|reflexivity].
  - left. auto.
Qed.

Lemma static_get_content_length q r :
  q_head q = false -> static_get q = Resp r ->
  (r_status r = 304%Z /\ r_content_length r = None /\ r_body r = [])
  \/ (r_status r <> 304%Z /\ r_content_length r = Some (Z.of_nat (length (r_body r)))).
Proof.
  intros Hh E. destruct (static_get_shape q) as (r' & E' & S). rewrite E in E'. inversion E'; subst r'.
  rewrite Hh in S. apply shape_content_length with (content := q_content q). exact S.
Qed.

(* ---------- HEAD ---------- *)
Lemma expected_without_body head content osp :
  expected_response true content osp = without_body (expected_response head content osp).
Proof.
  unfold expected_response. destruct osp as [sp|]; [|reflexivity].
  destruct (satisfiable sp (N.of_nat (length content))) as [[a b]|]; [|reflexivity].
  destruct ((a =? 0) && (b + 1 =? N.of_nat (length content))); reflexivity.
Qed.

Lemma head_is_get_without_body q :
  exists r, static_get (with_head q false) = Resp r
            /\ static_get (with_head q true) = Resp (without_body r).
Proof.
  rewrite !static_get_unfold. unfold not_modified. cbn [with_head q_head q_content q_etag q_inm q_ims q_mtime q_range].
  destruct (should_return_304 (q_etag q) (q_inm q) (q_ims q) (q_mtime q)).
  - eexists; split; reflexivity.
  - destruct (request_range_of (q_range q)) as [r|] eqn:P.
    + assert (C : r = (None, None) \/ exists sp, r = enc sp).
      { unfold request_range_of in P. destruct (q_range q) as [[|c h]|]; try discriminate.
        apply parse_sound in P as [->|(sp & -> & _)]; eauto. }
      destruct C as [->|(sp & ->)].
      * rewrite !after_304_none_none. eexists; split; [reflexivity|]. f_equal; try apply expected_without_body.
      * rewrite !after_304_enc. eexists; split; [reflexivity|]. f_equal; try apply expected_without_body.
    + rewrite !after_304_none. eexists; split; [reflexivity|]. f_equal; try apply expected_without_body.
Qed.

(* ---------- invalid Range headers are ignored (except the dash-less form) ---------- *)
Lemma not_modified_with_range q h : not_modified (with_range q h) = not_modified q.
Proof. reflexivity. Qed.

Lemma invalid_range_ignored q h :
  ~ valid_range_header h -> ~ (exists a, dashless h a) ->
  static_get (with_range q (Some h)) = static_get (with_range q None).
Proof.
  intros Hnv Hnd.
  destruct (not_modified q) eqn:E3.
  - rewrite !static_get_not_modified; auto.
  - rewrite (static_get_invalid (with_range q (Some h))); [|exact E3|right; exists h; auto].
    rewrite (static_get_invalid (with_range q None)); [|exact E3|left; reflexivity].
    reflexivity.
Qed.

Definition q_witness : request :=
  {| q_head := false; q_content := [65; 66; 67; 68; 69; 70; 71; 72; 73; 74];
     q_etag := [34; 120; 34]; q_inm := None; q_ims := None; q_mtime := 0%Z; q_range := None |}.
Definition h_dashless : text := [98; 121; 116; 101; 115; 61; 53].      (* "bytes=5" *)

Lemma invalid_range_not_ignored_witness :
  ~ valid_range_header h_dashless
  /\ static_get (with_range q_witness (Some h_dashless)) <> static_get (with_range q_witness None)
  /\ static_get (with_range q_witness (Some h_dashless))
     = Resp (partial_response false (q_content q_witness) 5 9).
Proof.
  split; [|split].
  - intros (sp & D). apply denotes_has_dash in D. cbn in D. intuition discriminate.
  - vm_compute. discriminate.
  - vm_compute. reflexivity.
Qed.

Lemma h_dashless_is_dashless : dashless h_dashless 5.
Proof.
  exists [], [], [], [], [53]. repeat split; try reflexivity; try discriminate.
Qed.

(* ---------- 304 ---------- *)
Lemma status_304_iff q r : static_get q = Resp r -> (r_status r = 304%Z <-> not_modified q = true).
Proof.
  destruct (static_get_explained q) as (osp & E). rewrite E. intro H; inversion H; subst r; clear H.
  destruct (not_modified q); [cbn; tauto|].
  split; [|discriminate]. intro S. exfalso.
  destruct (expected_shape (q_head q) (q_content q) osp) as [R|[(a & b & _ & _ & _ & R)|[R|R]]];
    rewrite R in S; try discriminate.
  (* the fourth shape cannot be an expected_response *)
  unfold expected_response in R. destruct osp as [sp|]; [|discriminate].
  destruct (satisfiable sp _) as [[a b]|]; [|discriminate].
  destruct ((a =? 0) && _); discriminate.
Qed.

Lemma no_conditional_never_304 q :
  (q_inm q = None \/ q_inm q = Some []) -> q_ims q = None -> not_modified q = false.
Proof. unfold not_modified, should_return_304. intros [->| ->] ->; reflexivity. Qed.

