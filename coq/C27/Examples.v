(* C27: the hypotheses of the Property.v theorems are satisfiable by concrete,
   non-trivial inputs (and the main outcomes computed on a 10-byte file). *)
From Coq Require Import List NArith ZArith Bool Lia.
Import ListNotations.
From TV Require Import C27.Model C27.Spec C27.Run C27.Proofs1 C27.Proofs2 C27.Proofs3 C27.Proofs4 C27.Proofs5 C27.Proofs6 C27.Proofs7.

Local Open Scope N_scope.

Definition h_2_5 : text := [98; 121; 116; 101; 115; 61; 50; 45; 53].          (* "bytes=2-5" *)
Definition h_sp_suffix : text := [32; 98; 121; 116; 101; 115; 9; 61; 160; 45; 51; 133].  (* " bytes\t=\xa0-3\x85" *)
Definition h_plus : text := [98; 121; 116; 101; 115; 61; 43; 49; 45; 50].     (* "bytes=+1-2" *)

Lemma digits_one c : is_digit c = true -> digits [c].
Proof.
  intro H. split; [discriminate|]. split; [cbn [forallb]; rewrite H; reflexivity|].
  cbn. unfold int_max_str_digits. lia.
Qed.

Example ex_valid_from_to : denotes h_2_5 (SFromTo 2 5).
Proof.
  exact (DFromTo [] [] [] [] [50] [53] eq_refl eq_refl eq_refl eq_refl
           (digits_one 50 eq_refl) (digits_one 53 eq_refl)).
Qed.

Example ex_valid_suffix_with_blanks : denotes h_sp_suffix (SSuffix 3).
Proof.
  exact (DSuffix [32] [9] [160] [133] [51] eq_refl eq_refl eq_refl eq_refl (digits_one 51 eq_refl)).
Qed.

Example ex_invalid_plus : ~ valid_range_header h_plus /\ ~ (exists a, dashless h_plus a).
Proof.
  split.
  - intros (sp & D). apply parse_complete in D. vm_compute in D. discriminate.
  - intros (a & D). apply parse_dashless in D as [_ D]. vm_compute in D. discriminate.
Qed.

Example ex_outcomes :
  let q h := with_range q_witness (Some h) in
  static_get (q h_2_5) = Resp (partial_response false (q_content q_witness) 2 5)
  /\ static_get (q h_sp_suffix) = Resp (partial_response false (q_content q_witness) 7 9)
  /\ static_get (q h_plus) = Resp (whole_response false (q_content q_witness))
  /\ not_modified (q h_2_5) = false.
Proof. vm_compute. repeat split. Qed.

Example ex_etag_premises :
  let q := {| q_head := false; q_content := [1; 2; 3]; q_etag := [34; 97; 98; 34];
              q_inm := Some [34; 97; 98; 34]; q_ims := None; q_mtime := 5%Z; q_range := Some h_2_5 |} in
  ~ In 34 [97; 98] /\ q_etag q = 34 :: [97; 98] ++ [34] /\ q_inm q = Some (q_etag q)
  /\ static_get q = Resp not_modified_response.
Proof. cbn. repeat split; try reflexivity. intuition discriminate. Qed.

(* If-None-Match: "a", W/"ab"   against the entity tag "ab": a list, matched weakly *)
Example ex_inm_list :
  let items := [([34; 97; 34], [44; 32]); ([87; 47; 34; 97; 98; 34], [])] in
  let q := {| q_head := false; q_content := [1; 2; 3]; q_etag := [34; 97; 98; 34];
              q_inm := Some (inm_header [] items); q_ims := None; q_mtime := 5%Z; q_range := None |} in
  list_sep [] /\ Forall (fun it => entity_tag (fst it) /\ list_sep (snd it)) items
  /\ not_modified q = true /\ existsb (fun it => weak_equal (fst it) (q_etag q)) items = true.
Proof.
  cbv zeta. split; [constructor|]. split; [|split; reflexivity].
  constructor; [split|constructor; [split|constructor]]; cbn [fst snd].
  - apply (ETStrong [97]). cbn. intuition discriminate.
  - unfold list_sep. constructor; [right; right; reflexivity|]. constructor; [left; reflexivity|]. constructor.
  - apply (ETWeak [97; 98]). cbn. intuition discriminate.
  - constructor.
Qed.

(* the chunk loop on a 5-byte file read 2 bytes at a time, range 1-4 *)
Example ex_chunks :
  static_get_chunks 2 (with_range q_witness (Some [98; 121; 116; 101; 115; 61; 49; 45; 52]))
  = LoopDone [[66; 67]; [68; 69]].
Proof. vm_compute. reflexivity. Qed.
