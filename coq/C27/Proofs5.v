(* C27 proofs, part 5: the boolean checker of Run.v accepts the model on every
   input, and a few facts about the 304 decision. *)
From Coq Require Import List NArith ZArith Bool Lia.
Import ListNotations.
From TV Require Import Lib.Obs C27.Model C27.Spec C27.Run C27.Proofs1 C27.Proofs2 C27.Proofs3 C27.Proofs4 C27.Proofs7.

Local Open Scope N_scope.

Lemma read_dec_dec n : read_dec (dec n) = Some n.
Proof.
  destruct (dec_spec n) as (Hne & Hd & Hv & Hz & Hnz).
  unfold read_dec. destruct (dec n) as [|c r] eqn:E; [congruence|].
  rewrite Hd. cbn [andb].
  destruct (N.eq_dec n 0) as [->|Hn].
  - specialize (Hz eq_refl). inversion Hz; subst. cbn. rewrite <- Hv. reflexivity.
  - assert (Hc : c <> 48) by (apply (Hnz ltac:(lia) c r eq_refl)).
    apply N.eqb_neq in Hc. rewrite Hc. cbn [andb negb]. rewrite Hv. reflexivity.
Qed.

Lemma strip_prefix_app p s : strip_prefix p (p ++ s) = Some s.
Proof.
  unfold strip_prefix.
  assert (H1 : firstn (length p) (p ++ s) = p).
  { induction p as [|c p IH]; cbn [length firstn app]; try rewrite IH; reflexivity. }
  assert (H2 : skipn (length p) (p ++ s) = s).
  { clear H1. induction p as [|c p IH]; cbn [length skipn app]; auto. }
  rewrite H1, H2, text_eqb_refl. reflexivity.
Qed.

Lemma dec_no (x : N) n : is_digit x = false -> ~ In x (dec n).
Proof. intro Hx. destruct (dec_spec n) as (_ & Hd & _). eapply forallb_not_in; eauto. Qed.

Lemma read_content_range_text a b n :
  read_content_range (content_range_text a b n) = Some (a, b, n).
Proof.
  unfold read_content_range, content_range_text. rewrite strip_prefix_app.
  change (dec a ++ [45] ++ dec b ++ [47] ++ dec n) with (dec a ++ 45 :: (dec b ++ 47 :: dec n)).
  rewrite partition_found by (apply dec_no; reflexivity).
  rewrite partition_found by (apply dec_no; reflexivity).
  cbn [andb]. rewrite !read_dec_dec. reflexivity.
Qed.

Lemma read_unsat_range_text n : read_unsat_range (s_bytes_star ++ dec n) = Some n.
Proof. unfold read_unsat_range. rewrite strip_prefix_app. apply read_dec_dec. Qed.

Lemma slice_is_file_slice content a b : slice content a b = file_slice content a b.
Proof. reflexivity. Qed.

Lemma check_response_shape head content r :
  response_shape head content r ->
  check_response head content (r_status r) (r_content_range r) (r_content_length r) (r_body r) = true.
Proof.
  intros [-> | [(a & b & Hab & Hb & Hp & ->) | [-> | ->]]]; unfold check_response;
    cbn [r_status r_content_range r_content_length r_body whole_response partial_response
         unsatisfiable_response not_modified_response].
  - change (200 =? 200)%Z with true. cbn iota.
    rewrite text_eqb_refl, andb_true_r. apply Z.eqb_eq. lia.
  - change (206 =? 200)%Z with false. change (206 =? 206)%Z with true. cbn iota.
    rewrite read_content_range_text.
    apply N.leb_le in Hab. apply N.ltb_lt in Hb. apply N.ltb_lt in Hp.
    rewrite N.eqb_refl, Hab, Hb, Hp, Z.eqb_refl. cbn [andb].
    unfold slice, file_slice. apply text_eqb_refl.
  - change (416 =? 200)%Z with false. change (416 =? 206)%Z with false. change (416 =? 416)%Z with true.
    cbn iota. rewrite read_unsat_range_text, N.eqb_refl. reflexivity.
  - reflexivity.
Qed.

Lemma promised_body_shape head content r :
  response_shape head content r ->
  promised_body head content (r_status r) (r_content_range r) = r_body r.
Proof.
  intros [-> | [(a & b & Hab & Hb & Hp & ->) | [-> | ->]]]; unfold promised_body;
    cbn [r_status r_content_range r_body whole_response partial_response
         unsatisfiable_response not_modified_response]; destruct head; try reflexivity.
  change (206 =? 200)%Z with false. change (206 =? 206)%Z with true. cbn iota.
  rewrite read_content_range_text. apply N.ltb_lt in Hb. rewrite Hb. reflexivity.
Qed.

Lemma obs_ints_map (cs : list (list N)) :
  obs_ints (map (fun c => OInt (Z.of_nat (length c))) cs) = Some (map (fun c => Z.of_nat (length c)) cs).
Proof. induction cs as [|c cs IH]; [reflexivity|]. cbn [map obs_ints]. rewrite IH. reflexivity. Qed.

Lemma sum_lengths (cs : list (list N)) :
  fold_right Z.add 0%Z (map (fun c => Z.of_nat (length c)) cs) = Z.of_nat (length (concat cs)).
Proof.
  induction cs as [|c cs IH]; [reflexivity|].
  cbn [map fold_right concat]. rewrite IH, app_length. lia.
Qed.

Lemma check_chunks_ok cs :
  Forall (chunk_ok chunk_max) cs ->
  check_chunks (concat cs) (map (fun c => Z.of_nat (length c)) cs) (Z.of_N (poly_hash (concat cs))) = true.
Proof.
  intro H. unfold check_chunks. rewrite sum_lengths, !Z.eqb_refl, !andb_true_r.
  induction H as [|c cs [Hne Hle] _ IH]; [reflexivity|].
  cbn [map forallb]. rewrite IH, andb_true_r.
  apply andb_true_iff. split; [apply Z.ltb_lt|apply Z.leb_le; exact Hle].
  destruct c; [congruence|]. cbn [length]. lia.
Qed.

Lemma check_case_run_case c : check_case c (run_case c) = true.
Proof.
  destruct c as [h|q|s e t|head n a b range]; try reflexivity.
  - cbn [run_case check_case]. destruct (static_get_shape q) as (r & -> & S).
    cbn [obs_of_outcome].
    assert (H1 : match ot (r_content_range r) with OBytes t => Some (Some t) | ONone => Some None | _ => None end
                 = Some (r_content_range r)) by (destruct (r_content_range r); reflexivity).
    assert (H2 : match oz (r_content_length r) with OInt z => Some (Some z) | ONone => Some None | _ => None end
                 = Some (r_content_length r)) by (destruct (r_content_length r); reflexivity).
    rewrite H1, H2. apply check_response_shape. exact S.
  - cbn [run_case check_case]. set (q := big_request head n a b range).
    destruct (static_get_chunks_total chunk_max q ltac:(reflexivity)) as (r & cs & E1 & E2 & E3 & E4).
    destruct (static_get_shape q) as (r' & E1' & S). rewrite E1 in E1'. inversion E1'; subst r'.
    rewrite E1, E2. cbn [obs_of_big].
    assert (H1 : match ot (r_content_range r) with OBytes t => Some (Some t) | ONone => Some None | _ => None end
                 = Some (r_content_range r)) by (destruct (r_content_range r); reflexivity).
    assert (H2 : match oz (r_content_length r) with OInt z => Some (Some z) | ONone => Some None | _ => None end
                 = Some (r_content_length r)) by (destruct (r_content_length r); reflexivity).
    rewrite H1, H2, obs_ints_map.
    change (q_head q) with head in S. change (q_content q) with (gen_content n a b) in S.
    cbv zeta. rewrite (promised_body_shape _ _ _ S), (check_response_shape _ _ _ S).
    rewrite <- E3. apply check_chunks_ok. exact E4.
Qed.

(* ---------- 304 ---------- *)
Lemma inm_star_matches q rest :
  q_etag q <> [] -> q_inm q = Some (42 :: rest) -> not_modified q = true.
Proof.
  intros He Hi. unfold not_modified, should_return_304. rewrite Hi.
  unfold check_etag_header, findall_etags. cbn [findall_from match_at N.eqb Pos.eqb].
  destruct (q_etag q); [congruence|]. reflexivity.
Qed.

Lemma find_quote_app b rest : ~ In 34 b -> find_quote (b ++ 34 :: rest) = Some b.
Proof.
  induction b as [|c b IH]; cbn [app find_quote]; intro H.
  - reflexivity.
  - destruct (c =? 34) eqn:E; [apply N.eqb_eq in E; exfalso; apply H; left; auto|].
    rewrite IH; auto. intro Hin. apply H. right; auto.
Qed.

(* If-None-Match equal to the file's (strong, well-formed) entity tag: 304 *)
Lemma inm_same_etag_matches q b :
  ~ In 34 b -> q_etag q = 34 :: b ++ [34] -> q_inm q = Some (q_etag q) -> not_modified q = true.
Proof.
  intros Hb He Hi. unfold not_modified, should_return_304. rewrite Hi, He.
  unfold check_etag_header, findall_etags.
  cbn [findall_from match_at]. change (34 =? 42) with false. change (34 =? 34) with true. cbn iota.
  rewrite find_quote_app by auto.
  cbn [existsb text_eqb]. change (text_eqb (34 :: b ++ [34]) [42]) with false. cbn iota.
  cbn [etag_val]. rewrite text_eqb_refl. reflexivity.
Qed.
