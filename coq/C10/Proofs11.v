(* C10 — proofs, part 11: the checker accepts the model's observable for every
   address list, with or without connect timeout, and every list of events. *)
From Coq Require Import String.
From Coq Require Import List ZArith Bool Arith Lia.
Import ListNotations.
From TV Require Import Lib.Obs C10.Model C10.Run C10.Proofs C10.Proofs2 C10.Proofs3 C10.Proofs4 C10.Proofs5 C10.Proofs6 C10.Proofs7 C10.Proofs9 C10.Proofs10.

Section Final.
Variable addrs : list addr.
Hypothesis Hn : addrs <> [].
Variable has_ct : bool.
Notation n := (length addrs).
Notation Inv := (Inv addrs).
Notation Kinv := (Kinv addrs).

Lemma chk_none_is_timer c N :
  chk_step addrs has_ct c None N = chk_step addrs has_ct c (Some EPrimaryTimer) N.
Proof. reflexivity. Qed.

(* one event *)
Lemma event_ok c s e :
  Inv s -> Kinv c s -> (ct_armed s = true -> has_ct = true) ->
  exists c', chk_step addrs has_ct c (Some e) (abs n (step addrs s e)) = Some c' /\
             Kinv c' (step addrs s e) /\ Inv (step addrs s e) /\
             (ct_armed (step addrs s e) = true -> has_ct = true).
Proof.
  intros I K CT. rewrite step_step'.
  destruct (step_inv addrs Hn s e I) as [I' [O1 [O2 [[nl [S1 [S2 S3]]] [O4 O5]]]]].
  pose proof I as [[C _] _].
  assert (HST : is_done s = true -> fut (step' addrs s e) = fut s /\ started (step' addrs s e) = started s).
  { intros D. destruct (step_done_stable addrs s e D) as [F [S _]]. auto. }
  assert (HF : forall a, is_done s = false -> e = EDone a true -> In a (ifl s) -> fut (step' addrs s e) = FOk a).
  { intros a D -> H. apply step_first_success; auto. }
  assert (HCT : is_done s = false -> ct_armed s = true -> e = EConnectTimer -> fut (step' addrs s e) = FTimeout).
  { intros D A ->. apply step_connect_timeout; auto. }
  assert (HERR : forall x, fut s = FErr x -> infl s = []).
  { intros x F. apply (c_err _ _ _ C x F). }
  eexists. split; [|split; [|split]].
  - eapply (chk_step_ok addrs has_ct c s e (step' addrs s e) nl); eauto.
    + apply (c_ifl_st _ _ _ C).
    + apply (c_ifl_sync _ _ _ C).
  - eapply (K_next addrs c s e (step' addrs s e) nl); eauto.
    + apply (c_ifl_st _ _ _ C).
    + apply (c_ifl_sync _ _ _ C).
  - exact I'.
  - intros A. apply CT. apply (ct_armed_step addrs s e A).
Qed.

Lemma events_ok es : forall c s,
  Inv s -> Kinv c s -> (ct_armed s = true -> has_ct = true) ->
  chk_events addrs has_ct c es
    (map (snap n) (match es with [] => [] | e :: es' => trace addrs (step addrs s e) es' end)) = true.
Proof.
  induction es as [|e es IH]; intros c s I K CT; [reflexivity|].
  destruct (event_ok c s e I K CT) as [c' [E [K' [I' CT']]]].
  destruct es as [|e2 es'].
  - cbn [trace map chk_events]. rewrite p_snap_snap, E. reflexivity.
  - change (trace addrs (step addrs s e) (e2 :: es'))
      with (step addrs s e :: trace addrs (step addrs (step addrs s e) e2) es').
    cbn [map chk_events]. rewrite p_snap_snap, E. apply (IH c' (step addrs s e)); auto.
Qed.

Lemma init_K : Kinv (mkc (snap0 addrs) [] []) (init addrs).
Proof.
  constructor; simpl; auto.
  - constructor.
  - intros a. split; [intros []|intros [[] _]].
  - intros a [].
  - intros w H. discriminate.
Qed.

Lemma start_ok :
  exists c1, chk_step addrs has_ct (mkc (snap0 addrs) [] []) None (abs n (start addrs has_ct)) = Some c1 /\
             Kinv c1 (start addrs has_ct).
Proof.
  rewrite chk_none_is_timer.
  destruct (start_inv addrs Hn has_ct) as [I [G1 [G2 [[nl [S1 [S2 S3]]] [G4 G5]]]]].
  assert (HO1 : forall w, fut (start addrs has_ct) = FOk w ->
            fut (init addrs) = FOk w \/ (EPrimaryTimer = EDone w true /\ In w (ifl (init addrs))) \/
            (sync_of addrs w = Some true /\ ~ In w (started (init addrs)) /\ In w (started (start addrs has_ct)))).
  { intros w F. destruct (G1 w F) as [H|H]; auto. }
  assert (HO2 : fut (start addrs has_ct) = FTimeout ->
            fut (init addrs) = FTimeout \/ (EPrimaryTimer = EConnectTimer /\ ct_armed (init addrs) = true)).
  { intros F. left. auto. }
  assert (HI2 : forall b, In b (ifl (start addrs has_ct)) ->
            (In b (ifl (init addrs)) /\ ~ completes EPrimaryTimer b) \/
            (sync_of addrs b = None /\ ~ In b (started (init addrs)))).
  { intros b Hb. destruct (G5 b Hb) as [[]|H]. right. exact H. }
  eexists. split.
  - eapply (chk_step_ok addrs has_ct _ (init addrs) EPrimaryTimer (start addrs has_ct) nl); eauto;
      try apply init_K; try (intros; discriminate); try (intros x []; fail); try (intros x F; discriminate).
    all: try (intros b []).
  - eapply (K_next addrs _ (init addrs) EPrimaryTimer (start addrs has_ct) nl); eauto;
      try apply init_K; try (intros; discriminate); try (intros x []; fail); try (intros x F; discriminate).
    all: try (intros b []).
Qed.

Lemma trace_ok es :
  chk_trace addrs has_ct es (map (snap n) (trace addrs (start addrs has_ct) es)) = true.
Proof.
  destruct start_ok as [c1 [E K1]].
  assert (I : Inv (start addrs has_ct)) by (apply start_inv; auto).
  assert (CT : ct_armed (start addrs has_ct) = true -> has_ct = true).
  { intros A. apply (ct_armed_run addrs has_ct []). exact A. }
  pose proof (events_ok es c1 (start addrs has_ct) I K1 CT) as EV.
  destruct es as [|e es']; unfold chk_trace; cbn [trace map]; rewrite p_snap_snap, E; exact EV.
Qed.

End Final.

Theorem checker_accepts_model : forall i, check_case i (run_case i) = true.
Proof.
  intros [[addrs has_ct] es]. destruct addrs as [|a0 addrs'] eqn:EA; [reflexivity|].
  rewrite <- EA. assert (Hn : addrs <> []) by (rewrite EA; discriminate).
  rewrite run_case_shape by exact Hn. unfold check_case. rewrite EA at 1.
  apply trace_ok. exact Hn.
Qed.
