(* C10 — proofs, part 4: completion of attempts, the chain lemma, on_timeout,
   and preservation of the invariant by every event. *)
From Coq Require Import List ZArith Bool Arith Lia.
Import ListNotations.
From TV Require Import C10.Model C10.Proofs C10.Proofs2 C10.Proofs3.

Section Inv2.
Variable addrs : list addr.
Hypothesis Hn : addrs <> [].
Notation n := (length addrs).
Notation inP := (inP addrs).
Notation Core0 := (Core0 addrs).
Notation Core := (Core addrs).
Notation chain := (chain addrs).

Lemma n_pos : 0 < n.
Proof. destruct addrs; [congruence|simpl; lia]. Qed.

(* ---- taking a pending future out of the in-flight set (its callback runs) ---- *)
Lemma core_take a r rest q s :
  Core0 q s -> take_infl a (infl s) = Some (r, rest) ->
  let s' := dec (set_infl rest s) in
  Core0 (r ++ q) s' /\ In a (started s') /\ ~ In a (ifl s') /\ In a (ifl s) /\
  (forall b, In b r -> inP b = inP a) /\ (forall e, In e (ifl s') -> inP e <> inP a).
Proof.
  intros C T. destruct (take_infl_perm a _ _ _ T) as [T1 [T2 [T3 [T4 [T5 [T6 T7]]]]]].
  destruct (T6 (c_ifl_nd _ _ _ C)) as [N1 N2].
  destruct (T7 inP (c_q1 _ _ _ C)) as [N3 N4].
  assert (IA : In a (ifl s)). { unfold ifl. apply in_map_iff. exists (a, r). auto. }
  cbv zeta. split; [|split; [|split; [|split; [|split]]]]; simpl; auto.
  - constructor; simpl; try (apply C; fail).
    + intros x. pose proof (c_cnt _ _ _ C x) as H. unfold rests in *. simpl. rewrite T2 in H. rewrite cnt_app. lia.
    + intros P x Hx. pose proof (c_total _ _ _ C P x Hx) as H. unfold rests in *. simpl. rewrite T2 in H. rewrite cnt_app. lia.
    + exact N1.
    + intros x Hx. apply (c_ifl_st _ _ _ C). unfold ifl in *. simpl in Hx. apply in_map_iff in Hx.
      destruct Hx as [e [H1 H2]]. apply in_map_iff. exists e. auto.
    + rewrite (c_rem _ _ _ C), T3. lia.
    + intros w Hw. destruct (c_ok _ _ _ C w Hw) as [H1 [H2 [H3 H4]]]. repeat split; auto.
      intros H. apply H3. unfold ifl in *. simpl in H. apply in_map_iff in H.
      destruct H as [e [E1 E2]]. apply in_map_iff. exists e. auto.
    + intros x Hx. destruct (c_err _ _ _ C x Hx) as [H1 _]. rewrite H1 in T. discriminate.
    + intros b Hb. destruct (c_lastin _ _ _ C b Hb) as [H1 H2]. split; auto.
      intros H. apply H2. unfold ifl in *. simpl in H. apply in_map_iff in H.
      destruct H as [e [E1 E2]]. apply in_map_iff. exists e. auto.
    + exact N3.
    + intros a' r' b H Hb. apply (c_q2 _ _ _ C a' r' b); auto.
    + intros x Hx. apply (c_ifl_sync _ _ _ C). unfold ifl in *. simpl in Hx. apply in_map_iff in Hx.
      destruct Hx as [e [E1 E2]]. apply in_map_iff. exists e. auto.
  - apply (c_ifl_st _ _ _ C). auto.
  - intros b Hb. apply (c_q2 _ _ _ C a r b); auto.
  - intros e He H. apply N4. rewrite <- H. unfold ifl in He. simpl in He. apply in_map. auto.
Qed.

Lemma clear_timeouts_eq s :
  clear_timeouts s = set_ct (ct_var s) (if ct_var s then false else ct_armed s)
                       (set_tmo (tmo_var s) (if tmo_var s then false else tmo_armed s) s).
Proof.
  unfold clear_timeouts. destruct s as [f le r tv ta cv ca stt inf sta cl fl]; simpl.
  destruct tv, cv; reflexivity.
Qed.

Lemma is_done_clear s : is_done (clear_timeouts s) = is_done s.
Proof. rewrite clear_timeouts_eq. reflexivity. Qed.

Lemma succeed_done a s : is_done (succeed a s) = true.
Proof.
  unfold succeed. destruct (is_done (clear_timeouts s)) eqn:E; [|reflexivity].
  change (is_done (clear_timeouts s) = true). exact E.
Qed.

Lemma succeed_pending_eq a s : is_done s = false ->
  succeed a s = close_streams (set_fut (FOk a) (set_streams (remove_nat a (streams s)) (clear_timeouts s))).
Proof. intros P. unfold succeed. rewrite is_done_clear, P. rewrite clear_timeouts_eq. reflexivity. Qed.

(* ---- success of attempt a (first success, or late arrival) ---- *)
Lemma core_succeed a p s :
  Core0 p s -> In a (started s) -> ~ In a (ifl s) -> (forall w, fut s = FOk w -> a <> w) ->
  Core p (succeed a s).
Proof.
  intros C IA NA NW. unfold succeed. rewrite clear_timeouts_eq.
  match goal with |- context [is_done ?x] => change (is_done x) with (is_done s) end.
  destruct (is_done s) eqn:P.
  - (* late arrival: stream.close() *)
    split; [|unfold is_done in *; simpl; intros; congruence].
    constructor; simpl; try (apply C; fail).
    + unfold is_done in *; simpl; intros; congruence.
    + intros w Hw. destruct (c_ok _ _ _ C w Hw) as [H1 [H2 [H3 H4]]]. repeat split; auto.
      * intros H. apply in_app_or in H. destruct H as [H|[H|[]]]; auto. apply (NW w Hw). auto.
      * intros x Hx1 Hx2 Hx3. apply in_or_app. left. auto.
    + intros Hw x Hx Hr. apply in_or_app. left. apply (c_to _ _ _ C); auto.
    + destruct (tmo_var s) eqn:E; [discriminate|intros H; apply (c_t1 _ _ _ C) in H; congruence].
    + intros; exact P.
  - (* first success *)
    pose proof (pending_fut _ P) as PF. pose proof (streams_pending _ _ _ C P) as SP.
    split; [|unfold is_done in *; simpl; intros; congruence].
    constructor; simpl; try (apply C; fail).
    + unfold is_done in *; simpl; intros; congruence.
    + intros x. rewrite remove_nat_In, SP. split.
      * intros [[H1 H1'] H2]. repeat split; auto; try (intros H; inversion H; auto).
      * intros [H1 [H1' H2]]. repeat split; auto; try (intros ->; auto).
    + unfold is_done in *; simpl; intros; congruence.
    + intros w Hw. inversion Hw; subst. rewrite (c_closes_p _ _ _ C P). simpl. repeat split; auto.
      * rewrite remove_nat_In. intros [_ H]. auto.
      * intros x Hx1 Hx2 Hx3. apply remove_nat_In. split; auto. apply SP. auto.
    + intros; discriminate.
    + intros; discriminate.
    + destruct (tmo_var s) eqn:E; [discriminate|intros H; apply (c_t1 _ _ _ C) in H; congruence].
    + intros; reflexivity.
Qed.

(* ---- failure of attempt a while pending: record it ---- *)
Lemma core_fail a p s :
  Core0 p s -> is_done s = false -> In a (started s) -> ~ In a (ifl s) ->
  Core p (set_last (Some a) s).
Proof.
  intros C P IA NA. split; [|simpl; intros; discriminate].
  constructor; simpl; try (apply C; fail).
  intros b Hb. inversion Hb; subst. auto.
Qed.

Lemma core0_weaken p p' s :
  Core0 p s -> (forall x, cnt p' x <= cnt p x) -> is_done s = true -> Core0 p' s.
Proof.
  intros C H D. constructor; try (apply C; fail).
  - intros x. pose proof (c_cnt _ _ _ C x). specialize (H x). lia.
  - intros; congruence.
Qed.

(* facts about one run of try_connect used by the event-level theorems *)
Record Ext (s s' : st) : Prop := mkExt {
  e_live : is_done s' = false -> infl s' <> [] \/ remaining s' <> 0%Z;
  e_ok : forall w, fut s' = FOk w -> sync_of addrs w = Some true /\ ~ In w (started s) /\ In w (started s');
  e_to : fut s' <> FTimeout;
  e_started : exists nl, started s' = started s ++ nl /\
                (forall w, fut s' = FOk w -> exists l0, nl = l0 ++ [w] /\ forall b, In b l0 -> sync_of addrs b = Some false) /\
                (forall b, In b nl -> In b (ifl s') \/ sync_of addrs b <> None) /\
                (forall b, In b nl -> sync_of addrs b = Some true -> fut s' = FOk b);
  e_tmo : tmo_var s' = tmo_var s;
  e_ct : ct_var s' = ct_var s;
  e_infl : forall e, In e (infl s) -> In e (infl s');
  e_infl_new : forall b, In b (ifl s') -> In b (ifl s) \/ (sync_of addrs b = None /\ ~ In b (started s))
}.

Lemma core_nil q s :
  Core q s -> is_done s = false -> Core q (chain [] s) /\ Ext s (chain [] s).
Proof.
  intros [C CL] P. rewrite chain_nil, P. simpl. rewrite andb_true_r.
  pose proof (pending_fut _ P) as PF.
  destruct (remaining s =? 0)%Z eqn:R.
  - apply Z.eqb_eq in R.
    assert (LE : length (started s) <= n).
    { apply len_le_of_cnt. intros x. pose proof (c_cnt _ _ _ C x). lia. }
    pose proof (c_rem _ _ _ C) as CR. rewrite R in CR.
    assert (L0 : length (infl s) = 0) by lia.
    assert (LN : length (started s) = n) by lia.
    split.
    + split; [|simpl; intros; discriminate].
      constructor; simpl; try (apply C; fail).
      * intros; discriminate.
      * intros x. rewrite (c_streams _ _ _ C), PF. split; intros [H1 [H2 H3]]; repeat split; auto; discriminate.
      * intros; discriminate.
      * intros; discriminate.
      * intros; discriminate.
      * intros x Hx. inversion Hx; subst. split; [destruct (infl s); simpl in L0; auto; lia|split; auto].
        destruct (last_err s) as [b|] eqn:LE'.
        -- exists b. split; auto. apply (c_lastin _ _ _ C b LE').
        -- specialize (CL P eq_refl). pose proof n_pos. lia.
      * intros; reflexivity.
    + constructor; simpl; auto; try discriminate.
      * exists []. rewrite app_nil_r. split; auto. split; [discriminate|split; intros b []].
  - split; [split; auto|].
    constructor; auto.
    + intros _. right. apply Z.eqb_neq in R. auto.
    + intros w Hw. rewrite PF in Hw. discriminate.
    + rewrite PF. discriminate.
    + exists []. rewrite app_nil_r. split; auto. split; [intros w Hw; rewrite PF in Hw; discriminate|split; intros b []].
Qed.


(* ---- the chain of attempts started from one iterator ---- *)
Lemma chain_core l : forall s q X,
  Core (l ++ q) s -> is_done s = false ->
  (forall b, In b l -> inP b = X) -> (forall e, In e (ifl s) -> inP e <> X) ->
  Core q (chain l s) /\ Ext s (chain l s).
Proof.
  induction l as [|a l IH]; intros s q X C P HX HI.
  - apply core_nil; auto.
  - rewrite chain_cons. cbv zeta.
    destruct C as [C CL].
    destruct (fresh_of_cnt _ _ _ _ _ _ C eq_refl) as [F1 F2].
    destruct (sync_of addrs a) as [[|]|] eqn:SY.
    + (* synchronous success *)
      destruct (core_open_sync _ a l q s C P) as [C1 [I1 [I2 P1]]].
      split.
      * assert (CS : Core (l ++ q) (succeed a (dec (open_attempt addrs a s)))).
        { apply core_succeed; auto. intros w Hw. apply pending_fut in P1. rewrite P1 in Hw. discriminate. }
        destruct CS as [CS CSL]. split; auto.
        apply core0_weaken with (p := l ++ q); auto.
        -- intros x. rewrite cnt_app. lia.
        -- apply succeed_done.
      * rewrite (succeed_pending_eq _ _ P1), clear_timeouts_eq, !open_attempt_eq.
        constructor; simpl; auto; try discriminate.
        -- intros w Hw. inversion Hw; subst. repeat split; auto; try (apply in_or_app; right; left; auto).
        -- exists [a]. split; auto. split.
           ++ intros w Hw. inversion Hw; subst. exists []. split; auto; intros b [].
           ++ split; intros b [Hb|[]]; subst; auto. right. congruence.
    + (* synchronous failure *)
      destruct (core_open_sync _ a l q s C P) as [C1 [I1 [I2 P1]]].
      rewrite P1.
      assert (C2 : Core (l ++ q) (set_last (Some a) (dec (open_attempt addrs a s)))) by (apply core_fail; auto).
      destruct (IH (set_last (Some a) (dec (open_attempt addrs a s))) q X C2) as [C3 E3]; auto.
      all: try (intros b Hb; apply HX; right; exact Hb).
      all: try (intros e He; apply HI; rewrite open_attempt_eq in He; exact He).
      split; auto.
      destruct E3 as [L3 O3 T3 [nl [S3 [S4 [S5 S6]]]] TM3 CT3 IN3 IN4].
      assert (ST : started (set_last (Some a) (dec (open_attempt addrs a s))) = started s ++ [a]) by (rewrite open_attempt_eq; reflexivity).
      assert (IFL : ifl (set_last (Some a) (dec (open_attempt addrs a s))) = ifl s) by (rewrite open_attempt_eq; reflexivity).
      assert (INF : infl (set_last (Some a) (dec (open_attempt addrs a s))) = infl s) by (rewrite open_attempt_eq; reflexivity).
      assert (TVE : tmo_var (set_last (Some a) (dec (open_attempt addrs a s))) = tmo_var s) by (rewrite open_attempt_eq; reflexivity).
      assert (CVE : ct_var (set_last (Some a) (dec (open_attempt addrs a s))) = ct_var s) by (rewrite open_attempt_eq; reflexivity).
      rewrite ST in S3. rewrite TVE in TM3. rewrite CVE in CT3. rewrite INF in IN3.
      assert (O3' : forall w, fut (chain l (set_last (Some a) (dec (open_attempt addrs a s)))) = FOk w ->
                 sync_of addrs w = Some true /\ ~ In w (started s ++ [a]) /\ In w (started (chain l (set_last (Some a) (dec (open_attempt addrs a s)))))).
      { intros w Hw. rewrite <- ST. apply O3. exact Hw. }
      assert (IN4' : forall b, In b (ifl (chain l (set_last (Some a) (dec (open_attempt addrs a s))))) ->
                 In b (ifl s) \/ (sync_of addrs b = None /\ ~ In b (started s ++ [a]))).
      { intros b Hb. rewrite <- ST, <- IFL. apply IN4. exact Hb. }
      clear O3 IN4.
      constructor; auto.
      * intros w Hw. destruct (O3' w Hw) as [H1 [H2 H3]]. repeat split; auto.
        intros H. apply H2. apply in_or_app. auto.
      * exists (a :: nl). rewrite S3, <- app_assoc. split; auto. split.
        -- intros w Hw. destruct (S4 w Hw) as [l0 [H1 H2]]. exists (a :: l0). rewrite H1. split; auto.
           intros b [Hb|Hb]; [subst; auto|auto].
        -- split; [intros b [Hb|Hb]; [subst; right; congruence|auto]|intros b [Hb|Hb] SB; [subst; congruence|auto]].
      * intros b Hb. destruct (IN4' b Hb) as [H|[H1 H2]]; auto. right. split; auto.
        intros H. apply H2. apply in_or_app. auto.
    + (* the future is pending: the attempt is in flight *)
      split.
      * apply (core_open_async _ a l q s X); auto. split; auto.
      * rewrite open_attempt_eq. constructor; simpl; auto.
        -- intros _. left. destruct (infl s); discriminate.
        -- intros w Hw. rewrite (pending_fut _ P) in Hw. discriminate.
        -- rewrite (pending_fut _ P). discriminate.
        -- exists [a]. split; auto. split.
           ++ intros w Hw. rewrite (pending_fut _ P) in Hw. discriminate.
           ++ split; [|intros b [Hb|[]] SB; subst; congruence].
              intros b [Hb|[]]. subst. left. unfold ifl. simpl. rewrite map_app. apply in_or_app. right. left. auto.
        -- intros e He. apply in_or_app. auto.
        -- intros b Hb. unfold ifl in Hb. simpl in Hb. rewrite map_app in Hb. apply in_app_or in Hb.
           destruct Hb as [Hb|[Hb|[]]]; [left; auto|subst; right; auto].
Qed.

End Inv2.
