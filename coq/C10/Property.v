(* C10 — TCP connection racing resolves exactly once and leaks no sockets.
   Property theorems only; proofs are in Proofs*.v.

   [run addrs has_ct es] is the state of the model of tornado.tcpclient._Connector
   after start() and the events [es], for ANY resolved address list [addrs]
   (family and synchronous outcome per address), with or without a connect
   timeout, and ANY list of events (completions of pending attempts with success
   or failure in any order, including completions of attempts that do not exist
   or are already complete, and firings of the two timers at any point). *)
From Coq Require Import String.
From Coq Require Import List ZArith Bool.
Import ListNotations.
From TV Require Import Lib.Obs C10.Model C10.Run C10.RunClient C10.Proofs C10.Proofs3 C10.Proofs7 C10.Proofs11 C10.ProofsClient C10.RunP4 C10.ProofsP4.

(* (INV-1) The future is resolved at most once and never changes afterwards;
   no attempt is started after resolution. *)
Theorem C10_resolved_at_most_once :
  forall addrs has_ct es es2, addrs <> [] ->
    is_done (run addrs has_ct es) = true ->
    fut (run addrs has_ct (es ++ es2)) = fut (run addrs has_ct es) /\
    started (run addrs has_ct (es ++ es2)) = started (run addrs has_ct es).
Proof. intros addrs has_ct es es2 Hn D. apply resolved_once; auto. Qed.
Print Assumptions C10_resolved_at_most_once.

(* (INV-2a) If an event resolves the pending future with stream w, then w is an
   attempt whose success was delivered by that very event: either the event is the
   successful completion of the in-flight attempt w, or w was started by this event
   and its connect future was already successful when connect() returned. *)
Theorem C10_winner_is_a_success_delivered_while_pending :
  forall addrs has_ct es e w, addrs <> [] ->
    is_done (run addrs has_ct es) = false ->
    fut (run addrs has_ct (es ++ [e])) = FOk w ->
    (e = EDone w true /\ In w (ifl (run addrs has_ct es))) \/
    (sync_of addrs w = Some true /\ ~ In w (started (run addrs has_ct es)) /\
     In w (started (run addrs has_ct (es ++ [e])))).
Proof. intros addrs has_ct es e w Hn. apply winner_was_first_success; auto. Qed.
Print Assumptions C10_winner_is_a_success_delivered_while_pending.

(* (INV-2b) Conversely the first success delivered while pending wins: a successful
   completion of an in-flight attempt resolves the future with it, ... *)
Theorem C10_first_success_wins :
  forall addrs has_ct es w, addrs <> [] ->
    is_done (run addrs has_ct es) = false -> In w (ifl (run addrs has_ct es)) ->
    fut (run addrs has_ct (es ++ [EDone w true])) = FOk w.
Proof. intros addrs has_ct es w Hn. apply first_success_wins. Qed.
Print Assumptions C10_first_success_wins.

(* ... and so does an attempt started during an event whose future is already
   successful; the attempt log only grows, and every newly started attempt is
   either in flight afterwards or had a synchronous outcome. *)
Theorem C10_synchronous_success_wins :
  forall addrs has_ct es e, addrs <> [] ->
    exists nl, started (run addrs has_ct (es ++ [e])) = started (run addrs has_ct es) ++ nl /\
      (forall b, In b nl -> sync_of addrs b = Some true -> fut (run addrs has_ct (es ++ [e])) = FOk b) /\
      (forall b, In b nl -> In b (ifl (run addrs has_ct (es ++ [e]))) \/ sync_of addrs b <> None).
Proof. intros addrs has_ct es e Hn. apply sync_success_wins; auto. Qed.
Print Assumptions C10_synchronous_success_wins.

(* the same for start() itself *)
Theorem C10_start_winner_is_synchronous_success :
  forall addrs has_ct w, addrs <> [] ->
    fut (run addrs has_ct []) = FOk w -> sync_of addrs w = Some true /\ In w (started (run addrs has_ct [])).
Proof. intros addrs has_ct w Hn. apply start_winner; auto. Qed.
Print Assumptions C10_start_winner_is_synchronous_success.

(* (INV-3a) An error other than the timeout arises only when every address has been
   tried and every attempt has completed (remaining = 0, nothing in flight); it
   carries the last recorded failure. *)
Theorem C10_failure_only_when_all_addresses_failed :
  forall addrs has_ct es x, addrs <> [] ->
    fut (run addrs has_ct es) = FErr x ->
    infl (run addrs has_ct es) = [] /\
    length (started (run addrs has_ct es)) = length addrs /\
    remaining (run addrs has_ct es) = 0%Z /\
    exists b, x = Some b /\ In b (started (run addrs has_ct es)).
Proof. intros addrs has_ct es x Hn. apply error_means_exhausted; auto. Qed.
Print Assumptions C10_failure_only_when_all_addresses_failed.

(* (INV-3b) TimeoutError arises only from the connect timer firing while pending,
   and that timer firing while pending always resolves the future. *)
Theorem C10_timeout_only_from_connect_timer :
  forall addrs has_ct es e, addrs <> [] ->
    is_done (run addrs has_ct es) = false ->
    fut (run addrs has_ct (es ++ [e])) = FTimeout ->
    e = EConnectTimer /\ ct_armed (run addrs has_ct es) = true.
Proof. intros addrs has_ct es e Hn. apply timeout_only_from_connect_timer; auto. Qed.
Print Assumptions C10_timeout_only_from_connect_timer.

Theorem C10_start_never_times_out :
  forall addrs has_ct, addrs <> [] -> fut (run addrs has_ct []) <> FTimeout.
Proof. intros addrs has_ct Hn. apply start_never_times_out; auto. Qed.
Print Assumptions C10_start_never_times_out.

Theorem C10_connect_timer_resolves :
  forall addrs has_ct es, addrs <> [] ->
    is_done (run addrs has_ct es) = false -> ct_armed (run addrs has_ct es) = true ->
    fut (run addrs has_ct (es ++ [EConnectTimer])) = FTimeout.
Proof. intros addrs has_ct es Hn. apply connect_timer_resolves. Qed.
Print Assumptions C10_connect_timer_resolves.

(* (INV-4) No leak and no premature close, in every reachable state:
   while pending the connector has closed nothing; once resolved with stream w,
   w has never been closed and is no longer tracked as in flight, and close() has
   been called on every other stream it opened (an attempt whose connect() call
   raised opened no stream: raises_of a = true); after a timeout close() has been
   called on every stream it opened; after a failure nothing is in flight (every
   opened stream belongs to a failed attempt). *)
Theorem C10_no_socket_leak :
  forall addrs has_ct es, addrs <> [] ->
    let s := run addrs has_ct es in
    (is_done s = false -> closes s = []) /\
    (forall w, fut s = FOk w ->
       ~ In w (closes s) /\ In w (started s) /\ ~ In w (ifl s) /\
       forall a, In a (started s) -> raises_of addrs a = false -> a <> w -> In a (closes s)) /\
    (fut s = FTimeout -> forall a, In a (started s) -> raises_of addrs a = false -> In a (closes s)) /\
    (forall x, fut s = FErr x -> infl s = []).
Proof. intros addrs has_ct es Hn. apply no_leak; auto. Qed.
Print Assumptions C10_no_socket_leak.

(* (INV-5) At most one attempt per address family is in flight at any time
   (for any number of families). *)
Theorem C10_one_attempt_in_flight_per_family :
  forall addrs has_ct es, addrs <> [] ->
    NoDup (map (fam_of addrs) (ifl (run addrs has_ct es))).
Proof. intros addrs has_ct es Hn. apply one_per_family; auto. Qed.
Print Assumptions C10_one_attempt_in_flight_per_family.

(* (LIVE) Liveness as a state property: in every reachable state with no attempt in
   flight and the fallback timer not scheduled, the future is resolved.  (Stronger
   than the design note: the connect timer need not have fired.) *)
Theorem C10_quiescent_connector_is_resolved :
  forall addrs has_ct es, addrs <> [] ->
    infl (run addrs has_ct es) = [] -> tmo_armed (run addrs has_ct es) = false ->
    is_done (run addrs has_ct es) = true.
Proof. intros addrs has_ct es Hn. apply quiescent_is_resolved; auto. Qed.
Print Assumptions C10_quiescent_connector_is_resolved.

(* (STATE) self.remaining counts the attempts not yet completed; no address is
   tried twice; what is in flight has been started. *)
Theorem C10_remaining_counts_uncompleted_attempts :
  forall addrs has_ct es, addrs <> [] ->
    let s := run addrs has_ct es in
    remaining s = (Z.of_nat (length addrs) - Z.of_nat (length (started s)) + Z.of_nat (length (infl s)))%Z /\
    NoDup (started s) /\ (forall a, In a (started s) -> a < length addrs) /\
    NoDup (ifl s) /\ incl (ifl s) (started s).
Proof. intros addrs has_ct es Hn. apply remaining_counts; auto. Qed.
Print Assumptions C10_remaining_counts_uncompleted_attempts.

(* (MODEL) The fuel that bounds the nesting of on_timeout in the model is never
   exhausted: run_case is always the list of snapshots of the trace. *)
Theorem C10_model_never_runs_out_of_fuel :
  forall addrs has_ct es, addrs <> [] ->
    fault (run addrs has_ct es) = false /\
    run_case (addrs, has_ct, es) =
      OList (map (snap (length addrs)) (trace addrs (start addrs has_ct) es)).
Proof.
  intros addrs has_ct es Hn. split; [apply never_faults; auto|apply run_case_shape; auto].
Qed.
Print Assumptions C10_model_never_runs_out_of_fuel.

(* (CHECK) The boolean property checker that ./check applies to the IMPLEMENTATION's
   observables (Run.check_case: resolved once, winner = first success while pending,
   errors only when exhausted / from the connect timer, no leak and no premature
   close, one attempt per family, quiescent => resolved, remaining = uncompleted
   attempts) accepts the model's own observable for EVERY input: every address list
   (including the empty one), with or without connect timeout, every event list.
   Proved by induction over the event list with a coupling invariant between the
   checker's bookkeeping and the model state (Proofs9-11). *)
Theorem C10_checker_accepts_model :
  forall i, check_case i (run_case i) = true.
Proof. exact checker_accepts_model. Qed.
Print Assumptions C10_checker_accepts_model.

(* ---------- second entry point: the public TCPClient.connect(host, port, timeout=...) ---------- *)

(* (CLIENT-1) The deadline reaches the connector: with a resolver that answers, what the caller of
   TCPClient.connect observes (completion, attempts, close() calls, remaining, timers) is exactly
   the _Connector run with "connect timer present" = "a timeout was given" - a number and a
   timedelta alike - so every theorem above holds through the public entry point: in particular
   the deadline firing while attempts are pending closes them, and nothing starts afterwards. *)
Theorem C10_client_connect_is_connector_with_deadline :
  forall t addrs b es, t <> TBad ->
    run_case2 (Client t RNow, (addrs, b, es)) = run_case (addrs, has_deadline t, es) /\
    has_deadline TNumber = has_deadline TTimedelta /\ has_deadline TNone = false.
Proof. intros t addrs b es H. repeat split. apply client_is_connector. exact H. Qed.
Print Assumptions C10_client_connect_is_connector_with_deadline.

(* (CLIENT-2) An unsupported timeout type is rejected before anything is opened. *)
Theorem C10_client_bad_timeout_is_TypeError :
  forall r i, run_case2 (Client TBad r, i) = OTag "TypeError"%string.
Proof. exact client_bad_timeout. Qed.
Print Assumptions C10_client_bad_timeout_is_TypeError.

(* (CLIENT-3) While the resolver has not answered nothing is opened, and the call ends only by
   TimeoutError, only if a deadline was given and the deadline event occurred; once ended it
   never changes. *)
Theorem C10_client_resolver_wait :
  forall dl es f, In f (resolve_wait dl FPending es) ->
    f = FPending \/ (f = FTimeout /\ dl = true /\ In EConnectTimer es).
Proof. exact resolve_wait_values. Qed.
Print Assumptions C10_client_resolver_wait.

Theorem C10_client_resolver_wait_resolved_once :
  forall dl es f, f <> FPending -> Forall (fun g => g = f) (resolve_wait dl f es).
Proof. intros dl es f. apply resolve_wait_once. Qed.
Print Assumptions C10_client_resolver_wait_resolved_once.

(* (CLIENT-CHECK) the checker applied to the implementation through either entry point accepts
   the model, for every input. *)
Theorem C10_client_checker_accepts_model :
  forall i, check_case2 i (run_case2 i) = true.
Proof. exact client_checker_accepts_model. Qed.
Print Assumptions C10_client_checker_accepts_model.

(* ---------- phase 4: source_ip / source_port and the ssl_options hand-off ---------- *)

(* (SRC-1) TCPClient._create_stream binds the socket of each attempt: an address whose family
   cannot be bound to the given source_ip is a raising attempt (no stream) of the same family;
   all other addresses, and every address under source_port alone or no source, are unchanged. *)
Theorem C10_source_binding_is_raising_attempts :
  forall s addrs a f o, nth_error addrs a = Some (f, o) ->
    nth_error (apply_source s addrs) a = Some (if bind_fails s f then (f, ORaises) else (f, o)) /\
    apply_source SrcNone addrs = addrs /\ apply_source SrcPort addrs = addrs /\
    length (apply_source s addrs) = length addrs.
Proof.
  intros s addrs a f o H. repeat split.
  - apply apply_source_nth; exact H.
  - apply apply_source_none.
  - apply apply_source_port.
  - apply apply_source_length.
Qed.
Print Assumptions C10_source_binding_is_raising_attempts.

(* (SRC-2) The connector-level guarantees are unaffected by source binding: for every source
   option, address list and schedule, no leak / exactly-once / one attempt per family / liveness
   hold of the run over the bound address list (instances of the theorems above). *)
Theorem C10_guarantees_unaffected_by_source_binding :
  forall src addrs has_ct es, addrs <> [] ->
    let s := run (apply_source src addrs) has_ct es in
    (is_done s = false -> closes s = []) /\
    (forall w, fut s = FOk w -> ~ In w (closes s) /\
       forall a, In a (started s) -> raises_of (apply_source src addrs) a = false -> a <> w -> In a (closes s)) /\
    (fut s = FTimeout -> forall a, In a (started s) -> raises_of (apply_source src addrs) a = false -> In a (closes s)) /\
    NoDup (map (fam_of (apply_source src addrs)) (ifl s)) /\
    (infl s = [] -> tmo_armed s = false -> is_done s = true) /\
    (forall es2, is_done s = true -> fut (run (apply_source src addrs) has_ct (es ++ es2)) = fut s).
Proof.
  intros src addrs has_ct es Hn. pose proof (apply_source_nonempty src addrs Hn) as Hn'.
  destruct (no_leak _ Hn' has_ct es) as [L1 [L2 [L3 _]]]. cbv zeta. repeat split; auto.
  - apply (L2 w H).
  - intros a Ha Hr Hw. apply (L2 w H); auto.
  - apply one_per_family; auto.
  - apply quiescent_is_resolved; auto.
  - intros es2 D. apply (resolved_once (apply_source src addrs) has_ct es D es2).
Qed.
Print Assumptions C10_guarantees_unaffected_by_source_binding.

(* (TLS, recorded as outside the property - DESIGN.md) When ssl_options is given, a timeout is
   given, the connector succeeds and the handshake never completes, the caller gets TimeoutError
   while the winning stream has been closed by nobody: a witness, not a guarantee. *)
Theorem C10_tls_timeout_leaves_stream_open_refuted :
  exists i, exists o1, run_case3 i = OList [o1; OList [OTag "Timeout"%string; OBool true]] /\
    fut (run [(4, OSuccess)] true []) = FOk 0 /\ closes (run [(4, OSuccess)] true []) = [].
Proof.
  exists (SrcNone, TlsNever, (Client TNumber RNow, ([(4, OSuccess)], true, []))).
  exists (run_case ([(4, OSuccess)], true, [])). exact tls_timeout_witness.
Qed.
Print Assumptions C10_tls_timeout_leaves_stream_open_refuted.

(* (P4-CHECK) the checker through every entry point / option accepts the model, for every input *)
Theorem C10_p4_checker_accepts_model : forall i, check_case3 i (run_case3 i) = true.
Proof. exact checker3_accepts_model. Qed.
Print Assumptions C10_p4_checker_accepts_model.

(* The hypotheses are satisfiable and the statements are not vacuous: a run in which
   the secondary family wins, the late primary success is closed, nothing leaks. *)
Example C10_example_run :
  let addrs := [(4, OPending); (4, OPending); (6, OPending); (6, OSuccess)] in
  let s := run addrs true [EPrimaryTimer; EDone 2 false; EDone 0 true] in
  addrs <> [] /\ fut s = FOk 3 /\ started s = [0; 2; 3] /\ closes s = [2; 0; 0] /\ infl s = [].
Proof. vm_compute. repeat split; congruence. Qed.

(* The former hang (connect raising for the secondary family inside the fallback
   timer callback, then the primary attempt failing; no connect timeout): with the
   fixed try_connect the raising call is a failed attempt without a stream and the
   future resolves with the last error. *)
Example C10_example_raising_connect_resolves :
  let addrs := [(4, OPending); (6, ORaises)] in
  let s := run addrs false [EPrimaryTimer; EDone 0 false] in
  fut s = FErr (Some 0) /\ started s = [0; 1] /\ streams s = [0] /\ remaining s = 0%Z /\ closes s = [].
Proof. vm_compute. repeat split; congruence. Qed.
