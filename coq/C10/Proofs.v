(* C10 — proofs, part 1: the re-entrant definitions of Model.v reduce to a
   plain "chain" of attempts plus an explicit failure tail; facts about
   split(). *)
From Coq Require Import List ZArith Bool Arith Lia.
Import ListNotations.
From TV Require Import C10.Model.

Lemma trace_length addrs s es : length (trace addrs s es) = S (length es).
Proof. revert s; induction es as [|e es IH]; intros s; simpl; auto. Qed.

Arguments Model.open_attempt : simpl never.

Section Sem.
Variable addrs : list addr.
Notation n := (length addrs).

(* try_connect with a tail that does nothing *)
Definition chain := try_connect addrs (fun s => s).

(* tails of the form `if self.timeout is not None: X` *)
Definition postf (X : st -> st) : st -> st := fun s => if tmo_var s then X s else s.

Lemma tmo_var_clear s : tmo_var (clear_timeouts s) = tmo_var s.
Proof. unfold clear_timeouts. destruct (tmo_var s) eqn:E; simpl; rewrite ?E; destruct (ct_var s); simpl; auto. Qed.

Lemma tmo_var_succeed a s : tmo_var (succeed a s) = tmo_var s.
Proof.
  unfold succeed. destruct (is_done (clear_timeouts s)); simpl; apply tmo_var_clear.
Qed.

Notation open_attempt := (open_attempt addrs).

Lemma tc_nil p s : try_connect addrs p [] s =
  if (remaining s =? 0)%Z && negb (is_done s) then set_fut (FErr (last_err s)) s else s.
Proof. reflexivity. Qed.

Lemma tc_cons p a l s : try_connect addrs p (a :: l) s =
  let s1 := open_attempt a s in
  match sync_of addrs a with
  | None => set_infl (infl s1 ++ [(a, l)]) s1
  | Some true => succeed a (dec s1)
  | Some false => if is_done (dec s1) then dec s1 else p (try_connect addrs p l (set_last (Some a) (dec s1)))
  end.
Proof. simpl. destruct (sync_of addrs a) as [[|]|]; reflexivity. Qed.

Lemma chain_nil s : chain [] s =
  if (remaining s =? 0)%Z && negb (is_done s) then set_fut (FErr (last_err s)) s else s.
Proof. reflexivity. Qed.

Lemma chain_cons a l s : chain (a :: l) s =
  let s1 := open_attempt a s in
  match sync_of addrs a with
  | None => set_infl (infl s1 ++ [(a, l)]) s1
  | Some true => succeed a (dec s1)
  | Some false => if is_done (dec s1) then dec s1 else chain l (set_last (Some a) (dec s1))
  end.
Proof. unfold chain. rewrite tc_cons. reflexivity. Qed.

Lemma tmo_var_open a s : tmo_var (open_attempt a s) = tmo_var s.
Proof. unfold Model.open_attempt. destruct (raises_of addrs a); reflexivity. Qed.

Lemma fault_open a s : fault (open_attempt a s) = fault s.
Proof. unfold Model.open_attempt. destruct (raises_of addrs a); reflexivity. Qed.

Lemma is_done_open a s : is_done (open_attempt a s) = is_done s.
Proof. unfold Model.open_attempt. destruct (raises_of addrs a); reflexivity. Qed.

Lemma chain_tmo_false l : forall s, tmo_var s = false -> tmo_var (chain l s) = false.
Proof.
  induction l as [|a l IH]; intros s H.
  - rewrite chain_nil. destruct (_ && _); simpl; auto.
  - rewrite chain_cons. cbv zeta.
    assert (O : tmo_var (open_attempt a s) = false) by (rewrite tmo_var_open; auto).
    destruct (sync_of addrs a) as [[|]|].
    + rewrite tmo_var_succeed. exact O.
    + destruct (is_done _); [exact O|]. apply IH. exact O.
    + exact O.
Qed.

Lemma tc_postf_irrel X l : forall s, tmo_var s = false -> try_connect addrs (postf X) l s = chain l s.
Proof.
  induction l as [|a l IH]; intros s H.
  - reflexivity.
  - rewrite chain_cons, tc_cons. cbv zeta. destruct (sync_of addrs a) as [[|]|]; auto.
    destruct (is_done _); auto.
    assert (O : tmo_var (set_last (Some a) (dec (open_attempt a s))) = false).
    { change (tmo_var (open_attempt a s) = false). rewrite tmo_var_open; auto. }
    rewrite IH by exact O. unfold postf.
    rewrite chain_tmo_false; auto.
Qed.

(* on_timeout without fuel *)
Definition OT (s : st) : st :=
  let s := set_tmo false (tmo_armed s) s in
  if is_done s then s else chain (secondary addrs) s.

Lemma on_timeout_OT f s : on_timeout addrs (S f) s = OT s.
Proof.
  unfold OT; simpl. destruct (is_done _); auto.
  change (fun s' : st => if tmo_var s' then on_timeout addrs f (set_tmo (tmo_var s') false s') else s')
    with (postf (fun s' => on_timeout addrs f (set_tmo (tmo_var s') false s'))).
  apply tc_postf_irrel. reflexivity.
Qed.

Definition POST (s : st) : st := if tmo_var s then OT (set_tmo (tmo_var s) false s) else s.

Lemma post_POST s : post addrs s = POST s.
Proof. unfold post, POST, FUEL. rewrite on_timeout_OT. auto. Qed.

Lemma tmo_var_OT s : tmo_var (OT s) = false.
Proof. unfold OT. destruct (is_done _); simpl; auto. apply chain_tmo_false. reflexivity. Qed.

Lemma POST_idem s : POST (POST s) = POST s.
Proof.
  unfold POST at 2 3. destruct (tmo_var s) eqn:E.
  - unfold POST. rewrite tmo_var_OT. auto.
  - unfold POST. rewrite E. auto.
Qed.

Lemma tc_POST l : forall s, POST (try_connect addrs POST l s) = POST (chain l s).
Proof.
  induction l as [|a l IH]; intros s.
  - reflexivity.
  - rewrite chain_cons, tc_cons. cbv zeta. destruct (sync_of addrs a) as [[|]|]; auto.
    destruct (is_done _); auto.
    rewrite POST_idem. apply IH.
Qed.

Lemma post_ext l s : try_connect addrs (post addrs) l s = try_connect addrs POST l s.
Proof.
  revert s; induction l as [|a l IH]; intros s.
  - reflexivity.
  - rewrite !tc_cons. cbv zeta. destruct (sync_of addrs a) as [[|]|]; auto.
    destruct (is_done _); auto.
    rewrite IH, post_POST. auto.
Qed.

(* the clean step function *)
Definition fail_tail (a : nat) (r : list nat) (s : st) : st :=
  POST (chain r (set_last (Some a) s)).

Definition step' (s : st) (e : event) : st :=
  match e with
  | EDone a ok =>
      match take_infl a (infl s) with
      | None => s
      | Some (r, rest) =>
          let s1 := dec (set_infl rest s) in
          if ok then succeed a s1
          else if is_done s1 then s1 else fail_tail a r s1
      end
  | EPrimaryTimer => if tmo_armed s then OT (set_tmo (tmo_var s) false s) else s
  | EConnectTimer => if ct_armed s then on_connect_timeout (set_ct (ct_var s) false s) else s
  end.

Lemma step_step' s e : step addrs s e = step' s e.
Proof.
  destruct e as [a ok| |]; unfold step, step'.
  - destruct (take_infl a (infl s)) as [[r rest]|]; auto.
    unfold on_done. destruct ok; auto. cbv zeta.
    destruct (is_done _); auto.
    unfold fail_tail. rewrite post_POST, post_ext. apply tc_POST.
  - unfold FUEL. rewrite on_timeout_OT. auto.
  - auto.
Qed.

Lemma start_eq has_ct :
  start addrs has_ct =
  (let s := set_tmo true true (chain (primary addrs) (init addrs)) in
   if has_ct then set_ct true true s else s).
Proof.
  unfold start. rewrite post_ext.
  replace (try_connect addrs POST (primary addrs) (init addrs)) with (chain (primary addrs) (init addrs)); auto.
  symmetry. apply (tc_postf_irrel (fun s => OT (set_tmo (tmo_var s) false s))). reflexivity.
Qed.

(* fault is never set *)
Lemma chain_fault l : forall s, fault (chain l s) = fault s.
Proof.
  induction l as [|a l IH]; intros s.
  - rewrite chain_nil. destruct (_ && _); auto.
  - rewrite chain_cons. cbv zeta.
    assert (O : fault (dec (open_attempt a s)) = fault s) by (change (fault (open_attempt a s) = fault s); apply fault_open).
    destruct (sync_of addrs a) as [[|]|].
    + rewrite <- O. generalize (dec (open_attempt a s)). intros t.
      unfold succeed, clear_timeouts.
      repeat match goal with |- context [if ?c then _ else _] => destruct c; simpl end; auto.
    + destruct (is_done _); [exact O|]. rewrite IH. exact O.
    + change (fault (open_attempt a s) = fault s). apply fault_open.
Qed.

Lemma OT_fault s : fault (OT s) = fault s.
Proof. unfold OT. destruct (is_done _); simpl; auto. rewrite chain_fault. auto. Qed.

End Sem.
