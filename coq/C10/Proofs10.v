(* C10 — proofs, part 10: coupling between the checker's bookkeeping and the model
   state; one checker step accepts one model step. *)
From Coq Require Import String.
From Coq Require Import List ZArith Bool Arith Lia Permutation.
Import ListNotations.
From TV Require Import Lib.Obs C10.Model C10.Run C10.Proofs C10.Proofs2 C10.Proofs3 C10.Proofs4 C10.Proofs5 C10.Proofs6 C10.Proofs7 C10.Proofs9.

Lemma raises_sync addrs a : raises_of addrs a = true -> sync_of addrs a = Some false.
Proof. unfold raises_of, sync_of. destruct (nth_error addrs a) as [[f [| | |]]|]; congruence. Qed.

Lemma not_raises addrs a : sync_of addrs a <> Some false -> raises_of addrs a = false.
Proof.
  intros H. destruct (raises_of addrs a) eqn:R; auto. apply raises_sync in R. congruence.
Qed.

Lemma no_In_nil {A} (l : list A) : (forall x, ~ In x l) -> l = [].
Proof. destruct l as [|x l]; auto. intros H. exfalso. apply (H x). left; auto. Qed.

Section Chk.
Variable addrs : list addr.
Hypothesis Hn : addrs <> [].
Variable has_ct : bool.
Notation n := (length addrs).
Notation Inv := (Inv addrs).

Record Kinv (c : cst) (s : st) : Prop := mkK {
  k_fut : sfut (cprev c) = fut s;
  k_started : sstarted (cprev c) = started s;
  k_ct : sct (cprev c) = ct_armed s;
  k_nd : NoDup (cdone c);
  k_done : forall a, In a (cdone c) <-> (In a (started s) /\ ~ In a (ifl s));
  k_ok_in : forall a, In a (cok c) -> In a (started s) /\ ~ In a (ifl s) /\ raises_of addrs a = false;
  k_ok_nil : (is_done s = false \/ exists x, fut s = FErr x) -> cok c = [];
  k_ok_win : forall w, fut s = FOk w -> In w (cok c)
}.

Section OneStep.
Variables (c : cst) (s : st) (e : event) (s' : st) (nl : list nat).
Hypothesis K : Kinv c s.
Hypothesis HI : incl (ifl s) (started s).
Hypothesis HSY : forall a, In a (ifl s) -> sync_of addrs a = None.
Hypothesis IV : Inv s'.
Hypothesis HS : started s' = started s ++ nl.
Hypothesis HN1 : forall b, In b nl -> sync_of addrs b = Some true -> fut s' = FOk b.
Hypothesis HN2 : forall b, In b nl -> In b (ifl s') \/ sync_of addrs b <> None.
Hypothesis HO1 : forall w, fut s' = FOk w ->
     fut s = FOk w \/ (e = EDone w true /\ In w (ifl s)) \/
     (sync_of addrs w = Some true /\ ~ In w (started s) /\ In w (started s')).
Hypothesis HO2 : fut s' = FTimeout -> fut s = FTimeout \/ (e = EConnectTimer /\ ct_armed s = true).
Hypothesis HI1 : forall b, In b (ifl s) -> ~ completes e b -> In b (ifl s').
Hypothesis HI2 : forall b, In b (ifl s') ->
     (In b (ifl s) /\ ~ completes e b) \/ (sync_of addrs b = None /\ ~ In b (started s)).
Hypothesis HST : is_done s = true -> fut s' = fut s /\ started s' = started s.
Hypothesis HF : forall a, is_done s = false -> e = EDone a true -> In a (ifl s) -> fut s' = FOk a.
Hypothesis HCT : is_done s = false -> ct_armed s = true -> e = EConnectTimer -> fut s' = FTimeout.
Hypothesis HHC : ct_armed s = true -> has_ct = true.
Hypothesis HERR : forall x, fut s = FErr x -> infl s = [].

Let N := abs n s'.
Lemma C' : Core0 addrs (qf addrs s') s'.
Proof. exact (proj1 (proj1 IV)). Qed.

Lemma nd_started' : NoDup (started s').
Proof.
  apply (NoDup_count_occ Nat.eq_dec). intros x. pose proof (c_cnt _ _ _ C' x) as H.
  unfold cnt in H. destruct (x <? n); lia.
Qed.

Lemma bound_started' a : In a (started s') -> a < n.
Proof.
  intros Ha. apply cnt_in in Ha. pose proof (c_cnt _ _ _ C' a). destruct (Nat.ltb_spec a n); lia.
Qed.

Lemma nl_fresh x : In x nl -> ~ In x (started s).
Proof.
  pose proof nd_started' as ND. rewrite HS in ND. destruct (NoDup_app_l _ _ ND) as [_ [_ D]].
  intros H1 H2. apply (D x); auto.
Qed.

Lemma nd_nl : NoDup nl.
Proof. pose proof nd_started' as ND. rewrite HS in ND. apply (NoDup_app_l _ _ ND). Qed.

Lemma D_newly : k_newly c N = nl.
Proof. unfold k_newly. rewrite (k_started _ _ K). simpl. rewrite HS. apply skipn_app_exact. Qed.

Lemma D_prev a : In a (k_infl_prev c) <-> In a (ifl s).
Proof.
  unfold k_infl_prev. rewrite inflight_In, (k_started _ _ K), (k_done _ _ K). split.
  - intros [H1 H2]. destruct (in_dec Nat.eq_dec a (ifl s)); auto. exfalso. auto.
  - intros H. split; [apply HI; auto|]. intros [_ H2]. auto.
Qed.

Definition effl : list nat :=
  match e with EDone a _ => if k_eff c (Some e) then [a] else [] | _ => [] end.
Definition effok : list nat :=
  match e with EDone a true => if k_eff c (Some e) then [a] else [] | _ => [] end.

Lemma D_effl x : In x effl <-> (completes e x /\ In x (ifl s)).
Proof.
  unfold effl. destruct e as [a ok| |]; simpl; try tauto.
  destruct (mem a (k_infl_prev c)) eqn:M.
  - apply mem_In in M. apply D_prev in M. simpl. split; [intros [H|[]]; subst; auto|intros [H _]; auto].
  - apply mem_false in M. rewrite D_prev in M. simpl. split; [tauto|intros [H1 H2]; subst; auto].
Qed.

Lemma D_effok x : In x effok <-> (exists a, e = EDone a true /\ a = x /\ In x (ifl s)).
Proof.
  unfold effok. destruct e as [a [|]| |]; simpl; try (split; [tauto|intros [a' [H _]]; discriminate]).
  destruct (mem a (k_infl_prev c)) eqn:M.
  - apply mem_In in M. apply D_prev in M. simpl. split.
    + intros [H|[]]; subst. exists x. auto.
    + intros [a' [H1 [H2 _]]]. inversion H1; subst. auto.
  - apply mem_false in M. rewrite D_prev in M. simpl. split; [tauto|].
    intros [a' [H1 [H2 H3]]]. inversion H1; subst. auto.
Qed.

Lemma dn_eq : k_dn addrs c (Some e) N = cdone c ++ effl ++ filter (is_sync addrs) nl.
Proof. unfold k_dn, effl. rewrite D_newly. destruct e; reflexivity. Qed.

Lemma oks_eq : k_oks addrs c (Some e) N = cok c ++ effok ++ filter (is_sync_ok addrs) nl.
Proof. unfold k_oks, effok. rewrite D_newly. destruct e as [a [|]| |]; reflexivity. Qed.

Lemma is_sync_true a : is_sync addrs a = true <-> sync_of addrs a <> None.
Proof. unfold is_sync. destruct (sync_of addrs a); split; congruence. Qed.

Lemma is_sync_ok_true a : is_sync_ok addrs a = true <-> sync_of addrs a = Some true.
Proof. unfold is_sync_ok. destruct (sync_of addrs a) as [[|]|]; split; congruence. Qed.

Lemma ifl_started' a : In a (ifl s') -> In a (started s').
Proof. apply (c_ifl_st _ _ _ C'). Qed.

Lemma D_dn x : In x (k_dn addrs c (Some e) N) <-> (In x (started s') /\ ~ In x (ifl s')).
Proof.
  rewrite dn_eq, !in_app_iff, D_effl, filter_In, is_sync_true, (k_done _ _ K), HS, in_app_iff. split.
  - intros [[H1 H2]|[[H1 H2]|[H1 H2]]].
    + split; auto. intros H. destruct (HI2 x H) as [[H3 _]|[_ H3]]; auto.
    + split; [left; apply HI; auto|]. intros H. destruct (HI2 x H) as [[_ H3]|[_ H3]]; auto.
    + split; auto. intros H. apply H2. apply (c_ifl_sync _ _ _ C'). exact H.
  - intros [[H1|H1] H2].
    + destruct (in_dec Nat.eq_dec x (ifl s)) as [I|I]; [|left; auto].
      right. left. split; auto.
      destruct e as [a ok| |]; simpl.
      * destruct (Nat.eq_dec a x); auto. exfalso. apply H2. apply HI1; auto.
      * exfalso. apply H2. apply HI1; auto.
      * exfalso. apply H2. apply HI1; auto.
    + right. right. split; auto. destruct (HN2 x H1); [contradiction|auto].
Qed.

Lemma D_nd : NoDup (k_dn addrs c (Some e) N).
Proof.
  rewrite dn_eq. apply NoDup_app_intro; [apply (k_nd _ _ K)|apply NoDup_app_intro|].
  - unfold effl. destruct e; try constructor. destruct (k_eff _ _); repeat constructor; auto.
  - apply NoDup_filter. apply nd_nl.
  - intros x H1 H2. apply D_effl in H1. apply filter_In in H2. destruct H1 as [_ H1], H2 as [H2 _].
    apply (nl_fresh x H2). apply HI. exact H1.
  - intros x H1 H2. apply (k_done _ _ K) in H1. destruct H1 as [H1 H1'].
    apply in_app_or in H2. destruct H2 as [H2|H2].
    + apply D_effl in H2. destruct H2; auto.
    + apply filter_In in H2. destruct H2 as [H2 _]. apply (nl_fresh x H2). exact H1.
Qed.

Lemma D_next x : In x (k_infl_next addrs c (Some e) N) <-> In x (ifl s').
Proof.
  unfold k_infl_next. rewrite inflight_In, D_dn. simpl. split.
  - intros [H1 H2]. destruct (in_dec Nat.eq_dec x (ifl s')); auto. exfalso. auto.
  - intros H. split; [apply ifl_started'; auto|]. intros [_ H2]. auto.
Qed.

Lemma D_len : length (k_dn addrs c (Some e) N) + length (infl s') = length (started s').
Proof.
  replace (length (infl s')) with (length (ifl s')) by (unfold ifl; apply map_length).
  rewrite <- app_length. apply Permutation_length. apply NoDup_Permutation.
  - apply NoDup_app_intro; [apply D_nd|apply (c_ifl_nd _ _ _ C')|].
    intros x H1 H2. apply D_dn in H1. destruct H1; auto.
  - apply nd_started'.
  - intros x. rewrite in_app_iff, D_dn. split.
    + intros [[H _]|H]; auto. apply ifl_started'; auto.
    + intros H. destruct (in_dec Nat.eq_dec x (ifl s')); auto.
Qed.

Lemma D_next_nil : k_infl_next addrs c (Some e) N = [] <-> infl s' = [].
Proof.
  split; intros H.
  - destruct (infl s') as [|[a r] l] eqn:E; auto. exfalso.
    assert (In a (ifl s')) by (unfold ifl; rewrite E; left; auto).
    apply D_next in H0. rewrite H in H0. exact H0.
  - destruct (k_infl_next addrs c (Some e) N) as [|a l] eqn:E; auto. exfalso.
    assert (In a (ifl s')) by (apply D_next; rewrite E; left; auto).
    unfold ifl in H0. rewrite H in H0. exact H0.
Qed.

Lemma fut_pending_cases : is_done s = false -> forall w, fut s' = FOk w ->
  In w effok \/ (In w nl /\ sync_of addrs w = Some true).
Proof.
  intros D w F. destruct (HO1 w F) as [H|[[H1 H2]|[H1 [H2 H3]]]].
  - unfold is_done in D. rewrite H in D. discriminate.
  - left. apply D_effok. exists w. auto.
  - right. split; auto. rewrite HS in H3. apply in_app_or in H3. destruct H3; [contradiction|auto].
Qed.

Lemma D_ok_in x : In x (k_oks addrs c (Some e) N) ->
  In x (started s') /\ ~ In x (ifl s') /\ raises_of addrs x = false.
Proof.
  rewrite oks_eq, !in_app_iff. intros [H|[H|H]].
  - destruct (k_ok_in _ _ K x H) as [H1 [H2 H3]]. split; [rewrite HS; apply in_or_app; auto|split; auto].
    intros H4. destruct (HI2 x H4) as [[H5 _]|[_ H5]]; auto.
  - apply D_effok in H. destruct H as [a [E [-> H]]]. split; [rewrite HS; apply in_or_app; left; apply HI; auto|split].
    + intros H4. destruct (HI2 x H4) as [[_ H5]|[_ H5]]; [apply H5; rewrite E; reflexivity|apply H5; apply HI; auto].
    + apply not_raises. rewrite (HSY x H). discriminate.
  - apply filter_In in H. destruct H as [H1 H2]. apply is_sync_ok_true in H2.
    split; [rewrite HS; apply in_or_app; auto|split].
    + intros H4. rewrite (c_ifl_sync _ _ _ C' x H4) in H2. discriminate.
    + apply not_raises. rewrite H2. discriminate.
Qed.

Lemma nl_nil_of_done : is_done s = true -> nl = [].
Proof.
  intros D. destruct (HST D) as [_ S]. rewrite HS in S.
  rewrite <- (app_nil_r (started s)) in S at 2. apply app_inv_head in S. exact S.
Qed.

Lemma D_ok_nil : (is_done s' = false \/ exists x, fut s' = FErr x) -> k_oks addrs c (Some e) N = [].
Proof.
  intros H.
  assert (NW : forall w, fut s' <> FOk w).
  { intros w F. destruct H as [H|[x H]]; [unfold is_done in H; rewrite F in H; discriminate|congruence]. }
  apply no_In_nil. intros x Hx. rewrite oks_eq, !in_app_iff in Hx.
  destruct (Bool.bool_dec (is_done s) true) as [D|D]; [|apply not_true_is_false in D].
  - destruct (HST D) as [F _]. pose proof (nl_nil_of_done D) as NL.
    assert (E : exists y, fut s = FErr y).
    { destruct H as [H|[y H]]; [unfold is_done in *; rewrite F in H; congruence|exists y; congruence]. }
    destruct Hx as [Hx|[Hx|Hx]].
    + rewrite (k_ok_nil _ _ K) in Hx; auto.
    + apply D_effok in Hx. destruct Hx as [a [_ [_ Hx]]]. destruct E as [y E].
      unfold ifl in Hx. rewrite (HERR y E) in Hx. exact Hx.
    + rewrite NL in Hx. exact Hx.
  - destruct Hx as [Hx|[Hx|Hx]].
    + rewrite (k_ok_nil _ _ K) in Hx; auto.
    + apply D_effok in Hx. destruct Hx as [a [E [-> Hx]]]. apply (NW x). apply HF; auto.
    + apply filter_In in Hx. destruct Hx as [H1 H2]. apply is_sync_ok_true in H2. apply (NW x). auto.
Qed.

Lemma D_ok_win w : fut s' = FOk w -> In w (k_oks addrs c (Some e) N).
Proof.
  intros F. rewrite oks_eq, !in_app_iff.
  destruct (Bool.bool_dec (is_done s) true) as [D|D]; [|apply not_true_is_false in D].
  - destruct (HST D) as [F' _]. left. apply (k_ok_win _ _ K). congruence.
  - destruct (fut_pending_cases D w F) as [H|[H1 H2]]; [auto|].
    right. right. apply filter_In. split; auto. apply is_sync_ok_true. auto.
Qed.

(* ---------- the new bookkeeping is coupled with the new state ---------- *)
Lemma K_next : Kinv (mkc N (k_dn addrs c (Some e) N) (k_oks addrs c (Some e) N)) s'.
Proof.
  constructor; simpl; auto.
  - apply D_nd.
  - apply D_dn.
  - apply D_ok_in.
  - apply D_ok_nil.
  - apply D_ok_win.
Qed.

(* ---------- every conjunct of the checker holds ---------- *)
Lemma P_pending : pending (sfut (cprev c)) = negb (is_done s).
Proof. rewrite (k_fut _ _ K). apply pending_is_done. Qed.

Lemma ck_log_ok : ck_log addrs c N = true.
Proof.
  unfold ck_log. rewrite (k_started _ _ K). simpl. rewrite HS at 1. rewrite firstn_app_exact, list_eqb_refl.
  rewrite (nodupb_NoDup _ nd_started'). simpl.
  rewrite map_length, seq_length. unfold Run.n. rewrite Nat.eqb_refl, andb_true_r.
  apply forallb_forall. intros a Ha. apply Nat.ltb_lt. apply bound_started'. exact Ha.
Qed.

Lemma ck_once_ok : ck_once c N = true.
Proof.
  unfold ck_once. rewrite P_pending, D_newly.
  destruct (Bool.bool_dec (is_done s) true) as [D|D]; [|apply not_true_is_false in D; rewrite D; reflexivity].
  rewrite D. simpl. destruct (HST D) as [F _]. rewrite (k_fut _ _ K), F, fstate_eqb_refl.
  rewrite (nl_nil_of_done D). reflexivity.
Qed.

Lemma win_tail : is_done s = false -> (forall w, ~ In w effok) ->
  match hd_error (filter (is_sync_ok addrs) nl) with
  | Some w => fstate_eqb (fut s') (FOk w)
  | None => match fut s' with FOk _ => false | _ => true end
  end = true.
Proof.
  intros D NE. pose proof fut_pending_cases as FPC.
  destruct (filter (is_sync_ok addrs) nl) as [|w l] eqn:FL; simpl.
  - destruct (fut s') as [|w|x|] eqn:F; auto. exfalso.
    destruct (FPC D w eq_refl) as [H|[H1 H2]]; [apply (NE w H)|].
    assert (In w (filter (is_sync_ok addrs) nl)) by (apply filter_In; split; auto; apply is_sync_ok_true; auto).
    rewrite FL in H. exact H.
  - assert (H : In w (filter (is_sync_ok addrs) nl)) by (rewrite FL; left; auto).
    apply filter_In in H. destruct H as [H1 H2]. apply is_sync_ok_true in H2.
    rewrite (HN1 w H1 H2). apply fstate_eqb_refl.
Qed.

Lemma ck_win_ok : ck_win addrs c (Some e) N = true.
Proof.
  unfold ck_win. rewrite P_pending.
  destruct (Bool.bool_dec (is_done s) true) as [D|D]; [rewrite D; reflexivity|apply not_true_is_false in D].
  rewrite D. simpl negb. cbv iota. unfold k_expected. rewrite D_newly. simpl sfut.
  pose proof win_tail as WT. pose proof D_effok as DE. pose proof D_prev as DP.
  destruct e as [a [|]| |] eqn:EE.
  - simpl. destruct (mem a (k_infl_prev c)) eqn:M.
    + apply mem_In in M. apply DP in M. rewrite (HF a D eq_refl M). apply fstate_eqb_refl.
    + apply mem_false in M. rewrite DP in M. apply WT; auto.
      intros w Hw. apply DE in Hw. destruct Hw as [a' [E [-> Hw]]]. inversion E; subst. auto.
  - apply WT; auto. intros w Hw. apply DE in Hw. destruct Hw as [a' [E _]]. discriminate.
  - apply WT; auto. intros w Hw. apply DE in Hw. destruct Hw as [a' [E _]]. discriminate.
  - apply WT; auto. intros w Hw. apply DE in Hw. destruct Hw as [a' [E _]]. discriminate.
Qed.

Lemma ck_err_ok : ck_err addrs has_ct c (Some e) N = true.
Proof.
  unfold ck_err. rewrite P_pending.
  destruct (Bool.bool_dec (is_done s) true) as [D|D]; [rewrite D; reflexivity|apply not_true_is_false in D].
  rewrite D. simpl negb. cbv iota. simpl sfut.
  pose proof C' as CC. pose proof D_next_nil as DNN. pose proof D_dn as DD. pose proof D_ok_nil as DON.
  destruct (fut s') as [|w|x|] eqn:F; auto.
  - destruct (c_err _ _ _ CC x F) as [E1 [E2 [b [E3 E4]]]].
    simpl sstarted. rewrite E2. unfold Run.n. rewrite Nat.eqb_refl.
    rewrite (proj2 DNN E1). subst x. simpl.
    assert (M1 : mem b (k_dn addrs c (Some e) N) = true).
    { apply mem_In. apply DD. split; auto. unfold ifl. rewrite E1. auto. }
    rewrite M1. rewrite DON by (right; eauto). reflexivity.
  - destruct (HO2 eq_refl) as [H|[H1 H2]].
    + unfold is_done in D. rewrite H in D. discriminate.
    + subst e. rewrite (k_ct _ _ K), H2, (HHC H2). reflexivity.
Qed.

Lemma ck_timer_ok : ck_timer c (Some e) N = true.
Proof.
  unfold ck_timer. destruct e as [a ok| |] eqn:EE; auto.
  rewrite (k_ct _ _ K), P_pending.
  destruct (ct_armed s) eqn:A; auto.
  destruct (Bool.bool_dec (is_done s) true) as [D|D]; [rewrite D; reflexivity|apply not_true_is_false in D].
  rewrite D. simpl. rewrite (HCT D eq_refl eq_refl). reflexivity.
Qed.

Lemma closed_cond a : In a (started s') ->
  mem a (k_infl_next addrs c (Some e) N) || mem a (k_oks addrs c (Some e) N) = true ->
  raises_of addrs a = false.
Proof.
  intros Ha H. apply orb_true_iff in H. destruct H as [H|H]; apply mem_In in H.
  - apply D_next in H. apply not_raises. rewrite (c_ifl_sync _ _ _ C' a H). discriminate.
  - apply D_ok_in in H. apply H.
Qed.

Lemma ck_leak_ok : ck_leak addrs c (Some e) N = true.
Proof.
  unfold ck_leak. simpl sfut. simpl scloses. simpl sstarted.
  pose proof C' as CC. pose proof D_next_nil as DNN. pose proof D_ok_nil as DON. pose proof D_ok_win as DOW.
  pose proof bound_started' as BS. pose proof closed_cond as CLC.
  destruct (fut s') as [|w|x|] eqn:F.
  - assert (D : is_done s' = false) by (unfold is_done; rewrite F; reflexivity).
    rewrite (c_closes_p _ _ _ CC D). apply forallb_forall. intros x Hx.
    apply in_map_iff in Hx. destruct Hx as [a [H1 _]]. subst x. reflexivity.
  - destruct (c_ok _ _ _ CC w F) as [O1 [O2 [O3 O4]]].
    apply andb_true_intro. split; [|apply mem_In; apply DOW; auto].
    apply forallb_forall. intros a Ha. cbv zeta. rewrite (nth_counts _ _ _ (BS a Ha)).
    destruct (Nat.eqb_spec a w) as [E|E].
    + subst. rewrite (count_zero _ _ O1). reflexivity.
    + destruct (_ || _) eqn:M; auto. apply Nat.leb_le. apply count_pos. apply O4; auto.
  - destruct (c_err _ _ _ CC x F) as [E1 _].
    rewrite andb_true_r. apply forallb_forall. intros a Ha. cbv zeta.
    rewrite (proj2 DNN E1). rewrite DON by (right; eauto). reflexivity.
  - rewrite andb_true_r. apply forallb_forall. intros a Ha. cbv zeta.
    rewrite (nth_counts _ _ _ (BS a Ha)).
    destruct (_ || _) eqn:M; auto. apply Nat.leb_le. apply count_pos. apply (c_to _ _ _ CC F); auto.
Qed.

Lemma fam_some a : a < n -> fam_of addrs a = Some (famz addrs a).
Proof.
  intros H. unfold famz, fam_of. destruct (nth_error addrs a) as [[f o]|] eqn:E; auto.
  apply nth_error_None in E. lia.
Qed.

Lemma NoDup_map_inj_on {A B} (f : A -> B) (l : list A) :
  NoDup (map f l) -> forall a b, In a l -> In b l -> f a = f b -> a = b.
Proof.
  induction l as [|x l IH]; simpl; intros ND a b Ha Hb E; [contradiction|].
  inversion ND as [|? ? N1 N2]; subst. destruct Ha as [Ha|Ha], Hb as [Hb|Hb]; subst; auto.
  - exfalso. apply N1. rewrite E. apply in_map. auto.
  - exfalso. apply N1. rewrite <- E. apply in_map. auto.
Qed.

Lemma NoDup_map_of_inj {A B} (g : A -> B) (l : list A) :
  NoDup l -> (forall a b, In a l -> In b l -> g a = g b -> a = b) -> NoDup (map g l).
Proof.
  induction 1 as [|x l N1 N2 IH]; simpl; intros H; constructor.
  - intros Hx. apply in_map_iff in Hx. destruct Hx as [y [E Hy]].
    assert (y = x) by (apply H; auto). subst. auto.
  - apply IH. intros a b Ha Hb. apply H; auto.
Qed.

Lemma ck_family_ok : ck_family addrs c (Some e) N = true.
Proof.
  unfold ck_family. apply nodupb_NoDup. apply NoDup_map_of_inj.
  - unfold k_infl_next, inflight. apply NoDup_filter. apply nd_started'.
  - intros a b Ha Hb E. apply D_next in Ha. apply D_next in Hb.
    assert (NDF : NoDup (map (fam_of addrs) (ifl s'))) by (eapply inv_one_per_family; eauto).
    apply (NoDup_map_inj_on _ _ NDF); auto.
    rewrite (fam_some a), (fam_some b), E; auto; apply bound_started'; apply ifl_started'; auto.
Qed.

Lemma ck_live_ok : ck_live addrs c (Some e) N = true.
Proof.
  unfold ck_live. destruct (k_infl_next addrs c (Some e) N) eqn:E; auto.
  simpl spt. simpl sfut. destruct (tmo_armed s') eqn:A; auto.
  apply D_next_nil in E. assert (Q : is_done s' = true) by (eapply inv_quiescent; eauto).
  rewrite pending_is_done, Q. reflexivity.
Qed.

Lemma ck_rem_ok : ck_rem addrs c (Some e) N = true.
Proof.
  unfold ck_rem. simpl srem. apply Z.eqb_eq. rewrite (c_rem _ _ _ C'). unfold Run.n.
  pose proof D_len. lia.
Qed.

Lemma chk_step_ok :
  chk_step addrs has_ct c (Some e) N = Some (mkc N (k_dn addrs c (Some e) N) (k_oks addrs c (Some e) N)).
Proof.
  unfold chk_step.
  rewrite ck_log_ok, ck_once_ok, ck_win_ok, ck_err_ok, ck_timer_ok, ck_leak_ok, ck_family_ok, ck_live_ok, ck_rem_ok.
  reflexivity.
Qed.

End OneStep.
End Chk.
