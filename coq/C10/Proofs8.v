(* C10 — proofs, part 8: a bounded exhaustive sweep showing that the property
   checker of Run.v accepts the model's own observable (the general statement
   is not proved; see NOTES.md). *)
From Coq Require Import List ZArith Bool Arith.
Import ListNotations.
From TV Require Import Lib.Obs C10.Model C10.Run.

Fixpoint lists_upto {A} (univ : list A) (k : nat) : list (list A) :=
  match k with
  | O => [[]]
  | S k' => [] :: flat_map (fun l => map (fun x => x :: l) univ) (lists_upto univ k')
  end.

Definition addr_univ : list addr :=
  flat_map (fun f => [(f, OPending); (f, OSuccess); (f, OFailure); (f, ORaises)]) [4; 6].
Definition event_univ : list event :=
  [EPrimaryTimer; EConnectTimer; EDone 0 true; EDone 0 false; EDone 1 true; EDone 1 false].

(* all address lists of 0..2 entries over two families and the four connect
   outcomes, with and without a connect timeout, and all event lists of 0..4 events *)
Definition sweep_domain : list input :=
  flat_map (fun a => flat_map (fun ct => map (fun es => (a, ct, es)) (lists_upto event_univ 4)) [true; false])
           (lists_upto addr_univ 2).

Lemma sweep_ok : forallb (fun i => check_case i (run_case i)) sweep_domain = true.
Proof. vm_compute. reflexivity. Qed.

Lemma sweep_all i : In i sweep_domain -> check_case i (run_case i) = true.
Proof. intros H. apply (proj1 (forallb_forall _ _) sweep_ok i H). Qed.
