(* C10 — phase 4: the two remaining pieces of TCPClient.connect.  Definitions only.
   (1) source_ip / source_port: TCPClient._create_stream binds the socket of EACH attempt;
       a bind failure closes that socket and raises, i.e. it is a raising connect for that
       address (outcome ORaises).  A source_ip of family f cannot be bound on a socket of
       another family; a source_port alone binds the loopback address of the socket's own family.
   (2) ssl_options: after the connector returns the winner, start_tls runs on it, under
       gen.with_timeout(deadline, ...) when a timeout was given. *)
From Coq Require Import String.
From Coq Require Import List ZArith Bool Arith.
Import ListNotations.
From TV Require Import Lib.Obs C10.Model C10.Run C10.RunClient.

Inductive src := SrcNone | SrcIp (fam : nat) | SrcPort.
Inductive tls := NoTls | TlsOk | TlsFail | TlsNever.   (* outcome of the handshake future *)

Definition bind_fails (s : src) (fam : nat) : bool :=
  match s with SrcIp f => negb (Nat.eqb f fam) | _ => false end.

Definition apply_source (s : src) (addrs : list addr) : list addr :=
  map (fun a : addr => if bind_fails s (fst a) then (fst a, ORaises) else a) addrs.

Definition is_ct (e : event) : bool := match e with EConnectTimer => true | _ => false end.

(* what the caller of connect(ssl_options=...) finally gets, and whether the winning stream is
   still open (no close() from anybody), once the handshake outcome is in and the deadline,
   if any, has elapsed.  [f] is the connector's final future. *)
Definition tls_final (dl : bool) (t : tls) (es : list event) (f : fstate) : obs :=
  match f with
  | FOk w =>
      if dl && existsb is_ct es then OList [OTag "Timeout"; OBool true]      (* deadline elapsed during the handshake *)
      else match t with
           | TlsOk => OList [OList [OTag "Ok"; onat w]; OBool true]
           | TlsFail => OList [OTag "TlsError"; OBool false]                  (* the failing stream closes itself *)
           | TlsNever => if dl then OList [OTag "Timeout"; OBool true] else OList [OTag "Pending"; OBool true]
           | NoTls => OList [OList [OTag "Ok"; onat w]; OBool true]
           end
  | _ => OList [fut_obs f; OBool false]
  end.

Definition input3 := (src * tls * input2)%type.

Definition run_case3 (i : input3) : obs :=
  let '(s, t, (en, (addrs, has_ct, es))) := i in
  let addrs' := apply_source s addrs in
  match t, en, addrs' with
  | NoTls, _, _ => run_case2 (en, (addrs', has_ct, es))
  | _, Client TBad _, _ => run_case2 (en, (addrs', has_ct, es))
  | _, Client tk RNow, _ :: _ =>
      OList [run_case (addrs', has_deadline tk, es);
             tls_final (has_deadline tk) t es (fut (run addrs' (has_deadline tk) es))]
  | _, _, _ => run_case2 (en, (addrs', has_ct, es))
  end.

Definition check_case3 (i : input3) (o : obs) : bool :=
  let '(s, t, (en, (addrs, has_ct, es))) := i in
  let addrs' := apply_source s addrs in
  match t, en, addrs' with
  | NoTls, _, _ => check_case2 (en, (addrs', has_ct, es)) o
  | _, Client TBad _, _ => check_case2 (en, (addrs', has_ct, es)) o
  | _, Client tk RNow, _ :: _ =>
      match o with
      | OList [o1; OList [r; OBool open]] =>
          check_case (addrs', has_deadline tk, es) o1 &&
          (* the caller gets a stream only if the handshake succeeded; a handshake failure leaves nothing open *)
          match r with
          | OList [OTag k; _] =>
              if String.eqb k "Ok" then match t with TlsOk => true | _ => false end && open else true
          | OTag k => if String.eqb k "TlsError" then negb open else true
          | _ => false
          end
      | _ => false
      end
  | _, _, _ => check_case2 (en, (addrs', has_ct, es)) o
  end.
