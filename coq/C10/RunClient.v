(* C10 — second entry point: the public TCPClient.connect(host, port, timeout=...)
   (tornado/tcpclient.py) around the _Connector.  Definitions only.

   Modelled glue: the timeout normalisation (a number or a timedelta both become an
   absolute deadline; anything else is a TypeError before anything is opened; None =
   no deadline), `gen.with_timeout(deadline, resolver.resolve(...))`, construction of
   the _Connector from the resolved list and the hand-over
   `connector.start(connect_timeout=deadline)`: from then on the caller's result IS
   the connector's future, and the deadline IS the connector's connect timer. *)
From Coq Require Import String.
From Coq Require Import List ZArith Bool Arith.
Import ListNotations.
From TV Require Import Lib.Obs C10.Model C10.Run.

Inductive tkind := TNone | TNumber | TTimedelta | TBad.   (* the `timeout` argument *)
Inductive rkind := RNow | RNever | RFails.                (* the resolver: answers / never answers / raises *)
Inductive entry := Direct | Client (t : tkind) (r : rkind).

Definition has_deadline (t : tkind) : bool :=
  match t with TNumber | TTimedelta => true | _ => false end.

Definition input2 := (entry * input)%type.

(* waiting for the resolver: nothing is opened; only the deadline can end it *)
Fixpoint resolve_wait (dl : bool) (f : fstate) (es : list event) : list fstate :=
  f :: match es with
       | [] => []
       | e :: es' =>
           resolve_wait dl (match f, e with
                            | FPending, EConnectTimer => if dl then FTimeout else FPending
                            | _, _ => f
                            end) es'
       end.

Definition run_case2 (i : input2) : obs :=
  let '(en, (addrs, has_ct, es)) := i in
  match en with
  | Direct => run_case (addrs, has_ct, es)
  | Client TBad _ => OTag "TypeError"
  | Client t RFails => OTag "ResolveError"
  | Client t RNever => OList (map fut_obs (resolve_wait (has_deadline t) FPending es))
  | Client t RNow => run_case (addrs, has_deadline t, es)
  end.

(* the property on the observables of the resolver-wait phase: completes at most once,
   with TimeoutError exactly when the deadline fires while pending; (no socket exists) *)
Fixpoint chk_wait (dl : bool) (prev : fstate) (es : list event) (os : list obs) : bool :=
  match es, os with
  | [], [] => true
  | e :: es', o :: os' =>
      match p_fut o with
      | Some f =>
          (if pending prev then
             match e with
             | EConnectTimer => fstate_eqb f (if dl then FTimeout else FPending)
             | _ => fstate_eqb f FPending
             end
           else fstate_eqb f prev)
          && chk_wait dl f es' os'
      | None => false
      end
  | _, _ => false
  end.

Definition check_case2 (i : input2) (o : obs) : bool :=
  let '(en, (addrs, has_ct, es)) := i in
  match en with
  | Direct => check_case (addrs, has_ct, es) o
  | Client TBad _ => obs_eqb o (OTag "TypeError")
  | Client t RFails => obs_eqb o (OTag "ResolveError")
  | Client t RNever =>
      match o with
      | OList (o0 :: os) =>
          match p_fut o0 with
          | Some FPending => chk_wait (has_deadline t) FPending es os
          | _ => false
          end
      | _ => false
      end
  | Client t RNow => check_case (addrs, has_deadline t, es) o
  end.
