(* C10 — tornado/tcpclient.py _Connector ("Happy Eyeballs" connection racing).
   Executable model; definitions only.

   Addresses are identified by their index in the resolved [addrinfo] list.
   The [connect] callable is the environment: for address [a] it returns a
   fresh stream and a future which is either pending (completed later by a
   [EDone a ok] event) or already done when [connect] returns ("synchronous"
   outcome: [future_add_done_callback] then runs on_connect_done re-entrantly
   inside try_connect), or raises (then there is no stream and try_connect
   itself builds an already-failed future). *)
From Coq Require Import List ZArith Bool Arith.
Import ListNotations.
Local Open Scope Z_scope.

(* what the connect callable does for one address *)
Inductive outcome :=
| OPending      (* returns (stream, pending future); completed later by an EDone event *)
| OSuccess      (* returns (stream, future already resolved with the stream) *)
| OFailure      (* returns (stream, future already failed) *)
| ORaises.      (* raises: no stream is created; try_connect turns the exception into an
                   already-failed future (fix 5cb4cc8) *)

(* one resolved address: (family, behaviour of connect for it) *)
Definition addr := (nat * outcome)%type.

Inductive event :=
| EDone (a : nat) (ok : bool)   (* the pending connect future of address a completes *)
| EPrimaryTimer                 (* the 0.3 s timer set by start() becomes due *)
| EConnectTimer.                (* the overall connect_timeout becomes due *)

Inductive fstate :=
| FPending
| FOk (a : nat)                 (* set_result((af, addr, stream of a)) *)
| FErr (e : option nat)         (* set_exception(last_error or IOError("connection failed")) *)
| FTimeout.                     (* set_exception(TimeoutError()) *)

Record st := mk {
  fut : fstate;                 (* self.future *)
  last_err : option nat;        (* self.last_error (the failed address) *)
  remaining : Z;                (* self.remaining *)
  tmo_var : bool;               (* self.timeout is not None *)
  tmo_armed : bool;             (* that timer is still scheduled in the IOLoop *)
  ct_var : bool;                (* self.connect_timeout is not None *)
  ct_armed : bool;              (* that timer is still scheduled *)
  streams : list nat;           (* self.streams (a set; order immaterial) *)
  infl : list (nat * list nat); (* pending connect futures: (address, rest of the
                                   iterator bound in the on_connect_done partial) *)
  started : list nat;           (* log: calls of self.connect, oldest first *)
  closes : list nat;            (* log: stream.close() calls by the connector *)
  fault : bool                  (* model-internal: fuel exhausted (proved unreachable) *)
}.

Definition is_done (s : st) : bool :=
  match fut s with FPending => false | _ => true end.

Definition set_fut f s := mk f (last_err s) (remaining s) (tmo_var s) (tmo_armed s) (ct_var s) (ct_armed s) (streams s) (infl s) (started s) (closes s) (fault s).
Definition set_last e s := mk (fut s) e (remaining s) (tmo_var s) (tmo_armed s) (ct_var s) (ct_armed s) (streams s) (infl s) (started s) (closes s) (fault s).
Definition dec s := mk (fut s) (last_err s) (remaining s - 1) (tmo_var s) (tmo_armed s) (ct_var s) (ct_armed s) (streams s) (infl s) (started s) (closes s) (fault s).
Definition set_tmo v a s := mk (fut s) (last_err s) (remaining s) v a (ct_var s) (ct_armed s) (streams s) (infl s) (started s) (closes s) (fault s).
Definition set_ct v a s := mk (fut s) (last_err s) (remaining s) (tmo_var s) (tmo_armed s) v a (streams s) (infl s) (started s) (closes s) (fault s).
Definition set_streams l s := mk (fut s) (last_err s) (remaining s) (tmo_var s) (tmo_armed s) (ct_var s) (ct_armed s) l (infl s) (started s) (closes s) (fault s).
Definition set_infl l s := mk (fut s) (last_err s) (remaining s) (tmo_var s) (tmo_armed s) (ct_var s) (ct_armed s) (streams s) l (started s) (closes s) (fault s).
Definition set_started l s := mk (fut s) (last_err s) (remaining s) (tmo_var s) (tmo_armed s) (ct_var s) (ct_armed s) (streams s) (infl s) l (closes s) (fault s).
Definition add_closes l s := mk (fut s) (last_err s) (remaining s) (tmo_var s) (tmo_armed s) (ct_var s) (ct_armed s) (streams s) (infl s) (started s) (closes s ++ l) (fault s).
Definition set_fault s := mk (fut s) (last_err s) (remaining s) (tmo_var s) (tmo_armed s) (ct_var s) (ct_armed s) (streams s) (infl s) (started s) (closes s) true.

(* close_streams: for stream in self.streams: stream.close() *)
Definition close_streams s := add_closes (streams s) s.

(* clear_timeouts: remove_timeout for each handle that is not None (the
   attributes themselves are NOT reset to None) *)
Definition clear_timeouts s :=
  let s := if tmo_var s then set_tmo true false s else s in
  if ct_var s then set_ct true false s else s.

Definition remove_nat (a : nat) (l : list nat) := filter (fun x => negb (Nat.eqb x a)) l.

(* on_connect_done, success branch (after remaining -= 1) *)
Definition succeed (a : nat) (s : st) : st :=
  let s := clear_timeouts s in
  if is_done s then add_closes [a] s                       (* late arrival: stream.close() *)
  else close_streams (set_fut (FOk a) (set_streams (remove_nat a (streams s)) s)).

(* on_connect_done for address [a]; [k] is `self.try_connect(addrs)` on the rest
   of the iterator, [post] the `if self.timeout is not None: remove; on_timeout()` tail *)
Definition on_done (k post : st -> st) (a : nat) (ok : bool) (s : st) : st :=
  let s := dec s in
  if ok then succeed a s
  else if is_done s then s
  else post (k (set_last (Some a) s)).

Section WithAddrs.
Variable addrs : list addr.

(* synchronous outcome of the attempt's future: None = still pending *)
Definition sync_of (a : nat) : option bool :=
  match nth_error addrs a with
  | Some (_, OPending) => None
  | Some (_, OSuccess) => Some true
  | Some (_, OFailure) => Some false
  | Some (_, ORaises) => Some false
  | None => None
  end.
Definition raises_of (a : nat) : bool :=
  match nth_error addrs a with Some (_, ORaises) => true | _ => false end.

(* the call self.connect(af, addr): logged; on normal return self.streams.add(stream) *)
Definition open_attempt (a : nat) (s : st) : st :=
  set_started (started s ++ [a])
    (if raises_of a then s else set_streams (a :: remove_nat a (streams s)) s).
Definition fam_of (a : nat) : option nat :=
  match nth_error addrs a with Some (f, _) => Some f | None => None end.

(* try_connect(addrs) where the iterator still holds [l] *)
Fixpoint try_connect (post : st -> st) (l : list nat) (s : st) : st :=
  match l with
  | [] =>
      if (remaining s =? 0) && negb (is_done s) then set_fut (FErr (last_err s)) s else s
  | a :: l' =>
      let s1 := open_attempt a s in
      match sync_of a with
      | None => set_infl (infl s1 ++ [(a, l')]) s1
      | Some ok => on_done (try_connect post l') post a ok s1
      end
  end.

(* split(addrinfo): indices of the first entry's family / of all other families *)
Definition fam0 : nat := match addrs with (f, _) :: _ => f | [] => O end.
Definition idx_fam (same : bool) : list nat :=
  map fst (filter (fun p => Bool.eqb (Nat.eqb (fst (snd p)) fam0) same)
                  (combine (seq 0 (length addrs)) addrs)).
Definition primary := idx_fam true.
Definition secondary := idx_fam false.

(* on_timeout; the fuel only bounds the (impossible) nesting of on_timeout inside
   the failure tail of an attempt started by on_timeout *)
Fixpoint on_timeout (fuel : nat) (s : st) : st :=
  match fuel with
  | O => set_fault s
  | S f =>
      let s := set_tmo false (tmo_armed s) s in
      if is_done s then s
      else try_connect (fun s' => if tmo_var s' then on_timeout f (set_tmo (tmo_var s') false s') else s')
                       secondary s
  end.

Definition FUEL : nat := 2.
Definition post (s : st) : st :=
  if tmo_var s then on_timeout FUEL (set_tmo (tmo_var s) false s) else s.

Definition init : st :=
  mk FPending None (Z.of_nat (length addrs)) false false false false [] [] [] [] false.

(* start(timeout, connect_timeout) *)
Definition start (has_ct : bool) : st :=
  let s := try_connect post primary init in
  let s := set_tmo true true s in
  if has_ct then set_ct true true s else s.

Fixpoint take_infl (a : nat) (l : list (nat * list nat)) : option (list nat * list (nat * list nat)) :=
  match l with
  | [] => None
  | (b, r) :: l' =>
      if Nat.eqb a b then Some (r, l')
      else match take_infl a l' with
           | Some (r', l'') => Some (r', (b, r) :: l'')
           | None => None
           end
  end.

(* on_connect_timeout *)
Definition on_connect_timeout (s : st) : st :=
  let s := if is_done s then s else set_fut FTimeout s in
  close_streams s.

Definition step (s : st) (e : event) : st :=
  match e with
  | EDone a ok =>
      match take_infl a (infl s) with
      | None => s                                 (* no such pending future: nothing happens *)
      | Some (r, rest) => on_done (try_connect post r) post a ok (set_infl rest s)
      end
  | EPrimaryTimer =>
      if tmo_armed s then on_timeout FUEL (set_tmo (tmo_var s) false s) else s
  | EConnectTimer =>
      if ct_armed s then on_connect_timeout (set_ct (ct_var s) false s) else s
  end.

(* all states after start and after each event, oldest first *)
Fixpoint trace (s : st) (es : list event) : list st :=
  s :: match es with [] => [] | e :: es' => trace (step s e) es' end.

Definition run (has_ct : bool) (es : list event) : st := fold_left step es (start has_ct).

End WithAddrs.
