(* C10 — executable entry points for the correspondence check.
   run_case: the model's observable; check_case: the property, stated on the
   observable alone (it never runs the model's transition function). *)
From Coq Require Import String.
From Coq Require Import List ZArith Bool Arith.
Import ListNotations.
From TV Require Import Lib.Obs C10.Model.
Local Open Scope Z_scope.

Definition input := (list addr * bool * list event)%type.

(* ---------- observable of one connector state ---------- *)
Definition onat (n : nat) : obs := OInt (Z.of_nat n).

Definition fut_obs (f : fstate) : obs :=
  match f with
  | FPending => OTag "Pending"
  | FOk a => OList [OTag "Ok"; onat a]
  | FErr (Some a) => OList [OTag "Err"; onat a]
  | FErr None => OTag "ConnectionFailed"
  | FTimeout => OTag "Timeout"
  end.

Definition count (a : nat) (l : list nat) : nat := length (filter (Nat.eqb a) l).
Definition mem (a : nat) (l : list nat) : bool := existsb (Nat.eqb a) l.

Definition snap (n : nat) (s : st) : obs :=
  OList [ fut_obs (fut s);
          OList (map onat (started s));
          OList (map (fun a => onat (count a (closes s))) (seq 0 n));
          OInt (remaining s);
          OBool (tmo_armed s);
          OBool (ct_armed s);
          OList (map (fun a => OBool (mem a (streams s))) (seq 0 n)) ].

Definition run_case (i : input) : obs :=
  let '(addrs, has_ct, es) := i in
  match addrs with
  | [] => OTag "IndexError"                       (* split(): addrinfo[0] *)
  | _ =>
      let tr := trace addrs (start addrs has_ct) es in
      if existsb fault tr then OTag "ModelFault"
      else OList (map (snap (length addrs)) tr)
  end.

(* ---------- the property as a checker on observables ---------- *)
Record snapshot := mksnap {
  sfut : fstate; sstarted : list nat; scloses : list nat; srem : Z; spt : bool; sct : bool }.

Definition p_nat (o : obs) : option nat :=
  match o with OInt z => if z <? 0 then None else Some (Z.to_nat z) | _ => None end.

Fixpoint p_list {A} (p : obs -> option A) (l : list obs) : option (list A) :=
  match l with
  | [] => Some []
  | o :: l' => match p o, p_list p l' with Some a, Some r => Some (a :: r) | _, _ => None end
  end.

Definition p_fut (o : obs) : option fstate :=
  match o with
  | OTag t =>
      if String.eqb t "Pending" then Some FPending
      else if String.eqb t "Timeout" then Some FTimeout
      else if String.eqb t "ConnectionFailed" then Some (FErr None) else None
  | OList [OTag t; a] =>
      match p_nat a with
      | Some a => if String.eqb t "Ok" then Some (FOk a)
                  else if String.eqb t "Err" then Some (FErr (Some a)) else None
      | None => None
      end
  | _ => None
  end.

Definition p_snap (o : obs) : option snapshot :=
  match o with
  | OList [f; OList st; OList cl; OInt r; OBool pt; OBool ct; OList _] =>
      match p_fut f, p_list p_nat st, p_list p_nat cl with
      | Some f, Some st, Some cl => Some (mksnap f st cl r pt ct)
      | _, _, _ => None
      end
  | _ => None
  end.

Definition fstate_eqb (x y : fstate) : bool :=
  match x, y with
  | FPending, FPending => true
  | FOk a, FOk b => Nat.eqb a b
  | FErr None, FErr None => true
  | FErr (Some a), FErr (Some b) => Nat.eqb a b
  | FTimeout, FTimeout => true
  | _, _ => false
  end.

Definition pending (f : fstate) : bool := match f with FPending => true | _ => false end.

Fixpoint nodupb (l : list nat) : bool :=
  match l with [] => true | x :: l' => negb (mem x l') && nodupb l' end.

(* bookkeeping of the checker: what it has seen so far *)
Record cst := mkc {
  cprev : snapshot;
  cdone : list nat;     (* attempts whose connect future has completed *)
  cok : list nat        (* ... of which with success *)
}.

Section Check.
Variable addrs : list addr.
Variable has_ct : bool.

Definition n := length addrs.
Definition is_sync (a : nat) : bool := match sync_of addrs a with Some _ => true | None => false end.
Definition is_sync_ok (a : nat) : bool := match sync_of addrs a with Some true => true | _ => false end.
Definition famz (a : nat) : nat := match fam_of addrs a with Some f => f | None => O end.

Definition inflight (st dn : list nat) : list nat := filter (fun a => negb (mem a dn)) st.

(* [e = None] is the start() step.  The pieces of the checker: *)
Definition k_newly (c : cst) (N : snapshot) : list nat := skipn (length (sstarted (cprev c))) (sstarted N).
Definition k_infl_prev (c : cst) : list nat := inflight (sstarted (cprev c)) (cdone c).
(* the event is the completion of an attempt that is in flight *)
Definition k_eff (c : cst) (e : option event) : bool :=
  match e with Some (EDone a _) => mem a (k_infl_prev c) | _ => false end.
Definition k_dn (c : cst) (e : option event) (N : snapshot) : list nat :=
  cdone c ++ (match e with Some (EDone a _) => if k_eff c e then [a] else [] | _ => [] end)
          ++ filter is_sync (k_newly c N).
Definition k_oks (c : cst) (e : option event) (N : snapshot) : list nat :=
  cok c ++ (match e with Some (EDone a true) => if k_eff c e then [a] else [] | _ => [] end)
        ++ filter is_sync_ok (k_newly c N).
Definition k_infl_next (c : cst) (e : option event) (N : snapshot) : list nat :=
  inflight (sstarted N) (k_dn c e N).
Definition k_expected (c : cst) (e : option event) (N : snapshot) : option nat :=
  match (match e with Some (EDone a true) => if k_eff c e then Some a else None | _ => None end) with
  | Some a => Some a
  | None => hd_error (filter is_sync_ok (k_newly c N))
  end.

(* the log of attempts only grows; every attempt is a distinct, existing address *)
Definition ck_log (c : cst) (N : snapshot) : bool :=
  list_eqb Nat.eqb (firstn (length (sstarted (cprev c))) (sstarted N)) (sstarted (cprev c))
  && nodupb (sstarted N) && forallb (fun a => a <? n)%nat (sstarted N)
  && (length (scloses N) =? n)%nat.
(* resolved at most once, never changes, and nothing starts afterwards *)
Definition ck_once (c : cst) (N : snapshot) : bool :=
  if pending (sfut (cprev c)) then true
  else fstate_eqb (sfut N) (sfut (cprev c)) && match k_newly c N with [] => true | _ => false end.
(* who wins: exactly the first success that arrives while pending *)
Definition ck_win (c : cst) (e : option event) (N : snapshot) : bool :=
  if pending (sfut (cprev c)) then
    match k_expected c e N with
    | Some w => fstate_eqb (sfut N) (FOk w)
    | None => match sfut N with FOk _ => false | _ => true end
    end
  else true.
(* errors: timeout only from the connect timer; failure only when every address
   has been tried and has completed *)
Definition ck_err (c : cst) (e : option event) (N : snapshot) : bool :=
  if pending (sfut (cprev c)) then
    match sfut N with
    | FTimeout => match e with Some EConnectTimer => has_ct && sct (cprev c) | _ => false end
    | FErr x => (length (sstarted N) =? n)%nat
                && match k_infl_next c e N with [] => true | _ => false end
                && match x with Some b => mem b (k_dn c e N) && negb (mem b (k_oks c e N)) | None => false end
    | _ => true
    end
  else true.
Definition ck_timer (c : cst) (e : option event) (N : snapshot) : bool :=
  match e with
  | Some EConnectTimer =>
      if sct (cprev c) && pending (sfut (cprev c)) then fstate_eqb (sfut N) FTimeout else true
  | _ => true
  end.
(* no leak, no premature close *)
Definition ck_leak (c : cst) (e : option event) (N : snapshot) : bool :=
  match sfut N with
  | FPending => forallb (Nat.eqb 0) (scloses N)
  | f =>
      forallb (fun a =>
                 let cl := nth a (scloses N) O in
                 match f with
                 | FOk w => if Nat.eqb a w then Nat.eqb cl 0
                            else if mem a (k_infl_next c e N) || mem a (k_oks c e N) then (1 <=? cl)%nat else true
                 | _ => if mem a (k_infl_next c e N) || mem a (k_oks c e N) then (1 <=? cl)%nat else true
                 end) (sstarted N)
      && match f with FOk w => mem w (k_oks c e N) | _ => true end
  end.
(* at most one attempt in flight per address family *)
Definition ck_family (c : cst) (e : option event) (N : snapshot) : bool :=
  nodupb (map famz (k_infl_next c e N)).
(* liveness: nothing in flight and the fallback timer not armed => resolved *)
Definition ck_live (c : cst) (e : option event) (N : snapshot) : bool :=
  match k_infl_next c e N with [] => if spt N then true else negb (pending (sfut N)) | _ => true end.
(* self.remaining = attempts not yet completed *)
Definition ck_rem (c : cst) (e : option event) (N : snapshot) : bool :=
  (srem N =? Z.of_nat n - Z.of_nat (length (k_dn c e N))).

Definition chk_step (c : cst) (e : option event) (N : snapshot) : option cst :=
  if ck_log c N && ck_once c N && ck_win c e N && ck_err c e N && ck_timer c e N
     && ck_leak c e N && ck_family c e N && ck_live c e N && ck_rem c e N
  then Some (mkc N (k_dn c e N) (k_oks c e N)) else None.

Fixpoint chk_events (c : cst) (es : list event) (os : list obs) : bool :=
  match es, os with
  | [], [] => true
  | e :: es', o :: os' =>
      match p_snap o with
      | Some N => match chk_step c (Some e) N with Some c' => chk_events c' es' os' | None => false end
      | None => false
      end
  | _, _ => false
  end.

Definition snap0 : snapshot := mksnap FPending [] (repeat O n) (Z.of_nat n) false false.

Definition chk_trace (es : list event) (os : list obs) : bool :=
  match os with
  | o :: os' =>
      match p_snap o with
      | Some N => match chk_step (mkc snap0 [] []) None N with
                  | Some c => chk_events c es os'
                  | None => false
                  end
      | None => false
      end
  | [] => false
  end.
End Check.

Definition check_case (i : input) (o : obs) : bool :=
  let '(addrs, has_ct, es) := i in
  match addrs with
  | [] => obs_eqb o (OTag "IndexError")
  | _ => match o with OList os => chk_trace addrs has_ct es os | _ => false end
  end.
