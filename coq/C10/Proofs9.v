(* C10 — proofs, part 9: the property checker of Run.v accepts the model's
   observable for EVERY input.  Part A: the connect timer is only ever armed by
   start(); parsing of the model's own observables; boolean reflection. *)
From Coq Require Import String.
From Coq Require Import List ZArith Bool Arith Lia Permutation.
Import ListNotations.
From TV Require Import Lib.Obs C10.Model C10.Run C10.Proofs C10.Proofs2 C10.Proofs3 C10.Proofs4 C10.Proofs5 C10.Proofs6 C10.Proofs7.

(* ---------- ct_armed is never set after start() ---------- *)
Section CtArmed.
Variable addrs : list addr.

Lemma ct_armed_open a s : ct_armed (open_attempt addrs a s) = ct_armed s.
Proof. unfold open_attempt. destruct (raises_of addrs a); reflexivity. Qed.

Lemma ct_armed_succeed a t : ct_armed (succeed a t) = true -> ct_armed t = true.
Proof.
  unfold succeed. rewrite is_done_clear.
  destruct (is_done t); rewrite clear_timeouts_eq; simpl; destruct (ct_var t); auto; discriminate.
Qed.

Lemma ct_armed_chain l : forall s, ct_armed (chain addrs l s) = true -> ct_armed s = true.
Proof.
  induction l as [|a l IH]; intros s H.
  - rewrite chain_nil in H. destruct (_ && _); exact H.
  - rewrite chain_cons in H. cbv zeta in H. destruct (sync_of addrs a) as [[|]|].
    + apply ct_armed_succeed in H. rewrite <- (ct_armed_open a s). exact H.
    + destruct (is_done _).
      * rewrite <- (ct_armed_open a s). exact H.
      * apply IH in H. rewrite <- (ct_armed_open a s). exact H.
    + rewrite <- (ct_armed_open a s). exact H.
Qed.

Lemma ct_armed_OT0 s : ct_armed (OT0 addrs s) = true -> ct_armed s = true.
Proof.
  unfold OT0. destruct (is_done s); [auto|]. intros H. apply ct_armed_chain in H. exact H.
Qed.

Lemma ct_armed_step s e : ct_armed (step' addrs s e) = true -> ct_armed s = true.
Proof.
  destruct e as [a ok| |]; unfold step'.
  - destruct (take_infl a (infl s)) as [[r rest]|]; auto. cbv zeta. destruct ok.
    + intros H. apply ct_armed_succeed in H. exact H.
    + destruct (is_done _); auto. unfold fail_tail, POST.
      destruct (tmo_var _).
      * rewrite OT_OT0. intros H. apply ct_armed_OT0 in H. apply ct_armed_chain in H. exact H.
      * intros H. apply ct_armed_chain in H. exact H.
  - destruct (tmo_armed s); auto. rewrite OT_OT0. apply ct_armed_OT0.
  - intros H. destruct (ct_armed s) eqn:A; auto. congruence.
Qed.

Lemma ct_armed_run has_ct es : ct_armed (run addrs has_ct es) = true -> has_ct = true.
Proof.
  unfold run. rewrite <- fold_left_rev_right. induction (rev es) as [|e l IH]; simpl.
  - rewrite start_eq. cbv zeta. destruct has_ct; auto. simpl. intros H.
    apply ct_armed_chain in H. discriminate.
  - rewrite step_step'. intros H. apply ct_armed_step in H. auto.
Qed.
End CtArmed.

(* ---------- parsing the model's own observables ---------- *)
Lemma p_nat_onat a : p_nat (onat a) = Some a.
Proof.
  unfold p_nat, onat. destruct (Z.ltb_spec (Z.of_nat a) 0); [lia|]. rewrite Nat2Z.id. reflexivity.
Qed.

Lemma p_list_map {A} (f : A -> obs) (g : A -> nat) (l : list A) :
  (forall x, p_nat (f x) = Some (g x)) -> p_list p_nat (map f l) = Some (map g l).
Proof.
  intros H. induction l as [|x l IH]; simpl; auto. rewrite H, IH. reflexivity.
Qed.

Lemma p_fut_obs f : p_fut (fut_obs f) = Some f.
Proof.
  destruct f as [|a|[a|]|]; unfold fut_obs, p_fut; rewrite ?p_nat_onat; reflexivity.
Qed.

Definition abs (n : nat) (s : st) : snapshot :=
  mksnap (fut s) (started s) (map (fun a => count a (closes s)) (seq 0 n)) (remaining s)
         (tmo_armed s) (ct_armed s).

Lemma p_snap_snap n s : p_snap (snap n s) = Some (abs n s).
Proof.
  unfold snap, p_snap, abs. rewrite p_fut_obs.
  rewrite (p_list_map onat (fun a => a)) by apply p_nat_onat. rewrite map_id.
  rewrite (p_list_map (fun a => onat (count a (closes s))) (fun a => count a (closes s))) by (intros; apply p_nat_onat).
  reflexivity.
Qed.

(* ---------- boolean reflection ---------- *)
Lemma mem_In a l : mem a l = true <-> In a l.
Proof.
  unfold mem. rewrite existsb_exists. split.
  - intros [x [H1 H2]]. apply Nat.eqb_eq in H2. subst. auto.
  - intros H. exists a. split; auto. apply Nat.eqb_refl.
Qed.

Lemma mem_false a l : mem a l = false <-> ~ In a l.
Proof.
  rewrite <- mem_In. destruct (mem a l); split; intros; try congruence; try (exfalso; auto; fail).
Qed.

Lemma nodupb_NoDup l : NoDup l -> nodupb l = true.
Proof.
  induction 1 as [|x l H1 H2 IH]; simpl; auto.
  apply mem_false in H1. rewrite H1, IH. reflexivity.
Qed.

Lemma list_eqb_refl l : list_eqb Nat.eqb l l = true.
Proof. induction l as [|x l IH]; simpl; auto. rewrite Nat.eqb_refl, IH. reflexivity. Qed.

Lemma fstate_eqb_refl f : fstate_eqb f f = true.
Proof. destruct f as [|a|[a|]|]; simpl; auto; apply Nat.eqb_refl. Qed.

Lemma pending_is_done s : pending (fut s) = negb (is_done s).
Proof. unfold is_done. destruct (fut s); reflexivity. Qed.

Lemma inflight_In st dn a : In a (inflight st dn) <-> (In a st /\ ~ In a dn).
Proof.
  unfold inflight. rewrite filter_In. rewrite negb_true_iff, mem_false. tauto.
Qed.

Lemma skipn_app_exact {A} (l1 l2 : list A) : skipn (length l1) (l1 ++ l2) = l2.
Proof. induction l1; simpl; auto. Qed.

Lemma firstn_app_exact {A} (l1 l2 : list A) : firstn (length l1) (l1 ++ l2) = l1.
Proof. induction l1; simpl; auto. f_equal. auto. Qed.

Lemma count_pos a l : In a l -> 1 <= count a l.
Proof.
  unfold count. induction l as [|x l IH]; simpl; [contradiction|].
  intros [H|H]; [subst; rewrite Nat.eqb_refl; simpl; lia|].
  destruct (Nat.eqb a x); simpl; auto; specialize (IH H); lia.
Qed.

Lemma count_zero a l : ~ In a l -> count a l = 0.
Proof.
  unfold count. induction l as [|x l IH]; simpl; auto. intros H.
  destruct (Nat.eqb_spec a x); [subst; exfalso; auto|]. auto.
Qed.

Lemma nth_counts n cl a : a < n -> nth a (map (fun x => count x cl) (seq 0 n)) 0 = count a cl.
Proof.
  intros H. rewrite (nth_indep _ 0 (count n cl)) by (rewrite map_length, seq_length; auto).
  rewrite (map_nth (fun x => count x cl) (seq 0 n) n a). rewrite seq_nth; auto.
Qed.

Lemma NoDup_app_intro {A} (l1 l2 : list A) :
  NoDup l1 -> NoDup l2 -> (forall x, In x l1 -> ~ In x l2) -> NoDup (l1 ++ l2).
Proof.
  induction l1 as [|x l1 IH]; simpl; intros N1 N2 D; auto.
  inversion N1; subst. constructor.
  - intros H. apply in_app_or in H. destruct H as [H|H]; auto. apply (D x); auto.
  - apply IH; auto.
Qed.

Lemma NoDup_app_l {A} (l1 l2 : list A) : NoDup (l1 ++ l2) -> NoDup l1 /\ NoDup l2 /\ forall x, In x l1 -> ~ In x l2.
Proof.
  induction l1 as [|x l1 IH]; simpl; intros N.
  - repeat split; auto. constructor.
  - inversion N; subst. destruct (IH H2) as [I1 [I2 I3]]. repeat split; auto.
    + constructor; auto. intros H. apply H1. apply in_or_app. auto.
    + intros y [Hy|Hy] H; [subst; apply H1; apply in_or_app; auto|apply (I3 y); auto].
Qed.

Lemma NoDup_filter {A} (f : A -> bool) l : NoDup l -> NoDup (filter f l).
Proof.
  induction 1 as [|x l H1 H2 IH]; simpl; [constructor|].
  destruct (f x); auto. constructor; auto. intros H. apply filter_In in H. destruct H; auto.
Qed.
