(* C10 — proofs, part 2: facts about split() (primary / secondary index lists). *)
From Coq Require Import List ZArith Bool Arith Lia.
Import ListNotations.
From TV Require Import C10.Model C10.Proofs.

Definition cnt := count_occ Nat.eq_dec.
Arguments cnt : simpl never.

Lemma cnt_app l1 l2 a : cnt (l1 ++ l2) a = cnt l1 a + cnt l2 a.
Proof. apply count_occ_app. Qed.

Lemma cnt_cons b l a : cnt (b :: l) a = (if Nat.eqb b a then 1 else 0) + cnt l a.
Proof.
  unfold cnt; simpl. destruct (Nat.eq_dec b a) as [E|E].
  - subst. rewrite Nat.eqb_refl. auto.
  - apply Nat.eqb_neq in E. rewrite E. auto.
Qed.

Lemma cnt_nil a : cnt [] a = 0.
Proof. reflexivity. Qed.

Lemma cnt_in l a : In a l <-> cnt l a > 0.
Proof. apply count_occ_In. Qed.

Lemma cnt_notin l a : ~ In a l <-> cnt l a = 0.
Proof. apply count_occ_not_In. Qed.

Lemma cnt_seq m : forall k a, cnt (seq k m) a = if (k <=? a) && (a <? k + m) then 1 else 0.
Proof.
  induction m as [|m IH]; intros k a; simpl seq.
  - rewrite cnt_nil. destruct (Nat.leb_spec k a), (Nat.ltb_spec a (k + 0)); simpl; auto; lia.
  - rewrite cnt_cons, IH.
    destruct (Nat.eqb_spec k a), (Nat.leb_spec (S k) a), (Nat.ltb_spec a (S k + m)),
      (Nat.leb_spec k a), (Nat.ltb_spec a (k + S m)); simpl; lia.
Qed.

Lemma cnt_filter_split {B} (f : nat * B -> bool) l a :
  cnt (map fst (filter f l)) a + cnt (map fst (filter (fun p => negb (f p)) l)) a = cnt (map fst l) a.
Proof.
  induction l as [|x l IH]; [reflexivity|].
  cbn [filter]. destruct (f x); cbn [negb map]; rewrite ?cnt_cons; lia.
Qed.

Lemma map_fst_combine {A B} (l1 : list A) : forall (l2 : list B),
  length l1 = length l2 -> map fst (combine l1 l2) = l1.
Proof.
  induction l1 as [|x l1 IH]; intros [|y l2] H; simpl in *; try discriminate; auto.
  f_equal. apply IH. lia.
Qed.

Lemma in_combine_seq {B} (l : list B) : forall k i x,
  In (i, x) (combine (seq k (length l)) l) -> k <= i /\ nth_error l (i - k) = Some x.
Proof.
  induction l as [|y l IH]; intros k i x H; simpl in H; [contradiction|].
  destruct H as [H|H].
  - inversion H; subst. rewrite Nat.sub_diag. simpl. auto.
  - apply IH in H. destruct H as [H1 H2]. split; [lia|].
    replace (i - k) with (S (i - S k)) by lia. simpl. auto.
Qed.

Section Split.
Variable addrs : list addr.
Notation n := (length addrs).

Definition inP (a : nat) : bool := existsb (Nat.eqb a) (primary addrs).

Lemma cnt_prim_sec a :
  cnt (primary addrs) a + cnt (secondary addrs) a = if a <? n then 1 else 0.
Proof.
  unfold primary, secondary, idx_fam.
  rewrite (filter_ext (fun p : nat * addr => Bool.eqb (Nat.eqb (fst (snd p)) (fam0 addrs)) false)
                      (fun p => negb (Bool.eqb (Nat.eqb (fst (snd p)) (fam0 addrs)) true))).
  2:{ intros p. destruct (Nat.eqb _ _); reflexivity. }
  rewrite cnt_filter_split, map_fst_combine by (rewrite seq_length; auto).
  rewrite cnt_seq. simpl. auto.
Qed.

Lemma inP_true a : inP a = true <-> In a (primary addrs).
Proof.
  unfold inP. rewrite existsb_exists. split.
  - intros [x [H1 H2]]. apply Nat.eqb_eq in H2. subst. auto.
  - intros H. exists a. split; auto. apply Nat.eqb_refl.
Qed.

Lemma sec_not_prim a : In a (secondary addrs) -> inP a = false.
Proof.
  intros H. destruct (inP a) eqn:E; auto. apply inP_true in E.
  apply cnt_in in H. apply cnt_in in E. pose proof (cnt_prim_sec a). destruct (a <? n); lia.
Qed.

Lemma lt_n_cases a : a < n -> In a (primary addrs) \/ In a (secondary addrs).
Proof.
  intros H. pose proof (cnt_prim_sec a) as C. apply Nat.ltb_lt in H. rewrite H in C.
  destruct (cnt (primary addrs) a) eqn:E.
  - right. apply cnt_in. lia.
  - left. apply cnt_in. lia.
Qed.

Lemma prim_fam a : In a (primary addrs) -> fam_of addrs a = Some (fam0 addrs).
Proof.
  unfold primary, idx_fam. intros H. apply in_map_iff in H. destruct H as [[i [f o]] [H1 H2]].
  simpl in H1; subst. apply filter_In in H2. destruct H2 as [H2 H3]. simpl in H3.
  apply in_combine_seq in H2. destruct H2 as [_ H2]. rewrite Nat.sub_0_r in H2.
  unfold fam_of. unfold addr in *. rewrite H2. destruct (Nat.eqb f (fam0 addrs)) eqn:E; simpl in H3; try discriminate.
  apply Nat.eqb_eq in E. subst; auto.
Qed.

Lemma sec_fam a : In a (secondary addrs) -> exists f, fam_of addrs a = Some f /\ f <> fam0 addrs.
Proof.
  unfold secondary, idx_fam. intros H. apply in_map_iff in H. destruct H as [[i [f o]] [H1 H2]].
  simpl in H1; subst. apply filter_In in H2. destruct H2 as [H2 H3]. simpl in H3.
  apply in_combine_seq in H2. destruct H2 as [_ H2]. rewrite Nat.sub_0_r in H2.
  unfold fam_of. unfold addr in *. rewrite H2. exists f. split; auto.
  destruct (Nat.eqb f (fam0 addrs)) eqn:E; simpl in H3; try discriminate.
  apply Nat.eqb_neq in E. auto.
Qed.

End Split.
