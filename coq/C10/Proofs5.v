(* C10 — proofs, part 5: the invariant holds after start() and after every event. *)
From Coq Require Import List ZArith Bool Arith Lia.
Import ListNotations.
From TV Require Import C10.Model C10.Proofs C10.Proofs2 C10.Proofs3 C10.Proofs4.

Section Inv3.
Variable addrs : list addr.
Hypothesis Hn : addrs <> [].
Notation n := (length addrs).
Notation inP := (inP addrs).
Notation Core0 := (Core0 addrs).
Notation Core := (Core addrs).
Notation chain := (chain addrs).
Notation Ext := (Ext addrs).
Notation OT := (OT addrs).
Notation POST := (POST addrs).

(* the addresses not yet handed to any iterator: the secondary list until on_timeout runs *)
Definition qf (s : st) : list nat := if tmo_var s then secondary addrs else [].

Definition Live (s : st) : Prop := is_done s = false -> infl s <> [] \/ remaining s <> 0%Z.

Definition Inv (s : st) : Prop := Core (qf s) s /\ Live s.

Lemma core0_set_tmo p s v a :
  Core0 p s -> (a = true -> v = true) -> (v = true -> a = false -> is_done s = true) ->
  Core0 p (set_tmo v a s).
Proof. intros C H1 H2. constructor; simpl; try (apply C; fail); auto. Qed.

Lemma core_set_tmo p s v a :
  Core p s -> (a = true -> v = true) -> (v = true -> a = false -> is_done s = true) ->
  Core p (set_tmo v a s).
Proof. intros [C CL] H1 H2. split; [apply core0_set_tmo; auto|exact CL]. Qed.

Lemma core_set_ct p s v a : Core p s -> Core p (set_ct v a s).
Proof. intros [C CL]. split; [|exact CL]. constructor; simpl; try (apply C; fail). Qed.

Lemma core_weaken p p' s :
  Core p s -> (forall x, cnt p' x <= cnt p x) -> is_done s = true -> Core p' s.
Proof. intros [C CL] H D. split; [eapply core0_weaken; eauto|exact CL]. Qed.

(* while the secondary list is untouched, everything in flight comes from the primary list *)
Lemma sec_hyps s : Core0 (secondary addrs) s -> forall e, In e (ifl s) -> inP e <> false.
Proof.
  intros C e He. apply (c_ifl_st _ _ _ C) in He.
  pose proof (c_cnt _ _ _ C e) as H. apply cnt_in in He.
  destruct (Nat.ltb_spec e n) as [L|L]; [|lia].
  destruct (lt_n_cases addrs e L) as [H1|H1].
  - apply inP_true in H1. rewrite H1. discriminate.
  - apply cnt_in in H1. lia.
Qed.

(* what one event may do to the future and to the attempt log *)
Definition Grow (s s' : st) : Prop :=
  (forall w, fut s' = FOk w -> fut s = FOk w \/
      (sync_of addrs w = Some true /\ ~ In w (started s) /\ In w (started s'))) /\
  (fut s' = FTimeout -> fut s = FTimeout) /\
  (exists nl, started s' = started s ++ nl /\
      (forall b, In b nl -> sync_of addrs b = Some true -> fut s' = FOk b) /\
      (forall b, In b nl -> In b (ifl s') \/ sync_of addrs b <> None)) /\
  (forall b, In b (ifl s) -> In b (ifl s')) /\
  (forall b, In b (ifl s') -> In b (ifl s) \/ (sync_of addrs b = None /\ ~ In b (started s))).

Lemma grow_of_ext s s' : Ext s s' -> Grow s s'.
Proof.
  intros [L O T [nl [S1 [S2 [S3 S4]]]] TM CT I1 I2].
  split; [|split; [|split; [|split]]].
  - intros w Hw. right. apply O. auto.
  - intros H. contradiction.
  - exists nl. auto.
  - intros b Hb. unfold ifl in *. apply in_map_iff in Hb. destruct Hb as [e [E1 E2]].
    apply in_map_iff. exists e. auto.
  - exact I2.
Qed.

Lemma grow_same s s' : fut s' = fut s -> started s' = started s -> infl s' = infl s -> Grow s s'.
Proof.
  intros F S I. split; [|split; [|split; [|split]]].
  - intros w Hw. left. congruence.
  - congruence.
  - exists []. rewrite app_nil_r. split; auto. split; intros b [].
  - unfold ifl. rewrite I. auto.
  - unfold ifl. rewrite I. auto.
Qed.

(* ---- on_timeout, entered with the timer no longer scheduled ---- *)
Definition OT0 (s : st) : st :=
  let s0 := set_tmo false false s in if is_done s then s0 else chain (secondary addrs) s0.

Lemma OT_OT0 v s : OT (set_tmo v false s) = OT0 s.
Proof. reflexivity. Qed.

Lemma OT0_inv s :
  Core (secondary addrs) s ->
  Inv (OT0 s) /\ Grow s (OT0 s) /\
  (is_done s = true -> fut (OT0 s) = fut s /\ started (OT0 s) = started s /\ infl (OT0 s) = infl s) /\
  (forall e, In e (infl s) -> In e (infl (OT0 s))).
Proof.
  intros C. unfold OT0.
  assert (C0 : Core (secondary addrs) (set_tmo false false s)).
  { apply core_set_tmo; auto; intros; congruence. }
  destruct (is_done s) eqn:D.
  - split; [|split; [|split]]; auto.
    + split; [|intros H; change (is_done s = false) in H; congruence].
      unfold qf. simpl. apply core_weaken with (p := secondary addrs); auto. intros x. rewrite cnt_nil. lia.
    + apply grow_same; reflexivity.
  - destruct (chain_core addrs Hn (secondary addrs) (set_tmo false false s) [] false) as [C1 E1]; auto.
    + rewrite app_nil_r. auto.
    + intros b Hb. apply sec_not_prim. auto.
    + apply sec_hyps. apply C0.
    + split; [|split; [|split]].
      * split; [|intros H; apply (e_live _ _ _ E1); auto].
        unfold qf. rewrite (e_tmo _ _ _ E1). simpl. auto.
      * pose proof (grow_of_ext _ _ E1) as G. exact G.
      * intros; discriminate.
      * apply (e_infl _ _ _ E1).
Qed.

(* ---- the failure tail of on_connect_done ---- *)
Lemma fail_tail_inv a r s1 :
  Core0 (r ++ qf s1) s1 -> is_done s1 = false -> In a (started s1) -> ~ In a (ifl s1) ->
  (forall b, In b r -> inP b = inP a) -> (forall e, In e (ifl s1) -> inP e <> inP a) ->
  Inv (fail_tail addrs a r s1) /\ Grow s1 (fail_tail addrs a r s1) /\
  (forall e, In e (infl s1) -> In e (infl (fail_tail addrs a r s1))).
Proof.
  intros C P IA NA HX HI. unfold fail_tail.
  assert (C2 : Core (r ++ qf s1) (set_last (Some a) s1)) by (apply core_fail; auto).
  destruct (chain_core addrs Hn r (set_last (Some a) s1) (qf s1) (inP a) C2) as [C3 E3]; auto.
  set (s3 := chain r (set_last (Some a) s1)) in *.
  pose proof (e_tmo _ _ _ E3) as TV. simpl in TV.
  pose proof (grow_of_ext _ _ E3) as G3. simpl in G3.
  unfold Proofs.POST. fold s3. destruct (tmo_var s3) eqn:TV3.
  - (* self.timeout is not None: remove it and run on_timeout now *)
    assert (Q : qf s1 = secondary addrs) by (unfold qf; rewrite <- TV; reflexivity).
    rewrite Q in C3. rewrite OT_OT0.
    destruct (OT0_inv s3 C3) as [I4 [G4 [D4 M4]]].
    split; [exact I4|split].
    + destruct G3 as [G31 [G32 [[nl1 [G33 [G34 G35]]] [G36 G37]]]].
      destruct G4 as [G41 [G42 [[nl2 [G43 [G44 G45]]] [G46 G47]]]].
      split; [|split; [|split; [|split]]].
      * intros w Hw. destruct (G41 w Hw) as [H|[H1 [H2 H3]]].
        -- destruct (G31 w H) as [H'|[H1 [H2 H3]]]; [left; exact H'|right]. repeat split; auto.
           rewrite G43. apply in_or_app. left. auto.
        -- right. repeat split; auto. intros H. apply H2. rewrite G33. apply in_or_app. left. exact H.
      * intros H. apply G32. apply G42. exact H.
      * exists (nl1 ++ nl2). rewrite G43, G33, app_assoc. split; auto. split.
        -- intros b Hb SB. apply in_app_or in Hb. destruct Hb as [Hb|Hb]; [|apply G44; auto].
           pose proof (G34 b Hb SB) as F3.
           assert (D3 : is_done s3 = true) by (unfold is_done; rewrite F3; reflexivity).
           destruct (D4 D3) as [F4 _]. rewrite F4. exact F3.
        -- intros b Hb. apply in_app_or in Hb. destruct Hb as [Hb|Hb]; [|apply G45; auto].
           destruct (G35 b Hb) as [H|H]; [left|right; auto].
           apply G46. exact H.
      * intros b Hb. apply G46. apply G36. exact Hb.
      * intros b Hb. destruct (G47 b Hb) as [H|[H1 H2]].
        -- destruct (G37 b H) as [H'|H']; auto.
        -- right. split; auto. intros H. apply H2. rewrite G33. apply in_or_app. left. exact H.
    + intros e He. apply M4. apply (e_infl _ _ _ E3). exact He.
  - split; [|split].
    + split; [|intros H; apply (e_live _ _ _ E3); auto].
      unfold qf in *. rewrite TV3. rewrite <- TV in C3. exact C3.
    + exact G3.
    + apply (e_infl _ _ _ E3).
Qed.

(* ---- start() ---- *)
Lemma init_core : Core (primary addrs ++ secondary addrs) (init addrs).
Proof.
  split; [|intros; reflexivity].
  constructor; simpl; try discriminate; try (intros; discriminate); auto.
  - intros x. rewrite cnt_app. pose proof (cnt_prim_sec addrs x). unfold rests. simpl.
    change (cnt [] x) with 0. lia.
  - intros _ x Hx. rewrite cnt_app. pose proof (cnt_prim_sec addrs x) as H.
    apply Nat.ltb_lt in Hx. rewrite Hx in H. unfold rests. simpl. change (cnt [] x) with 0. lia.
  - constructor.
  - intros x Hx. contradiction.
  - lia.
  - intros x. split; [intros []|intros [[] _]].
  - constructor.
  - intros a r b [].
  - intros a [].
Qed.

Lemma start_inv has_ct : Inv (start addrs has_ct) /\ Grow (init addrs) (start addrs has_ct).
Proof.
  rewrite start_eq. cbv zeta.
  destruct (chain_core addrs Hn (primary addrs) (init addrs) (secondary addrs) true init_core) as [C1 E1]; auto.
  1,2: try (intros b Hb; apply inP_true; auto; fail).
  1: try (intros e He; simpl in He; contradiction).
  set (s1 := chain (primary addrs) (init addrs)) in *.
  assert (I1 : Inv (set_tmo true true s1)).
  { split.
    - unfold qf. simpl. apply core_set_tmo; auto; intros; congruence.
    - intros H. apply (e_live _ _ _ E1). exact H. }
  pose proof (grow_of_ext _ _ E1) as G1.
  destruct has_ct; split; auto.
  destruct I1 as [I1 L1]. split; [apply core_set_ct; exact I1|exact L1].
Qed.

End Inv3.
