(* C10 — phase 4 proofs: source binding and the TLS hand-off. *)
From Coq Require Import String.
From Coq Require Import List ZArith Bool Arith.
Import ListNotations.
From TV Require Import Lib.Obs C10.Model C10.Run C10.RunClient C10.RunP4 C10.Proofs3 C10.Proofs7 C10.Proofs11 C10.ProofsClient.

Lemma apply_source_none addrs : apply_source SrcNone addrs = addrs.
Proof. unfold apply_source. simpl. rewrite <- (map_id addrs) at 2. apply map_ext. intros a. reflexivity. Qed.

Lemma apply_source_port addrs : apply_source SrcPort addrs = addrs.
Proof. unfold apply_source. simpl. rewrite <- (map_id addrs) at 2. apply map_ext. intros a. reflexivity. Qed.

Lemma apply_source_nonempty s addrs : addrs <> [] -> apply_source s addrs <> [].
Proof. destruct addrs; [congruence|]. simpl. discriminate. Qed.

Lemma apply_source_length s addrs : length (apply_source s addrs) = length addrs.
Proof. apply map_length. Qed.

(* an address whose family cannot be bound is a raising attempt; the others keep family and outcome *)
Lemma apply_source_nth s addrs a f o :
  nth_error addrs a = Some (f, o) ->
  nth_error (apply_source s addrs) a = Some (if bind_fails s f then (f, ORaises) else (f, o)).
Proof.
  intros H. unfold apply_source. rewrite nth_error_map. unfold addr in *. rewrite H. simpl. destruct (bind_fails s f); reflexivity.
Qed.

Lemma bind_failure_raises s addrs a f o :
  nth_error addrs a = Some (f, o) -> bind_fails s f = true ->
  raises_of (apply_source s addrs) a = true /\ fam_of (apply_source s addrs) a = Some f.
Proof.
  intros H B. unfold raises_of, fam_of. rewrite (apply_source_nth s addrs a f o H), B. auto.
Qed.

Lemma tls_final_ok dl t es f :
  match tls_final dl t es f with
  | OList [r; OBool open] =>
      match r with
      | OList [OTag k; _] =>
          if String.eqb k "Ok" then match t with TlsOk => true | _ => false end && open else true
      | OTag k => if String.eqb k "TlsError" then negb open else true
      | _ => false
      end
  | _ => false
  end = true \/ t = NoTls.
Proof.
  destruct t; [right; reflexivity|left|left|left];
    destruct f as [|w|[b|]|]; unfold tls_final; simpl fut_obs;
    destruct dl; destruct (existsb is_ct es); reflexivity.
Qed.

Theorem checker3_accepts_model : forall i, check_case3 i (run_case3 i) = true.
Proof.
  intros [[s t] [en [[addrs has_ct] es]]]. unfold check_case3, run_case3.
  set (addrs' := apply_source s addrs).
  destruct t; try apply (client_checker_accepts_model (en, (addrs', has_ct, es)));
    (destruct en as [|tk r]; [apply (client_checker_accepts_model (Direct, (addrs', has_ct, es)))|]);
    (destruct tk; try apply (client_checker_accepts_model (Client _ r, (addrs', has_ct, es))));
    (destruct r; try apply (client_checker_accepts_model (Client _ _, (addrs', has_ct, es))));
    (destruct addrs' as [|a0 l] eqn:EA; [apply (client_checker_accepts_model (Client _ RNow, ([], has_ct, es)))|]);
    rewrite (checker_accepts_model (a0 :: l, _, es)); simpl andb;
    match goal with |- context [tls_final ?d ?t ?e ?f] => destruct (tls_final_ok d t e f) as [H|H]; [exact H|discriminate] end.
Qed.

(* the unfixed behaviour recorded in DESIGN.md: handshake never completes + a deadline:
   the caller gets TimeoutError although the connector succeeded, and nobody closes the stream *)
Lemma tls_timeout_witness :
  run_case3 (SrcNone, TlsNever, (Client TNumber RNow, ([(4%nat, OSuccess)], true, []))) =
  OList [run_case ([(4%nat, OSuccess)], true, []); OList [OTag "Timeout"; OBool true]] /\
  fut (run [(4%nat, OSuccess)] true []) = FOk 0 /\ closes (run [(4%nat, OSuccess)] true []) = [].
Proof. vm_compute. auto. Qed.
