(* C10 — proofs about the TCPClient.connect entry point. *)
From Coq Require Import String.
From Coq Require Import List ZArith Bool Arith.
Import ListNotations.
From TV Require Import Lib.Obs C10.Model C10.Run C10.RunClient C10.Proofs9 C10.Proofs11.

Lemma chk_wait_ok dl es : forall f,
  chk_wait dl f es (map fut_obs (match es with
                                 | [] => []
                                 | e :: es' =>
                                     resolve_wait dl (match f, e with
                                                      | FPending, EConnectTimer => if dl then FTimeout else FPending
                                                      | _, _ => f
                                                      end) es'
                                 end)) = true.
Proof.
  induction es as [|e es IH]; intros f; [reflexivity|].
  set (f' := match f, e with FPending, EConnectTimer => if dl then FTimeout else FPending | _, _ => f end).
  assert (E : match es with [] => [f'] | e2 :: es2 => f' :: match es with [] => [] | e3 :: es3 =>
              resolve_wait dl (match f', e3 with FPending, EConnectTimer => if dl then FTimeout else FPending | _, _ => f' end) es3 end end
              = resolve_wait dl f' es) by (destruct es; reflexivity).
  rewrite <- E. clear E.
  assert (H : (if pending f then match e with EConnectTimer => fstate_eqb f' (if dl then FTimeout else FPending) | _ => fstate_eqb f' FPending end
               else fstate_eqb f' f) = true).
  { unfold f'. destruct f as [|a|[a|]|], e as [a' ok| |], dl; simpl; auto; apply Nat.eqb_refl. }
  destruct es as [|e2 es2].
  - cbn [map chk_wait]. rewrite p_fut_obs, H. reflexivity.
  - cbn [map chk_wait]. rewrite p_fut_obs, H. simpl andb. apply IH.
Qed.

Theorem client_checker_accepts_model : forall i, check_case2 i (run_case2 i) = true.
Proof.
  intros [en [[addrs has_ct] es]]. destruct en as [|t r].
  - apply (checker_accepts_model (addrs, has_ct, es)).
  - destruct t, r; try reflexivity; try apply (checker_accepts_model (addrs, _, es)).
    all: unfold check_case2, run_case2;
      match goal with |- context [has_deadline ?t] => generalize (has_deadline t); intros d end;
      destruct es as [|e es]; [reflexivity|];
      change (resolve_wait d FPending (e :: es)) with
        (FPending :: resolve_wait d (match FPending, e with FPending, EConnectTimer => if d then FTimeout else FPending | _, _ => FPending end) es);
      cbn [map]; rewrite p_fut_obs; apply (chk_wait_ok d (e :: es) FPending).
Qed.

(* the deadline reaches the connector: through the public entry point (resolver answering)
   the observable is exactly the connector's with has_ct = "a deadline was given";
   a number and a timedelta are the same deadline *)
Lemma client_is_connector t addrs b es : t <> TBad ->
  run_case2 (Client t RNow, (addrs, b, es)) = run_case (addrs, has_deadline t, es).
Proof. destruct t; try reflexivity. congruence. Qed.

Lemma client_bad_timeout r i : run_case2 (Client TBad r, i) = OTag "TypeError".
Proof. destruct i as [[a b] es]. reflexivity. Qed.

(* while the resolver has not answered: resolved at most once, and with TimeoutError iff
   the deadline fired while pending *)
Lemma resolve_wait_once dl es : forall f, f <> FPending -> Forall (fun g => g = f) (resolve_wait dl f es).
Proof.
  induction es as [|e es IH]; intros f H; simpl; constructor; auto.
  replace (match f with FPending => match e with EConnectTimer => if dl then FTimeout else FPending | _ => f end | _ => f end) with f
    by (destruct f; auto; congruence).
  apply IH. auto.
Qed.

Lemma resolve_wait_values dl es : forall f, In f (resolve_wait dl FPending es) ->
  f = FPending \/ (f = FTimeout /\ dl = true /\ In EConnectTimer es).
Proof.
  induction es as [|e es IH]; intros f H.
  - simpl in H. destruct H as [H|[]]. auto.
  - simpl in H. destruct H as [H|H]; [auto|].
    destruct e as [a ok| |].
    + destruct (IH f H) as [H1|[H1 [H2 H3]]]; [auto|right; repeat split; auto; right; auto].
    + destruct (IH f H) as [H1|[H1 [H2 H3]]]; [auto|right; repeat split; auto; right; auto].
    + destruct dl.
      * pose proof (resolve_wait_once true es FTimeout ltac:(discriminate)) as F.
        rewrite Forall_forall in F. right. rewrite (F f H). repeat split; auto. left; auto.
      * destruct (IH f H) as [H1|[H1 [H2 H3]]]; [auto|discriminate].
Qed.
