(* C10 — proofs, part 6: every event preserves the invariant; facts about one step. *)
From Coq Require Import List ZArith Bool Arith Lia.
Import ListNotations.
From TV Require Import C10.Model C10.Proofs C10.Proofs2 C10.Proofs3 C10.Proofs4 C10.Proofs5.

Lemma take_some a : forall l, In a (map fst l) -> exists r rest, take_infl a l = Some (r, rest).
Proof.
  induction l as [|[b rb] l IH]; simpl; intros H; [contradiction|].
  destruct (Nat.eqb a b) eqn:E; [eauto|].
  destruct H as [H|H]; [subst; rewrite Nat.eqb_refl in E; discriminate|].
  destruct (IH H) as [r [rest T]]. rewrite T. eauto.
Qed.

Lemma take_ifl a l r rest :
  take_infl a l = Some (r, rest) -> NoDup (map fst l) ->
  forall b, In b (map fst rest) <-> (In b (map fst l) /\ b <> a).
Proof.
  intros T N b. destruct (take_infl_perm a _ _ _ T) as [T1 [_ [_ [_ [_ [T6 _]]]]]].
  destruct (T6 N) as [N1 N2]. specialize (T1 b). rewrite !cnt_in.
  destruct (Nat.eqb_spec a b) as [E|E].
  - subst. split; [intros H; exfalso; apply N2; apply cnt_in; auto|intros [_ H]; congruence].
  - split; [intros H; split; [lia|congruence]|intros [H _]; lia].
Qed.

Definition completes (e : event) (b : nat) : Prop :=
  match e with EDone a _ => a = b | _ => False end.

Section Inv4.
Variable addrs : list addr.
Hypothesis Hn : addrs <> [].
Notation n := (length addrs).
Notation inP := (inP addrs).
Notation Core0 := (Core0 addrs).
Notation Core := (Core addrs).
Notation Inv := (Inv addrs).
Notation Grow := (Grow addrs).
Notation qf := (qf addrs).
Notation step' := (step' addrs).

Definition StepOK (s : st) (e : event) (s' : st) : Prop :=
  (forall w, fut s' = FOk w ->
     fut s = FOk w \/ (e = EDone w true /\ In w (ifl s)) \/
     (sync_of addrs w = Some true /\ ~ In w (started s) /\ In w (started s'))) /\
  (fut s' = FTimeout -> fut s = FTimeout \/ (e = EConnectTimer /\ ct_armed s = true)) /\
  (exists nl, started s' = started s ++ nl /\
      (forall b, In b nl -> sync_of addrs b = Some true -> fut s' = FOk b) /\
      (forall b, In b nl -> In b (ifl s') \/ sync_of addrs b <> None)) /\
  (forall b, In b (ifl s) -> ~ completes e b -> In b (ifl s')) /\
  (forall b, In b (ifl s') ->
     (In b (ifl s) /\ ~ completes e b) \/ (sync_of addrs b = None /\ ~ In b (started s))).

(* s1 is s with the completed attempt (if any) taken out of the in-flight set *)
Lemma stepok_of_grow s e s1 s' :
  Grow s1 s' -> fut s1 = fut s -> started s1 = started s ->
  (forall b, In b (ifl s1) <-> (In b (ifl s) /\ ~ completes e b)) -> StepOK s e s'.
Proof.
  intros [G1 [G2 [G3 [G4 G5]]]] F S I. rewrite F, S in *. split; [|split; [|split; [|split]]]; auto.
  - intros w Hw. destruct (G1 w Hw) as [H|H]; auto.
  - intros b Hb NC. apply G4. apply I. auto.
  - intros b Hb. destruct (G5 b Hb) as [H|H]; auto. left. apply I. exact H.
Qed.

Lemma stepok_same s e s' :
  fut s' = fut s -> started s' = started s ->
  (forall b, In b (ifl s') <-> (In b (ifl s) /\ ~ completes e b)) -> StepOK s e s'.
Proof.
  intros F S I. split; [|split; [|split; [|split]]].
  - intros w Hw. left. congruence.
  - intros H. left. congruence.
  - exists []. rewrite app_nil_r. split; auto. split; intros b [].
  - intros b Hb NC. apply I. auto.
  - intros b Hb. left. apply I. exact Hb.
Qed.

Lemma nocomp_noop s e :
  match e with EDone a _ => ~ In a (ifl s) | _ => True end ->
  forall b, In b (ifl s) <-> (In b (ifl s) /\ ~ completes e b).
Proof.
  intros H b. split; [|intros [H1 _]; auto]. intros Hb. split; auto.
  destruct e; simpl; auto. intros ->. auto.
Qed.

Lemma core_of_done p s : Core0 p s -> is_done s = true -> Core p s.
Proof. intros C D. split; auto. intros; congruence. Qed.

Lemma qf_le s r x : cnt (qf s) x <= cnt (r ++ qf s) x.
Proof. rewrite cnt_app. lia. Qed.

(* ---- on_connect_timeout ---- *)
Lemma core_connect_timeout p s v :
  Core p s -> Core p (on_connect_timeout (set_ct v false s)).
Proof.
  intros [C CL]. unfold on_connect_timeout.
  change (is_done (set_ct v false s)) with (is_done s).
  destruct (is_done s) eqn:D.
  - apply core_of_done; [|exact D].
    constructor; simpl; try (apply C; fail).
    + unfold is_done in *; simpl; intros; congruence.
    + intros w Hw. destruct (c_ok _ _ _ C w Hw) as [H1 [H2 [H3 H4]]]. repeat split; auto.
      * intros H. apply in_app_or in H. destruct H as [H|H]; auto.
        apply (c_streams _ _ _ C) in H. destruct H as [_ [_ H]]. auto.
      * intros x Hx1 Hx2 Hx3. apply in_or_app. left. auto.
    + intros Hw x Hx Hr. apply in_or_app. left. apply (c_to _ _ _ C); auto.
  - pose proof (pending_fut _ D) as PF. pose proof (streams_pending _ _ _ C D) as SP.
    apply core_of_done; [|reflexivity].
    constructor; simpl; try (apply C; fail).
    + intros; discriminate.
    + intros x. rewrite (c_streams _ _ _ C), PF. split; intros [H1 [H2 H3]]; repeat split; auto; discriminate.
    + intros; discriminate.
    + intros; discriminate.
    + intros _ x Hx Hr. apply in_or_app. right. apply SP. auto.
    + intros; discriminate.
    + intros; reflexivity.
Qed.

Lemma take_none a : forall l, take_infl a l = None -> ~ In a (map fst l).
Proof.
  intros l T H. destruct (take_some a l H) as [r [rest T']]. congruence.
Qed.

Lemma step_inv s e : Inv s -> Inv (step' s e) /\ StepOK s e (step' s e).
Proof.
  intros [[C CL] LV]. destruct e as [a ok| |]; unfold Proofs.step'.
  - (* a pending connect future completes *)
    destruct (take_infl a (infl s)) as [[r rest]|] eqn:T.
    2:{ split; [split; [split|]; auto|apply stepok_same; auto].
        apply nocomp_noop. apply take_none. exact T. }
    destruct (core_take addrs a r rest (qf s) s C T) as [C1 [IA [NA [IA0 [HX HI]]]]].
    pose proof (take_ifl a _ _ _ T (c_ifl_nd _ _ _ C)) as TI.
    cbv zeta. set (s1 := dec (set_infl rest s)) in *.
    assert (TI1 : forall b, In b (ifl s1) <-> (In b (ifl s) /\ ~ completes (EDone a ok) b)).
    { intros b. unfold s1, ifl at 1. simpl. rewrite TI. simpl. split; intros [H1 H2]; split; auto. }
    assert (Q1 : qf s1 = qf s) by reflexivity.
    destruct ok.
    + (* success *)
      assert (NW : forall w, fut s1 = FOk w -> a <> w).
      { intros w Hw ->. destruct (c_ok _ _ _ C w Hw) as [_ [_ [H _]]]. auto. }
      pose proof (core_succeed addrs a _ s1 C1 IA NA NW) as CS.
      split.
      * split; [|intros H; rewrite succeed_done in H; discriminate].
        unfold Proofs5.qf. rewrite tmo_var_succeed. fold (qf s1). rewrite Q1.
        apply core_weaken with (p := r ++ qf s); auto; [apply qf_le|apply succeed_done].
      * destruct (is_done s1) eqn:D1.
        -- apply stepok_same; unfold succeed; rewrite is_done_clear, D1, clear_timeouts_eq; try reflexivity.
           exact TI1.
        -- rewrite (succeed_pending_eq _ _ D1), clear_timeouts_eq. split; [|split; [|split; [|split]]]; simpl.
           ++ intros w Hw. inversion Hw; subst. right. left. auto.
           ++ intros; discriminate.
           ++ exists []. rewrite app_nil_r. split; auto. split; intros b [].
           ++ intros b Hb NC. apply TI1. auto.
           ++ intros b Hb. left. apply TI1. exact Hb.
    + (* failure *)
      destruct (is_done s1) eqn:D1.
      * split; [|apply stepok_same; try reflexivity; exact TI1].
        split; [|intros H; congruence].
        rewrite Q1. apply core_of_done; auto. apply core0_weaken with (p := r ++ qf s); auto. apply qf_le.
      * rewrite <- Q1 in C1.
        destruct (fail_tail_inv addrs Hn a r s1 C1 D1 IA NA HX HI) as [I2 [G2 _]].
        split; auto. apply (stepok_of_grow s _ s1); auto.
  - (* the fallback timer fires *)
    destruct (tmo_armed s) eqn:A.
    2:{ split; [split; [split|]; auto|apply stepok_same; auto; apply nocomp_noop; exact I]. }
    rewrite OT_OT0.
    assert (Q : qf s = secondary addrs).
    { unfold Proofs5.qf. rewrite (c_t1 _ _ _ C A). reflexivity. }
    assert (CS : Core (secondary addrs) s) by (rewrite <- Q; split; auto).
    destruct (OT0_inv addrs Hn s CS) as [I2 [G2 _]].
    split; auto. apply (stepok_of_grow s _ s); auto. apply nocomp_noop. exact I.
  - (* the connect timeout fires *)
    destruct (ct_armed s) eqn:A.
    2:{ split; [split; [split|]; auto|apply stepok_same; auto; apply nocomp_noop; exact I]. }
    split.
    + split.
      * assert (CC : Core (qf s) s) by (split; auto).
        apply (core_connect_timeout (qf s) s (ct_var s)) in CC.
        replace (qf (on_connect_timeout (set_ct (ct_var s) false s))) with (qf s); [exact CC|].
        unfold Proofs5.qf, on_connect_timeout. destruct (is_done _); reflexivity.
      * intros H. unfold on_connect_timeout in H.
        change (is_done (set_ct (ct_var s) false s)) with (is_done s) in H.
        destruct (is_done s) eqn:D; unfold is_done in *; simpl in H; congruence.
    + unfold on_connect_timeout. change (is_done (set_ct (ct_var s) false s)) with (is_done s).
      destruct (is_done s) eqn:D.
      * apply stepok_same; try reflexivity. exact (nocomp_noop s EConnectTimer I).
      * split; [|split; [|split; [|split]]]; simpl.
        -- intros; discriminate.
        -- intros _. right. auto.
        -- exists []. rewrite app_nil_r. split; auto. split; intros b [].
        -- intros b Hb _. exact Hb.
        -- intros b Hb. left. split; auto.
Qed.

(* ---- direct facts about one event (no invariant needed) ---- *)
Lemma step_done_stable s e :
  is_done s = true ->
  fut (step' s e) = fut s /\ started (step' s e) = started s /\ last_err (step' s e) = last_err s.
Proof.
  intros D. destruct e as [a ok| |]; unfold Proofs.step'.
  - destruct (take_infl a (infl s)) as [[r rest]|]; auto. cbv zeta.
    change (is_done (dec (set_infl rest s))) with (is_done s). rewrite D.
    destruct ok; auto. unfold succeed. rewrite is_done_clear.
    change (is_done (dec (set_infl rest s))) with (is_done s). rewrite D, clear_timeouts_eq. auto.
  - destruct (tmo_armed s); auto. rewrite OT_OT0. unfold OT0. rewrite D. auto.
  - destruct (ct_armed s); auto. unfold on_connect_timeout.
    change (is_done (set_ct (ct_var s) false s)) with (is_done s). rewrite D. auto.
Qed.

Lemma step_first_success s w :
  is_done s = false -> In w (ifl s) -> fut (step' s (EDone w true)) = FOk w.
Proof.
  intros D H. unfold Proofs.step'. destruct (take_some w _ H) as [r [rest T]]. rewrite T. cbv zeta.
  rewrite succeed_pending_eq by exact D. reflexivity.
Qed.

Lemma step_connect_timeout s :
  is_done s = false -> ct_armed s = true -> fut (step' s EConnectTimer) = FTimeout.
Proof.
  intros D A. unfold Proofs.step'. rewrite A. unfold on_connect_timeout.
  change (is_done (set_ct (ct_var s) false s)) with (is_done s). rewrite D. reflexivity.
Qed.

End Inv4.
