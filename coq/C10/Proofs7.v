(* C10 — proofs, part 7: the theorems about every run (start() followed by any
   list of events). *)
From Coq Require Import List ZArith Bool Arith Lia.
Import ListNotations.
From TV Require Import C10.Model C10.Proofs C10.Proofs2 C10.Proofs3 C10.Proofs4 C10.Proofs5 C10.Proofs6.

Lemma NoDup_map_coarser {A B C} (f : A -> B) (g : A -> C) (l : list A) :
  NoDup (map f l) -> (forall a b, In a l -> In b l -> g a = g b -> f a = f b) -> NoDup (map g l).
Proof.
  induction l as [|x l IH]; simpl; intros N H; [constructor|].
  inversion N as [|? ? N1 N2]; subst. constructor.
  - intros Hx. apply in_map_iff in Hx. destruct Hx as [y [H1 H2]].
    apply N1. apply in_map_iff. exists y. split; auto; try (apply H; auto).
  - apply IH; auto.
Qed.

Section Runs.
Variable addrs : list addr.
Hypothesis Hn : addrs <> [].
Variable has_ct : bool.
Notation n := (length addrs).
Notation R := (run addrs has_ct).
Notation Inv := (Inv addrs).

Lemma fold_step_inv es : forall s, Inv s -> Inv (fold_left (step addrs) es s).
Proof.
  induction es as [|e es IH]; intros s I; simpl; auto.
  apply IH. rewrite step_step'. apply step_inv; auto.
Qed.

Lemma run_inv es : Inv (R es).
Proof. unfold run. apply fold_step_inv. apply start_inv; auto. Qed.

Lemma run_snoc es e : R (es ++ [e]) = step' addrs (R es) e.
Proof. unfold run. rewrite fold_left_app. simpl. apply step_step'. Qed.

Lemma run_app es es2 : R (es ++ es2) = fold_left (step addrs) es2 (R es).
Proof. unfold run. apply fold_left_app. Qed.

(* 1. resolved at most once; nothing starts afterwards *)
Lemma resolved_once es : is_done (R es) = true ->
  forall es2, fut (R (es ++ es2)) = fut (R es) /\ started (R (es ++ es2)) = started (R es).
Proof.
  intros D es2. rewrite run_app. generalize dependent (R es). clear.
  induction es2 as [|e es2 IH]; intros s D; simpl; auto.
  rewrite step_step'. destruct (step_done_stable addrs s e D) as [F [S _]].
  assert (D' : is_done (step' addrs s e) = true) by (unfold is_done in *; rewrite F; exact D).
  destruct (IH _ D') as [F2 S2]. rewrite F2, S2. auto.
Qed.

(* 2. the winner *)
Lemma winner_was_first_success es e w :
  is_done (R es) = false -> fut (R (es ++ [e])) = FOk w ->
  (e = EDone w true /\ In w (ifl (R es))) \/
  (sync_of addrs w = Some true /\ ~ In w (started (R es)) /\ In w (started (R (es ++ [e])))).
Proof.
  intros D F. rewrite run_snoc in *.
  destruct (step_inv addrs Hn (R es) e (run_inv es)) as [_ [O _]].
  destruct (O w F) as [H|H]; auto. unfold is_done in D. rewrite H in D. discriminate.
Qed.

Lemma first_success_wins es w :
  is_done (R es) = false -> In w (ifl (R es)) -> fut (R (es ++ [EDone w true])) = FOk w.
Proof. intros D H. rewrite run_snoc. apply step_first_success; auto. Qed.

Lemma sync_success_wins es e :
  exists nl, started (R (es ++ [e])) = started (R es) ++ nl /\
    (forall b, In b nl -> sync_of addrs b = Some true -> fut (R (es ++ [e])) = FOk b) /\
    (forall b, In b nl -> In b (ifl (R (es ++ [e]))) \/ sync_of addrs b <> None).
Proof.
  rewrite run_snoc. destruct (step_inv addrs Hn (R es) e (run_inv es)) as [_ [_ [_ [S _]]]]. exact S.
Qed.

Lemma start_winner w :
  fut (R []) = FOk w -> sync_of addrs w = Some true /\ In w (started (R [])).
Proof.
  intros F. destruct (start_inv addrs Hn has_ct) as [_ [G _]]. unfold run in F. simpl in F.
  destruct (G w F) as [H|[H1 [_ H3]]]; [discriminate|auto].
Qed.

(* 3. errors *)
Lemma error_means_exhausted es x :
  fut (R es) = FErr x ->
  infl (R es) = [] /\ length (started (R es)) = n /\ remaining (R es) = 0%Z /\
  exists b, x = Some b /\ In b (started (R es)).
Proof.
  intros F. destruct (run_inv es) as [[C _] _].
  destruct (c_err _ _ _ C x F) as [H1 [H2 H3]]. repeat split; auto.
  rewrite (c_rem _ _ _ C), H1, H2. simpl. lia.
Qed.

Lemma timeout_only_from_connect_timer es e :
  is_done (R es) = false -> fut (R (es ++ [e])) = FTimeout ->
  e = EConnectTimer /\ ct_armed (R es) = true.
Proof.
  intros D F. rewrite run_snoc in *.
  destruct (step_inv addrs Hn (R es) e (run_inv es)) as [_ [_ [T _]]].
  destruct (T F) as [H|H]; auto. unfold is_done in D. rewrite H in D. discriminate.
Qed.

Lemma start_never_times_out : fut (R []) <> FTimeout.
Proof.
  intros F. destruct (start_inv addrs Hn has_ct) as [_ [_ [G _]]]. unfold run in F. simpl in F.
  specialize (G F). discriminate.
Qed.

Lemma connect_timer_resolves es :
  is_done (R es) = false -> ct_armed (R es) = true -> fut (R (es ++ [EConnectTimer])) = FTimeout.
Proof. intros D A. rewrite run_snoc. apply step_connect_timeout; auto. Qed.

(* 4. no leak, no premature close *)
Lemma no_leak es :
  let s := R es in
  (is_done s = false -> closes s = []) /\
  (forall w, fut s = FOk w ->
     ~ In w (closes s) /\ In w (started s) /\ ~ In w (ifl s) /\
     forall a, In a (started s) -> raises_of addrs a = false -> a <> w -> In a (closes s)) /\
  (fut s = FTimeout -> forall a, In a (started s) -> raises_of addrs a = false -> In a (closes s)) /\
  (forall x, fut s = FErr x -> infl s = []).
Proof.
  cbv zeta. destruct (run_inv es) as [[C _] _]. repeat split.
  - apply (c_closes_p _ _ _ C).
  - apply (c_ok _ _ _ C w H).
  - apply (c_ok _ _ _ C w H).
  - apply (c_ok _ _ _ C w H).
  - apply (c_ok _ _ _ C w H).
  - apply (c_to _ _ _ C).
  - intros x F. apply (c_err _ _ _ C x F).
Qed.

(* 5. at most one attempt in flight per address family *)
Lemma inv_one_per_family s : Inv s -> NoDup (map (fam_of addrs) (ifl s)).
Proof.
  intros [[C _] _].
  apply (NoDup_map_coarser (inP addrs)); [apply (c_q1 _ _ _ C)|].
  assert (B : forall a, In a (ifl s) -> a < n).
  { intros a Ha. apply (c_ifl_st _ _ _ C) in Ha. apply cnt_in in Ha.
    pose proof (c_cnt _ _ _ C a). destruct (Nat.ltb_spec a n); lia. }
  assert (K : forall a, a < n ->
            (inP addrs a = true /\ fam_of addrs a = Some (fam0 addrs)) \/
            (inP addrs a = false /\ exists f, fam_of addrs a = Some f /\ f <> fam0 addrs)).
  { intros a La. destruct (lt_n_cases addrs a La) as [H|H].
    - left. split; [apply inP_true; auto|apply prim_fam; auto].
    - right. split; [apply sec_not_prim; auto|apply sec_fam; auto]. }
  intros a b Ha Hb E.
  destruct (K a (B a Ha)) as [[I1 F1]|[I1 [f1 [F1 N1]]]], (K b (B b Hb)) as [[I2 F2]|[I2 [f2 [F2 N2]]]];
    try congruence.
Qed.

Lemma one_per_family es : NoDup (map (fam_of addrs) (ifl (R es))).
Proof. apply inv_one_per_family. apply run_inv. Qed.

(* 7. liveness as a state property: nothing in flight and the fallback timer not armed => resolved *)
Lemma inv_quiescent s :
  Inv s -> infl s = [] -> tmo_armed s = false -> is_done s = true.
Proof.
  intros [[C _] LV] I A.
  destruct (is_done s) eqn:D; auto. exfalso.
  destruct (LV D) as [H|H]; [congruence|].
  pose proof (c_rem _ _ _ C) as CR. rewrite I in CR. simpl in CR.
  assert (ND : NoDup (started s)).
  { apply (NoDup_count_occ Nat.eq_dec). intros x. pose proof (c_cnt _ _ _ C x) as K.
    unfold cnt in K. destruct (x <? n); lia. }
  destruct (Forall_Exists_dec (fun a => In a (started s)) (fun a => in_dec Nat.eq_dec a (started s)) (seq 0 n)) as [F|E].
  - assert (LE : n <= length (started s)).
    { rewrite <- (seq_length n 0). apply NoDup_incl_length; [apply seq_NoDup|].
      intros x Hx. rewrite Forall_forall in F. auto. }
    assert (LE2 : length (started s) <= n).
    { apply len_le_of_cnt. intros x. pose proof (c_cnt _ _ _ C x). lia. }
    lia.
  - apply Exists_exists in E. destruct E as [a [Ha1 Ha2]]. apply in_seq in Ha1.
    pose proof (c_total _ _ _ C D a) as T. apply cnt_notin in Ha2.
    unfold rests in T. rewrite I in T. simpl in T. change (cnt [] a) with 0 in T.
    assert (Q : cnt (qf addrs s) a = 1) by lia.
    unfold qf in Q. destruct (tmo_var s) eqn:TV; [|change (cnt [] a) with 0 in Q; lia].
    pose proof (c_t2 _ _ _ C TV A). congruence.
Qed.

Lemma quiescent_is_resolved es :
  infl (R es) = [] -> tmo_armed (R es) = false -> is_done (R es) = true.
Proof. apply inv_quiescent. apply run_inv. Qed.

(* 8. self.remaining = attempts not yet completed; the log has no duplicates *)
Lemma remaining_counts es :
  let s := R es in
  remaining s = (Z.of_nat n - Z.of_nat (length (started s)) + Z.of_nat (length (infl s)))%Z /\
  NoDup (started s) /\ (forall a, In a (started s) -> a < n) /\
  NoDup (ifl s) /\ incl (ifl s) (started s).
Proof.
  cbv zeta. destruct (run_inv es) as [[C _] _]. repeat split; try apply C.
  - apply (NoDup_count_occ Nat.eq_dec). intros x. pose proof (c_cnt _ _ _ C x) as K.
    unfold cnt in K. destruct (x <? n); lia.
  - intros a Ha. apply cnt_in in Ha. pose proof (c_cnt _ _ _ C a). destruct (Nat.ltb_spec a n); lia.
Qed.

(* 9. the fuel of the model is never exhausted *)
Lemma never_faults es : fault (R es) = false.
Proof. destruct (run_inv es) as [[C _] _]. apply C. Qed.

Lemma trace_no_fault es : forall s, Inv s -> existsb fault (trace addrs s es) = false.
Proof.
  induction es as [|e es IH]; intros s I; simpl.
  - destruct I as [[C _] _]. rewrite (c_fault _ _ _ C). reflexivity.
  - assert (F : fault s = false) by (destruct I as [[C _] _]; apply C). rewrite F. simpl.
    apply IH. rewrite step_step'. apply step_inv; auto.
Qed.

(* every state of the trace is the state after a prefix of the events *)
Lemma trace_nth es : forall s k, k <= length es ->
  nth_error (trace addrs s es) k = Some (fold_left (step addrs) (firstn k es) s).
Proof.
  induction es as [|e es IH]; intros s k Hk; simpl in Hk.
  - assert (k = 0) by lia. subst. reflexivity.
  - destruct k as [|k]; [reflexivity|]. simpl. apply IH. lia.
Qed.

End Runs.

From TV Require Import Lib.Obs C10.Run.

Lemma run_case_shape addrs has_ct es :
  addrs <> [] ->
  run_case (addrs, has_ct, es) =
  OList (map (snap (length addrs)) (trace addrs (start addrs has_ct) es)).
Proof.
  intros Hn. unfold run_case. destruct addrs as [|a0 addrs']; [congruence|].
  rewrite trace_no_fault; auto. apply start_inv; auto.
Qed.

