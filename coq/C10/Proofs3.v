(* C10 — proofs, part 3: the state invariant and its preservation by the
   primitive actions (open an attempt, complete it, succeed, fail). *)
From Coq Require Import List ZArith Bool Arith Lia.
Import ListNotations.
From TV Require Import C10.Model C10.Proofs C10.Proofs2.

Definition rests (s : st) : list nat := concat (map snd (infl s)).
Definition ifl (s : st) : list nat := map fst (infl s).

Lemma remove_nat_In a x l : In x (remove_nat a l) <-> In x l /\ x <> a.
Proof.
  unfold remove_nat. rewrite filter_In. split; intros [H1 H2]; split; auto.
  - intros ->. rewrite Nat.eqb_refl in H2. discriminate.
  - apply Nat.eqb_neq in H2. rewrite H2. auto.
Qed.

Lemma NoDup_snoc {A} (l : list A) x : NoDup l -> ~ In x l -> NoDup (l ++ [x]).
Proof.
  intros H1 H2.
  induction l as [|y l IH]; simpl.
  - repeat constructor; auto.
  - inversion H1; subst. constructor.
    + intros H. apply in_app_or in H. destruct H as [H|[H|[]]]; auto. subst. apply H2. left; auto.
    + apply IH; auto. intros H. apply H2. right; auto.
Qed.

Lemma len_le_of_cnt n l : (forall x, cnt l x <= if x <? n then 1 else 0) -> length l <= n.
Proof.
  intros H. rewrite <- (seq_length n 0). apply NoDup_incl_length.
  - apply (NoDup_count_occ Nat.eq_dec). intros x. specialize (H x). unfold cnt in H. destruct (x <? n); lia.
  - intros x Hx. apply in_seq. apply cnt_in in Hx. specialize (H x).
    destruct (Nat.ltb_spec x n); lia.
Qed.

Section Inv.
Variable addrs : list addr.
Hypothesis Hn : addrs <> [].
Notation n := (length addrs).
Notation inP := (inP addrs).

Record Core0 (p : list nat) (s : st) : Prop := mkCore0 {
  c_fault : fault s = false;
  c_cnt : forall a, cnt (started s) a + cnt p a + cnt (rests s) a <= (if a <? n then 1 else 0);
  c_total : is_done s = false -> forall a, a < n -> cnt (started s) a + cnt p a + cnt (rests s) a = 1;
  c_ifl_nd : NoDup (ifl s);
  c_ifl_st : incl (ifl s) (started s);
  c_rem : remaining s = (Z.of_nat n - Z.of_nat (length (started s)) + Z.of_nat (length (infl s)))%Z;
  c_streams : forall a, In a (streams s) <-> (In a (started s) /\ raises_of addrs a = false /\ fut s <> FOk a);
  c_closes_p : is_done s = false -> closes s = [];
  c_ok : forall w, fut s = FOk w ->
           ~ In w (closes s) /\ In w (started s) /\ ~ In w (ifl s) /\
           (forall a, In a (started s) -> raises_of addrs a = false -> a <> w -> In a (closes s));
  c_to : fut s = FTimeout -> forall a, In a (started s) -> raises_of addrs a = false -> In a (closes s);
  c_err : forall x, fut s = FErr x ->
           infl s = [] /\ length (started s) = n /\ exists b, x = Some b /\ In b (started s);
  c_lastin : forall b, last_err s = Some b -> In b (started s) /\ ~ In b (ifl s);
  c_q1 : NoDup (map inP (ifl s));
  c_q2 : forall a r b, In (a, r) (infl s) -> In b r -> inP b = inP a;
  c_t1 : tmo_armed s = true -> tmo_var s = true;
  c_t2 : tmo_var s = true -> tmo_armed s = false -> is_done s = true;
  c_ifl_sync : forall a, In a (ifl s) -> sync_of addrs a = None
}.

Definition Core (p : list nat) (s : st) : Prop :=
  Core0 p s /\ (is_done s = false -> last_err s = None -> length (started s) = length (infl s)).

Lemma pending_fut s : is_done s = false -> fut s = FPending.
Proof. unfold is_done. destruct (fut s); auto; discriminate. Qed.

Lemma fresh_of_cnt p s a l q : Core0 p s -> p = (a :: l) ++ q -> ~ In a (started s) /\ ~ In a (ifl s).
Proof.
  intros C ->. assert (H : ~ In a (started s)).
  { apply cnt_notin. pose proof (c_cnt _ _ C a) as H. simpl app in H. rewrite cnt_cons, Nat.eqb_refl in H.
    destruct (a <? n); lia. }
  split; auto. intros H1. apply H. apply (c_ifl_st _ _ C). auto.
Qed.

Lemma streams_pending p s : Core0 p s -> is_done s = false ->
  forall x, In x (streams s) <-> (In x (started s) /\ raises_of addrs x = false).
Proof.
  intros C P x. rewrite (c_streams _ _ C), (pending_fut _ P).
  split; [intros [H [H' _]]; auto|intros [H H']; repeat split; auto; discriminate].
Qed.

Lemma open_attempt_eq a s :
  open_attempt addrs a s =
  set_started (started s ++ [a])
    (set_streams (if raises_of addrs a then streams s else a :: remove_nat a (streams s)) s).
Proof. unfold open_attempt. destruct s; destruct (raises_of addrs a); reflexivity. Qed.

Lemma streams_open a s :
  (forall x, In x (streams s) <-> (In x (started s) /\ raises_of addrs x = false)) ->
  forall x, In x (if raises_of addrs a then streams s else a :: remove_nat a (streams s)) <->
            (In x (started s ++ [a]) /\ raises_of addrs x = false).
Proof.
  intros H x. destruct (raises_of addrs a) eqn:RA; simpl.
  - rewrite H, in_app_iff. simpl. split; [intros [H1 H2]; auto|].
    intros [[H1|[H1|[]]] H2]; auto. subst. congruence.
  - rewrite remove_nat_In, in_app_iff, H. simpl.
    destruct (Nat.eq_dec a x); [subst; intuition|intuition].
Qed.

(* ---- a synchronous completion: the attempt is opened and its future is already done ---- *)
Lemma core_open_sync a l q s :
  Core0 ((a :: l) ++ q) s -> is_done s = false ->
  let s' := dec (open_attempt addrs a s) in
  Core0 (l ++ q) s' /\ In a (started s') /\ ~ In a (ifl s') /\ is_done s' = false.
Proof.
  intros C P. destruct (fresh_of_cnt _ _ _ _ _ C eq_refl) as [F1 F2].
  pose proof (pending_fut _ P) as PF.
  cbv zeta. rewrite open_attempt_eq. split; [|split; [|split]]; simpl; auto.
  2:{ apply in_or_app. right. left. auto. }
  constructor; simpl; try (apply C; fail).
  - intros x. pose proof (c_cnt _ _ C x) as H. simpl app in H. rewrite cnt_cons in H.
    rewrite cnt_app, cnt_cons, cnt_nil. unfold rests in *. simpl. lia.
  - intros P' x Hx. pose proof (c_total _ _ C P x Hx) as H. simpl app in H. rewrite cnt_cons in H.
    rewrite cnt_app, cnt_cons, cnt_nil. unfold rests in *. simpl. lia.
  - intros x Hx. apply in_or_app. left. apply (c_ifl_st _ _ C). auto.
  - rewrite (c_rem _ _ C), app_length. simpl. lia.
  - intros x. rewrite PF, (streams_open a s (streams_pending _ _ C P) x).
    split; [intros [H1 H2]; repeat split; auto; discriminate|intros [H1 [H2 _]]; auto].
  - intros w Hw. rewrite PF in Hw. discriminate.
  - intros Hw. rewrite PF in Hw. discriminate.
  - intros x Hw. rewrite PF in Hw. discriminate.
  - intros b Hb. destruct (c_lastin _ _ C b Hb) as [H1 H2]. split; auto. apply in_or_app; auto.
Qed.

(* ---- an asynchronous attempt: the future is pending, the rest of the iterator is bound to it ---- *)
Lemma core_open_async a l q s X :
  Core ((a :: l) ++ q) s -> is_done s = false -> sync_of addrs a = None ->
  (forall b, In b (a :: l) -> inP b = X) -> (forall e, In e (ifl s) -> inP e <> X) ->
  let s1 := open_attempt addrs a s in
  Core q (set_infl (infl s1 ++ [(a, l)]) s1).
Proof.
  intros [C CL] P SY HX HI. destruct (fresh_of_cnt _ _ _ _ _ C eq_refl) as [F1 F2].
  pose proof (pending_fut _ P) as PF.
  cbv zeta. rewrite open_attempt_eq. split.
  constructor; simpl; try (apply C; fail).
  - intros x. pose proof (c_cnt _ _ C x) as H. simpl app in H. rewrite cnt_cons, cnt_app in H.
    unfold rests in *. simpl. rewrite map_app, concat_app, !cnt_app. simpl. rewrite cnt_cons, cnt_nil, app_nil_r. lia.
  - intros P' x Hx. pose proof (c_total _ _ C P x Hx) as H. simpl app in H. rewrite cnt_cons, cnt_app in H.
    unfold rests in *. simpl. rewrite map_app, concat_app, !cnt_app. simpl. rewrite cnt_cons, cnt_nil, app_nil_r. lia.
  - unfold ifl; simpl. rewrite map_app. simpl. apply NoDup_snoc; [apply C|auto].
  - unfold ifl; simpl. rewrite map_app. simpl. intros x Hx. apply in_app_or in Hx.
    apply in_or_app. destruct Hx as [Hx|[Hx|[]]]; [left; apply (c_ifl_st _ _ C); auto|right; left; auto].
  - rewrite (c_rem _ _ C), !app_length. simpl. lia.
  - intros x. rewrite PF, (streams_open a s (streams_pending _ _ C P) x).
    split; [intros [H1 H2]; repeat split; auto; discriminate|intros [H1 [H2 _]]; auto].
  - intros w Hw. rewrite PF in Hw. discriminate.
  - intros Hw. rewrite PF in Hw. discriminate.
  - intros x Hw. rewrite PF in Hw. discriminate.
  - intros b Hb. destruct (c_lastin _ _ C b Hb) as [H1 H2]. split; [apply in_or_app; auto|].
    unfold ifl; simpl. rewrite map_app. simpl. intros H. apply in_app_or in H.
    destruct H as [H|[H|[]]]; auto. subst. auto.
  - unfold ifl; simpl. rewrite !map_app. simpl. apply NoDup_snoc; [apply C|].
    intros H. apply in_map_iff in H. destruct H as [e [H1 H2]]. apply (HI e H2).
    rewrite H1. apply HX. left; auto.
  - intros a' r b H Hb. apply in_app_or in H. destruct H as [H|[H|[]]].
    + apply (c_q2 _ _ C a' r b H Hb).
    + inversion H; subst. rewrite (HX b), (HX a'); auto; [left; auto|right; auto].
  - intros x Hx. unfold ifl in Hx; simpl in Hx. rewrite map_app in Hx. apply in_app_or in Hx.
    destruct Hx as [Hx|[Hx|[]]]; [apply (c_ifl_sync _ _ C); auto|subst; auto].
  - simpl. intros _ HL. rewrite !app_length. simpl. rewrite CL; auto.
Qed.

(* ---- completion of a pending future ---- *)
Lemma take_infl_perm a : forall l r rest,
  take_infl a l = Some (r, rest) ->
  (forall x, cnt (map fst l) x = (if Nat.eqb a x then 1 else 0) + cnt (map fst rest) x) /\
  (forall x, cnt (concat (map snd l)) x = cnt r x + cnt (concat (map snd rest)) x) /\
  length l = S (length rest) /\
  In (a, r) l /\ incl rest l /\
  (NoDup (map fst l) -> NoDup (map fst rest) /\ ~ In a (map fst rest)) /\
  (forall f : nat -> bool, NoDup (map f (map fst l)) -> NoDup (map f (map fst rest)) /\ ~ In (f a) (map f (map fst rest))).
Proof.
  induction l as [|[b rb] l IH]; intros r rest H; simpl in H; [discriminate|].
  destruct (Nat.eqb a b) eqn:E.
  - apply Nat.eqb_eq in E. inversion H; subst. simpl. repeat split.
    + intros x. rewrite cnt_cons. auto.
    + intros x. rewrite cnt_app. auto.
    + left; auto.
    + intros x Hx. right; auto.
    + inversion H0; auto.
    + inversion H0; auto.
    + inversion H0; auto.
    + inversion H0; auto.
  - destruct (take_infl a l) as [[r' l'']|] eqn:T; [|discriminate]. inversion H; subst.
    destruct (IH _ _ eq_refl) as [I1 [I2 [I3 [I4 [I5 [I6 I7]]]]]]. simpl. repeat split.
    + intros x. rewrite !cnt_cons, I1. lia.
    + intros x. rewrite !cnt_app, I2. lia.
    + lia.
    + right; auto.
    + intros x [Hx|Hx]; [left; auto|right; auto].
    + inversion H0; subst. destruct (I6 H4) as [J1 J2]. constructor; auto.
      intros Hb. apply H3. apply in_map_iff in Hb. destruct Hb as [e [He1 He2]].
      apply in_map_iff. exists e. split; auto.
    + inversion H0; subst. destruct (I6 H4) as [J1 J2]. intros [Hb|Hb]; auto.
      apply Nat.eqb_neq in E. auto.
    + inversion H0; subst. destruct (I7 f H4) as [J1 J2]. constructor; auto.
      intros Hb. apply H3. apply in_map_iff in Hb. destruct Hb as [e [He1 He2]].
      apply in_map_iff in He2. destruct He2 as [e2 [He3 He4]].
      apply in_map_iff. exists e. split; auto. apply in_map_iff. exists e2. split; auto.
    + inversion H0; subst. destruct (I7 f H4) as [J1 J2]. intros [Hb|Hb]; auto.
      apply H3. rewrite Hb. apply in_map. apply in_map_iff. exists (a, r). split; auto.
Qed.

End Inv.
