(* C20 — Template autoescaping.  The mechanism (per-file Template.autoescape set by
   loader / constructor / {% autoescape %}, _CodeWriter.include + current_template,
   _Expression.generate, the conversion lines) is the C19 model; this file adds
   (a) the per-FILE annotation view of autoescaping: every expression tag of a file
       is annotated with that file's escaping function when the file is loaded, and
       substitution of includes / blocks / inheritance never looks at any setting;
   (b) the observable-level check used by the correspondence: the output is cut at
       sentinel bytes the generator puts around expression tags.
   Definitions only. *)
From Coq Require Import List NArith Arith Bool String.
Import ListNotations.
From TV Require Import Lib.Obs Lib.C21_Utf8 C19.Model C19.Codegen C19.Sem C19.Spec C19.Pool C21.Model.
Local Open Scope N_scope.

(* ---------- (a) annotated syntax ---------- *)
Inductive anode :=
| AText (v : text) (ws : wsmode)
| AExpr (e : text) (esc : option text)        (* the escaping function of the defining file; None for raw *)
| AStmt (s : text)
| AInter (s : text)
| AControl (s : text) (body : list anode)
| AApply (m : text) (body : list anode)
| ABlock (name : text)
| AExtends
| AInclude (name : text).

Fixpoint annotate (ae : option text) (n : node) : anode :=
  match n with
  | NText v _ ws => AText v ws
  | NExpr e _ raw => AExpr e (if raw then None else ae)
  | NStmt s _ => AStmt s
  | NInter s _ => AInter s
  | NControl s _ b => AControl s (map (annotate ae) b)
  | NApply m _ b => AApply m (map (annotate ae) b)
  | NBlock name _ _ => ABlock name
  | NExtends _ => AExtends
  | NInclude name _ => AInclude name
  end.

(* a loaded file, annotated with ITS OWN setting *)
Definition annotate_file (t : tmpl) : list anode := map (annotate (t_ae t)) (t_body t).

(* substitution on annotated chunks: no autoescape parameter anywhere *)
Fixpoint aresolve (fuel : nat) (ld : loadfn) (nb : nbmap) (ns : list anode) : gres useg :=
  match fuel with
  | O => GErr GFuel
  | S f =>
      match ns with
      | [] => GOk ([], [])
      | n :: r =>
          let next (l : list unode) : gres useg :=
            gbind (aresolve f ld nb r) (fun '(seg, cls) => GOk (l ++ seg, cls)) in
          let whole (body : list anode) (k : list unode -> gres useg) : gres useg :=
            gbind (aresolve f ld nb body) (fun '(b, c) =>
              match c with [] => k b | _ :: _ => GErr GSyntax end) in
          match n with
          | AText v ws =>
              let v' := text_value ws v in
              if is_nil v' then next [] else gbind (encode_lit v') (fun b => next [UText b])
          | AExpr e esc => next [UExpr e esc]
          | AStmt s => next [UStmt s]
          | AInter s =>
              gbind (aresolve f ld nb r) (fun '(seg, cls) => GOk ([], (s, seg) :: cls))
          | AControl s body =>
              gbind (aresolve f ld nb body) (fun '(b, c) => next [UComp s b c])
          | AApply m body => whole body (fun b => next [UApply m b])
          | ABlock name =>
              match nb_find name nb with
              | None => GErr GNoBlock
              | Some (body, t) => whole (map (annotate (t_ae t)) body) next
              end
          | AExtends => GErr GNotImpl
          | AInclude name =>
              match ld with
              | None => GErr GAssert
              | Some load => gbind (load name) (fun t => whole (annotate_file t) next)
              end
          end
      end
  end.

(* ---------- (b) sentinel-delimited contributions in the output ----------
   byte 1 ... byte 2 : a tag whose defining file escapes with xhtml_escape
   byte 3 ... byte 4 : a raw tag / a tag of a file with autoescape None *)
Inductive sstate := SOut | SEsc (acc : list N) | SRaw (acc : list N).

Fixpoint segments (st : sstate) (out : list N) : option (list (bool * list N)) :=
  match out with
  | [] => match st with SOut => Some [] | _ => None end
  | c :: r =>
      match st with
      | SOut =>
          if c =? 1 then segments (SEsc []) r
          else if c =? 3 then segments (SRaw []) r
          else if (c =? 2) || (c =? 4) then None
          else segments SOut r
      | SEsc acc =>
          if c =? 2 then option_map (cons (true, rev acc)) (segments SOut r)
          else if (c =? 1) || (c =? 3) || (c =? 4) then None
          else segments (SEsc (c :: acc)) r
      | SRaw acc =>
          if c =? 4 then option_map (cons (false, rev acc)) (segments SOut r)
          else if (c =? 1) || (c =? 2) || (c =? 3) then None
          else segments (SRaw (c :: acc)) r
      end
  end.

(* values an expression tag can see: the keyword arguments and what iterating them yields *)
Definition iter_or_nil (v : value) : list value :=
  match iter_items v with XOk l => l | XErr _ => [] end.
Definition candidates (env : list (text * value)) : list value :=
  let vs := map snd env in vs ++ flat_map iter_or_nil vs.

Definition raw_bytes (v : value) : option (list N) :=
  match to_utf8 v with XOk b => Some b | XErr _ => None end.
Definition escaped_bytes (v : value) : option (list N) :=
  match to_utf8 v with
  | XOk b => match c_callfn (s2l "xhtml_escape") b with XOk o => Some o | XErr _ => None end
  | XErr _ => None
  end.

Definition beqb (a b : list N) : bool := list_eqb N.eqb a b.
Definition mem_opt (x : list N) (l : list (option (list N))) : bool :=
  existsb (fun o => match o with Some b => beqb x b | None => false end) l.

Definition dangerous (c : N) : bool := (c =? 60) || (c =? 62) || (c =? 34) || (c =? 39).

Definition seg_ok (cands : list value) (s : bool * list N) : bool :=
  let '(escaped, b) := s in
  if escaped then mem_opt b (map escaped_bytes cands) && negb (existsb dangerous b)
  else mem_opt b (map raw_bytes cands).
