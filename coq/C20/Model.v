(* C20 — Template autoescaping.  The mechanism (per-file Template.autoescape set by
   loader / constructor / {% autoescape %}, _CodeWriter.include + current_template,
   _Expression.generate, the conversion lines) is the C19 model; this file adds
   (a) the per-FILE annotation view of autoescaping: every expression tag of a file
       is annotated with that file's escaping function when the file is loaded, and
       substitution of includes / blocks / inheritance never looks at any setting;
   (the observable-level sentinel oracle of the correspondence is harness/props/c20.py py_check).
   Definitions only. *)
From Coq Require Import List NArith Arith Bool String.
Import ListNotations.
From TV Require Import Lib.Obs Lib.C21_Utf8 C19.Model C19.Codegen C19.Sem C19.Spec C19.Pool C21.Model.
Local Open Scope N_scope.

(* ---------- (a) annotated syntax ---------- *)
Inductive anode :=
| AText (v : text) (ws : wsmode)
| AExpr (e : text) (esc : option text)        (* the escaping function of the defining file; None for raw *)
| AStmt (s : text)
| AInter (s : text)
| AControl (s : text) (body : list anode)
| AApply (m : text) (body : list anode)
| ABlock (name : text)
| AExtends
| AInclude (name : text).

Fixpoint annotate (ae : option text) (n : node) : anode :=
  match n with
  | NText v _ ws => AText v ws
  | NExpr e _ raw => AExpr e (if raw then None else ae)
  | NStmt s _ => AStmt s
  | NInter s _ => AInter s
  | NControl s _ b => AControl s (map (annotate ae) b)
  | NApply m _ b => AApply m (map (annotate ae) b)
  | NBlock name _ _ => ABlock name
  | NExtends _ => AExtends
  | NInclude name _ => AInclude name
  end.

(* a loaded file, annotated with ITS OWN setting *)
Definition annotate_file (t : tmpl) : list anode := map (annotate (t_ae t)) (t_body t).

(* substitution on annotated chunks: no autoescape parameter anywhere *)
Fixpoint aresolve (fuel : nat) (ld : loadfn) (nb : nbmap) (ns : list anode) : gres useg :=
  match fuel with
  | O => GErr GFuel
  | S f =>
      match ns with
      | [] => GOk ([], [])
      | n :: r =>
          let next (l : list unode) : gres useg :=
            gbind (aresolve f ld nb r) (fun '(seg, cls) => GOk (l ++ seg, cls)) in
          let whole (body : list anode) (k : list unode -> gres useg) : gres useg :=
            gbind (aresolve f ld nb body) (fun '(b, c) =>
              match c with [] => k b | _ :: _ => GErr GSyntax end) in
          match n with
          | AText v ws =>
              let v' := text_value ws v in
              if is_nil v' then next [] else gbind (encode_lit v') (fun b => next [UText b])
          | AExpr e esc => next [UExpr e esc]
          | AStmt s => next [UStmt s]
          | AInter s =>
              gbind (aresolve f ld nb r) (fun '(seg, cls) => GOk ([], (s, seg) :: cls))
          | AControl s body =>
              gbind (aresolve f ld nb body) (fun '(b, c) => next [UComp s b c])
          | AApply m body => whole body (fun b => next [UApply m b])
          | ABlock name =>
              match nb_find name nb with
              | None => GErr GNoBlock
              | Some (body, t) => whole (map (annotate (t_ae t)) body) next
              end
          | AExtends => GErr GNotImpl
          | AInclude name =>
              match ld with
              | None => GErr GAssert
              | Some load => gbind (load name) (fun t => whole (annotate_file t) next)
              end
          end
      end
  end.

