(* C20 — proofs. *)
From Coq Require Import List NArith ZArith Arith Bool String Lia.
Import ListNotations.
From TV Require Import Lib.Obs Lib.C21_Utf8 C19.Model C19.Codegen C19.Sem C19.Spec C19.Pool C19.Run
  C19.ProofsA C19.ProofsB1 C19.ProofsB2 C19.ProofsB3 C19.ProofsP C19.ProofsC
  C21.Model C21.Proofs3 C20.Model C20.Run.
Local Open Scope N_scope.

(* ---------- per-file annotation = the lexical parameter of uresolve ---------- *)
Theorem uresolve_is_annotation : forall f ld nb ae ns,
  uresolve f ld nb ae ns = aresolve f ld nb (map (annotate ae) ns).
Proof.
  induction f as [|f IH]; intros ld nb ae ns; [reflexivity|].
  destruct ns as [|n r]; [reflexivity|].
  destruct n; cbn [map annotate uresolve aresolve]; rewrite ?IH; try reflexivity.
  - destruct (nb_find name nb) as [[bb t]|]; [|reflexivity]. rewrite IH. reflexivity.
  - destruct ld as [load|]; [|reflexivity]. destruct (load name) as [t|]; [|reflexivity].
    cbn [gbind]. rewrite IH. reflexivity.
Qed.

(* ---------- what an expression tag contributes ---------- *)
Section Contribution.
  Variable env : Type.
  Variable lookup : text -> env -> xres value.
  Variable assign : text -> value -> env -> env.
  Variable push : list text -> env -> env.
  Variable pop : env -> env.
  Variable callfn : text -> list N -> xres (list N).

  (* the compiled lines of one expression tag, run from any state *)
  Theorem expr_tag_contribution : forall fuel e esc en t buf v b,
    lookup e en = XOk v -> to_utf8 v = XOk b ->
    run_list _ _ (exec env lookup assign push pop callfn (S fuel)) (ir_of (RExpr e esc)) (mkPS _ en t buf)
    = match esc with
      | None => RDone SNormal (mkPS _ en (Some (VBytes b)) (buf ++ b))
      | Some f =>
          match callfn f b with
          | XOk b' => RDone SNormal (mkPS _ en (Some (VBytes b')) (buf ++ b'))
          | XErr x => RDone (SRaise x) (mkPS _ en (Some (VBytes b)) buf)
          end
      end.
  Proof.
    intros fuel e esc en t buf v b Hl Hb. destruct esc as [f|]; simpl; rewrite Hl; simpl; rewrite Hb; simpl.
    - destruct (callfn f b); reflexivity.
    - reflexivity.
  Qed.
End Contribution.

(* ---------- xhtml_escape's output has no markup characters ---------- *)
Lemma enc1_low c a x : utf8_enc1 c = Some a -> In x a -> x < 128 -> x = c.
Proof.
  unfold utf8_enc1. intros H Hin Hx.
  destruct (c <? 128) eqn:E1.
  { assert (Ha : a = [c]) by congruence. subst a. destruct Hin as [<-|[]]. reflexivity. }
  destruct (c <? 2048).
  { assert (Ha : a = [192 + c / 64; 128 + c mod 64]) by congruence. subst a. clear H.
    cbn [In] in Hin. destruct Hin as [<-|[<-|[]]]; lia. }
  destruct (c <? 65536).
  { destruct (in_range 55296 57343 c); [discriminate|].
    assert (Ha : a = [224 + c / 4096; 128 + (c / 64) mod 64; 128 + c mod 64]) by congruence. subst a. clear H.
    cbn [In] in Hin. destruct Hin as [<-|[<-|[<-|[]]]]; lia. }
  destruct (c <=? 1114111); [|discriminate].
  assert (Ha : a = [240 + c / 262144; 128 + (c / 4096) mod 64; 128 + (c / 64) mod 64; 128 + c mod 64]) by congruence.
  subst a. clear H. cbn [In] in Hin. destruct Hin as [<-|[<-|[<-|[<-|[]]]]]; lia.
Qed.

Lemma encode_low : forall s b x, utf8_encode s = Some b -> In x b -> x < 128 -> In x s.
Proof.
  induction s as [|c r IH]; intros b x H Hin Hx; simpl in H.
  - inversion H; subst. destruct Hin.
  - destruct (utf8_enc1 c) as [a|] eqn:E; [|discriminate].
    destruct (utf8_encode r) as [b'|] eqn:E'; [|discriminate]. inversion H; subst.
    apply in_app_or in Hin as [Hin|Hin].
    + left. symmetry. eapply enc1_low; eauto.
    + right. eapply IH; eauto.
Qed.

Theorem xhtml_contribution_safe : forall b out,
  c_callfn (s2l "xhtml_escape") b = XOk out ->
  ~ In 60 out /\ ~ In 62 out /\ ~ In 34 out /\ ~ In 39 out.
Proof.
  intros b out H. unfold c_callfn in H. simpl in H.
  destruct (utf8_decode b) as [s|] eqn:Ed; [|discriminate].
  unfold enc in H. destruct (utf8_encode (html_escape s)) as [o|] eqn:Ee; [|discriminate].
  inversion H; subst o; clear H.
  assert (Hx : xhtml_escape (SBytes b) = Ok (html_escape s)).
  { unfold xhtml_escape, to_unicode_s, decode_utf8. rewrite Ed. reflexivity. }
  destruct (xhtml_escape_safe _ _ Hx) as (H1 & H2 & H3 & H4 & _).
  repeat split; intro Hin; [apply H1|apply H2|apply H3|apply H4];
    eapply encode_low; eauto; reflexivity.
Qed.

(* ---------- the code writer restores the current template ---------- *)
Theorem writer_restores_current_template : forall f ld nb ns k w ls w',
  ld_wf ld -> nb_wf nb -> (1 <= k)%nat -> forallb wf_node ns = true ->
  gen f ld nb k ns w = GOk (ls, w') ->
  w_cur w' = w_cur w /\ w_stack w' = w_stack w.
Proof.
  intros f ld nb ns k w ls w' Hld Hnb Hk Hwf Hg.
  destruct (gen_uresolve f ld nb Hld Hnb ns k w ls w' Hk Hwf Hg) as (seg & cls & _ & _ & C & S & _).
  split; assumption.
Qed.

(* ---------- the compiled code is the per-file annotated tree ---------- *)
Theorem compiled_is_per_file : forall fuel ld t co,
  ld_wf ld -> wf_top (t_body t) = true -> construct fuel ld t = GOk co ->
  exists ancs nb root rest us rs,
    ancestors fuel ld t = GOk ancs /\ rev ancs = root :: rest
    /\ fnb_all fuel ld (rev ancs) [] = GOk nb
    /\ aresolve fuel ld nb (annotate_file root) = GOk (us, [])
    /\ refine_list us = COk rs /\ co_prog co = ir_list rs.
Proof.
  intros fuel ld t co Hld Hwf H.
  destruct (construct_sound fuel ld t co Hld Hwf H) as (rs & R & P).
  unfold resolve_template in R. apply gbind_ok in R as (us & U & R).
  unfold uresolve_template in U. apply gbind_ok in U as (ancs & Ha & U).
  apply gbind_ok in U as (nb & Hnb & U).
  destruct (rev ancs) as [|root rest] eqn:Er; [discriminate|].
  unfold uresolve_top in U. apply gbind_ok in U as ([b c] & Ub & U).
  destruct c; [|discriminate]. inversion U; subst b; clear U.
  rewrite uresolve_is_annotation in Ub.
  destruct (refine_list us) as [rs'| |] eqn:Er2; try discriminate. inversion R; subst rs'.
  exists ancs, nb, root, rest, us, rs. repeat split; auto. rewrite Er. exact Hnb.
Qed.

(* ---------- the model satisfies the checker ---------- *)
Theorem model_satisfies_checker : forall c, check_case c (run_case c) = true.
Proof.
  intros c. unfold run_case.
  destruct (gbind (root_template c) (construct GEN_FUEL (the_loader c))) as [co|e] eqn:E.
  - apply gbind_ok in E as (t & Ht & Hc).
    destruct (compiled_is_per_file _ _ _ _ (the_loader_wf c) (root_template_wf c t Ht) Hc)
      as (ancs & nb & root & rest & us & rs & Ha & Er & Hnb & Hu & Hr & P).
    unfold check_case, spec_out. rewrite Ht, Ha, Er. rewrite Er in Hnb. rewrite Hnb, Hu, Hr, P.
    rewrite run_prog_ir_eq_run_template. apply obs_eqb_refl.
  - unfold check_case. unfold run_case. rewrite E.
    destruct e as [[k line pos| |]| | | | | | | | |]; simpl; try apply obs_eqb_refl;
      rewrite ?Z.eqb_refl; try reflexivity; destruct k; reflexivity.
Qed.
