(* C20 — executable entry points for the correspondence check. *)
From Coq Require Import List NArith ZArith Arith Bool String.
Import ListNotations.
From TV Require Import Lib.Obs Lib.C21_Utf8 C19.Model C19.Codegen C19.Sem C19.Spec C19.Pool C19.Run C20.Model.
Local Open Scope N_scope.

(* same input as C19; observable: generate() output (or the error), without the code *)
Definition run_case (c : case) : obs :=
  match gbind (root_template c) (construct GEN_FUEL (the_loader c)) with
  | GErr e => gerr_obs e
  | GOk co =>
      OList [OTag "ok";
             out_obs (run_prog cenv c_lookup c_assign c_push c_pop c_callfn RUN_FUEL (co_prog co) (genv_of c))]
  end.

(* The specification by per-file annotation: every file's expression tags are
   annotated with THAT file's escaping function when the file is loaded
   (annotate_file), includes / overriding blocks / inheritance are substituted
   without looking at any setting (aresolve), and the result is interpreted
   directly: an annotated tag contributes utf8(f(utf8(value))), a raw / None tag
   contributes utf8(value). *)
Definition spec_out (c : case) : option obs :=
  let ld := the_loader c in
  match root_template c with
  | GErr _ => None
  | GOk t =>
      match ancestors GEN_FUEL ld t with
      | GErr _ => None
      | GOk ancs =>
          match rev ancs with
          | [] => None
          | root :: _ =>
              match fnb_all GEN_FUEL ld (rev ancs) [] with
              | GErr _ => None
              | GOk nb =>
                  match aresolve GEN_FUEL ld nb (annotate_file root) with
                  | GOk (us, []) =>
                      match refine_list us with
                      | COk rs =>
                          Some (OList [OTag "ok";
                                       out_obs (run_template cenv c_lookup c_assign c_push c_pop c_callfn
                                                  RUN_FUEL rs (genv_of c))])
                      | _ => None
                      end
                  | _ => None
                  end
              end
          end
      end
  end.

(* the implementation's output must be the one of the per-file annotated template;
   construction errors must be the model's.  (The sentinel oracle — escaped
   segments contain no markup and are the escaped form of a value — is applied to
   the same observable by py_check in harness/props/c20.py.) *)
Definition check_case (c : case) (o : obs) : bool :=
  match o with
  | OList [OTag "ok"; _] =>
      match spec_out c with Some s => obs_eqb o s | None => false end
  | _ => obs_eqb o (run_case c)
  end.
