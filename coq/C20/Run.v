(* C20 — executable entry points for the correspondence check. *)
From Coq Require Import List NArith ZArith Arith Bool String.
Import ListNotations.
From TV Require Import Lib.Obs Lib.C21_Utf8 C19.Model C19.Codegen C19.Sem C19.Spec C19.Pool C19.Run C20.Model.
Local Open Scope N_scope.

(* same input as C19; observable: generate() output (or the error), without the code *)
Definition run_case (c : case) : obs :=
  match gbind (root_template c) (construct GEN_FUEL (the_loader c)) with
  | GErr e => gerr_obs e
  | GOk co =>
      OList [OTag "ok";
             out_obs (run_prog cenv c_lookup c_assign c_push c_pop c_callfn RUN_FUEL (co_prog co) (genv_of c))]
  end.

(* the property on the implementation's observable: every sentinel-delimited
   contribution of a tag whose file escapes with xhtml_escape is the escaped form
   of one of the values (and has no markup character); every raw / autoescape-None
   contribution is the unescaped UTF-8 form of one of the values *)
Definition check_case (c : case) (o : obs) : bool :=
  match o with
  | OList [OTag "ok"; OBytes out] =>
      match segments SOut out with
      | Some segs => forallb (seg_ok (candidates (snd c))) segs
      | None => false
      end
  | _ => obs_eqb o (run_case c)
  end.
