(* C20 — Template autoescaping never emits unescaped data.
   Property theorems only; proofs are in C20/Proofs.v (and C19/Proofs*.v). *)
From Coq Require Import List NArith String.
Import ListNotations.
From TV Require Import Lib.Obs Lib.C21_Utf8 C19.Model C19.Codegen C19.Sem C19.Spec C19.Pool C19.Run
  C19.ProofsA C19.ProofsB1 C19.ProofsB2 C19.ProofsB3 C20.Model C20.Run C20.Proofs.
Local Open Scope N_scope.

(* Autoescaping is a per-FILE annotation.  Resolving a chunk list with the lexical
   parameter [ae] (what _CodeWriter.current_template.autoescape amounts to, by
   C20_code_writer_implements_the_lexical_rule below) equals: annotate every
   expression tag of each file with that file's own setting when the file is loaded
   ([annotate (t_ae t)] — raw tags get None), then substitute includes, overriding
   blocks and inheritance by [aresolve], which has no autoescape parameter at all.
   So the function applied to a tag is the one of the file the tag is written in
   (also inside included files, inherited blocks and apply bodies), and the
   setting of file A cannot influence a tag of file B. *)
Theorem C20_autoescape_is_per_file_annotation :
  forall f ld nb ae ns,
    uresolve f ld nb ae ns = aresolve f ld nb (map (annotate ae) ns).
Proof. exact uresolve_is_annotation. Qed.
Print Assumptions C20_autoescape_is_per_file_annotation.

(* The stateful code writer (include stack push/pop around included files and
   overriding blocks) writes exactly the lines of that lexical resolution, and
   leaves the current template and the include stack as it found them. *)
Theorem C20_code_writer_implements_the_lexical_rule :
  forall f ld nb, ld_wf ld -> nb_wf nb ->
  forall ns k w ls w', (1 <= k)%nat -> forallb wf_node ns = true ->
    gen f ld nb k ns w = GOk (ls, w') ->
    exists seg cls,
      uresolve f ld nb (t_ae (w_cur w)) ns = GOk (seg, cls)
      /\ seg_emit k seg cls (w_cnt w) = (strip_comments ls, w_cnt w')
      /\ w_cur w' = w_cur w /\ w_stack w' = w_stack w
      /\ forallb wf_u seg = true /\ wf_ucls cls = true.
Proof. exact gen_uresolve. Qed.
Print Assumptions C20_code_writer_implements_the_lexical_rule.

(* Whole templates: whenever Template(...) succeeds, the compiled statement list is
   ir_list of the refinement of [aresolve (annotate_file root)]. *)
Theorem C20_compiled_code_is_the_per_file_annotated_tree :
  forall fuel ld t co,
    ld_wf ld -> wf_top (t_body t) = true -> construct fuel ld t = GOk co ->
    exists ancs nb root rest us rs,
      ancestors fuel ld t = GOk ancs /\ rev ancs = root :: rest
      /\ fnb_all fuel ld (rev ancs) [] = GOk nb
      /\ aresolve fuel ld nb (annotate_file root) = GOk (us, [])
      /\ refine_list us = COk rs /\ co_prog co = ir_list rs.
Proof. exact compiled_is_per_file. Qed.
Print Assumptions C20_compiled_code_is_the_per_file_annotated_tree.

(* The compiled lines of ONE expression tag, from any state, for any value (str,
   bytes, object with any str() result), any namespace: with escaping function f
   they append exactly utf8(f(utf8(value))); raw / autoescape None append utf8(value);
   nothing else is appended (on an exception of f nothing is appended). *)
Theorem C20_expression_tag_contribution :
  forall (env : Type) lookup assign push pop callfn fuel e esc (en : env) t buf v b,
    lookup e en = XOk v -> to_utf8 v = XOk b ->
    run_list _ _ (exec env lookup assign push pop callfn (S fuel)) (ir_of (RExpr e esc)) (mkPS _ en t buf)
    = match esc with
      | None => RDone SNormal (mkPS _ en (Some (VBytes b)) (buf ++ b))
      | Some f =>
          match callfn f b with
          | XOk b' => RDone SNormal (mkPS _ en (Some (VBytes b')) (buf ++ b'))
          | XErr x => RDone (SRaise x) (mkPS _ en (Some (VBytes b)) buf)
          end
      end.
Proof. exact expr_tag_contribution. Qed.
Print Assumptions C20_expression_tag_contribution.

(* With f = xhtml_escape (C21's model of escape.xhtml_escape followed by utf8) the
   contribution contains no less-than, greater-than, double-quote or apostrophe byte *)
Theorem C20_xhtml_escaped_contribution_has_no_markup :
  forall b out,
    c_callfn (s2l "xhtml_escape") b = XOk out ->
    ~ In 60 out /\ ~ In 62 out /\ ~ In 34 out /\ ~ In 39 out.
Proof. exact xhtml_contribution_safe. Qed.
Print Assumptions C20_xhtml_escaped_contribution_has_no_markup.

Example C20_xhtml_example :
  c_callfn (s2l "xhtml_escape") (s2l "<a href='x'>") = XOk (s2l "&lt;a href=&#x27;x&#x27;&gt;").
Proof. vm_compute. reflexivity. Qed.

(* the model satisfies the checker applied to the implementation's observables:
   what the compiled model outputs is the output of the per-file annotated template *)
Theorem C20_model_satisfies_checker : forall c, check_case c (run_case c) = true.
Proof. exact model_satisfies_checker. Qed.
Print Assumptions C20_model_satisfies_checker.
